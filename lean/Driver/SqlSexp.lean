import Driver.Sexp
import Dawgs.Model.Sql
/-!
Reader: harness reflection S-expression of the REAL `pgsql` AST (`ToSexp(translate.Result.Statement)`) → `Dawgs.Sql.Stmt`.
Every node type / field shape that is not known here is the explicit error `unmodelled <tag>` (counted per tag in the
evidence); nothing is guessed or defaulted.
-/
namespace Driver.SqlSexp
open Driver Dawgs.Sql

/-- Go's `%g`-style rendering of a float64 (`1.6777217e+07`, `1e-07`) as plain decimal text -/
def plainDecimal (s : String) : String :=
  match s.splitOn "e" with
  | [m, e] =>
    let (neg, body) := if m.startsWith "-" then (true, (m.drop 1).toString) else (false, m)
    let (ip, fp) := match body.splitOn "." with
      | [i, f] => (i, f)
      | _ => (body, "")
    let eStr := if e.startsWith "+" then (e.drop 1).toString else e
    match eStr.toInt? with
    | none => s
    | some k =>
      let digits := ip ++ fp
      let point : Int := (ip.length : Int) + k          -- position of the decimal point in `digits`
      let txt :=
        if point ≤ 0 then "0." ++ String.ofList (List.replicate point.natAbs '0') ++ digits
        else if point.toNat ≥ digits.length then digits ++ String.ofList (List.replicate (point.toNat - digits.length) '0')
        else (digits.take point.toNat).toString ++ "." ++ (digits.drop point.toNat).toString
      (if neg then "-" else "") ++ txt
  | _ => s


abbrev R := Except String

def fields : Sexp → Option (String × List Sexp)
  | .list (.atom t :: fs) => some (t, fs)
  | _ => none

def fld (name : String) : List Sexp → Option Sexp
  | [] => none
  | .list [.atom n, v] :: rest => if n == name then some v else fld name rest
  | _ :: rest => fld name rest

def need (tag name : String) (fs : List Sexp) : R Sexp :=
  match fld name fs with
  | some v => .ok v
  | none => .error s!"{tag}.{name}:missing"

def tagOf : Sexp → String
  | .atom a => a
  | .str _ => "string"
  | .list (.atom t :: _) => t
  | .list _ => "list"

def isNil : Sexp → Bool
  | .atom "nil" => true
  | _ => false

def asBool (ctx : String) : Sexp → R Bool
  | .atom "true" => .ok true
  | .atom "false" => .ok false
  | s => .error s!"{ctx}:bool:{tagOf s}"

/-- `(pkg.Name "x")` or a bare string -/
def asNamedStr (ctx : String) : Sexp → R String
  | .str s => .ok s
  | .list [.atom _, .str s] => .ok s
  | s => .error s!"{ctx}:string:{tagOf s}"

def asList (ctx : String) : Sexp → R (List Sexp)
  | .atom "nil" => .ok []
  | .list (.atom "list" :: xs) => .ok xs
  | .list [.atom _, .list (.atom "list" :: xs)] => .ok xs     -- named slice type: (pgsql.Projection (list …))
  | .list [.atom _, .atom "nil"] => .ok []
  | s => .error s!"{ctx}:list:{tagOf s}"

def asIdents (ctx : String) (s : Sexp) : R (List String) := do
  (← asList ctx s).mapM (asNamedStr ctx)

/-- `(models.Optional (Value (pgsql.Identifier "x")) (Set true))` -/
def asOptIdent (ctx : String) : Sexp → R (Option String)
  | .list (.atom "models.Optional" :: fs) => do
    let set ← asBool ctx (← need ctx "Set" fs)
    if set then
      let v ← asNamedStr ctx (← need ctx "Value" fs)
      pure (some v)
    else pure none
  | s => .error s!"{ctx}:optional:{tagOf s}"

def asInt? : Sexp → Option Int
  | .atom a => a.toInt?
  | _ => none

def litOf (v : Sexp) : R Lit :=
  match v with
  | .atom "nil" => .ok .null
  | .atom "true" => .ok (.bool true)
  | .atom "false" => .ok (.bool false)
  | .str s => .ok (.str s)
  | .atom a => match a.toInt? with
    | some i => .ok (.int i)
    | none => .error s!"Literal.Value:atom"
  | .list [.atom "f64", .str s] => .ok (.float (plainDecimal s))
  | .list (.atom "list" :: xs) =>
    match xs.mapM asInt? with
    | some is => .ok (.ints is)
    | none =>
      match xs.mapM (fun x => match x with | .str s => some s | _ => none) with
      | some ss => .ok (.strs ss)
      | none => .error "Literal.Value:list"
  | s => .error s!"Literal.Value:{tagOf s}"

def joinKind : Sexp → R JoinKind
  | .list [.atom "pgsql.JoinType", .atom "0"] => .ok .inner
  | .list [.atom "pgsql.JoinType", .atom "1"] => .ok .leftOuter
  | .list [.atom "pgsql.JoinType", .atom "2"] => .ok .rightOuter
  | .list [.atom "pgsql.JoinType", .atom "3"] => .ok .fullOuter
  | s => .error s!"JoinType:{tagOf s}"

mutual
partial def expr (s : Sexp) : R Expr := do
  match fields s with
  | none => .error s!"expr:{tagOf s}"
  | some (tag, fs) =>
  match tag with
  | "pgsql.Literal" =>
    let null ← asBool tag (← need tag "Null" fs)
    let ty ← asNamedStr tag (← need tag "CastType" fs)
    if null then pure (.lit .null ty) else
    let v ← litOf (← need tag "Value" fs)
    pure (.lit v ty)
  | "pgsql.Identifier" => do
    let n ← asNamedStr tag s
    pure (if n == "*" then .wildcard else .ident n)      -- pgsql.WildcardIdentifier prints as `*`
  | "pgsql.CompoundIdentifier" => do let ps ← asIdents tag s; pure (.compound ps)
  | "pgsql.RowColumnReference" =>
    let e ← expr (← need tag "Identifier" fs)
    let c ← asNamedStr tag (← need tag "Column" fs)
    pure (.rowCol e c)
  | "pgsql.Parameter" =>
    let n ← asNamedStr tag (← need tag "Identifier" fs)
    let ty ← asNamedStr tag (← need tag "CastType" fs)
    pure (.param n ty)
  | "pgsql.BinaryExpression" =>
    let op ← asNamedStr tag (← need tag "Operator" fs)
    let l ← expr (← need tag "LOperand" fs)
    let r ← expr (← need tag "ROperand" fs)
    pure (.bin op l r)
  | "pgsql.UnaryExpression" =>
    let op ← asNamedStr tag (← need tag "Operator" fs)
    let e ← expr (← need tag "Operand" fs)
    pure (.un op e)
  | "pgsql.Parenthetical" =>
    let inner ← need tag "Expression" fs
    match tagOf inner with
    | "pgsql.Select" | "pgsql.Query" | "pgsql.SetOperation" => do
      let q ← queryOfSetExpr inner
      pure (.subquery q)
    | _ => do let e ← expr inner; pure (.paren e)
  | "pgsql.FunctionCall" =>
    let fn ← asNamedStr tag (← need tag "Function" fs)
    let ps ← asList tag (← need tag "Parameters" fs)
    let distinct ← asBool tag (← need tag "Distinct" fs)
    let bare ← asBool tag (← need tag "Bare" fs)
    let ty ← asNamedStr tag (← need tag "CastType" fs)
    let over ← need tag "Over" fs
    if !isNil over then .error "FunctionCall.Over" else
    match ps with
    | [p] =>
      if tagOf p == "pgsql.ProjectionFrom" then do
        let (fld, src) ← projectionFrom p
        if fn == "extract" then
          if ty == "" then pure (.extract fld src) else pure (.cast (.extract fld src) ty)
        else .error s!"ProjectionFrom-in:{fn}"
      else do
        let a ← expr p
        pure (.call fn [a] distinct bare ty)
    | _ => do
      let args ← ps.mapM expr
      pure (.call fn args distinct bare ty)
  | "pgsql.TypeCast" =>
    let e ← expr (← need tag "Expression" fs)
    let ty ← asNamedStr tag (← need tag "CastType" fs)
    pure (.cast e ty)
  | "pgsql.CompositeValue" =>
    let vs ← (← asList tag (← need tag "Values" fs)).mapM expr
    let ty ← asNamedStr tag (← need tag "DataType" fs)
    pure (.composite vs ty)
  | "pgsql.ArrayLiteral" =>
    let vs ← (← asList tag (← need tag "Values" fs)).mapM expr
    let ty ← asNamedStr tag (← need tag "CastType" fs)
    pure (.array vs ty)
  | "pgsql.ArrayIndex" =>
    let e ← expr (← need tag "Expression" fs)
    let is ← (← asList tag (← need tag "Indexes" fs)).mapM expr
    pure (.index e is)
  | "pgsql.ArraySlice" =>
    let e ← expr (← need tag "Expression" fs)
    let lo ← optExpr (← need tag "Lower" fs)
    let hi ← optExpr (← need tag "Upper" fs)
    pure (.slice e lo hi)
  -- `x op ANY ((subquery))` (PostgreSQL 9.23.4, subquery form) is read as `x op ANY (ARRAY(subquery))`: same rows, same NULL rules, same names
  | "pgsql.AnyExpression" => do
    let e ← expr (← need tag "Expression" fs)
    pure (.anyOf (match e with | .subquery q => .arrayOf q | .paren (.subquery q) => .arrayOf q | x => x))
  | "pgsql.AllExpression" => do
    let e ← expr (← need tag "Expression" fs)
    pure (.allOf (match e with | .subquery q => .arrayOf q | .paren (.subquery q) => .arrayOf q | x => x))
  | "pgsql.ExistsExpression" =>
    let neg ← asBool tag (← need tag "Negated" fs)
    let sub ← need tag "Subquery" fs
    match fields sub with
    | some ("pgsql.Subquery", sfs) => do
      let q ← query (← need "pgsql.Subquery" "Query" sfs)
      pure (.exists q neg)
    | _ => .error s!"ExistsExpression.Subquery:{tagOf sub}"
  | "pgsql.Subquery" => do let q ← query (← need tag "Query" fs); pure (.subquery q)
  | "pgsql.ArrayExpression" =>
    let inner ← need tag "Expression" fs
    match tagOf inner with
    | "pgsql.Query" | "pgsql.Select" => do let q ← queryOfSetExpr inner; pure (.arrayOf q)
    | t => .error s!"ArrayExpression:{t}"
  | "pgsql.Case" =>
    let op ← optExpr (← need tag "Operand" fs)
    let cs ← (← asList tag (← need tag "Conditions" fs)).mapM expr
    let ts ← (← asList tag (← need tag "Then" fs)).mapM expr
    let el ← optExpr (← need tag "Else" fs)
    if cs.length != ts.length then .error "Case:length-mismatch" else
    pure (.case op (cs.zip ts) el)
  | "pgsql.AliasedExpression" =>
    let e ← expr (← need tag "Expression" fs)
    let a ← asOptIdent tag (← need tag "Alias" fs)
    pure (.aliased e a)
  | "pgsql.Wildcard" => pure .wildcard
  | "pgsql.EdgeArrayFromPathIDs" => do let e ← expr (← need tag "PathIDs" fs); pure (.edgeArray e)
  | "pgsql.Variadic" => do let e ← expr (← need tag "Expression" fs); pure (.variadic e)
  | "pgsql.Future" =>
    let n ← need tag "SyntaxNode" fs
    if isNil n then .error "dangling:Future" else expr n
  | "pgsql.Query" | "pgsql.Select" | "pgsql.SetOperation" => do let q ← queryOfSetExpr s; pure (.subquery q)
  | t => .error s!"expr:{t}"

partial def optExpr (s : Sexp) : R (Option Expr) :=
  if isNil s then pure none else do let e ← expr s; pure (some e)

/-- `extract(epoch from <expr>)` is carried as a ProjectionFrom parameter -/
partial def projectionFrom (s : Sexp) : R (String × Expr) := do
  match fields s with
  | some ("pgsql.ProjectionFrom", fs) =>
    let proj ← asList "ProjectionFrom" (← need "ProjectionFrom" "Projection" fs)
    let frm ← asList "ProjectionFrom" (← need "ProjectionFrom" "From" fs)
    match proj, frm with
    | [p], [f] =>
      let fldName ← asNamedStr "ProjectionFrom.Projection" p
      match fields f with
      | some ("pgsql.FromClause", ffs) =>
        let js ← asList "FromClause" (← need "FromClause" "Joins" ffs)
        if !js.isEmpty then .error "ProjectionFrom:joins" else
        let e ← expr (← need "FromClause" "Source" ffs)
        pure (fldName, e)
      | _ => .error "ProjectionFrom:from"
    | _, _ => .error "ProjectionFrom:shape"
  | _ => .error "ProjectionFrom"

partial def tableRef (s : Sexp) : R (List String × Option String) := do
  match fields s with
  | some ("pgsql.TableReference", fs) =>
    let n ← asIdents "TableReference" (← need "TableReference" "Name" fs)
    let a ← asOptIdent "TableReference" (← need "TableReference" "Binding" fs)
    pure (n, a)
  | _ => .error s!"TableReference:{tagOf s}"

partial def fromItem (s : Sexp) : R FromItem := do
  match fields s with
  | some ("pgsql.TableReference", _) => do let (n, a) ← tableRef s; pure (.table n a)
  | some ("pgsql.Identifier", _) => do let n ← asNamedStr "from" s; pure (.table [n] none)
  | some ("pgsql.CompoundIdentifier", _) => do let n ← asIdents "from" s; pure (.table n none)
  | some ("pgsql.LateralSubquery", fs) =>
    let q ← query (← need "LateralSubquery" "Query" fs)
    let a ← asOptIdent "LateralSubquery" (← need "LateralSubquery" "Binding" fs)
    pure (.lateral q a)
  | some ("pgsql.FunctionCall", _) => do let e ← expr s; pure (.func e none)
  | some ("pgsql.AliasedExpression", fs) =>
    let inner ← need "AliasedExpression" "Expression" fs
    let a ← asOptIdent "AliasedExpression" (← need "AliasedExpression" "Alias" fs)
    match tagOf inner with
    | "pgsql.FunctionCall" => do let e ← expr inner; pure (.func e a)
    | t => .error s!"from:aliased:{t}"
  | _ => .error s!"from:{tagOf s}"

partial def join (s : Sexp) : R Join := do
  match fields s with
  | some ("pgsql.Join", fs) =>
    let item ← fromItem (← need "Join" "Table" fs)
    let op ← need "Join" "JoinOperator" fs
    match fields op with
    | some ("pgsql.JoinOperator", ofs) =>
      let k ← joinKind (← need "JoinOperator" "JoinType" ofs)
      let c ← optExpr (← need "JoinOperator" "Constraint" ofs)
      pure (.mk k item c)
    | _ => .error "JoinOperator"
  | _ => .error s!"Join:{tagOf s}"

partial def fromClause (s : Sexp) : R FromClause := do
  match fields s with
  | some ("pgsql.FromClause", fs) =>
    let src ← fromItem (← need "FromClause" "Source" fs)
    let js ← (← asList "FromClause" (← need "FromClause" "Joins" fs)).mapM join
    pure (.mk src js)
  | _ => .error s!"FromClause:{tagOf s}"

partial def fromClauses (ctx : String) (s : Sexp) : R (List FromClause) := do
  (← asList ctx s).mapM fromClause

partial def setExpr (s : Sexp) : R SetExpr := do
  match fields s with
  | none => .error s!"setexpr:{tagOf s}"
  | some (tag, fs) =>
  match tag with
  | "pgsql.Select" =>
    let d ← asBool tag (← need tag "Distinct" fs)
    let proj ← (← asList tag (← need tag "Projection" fs)).mapM expr
    let frm ← fromClauses tag (← need tag "From" fs)
    let wh ← optExpr (← need tag "Where" fs)
    let gb ← (← asList tag (← need tag "GroupBy" fs)).mapM expr
    let hv ← optExpr (← need tag "Having" fs)
    -- format.go never prints HAVING; a non-nil Having would be silently dropped from the SQL text
    if hv.isSome then .error "Select.Having" else
    pure (.select d proj frm wh gb hv)
  | "pgsql.SetOperation" =>
    let op ← asNamedStr tag (← need tag "Operator" fs)
    let l ← setExpr (← need tag "LOperand" fs)
    let r ← setExpr (← need tag "ROperand" fs)
    let all ← asBool tag (← need tag "All" fs)
    let d ← asBool tag (← need tag "Distinct" fs)
    pure (.setop op all d l r)
  | "pgsql.Query" => do let q ← query s; pure (.nested q)
  | "pgsql.Values" => do
    let vs ← (← asList tag (← need tag "Values" fs)).mapM expr
    pure (.values vs)
  | "pgsql.Insert" =>
    let (t, a) ← tableRef (← need tag "Table" fs)
    let shape ← need tag "Shape" fs
    let cols ← if isNil shape then pure [] else
      match fields shape with
      | some ("pgsql.RecordShape", sfs) => asIdents "RecordShape" (← need "RecordShape" "Columns" sfs)
      | _ => .error "Insert.Shape"
    let oc ← need tag "OnConflict" fs
    if !isNil oc then .error "Insert.OnConflict" else
    let srcS ← need tag "Source" fs
    let src ← if isNil srcS then pure none else do let q ← query srcS; pure (some q)
    let ret ← (← asList tag (← need tag "Returning" fs)).mapM expr
    pure (.insert t a cols src ret)
  | "pgsql.Update" =>
    let (t, a) ← tableRef (← need tag "Table" fs)
    let asg ← (← asList tag (← need tag "Assignments" fs)).mapM expr
    let frm ← fromClauses tag (← need tag "From" fs)
    let wh ← optExpr (← need tag "Where" fs)
    let ret ← (← asList tag (← need tag "Returning" fs)).mapM expr
    pure (.update t a asg frm wh ret)
  | "pgsql.Delete" =>
    let ts ← (← asList tag (← need tag "From" fs)).mapM tableRef
    let us ← fromClauses tag (← need tag "Using" fs)
    let wh ← optExpr (← need tag "Where" fs)
    let ret ← (← asList tag (← need tag "Returning" fs)).mapM expr
    pure (.delete ts us wh ret)
  | t => .error s!"setexpr:{t}"

partial def cte (s : Sexp) : R Cte := do
  match fields s with
  | some ("pgsql.CommonTableExpression", fs) =>
    let al ← need "CommonTableExpression" "Alias" fs
    match fields al with
    | some ("pgsql.TableAlias", afs) =>
      let name ← asNamedStr "TableAlias" (← need "TableAlias" "Name" afs)
      let shapeS ← need "TableAlias" "Shape" afs
      let shape ← if isNil shapeS then pure none else
        match fields shapeS with
        | some ("pgsql.RecordShape", sfs) => do
          let cs ← asIdents "RecordShape" (← need "RecordShape" "Columns" sfs)
          pure (some cs)
        | _ => .error "TableAlias.Shape"
      let matS ← need "CommonTableExpression" "Materialized" fs
      let mat ← if isNil matS then pure none else
        match fields matS with
        | some ("pgsql.Materialized", mfs) => do
          let b ← asBool "Materialized" (← need "Materialized" "Materialized" mfs)
          pure (some b)
        | _ => .error "Materialized"
      let q ← query (← need "CommonTableExpression" "Query" fs)
      pure (.mk name shape mat q)
    | _ => .error "CommonTableExpression.Alias"
  | _ => .error s!"cte:{tagOf s}"

partial def orderItem (s : Sexp) : R (Expr × Bool) := do
  match fields s with
  | some ("pgsql.OrderBy", fs) =>
    let e ← expr (← need "OrderBy" "Expression" fs)
    let asc ← asBool "OrderBy" (← need "OrderBy" "Ascending" fs)
    pure (e, asc)
  | _ => .error s!"OrderBy:{tagOf s}"

partial def query (s : Sexp) : R Query := do
  match fields s with
  | some ("pgsql.Query", fs) =>
    let w ← need "Query" "CommonTableExpressions" fs
    let (recu, ctes) ← if isNil w then pure (false, []) else
      match fields w with
      | some ("pgsql.With", wfs) => do
        let r ← asBool "With" (← need "With" "Recursive" wfs)
        let cs ← (← asList "With" (← need "With" "Expressions" wfs)).mapM cte
        pure (r, cs)
      | _ => .error "Query.CommonTableExpressions"
    let body ← setExpr (← need "Query" "Body" fs)
    let ob ← (← asList "Query" (← need "Query" "OrderBy" fs)).mapM orderItem
    let off ← optExpr (← need "Query" "Offset" fs)
    let lim ← optExpr (← need "Query" "Limit" fs)
    pure (.mk recu ctes body ob off lim)
  | _ => .error s!"query:{tagOf s}"

/-- a set expression used where a query is expected (parenthesised select, array(select …)) -/
partial def queryOfSetExpr (s : Sexp) : R Query := do
  match tagOf s with
  | "pgsql.Query" => query s
  | _ => do let b ← setExpr s; pure (Query.simple b)
end

def mergeAction (s : Sexp) : R MergeAction := do
  match fields s with
  | some ("pgsql.MatchedUpdate", fs) =>
    let p ← optExpr (← need "MatchedUpdate" "Predicate" fs)
    let asg ← (← asList "MatchedUpdate" (← need "MatchedUpdate" "Assignments" fs)).mapM expr
    pure (.matchedUpdate p asg)
  | some ("pgsql.MatchedDelete", fs) => do
    let p ← optExpr (← need "MatchedDelete" "Predicate" fs)
    pure (.matchedDelete p)
  | some ("pgsql.UnmatchedAction", fs) =>
    let p ← optExpr (← need "UnmatchedAction" "Predicate" fs)
    let cols ← asIdents "UnmatchedAction" (← need "UnmatchedAction" "Columns" fs)
    let vals ← need "UnmatchedAction" "Values" fs
    match fields vals with
    | some ("pgsql.Values", vfs) => do
      let vs ← (← asList "Values" (← need "Values" "Values" vfs)).mapM expr
      pure (.unmatched p cols vs)
    | _ => .error "UnmatchedAction.Values"
  | _ => .error s!"MergeAction:{tagOf s}"

def stmt (s : Sexp) : R Stmt := do
  match fields s with
  | some ("pgsql.Query", _) => do let q ← query s; pure (.query q)
  | some ("pgsql.Merge", fs) =>
    let (t, ta) ← tableRef (← need "Merge" "Table" fs)
    let (src, sa) ← tableRef (← need "Merge" "Source" fs)
    let on ← expr (← need "Merge" "JoinTarget" fs)
    let acts ← (← asList "Merge" (← need "Merge" "Actions" fs)).mapM mergeAction
    pure (.merge t ta src sa on acts)
  | some ("pgsql.Insert", _) | some ("pgsql.Update", _) | some ("pgsql.Delete", _) => do
    let b ← setExpr s
    pure (.query (Query.simple b))
  | _ => .error s!"stmt:{tagOf s}"

end Driver.SqlSexp
