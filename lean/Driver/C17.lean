import Driver.Proto
import Dawgs.Model.C17
import Dawgs.Model.C17Seq
/-! Model driver for C17: suites `c17pipe` (scripted pipe schedules), `c17bf` (the BreadthFirst LTS
run under a seeded pseudo-random scheduler with fault injection), `c17seq` (sequential helpers). -/
namespace Driver.C17
open Dawgs.C17

/-! ### c17pipe -/

structure PSt where
  p : Pipe Nat := {}
  wclosed : Bool := false
  live : Bool := false

def natCsv (xs : List Nat) : String := ",".intercalate (xs.map toString)

/-- the pipe goroutine run to quiescence after a reader asks for a value -/
def readOne (st : PSt) : PSt × String :=
  match st.p.phase, st.p.buf with
  | .done, _ => (st, "closed")
  | _, v :: _ => match st.p.step .send with
    | some p' => ({ st with p := p' }, toString v)
    | none => (st, "model-error")
  | .flush, [] => match st.p.step .exit with
    | some p' => ({ st with p := p' }, "closed")
    | none => (st, "model-error")
  | .loop, [] => (st, "empty")

def drainAll : Nat → PSt → List Nat → PSt × List Nat
  | 0, st, acc => (st, acc.reverse)
  | fuel + 1, st, acc =>
    match st.p.phase, st.p.buf with
    | .done, _ => (st, acc.reverse)
    | _, v :: _ => match st.p.step .send with
      | some p' => drainAll fuel { st with p := p' } (v :: acc)
      | none => (st, acc.reverse)
    | _, [] => match st.p.step .exit with
      | some p' => ({ st with p := p' }, acc.reverse)
      | none => (st, acc.reverse)

def pstep (st : PSt) (ts : List String) : PSt × String :=
  match ts with
  | ["new"] => ({ live := true }, "ok")
  | ["sub", v] =>
    if !st.live || st.wclosed then (st, "bad-op") else
    match v.toNat? with
    | none => (st, "bad-op")
    | some v => match st.p.step (.recv v) with
      | some p' => ({ st with p := p' }, "ok")
      | none => (st, "refused")
  | ["read"] => if st.live then readOne st else (st, "bad-op")
  | ["tryread"] => if st.live then readOne st else (st, "bad-op")
  | ["close"] =>
    if !st.live || st.wclosed then (st, "bad-op") else
    match st.p.step .close with
    | some p' => ({ st with p := p', wclosed := true }, "ok")
    | none => ({ st with wclosed := true }, "ok")
  | ["cancel"] =>
    if !st.live then (st, "bad-op") else
    match st.p.step .cancel with
    | some p1 => match p1.step .observeCancel with
      | some p2 => ({ st with p := p2 }, "closed")
      | none => ({ st with p := p1 }, "closed")
    | none => (st, "model-error")
  | ["drain"] =>
    if !st.live || (!st.wclosed && st.p.phase != .done) then (st, "bad-op") else
    let (st', got) := drainAll (st.p.buf.length + 2) st []
    (st', if got.isEmpty then "got closed" else s!"got {natCsv got} closed")
  | _ => (st, "bad-op")

def pipeSuite : Suite := { σ := PSt, init := {}, step := pstep }

/-! ### c17bf -/

/-- parse a parenthesised shape `(()(()))` into a tree with preorder ids -/
def parseTree (s : String) : Option T :=
  let cs := s.toList
  match go cs 0 (cs.length + 1) with
  | some (t, [], _) => some t
  | _ => none
where
  go : List Char → Nat → Nat → Option (T × List Char × Nat)
    | _, _, 0 => none
    | '(' :: rest, id, fuel + 1 =>
      match kids rest (id + 1) fuel with
      | some (ks, ')' :: rest', id') => some (.node id ks, rest', id')
      | _ => none
    | _, _, _ => none
  kids : List Char → Nat → Nat → Option (List T × List Char × Nat)
    | cs, id, 0 => some ([], cs, id)
    | '(' :: rest, id, fuel + 1 =>
      match go ('(' :: rest) id fuel with
      | some (t, rest', id') => match kids rest' id' fuel with
        | some (ts, rest'', id'') => some (t :: ts, rest'', id'')
        | none => none
      | none => none
    | cs, id, _ => some ([], cs, id)

structure Rng where
  s : UInt64
def Rng.new (seed : Nat) : Rng := ⟨seed.toUInt64 * 0x9E3779B97F4A7C15 + 0x1234567⟩
def Rng.next (r : Rng) : Rng × UInt64 :=
  let s := r.s + 0x9E3779B97F4A7C15
  let z := s
  let z := (z ^^^ (z >>> 30)) * 0xBF58476D1CE4E5B9
  let z := (z ^^^ (z >>> 27)) * 0x94D049BB133111EB
  (⟨s⟩, z ^^^ (z >>> 31))

inductive Fault where
  | none | err | cancel | mem
  | swallow    -- the k-th driver call returns a context.Canceled-class error while the traversal context is live
  | cswallow   -- the k-th driver call cancels the caller's context, then returns such an error
deriving DecidableEq, Repr

def parseFault : String → Option Fault
  | "none" => some .none
  | "err" => some .err
  | "cancel" => some .cancel
  | "mem" => some .mem
  | "swallow" => some .swallow
  | "cswallow" => some .cswallow
  | _ => Option.none

def wacts : List WAct :=
  [.recv, .exitIdle, .memErr, .driverOk, .driverErr, .driverErrSilent, .inc, .submit, .submitDrop, .dec,
   .compl, .complCancel, .fail, .failSilent]

/-- fault policy: which driver-call outcomes the environment offers at this point -/
def allowed (fault : Fault) (k : Nat) (calls : Nat) (cancelled : Bool) : WAct → Bool
  | .driverOk => !((fault == .err || fault == .swallow || fault == .cswallow) && calls + 1 == k) && !(fault == .mem && calls ≥ k)
  | .driverErr => fault == .err && calls + 1 == k
  | .driverErrSilent => (fault == .swallow || (fault == .cswallow && cancelled)) && calls + 1 == k
  | .memErr => fault == .mem && calls ≥ k
  | _ => true

def enabledActs (cfg : Cfg) (s : BF) (fault : Fault) (k : Nat) : List (Act × BF) :=
  let calls := s.sh.expanded.length
  let ws := (List.range s.ws.length).flatMap (fun i =>
    wacts.filterMap (fun a =>
      if allowed fault k calls s.sh.cancelled a then (s.step cfg (.w i a)).map (fun s' => (Act.w i a, s')) else none))
  let cs := [Act.cInc, .cSubmitRoot, .cSubmitRootCancel, .cRecv, .cRecvCancel, .cLoad, .cCancel, .cReturn, .pipeExit].filterMap
    (fun a => (s.step cfg a).map (fun s' => (a, s')))
  -- context cancellation injected by the driver at its k-th call: the environment's cancel happens
  -- while a worker holds the k-th segment
  let env := if (fault == .cancel || fault == .cswallow) && calls + 1 == k && !s.sh.cancelled && s.ws.any (fun w => match w with | .got _ => true | _ => false)
    then (s.step cfg .cancel).toList.map (fun s' => (Act.cancel, s')) else []
  if env.isEmpty then ws ++ cs else env

def simulate (cfg : Cfg) (fault : Fault) (k : Nat) : Nat → Rng → BF → BF × Bool
  | 0, _, s => (s, false)
  | fuel + 1, r, s =>
    match s.coord with
    | .ret _ => (s, true)
    | _ =>
      let en := enabledActs cfg s fault k
      if en.isEmpty then (s, false) else
      let (r', x) := r.next
      match en[x.toNat % en.length]? with
      | some (_, s') => simulate cfg fault k fuel r' s'
      | none => (s, false)

def sortNat (xs : List Nat) : List Nat := (xs.toArray.qsort (· < ·)).toList

structure BSt where
  tree : Option T := none

def bstep (st : BSt) (ts : List String) : BSt × String :=
  match ts with
  | ["tree", sh] => match parseTree sh with
    | some t => ({ tree := some t }, s!"ok nodes={t.nodes.length}")
    | none => (st, "bad-op")
  | ["run", n, f, k, seed, _mode] =>
    match st.tree, n.toNat?, parseFault f, k.toNat?, seed.toNat? with
    | some t, some n, some f, some k, some seed =>
      if n == 0 then (st, "bad-op") else
      let cfg : Cfg := { n := n, root := t, fixed := true }
      let fuel := 8 * t.nodes.length + 2 * n + 64
      let (s, returned) := simulate cfg f k (2 * fuel) (Rng.new seed) (BF.init cfg)
      let size := t.nodes.length
      let hits := match f with
        | .none => false
        | .mem => k < size
        | _ => k ≥ 1 && k ≤ size
      if !returned then (st, "ret=hang settled")
      else if s.sh.err then (st, "ret=err settled")
      else if hits then (st, "ret=ok settled")
      else match s.coord with
        | .ret true => (st, s!"ret=ok visited={natList (sortNat s.visited)} settled")
        | _ => (st, "ret=ok-not-via-zero settled")
    | _, _, _, _, _ => (st, "bad-op")
  | _ => (st, "bad-op")

def bfSuite : Suite := { σ := BSt, init := {}, step := bstep }

/-! ### c17seq -/
open Dawgs.C17.Seq in
structure SSt where
  edges : List (Nat × Nat × Nat) := []    -- (edge id, start, end), kept sorted by edge id

open Dawgs.C17.Seq in
def adjOf (es : List (Nat × Nat × Nat)) (inbound : Bool) (n : Nat) : List (Nat × Nat) :=
  es.filterMap (fun e => if inbound then (if e.2.2 == n then some (e.1, e.2.1) else none)
                         else (if e.2.1 == n then some (e.1, e.2.2) else none))

def insertEdge (e : Nat × Nat × Nat) : List (Nat × Nat × Nat) → List (Nat × Nat × Nat)
  | [] => [e]
  | x :: xs => if e.1 < x.1 then e :: x :: xs else x :: insertEdge e xs

open Dawgs.C17.Seq in
def fmtPath (s : Seg) : String :=
  "-".intercalate (s.pathNodes.map toString) ++ "/" ++ "-".intercalate (s.pathEdges.map toString)

/-- filter tokens of the c17seq protocol: `-` = nil, `r<csv>` = reject these node ids (of the node / of the
segment's terminal node), `d<k>` = accept segments of depth ≤ k -/
def parseNodeFilter (t : String) : Option (Option (Nat → Bool)) :=
  if t == "-" then some none
  else if t.startsWith "r" then
    let body := (t.drop 1).toString
    let ids := if body.isEmpty then some [] else (body.splitOn ",").mapM String.toNat?
    ids.map (fun ids => some (fun n => !ids.contains n))
  else none

open Dawgs.C17.Seq in
def parseSegFilter (t : String) : Option (Option (Seg → Bool)) :=
  if t.startsWith "d" then ((t.drop 1).toString.toNat?).map (fun k => some (fun s => decide (s.depth ≤ k)))
  else (parseNodeFilter t).map (fun f => f.map (fun g => fun s => g s.node))

open Dawgs.C17.Seq in
def parseHelper : String → Option Helper
  | "paths" => some .paths
  | "terminals" => some .terminals
  | "nodes" => some .nodes
  | "intermediary" => some .intermediary
  | _ => none

open Dawgs.C17.Seq in
structure Query where
  plan : Plan
  root : Nat
  skip : Int
  limit : Int

open Dawgs.C17.Seq in
def parseQuery (edges : List (Nat × Nat × Nat)) (ts : List String) : Option Query :=
  match ts with
  | [h, dir, root, skip, limit, nf, df, pf] => do
    let h ← parseHelper h
    let root ← root.toNat?
    let skip ← skip.toInt?
    let limit ← limit.toInt?
    let nf ← parseNodeFilter nf
    let df ← parseSegFilter df
    let pf ← parseSegFilter pf
    if (dir != "out" && dir != "in") || (h == .intermediary && nf.isNone) then none else
    some { plan := { adj := adjOf edges (dir == "in"), helper := h, nodeFilter := nf, descentFilter := df, pathFilter := pf },
           root := root, skip := skip, limit := limit }
  | _ => none

def seqFuel (edges : List (Nat × Nat × Nat)) : Nat :=
  4 * (edges.length + 2) * (edges.length + 2) * (edges.length + 2) + 64

open Dawgs.C17.Seq in
def fmtResult (q : Query) (out : List Seg) : String :=
  match q.plan.helper with
  | .paths | .intermediary => "paths=" ++ " ".intercalate (out.map fmtPath)
  | _ => "nodes=" ++ natList (sortNat (rootIncluded q.plan q.root ++ out.map Seg.node).eraseDups)

open Dawgs.C17.Seq in
def sstep (st : SSt) (ts : List String) : SSt × String :=
  match ts with
  | ["graph"] => ({}, "ok")
  | ["edge", e, a, b] => match e.toNat?, a.toNat?, b.toNat? with
    | some e, some a, some b => ({ st with edges := insertEdge (e, a, b) st.edges }, "ok")
    | _, _, _ => (st, "bad-op")
  | ["window", skip, limit, n] => match skip.toInt?, limit.toInt?, n.toNat? with
    | some skip, some limit, some n =>
      (st, natList ((({ limit := limit, skip := skip } : Tracker).offer (List.range n)).2))
    | _, _, _ => (st, "bad-op")
  | ["pfloors", mx, _workers] => match mx.toNat? with
    | some mx => (st, natList (floors mx 20000))
    | none => (st, "bad-op")
  | ["floors", mx, stride] => match mx.toNat?, stride.toNat? with
    | some mx, some stride => if stride == 0 then (st, "bad-op") else (st, natList (floors mx stride))
    | _, _ => (st, "bad-op")
  | _ => match parseQuery st.edges ts with
    | none => (st, "bad-op")
    | some q =>
      -- the call-by-call transcription of ops.Traversal + helper (with the break at the limit)
      let fin := Dawgs.C17.Seq.loop q.plan (seqFuel st.edges) (start q.root q.skip q.limit)
      if !fin.stack.isEmpty then (st, "model-out-of-fuel") else (st, fmtResult q fin.out)

def seqSuite : Suite := { σ := SSt, init := {}, step := sstep }

end Driver.C17

def Driver.C17.suites : List (String × Driver.Suite) :=
  [("c17pipe", Driver.C17.pipeSuite), ("c17bf", Driver.C17.bfSuite), ("c17seq", Driver.C17.seqSuite)]
