import Driver.Proto
import Driver.Sexp
import Dawgs.Spec.C04
/-! C04 model driver.
Suite `c04`: input line = the harness answer `(r (site "…") (tmpl "…") (kind k) (hraw "…") (braw "…") (hval "…")
(bval "…") (h res) (b res) (fc res))`; answer = the monitor's verdict (`ok <class> …` / `reject <class> …`).
Suite `c04q`: input line `q "<json string>"`; answer = the model's pgQuote / encode / unescapeKey / decode
results and the identifier emitter's (`formatIdentifier`) output, hex-encoded in the harness's format, plus the lexer round trip `rt`. -/
namespace Driver.C04
open Dawgs.C04 Dawgs.C04.Spec Driver

def field (name : String) (xs : List Sexp) : Option (List Sexp) :=
  xs.findSome? (fun (x : Sexp) => match x with
    | Sexp.list (Sexp.atom n :: rest) => if n == name then some rest else none
    | _ => none)

def strField (name : String) (xs : List Sexp) : Option Str :=
  match field name xs with
  | some [.str s] => some s.toList
  | _ => none

def atomField (name : String) (xs : List Sexp) : Option String :=
  match field name xs with
  | some [.atom s] => some s
  | _ => none

def toNumExp : List Sexp → Option NumExp
  | [.atom sign, .atom cls, .str mag] =>
    mag.toNat?.map (fun m => { neg := sign == "neg", isInt := cls == "int", mag := m })
  | _ => none

def toPVal : Sexp → Option PVal
  | .list (.atom "n" :: rest) => (toNumExp rest).map .n
  | .list [.atom "s", .str v] => some (.s v.toList)
  | .list (.atom "l" :: vs) => (vs.mapM (fun (x : Sexp) => match x with | Sexp.str v => some v.toList | _ => none)).map PVal.l
  | .list [.atom "o", .str d] => some (.o d)
  | _ => none

def toParams (xs : List Sexp) : Option (List (String × PVal)) :=
  xs.mapM (fun (x : Sexp) => match x with
    | Sexp.list [Sexp.str n, v] => (toPVal v).map (fun pv => (n, pv))
    | _ => none)

def toRes : List Sexp → Option Res
  | [.list (.atom "ok" :: .str sql :: rest)] =>
    let pgx : Int := match field "pgx" rest with
      | some [.atom n] => n.toInt?.getD (-1)
      | _ => -1
    let ps := match field "params" rest with
      | some ps => (toParams ps).getD []
      | none => []
    some (.ok sql.toList pgx ps)
  | [.list [.atom "err", .str c]] => some (.err c)
  | [.list [.atom "panic", .str m]] => some (.panic m)
  | [.list [.atom "skip"]] => some .skip
  | _ => none

def toCase (xs : List Sexp) : Option Case := do
  let site ← (field "site" xs).bind (fun l => match l with | [.str s] => some s | _ => none)
  let tmpl ← (field "tmpl" xs).bind (fun l => match l with | [.str s] => some s | _ => none)
  let kind ← atomField "kind" xs
  let hraw ← strField "hraw" xs
  let braw ← strField "braw" xs
  let hval ← strField "hval" xs
  let bval ← strField "bval" xs
  let xf := (atomField "xf" xs).getD ""
  let h ← (field "h" xs).bind toRes
  let b ← (field "b" xs).bind toRes
  let fc ← (field "fc" xs).bind toRes
  let optRes := fun (name : String) => ((field name xs).bind toRes).getD .skip
  let fmtstrip := match field "fmtstrip" xs with
    | some [.list [.atom "same"]] => Res.skip
    | some r => (toRes r).getD .skip
    | none => .skip
  let nexp := (field "nexp" xs).getD []
  let numH := (field "h" nexp).bind toNumExp
  let numB := (field "b" nexp).bind toNumExp
  pure { site, tmpl, kind, hraw, braw, hval, bval, xf, h, b, fc, fcs := optRes "fcs", cy := strField "cy" xs, cys := strField "cys" xs,
         fmtstrip, math := optRes "math", matb := optRes "matb", numH, numB }

def stepShape (_ : Unit) (ts : List String) : Unit × String :=
  match ts with
  | [line] =>
    match Sexp.parseLine line with
    | some [.list (.atom "r" :: xs)] =>
      match xs with
      | [.list [.atom "skip", .str why]] => ((), s!"ok skipped occ=0 toks=0 nested=0 site=- tmpl=- {why}")
      | [.list [.atom "opts", .str os]] =>
        if os == renderOptions exercisedOptions then ((), "ok options occ=0 toks=0 nested=0 site=options tmpl=options")
        else ((), s!"reject options-mismatch site=options tmpl=options the harness exercises [{os}], the model lists [{renderOptions exercisedOptions}]")
      | _ =>
        match toCase xs with
        | some c => ((), (judge c).render c)
        | none => ((), "bad-op")
    | _ => ((), "bad-op")
  | _ => ((), "bad-op")

def hexDigit (n : Nat) : Char := if n < 10 then Char.ofNat (48 + n) else Char.ofNat (87 + n)

def hexOf (s : Str) : String :=
  let bytes := (String.ofList s).toUTF8
  String.ofList (bytes.foldl (fun (acc : Array Char) b => (acc.push (hexDigit (b.toNat / 16))).push (hexDigit (b.toNat % 16))) #[]).toList

def decField (s : Str) : String :=
  match decode s with
  | .ok v => "sql:" ++ hexOf ("select ".toList ++ pgQuote v ++ " as x;".toList)
  | .error .tooShort => "err:decode-bad-literal"
  | .error .badQuotes => "err:decode-bad-literal"
  | .error .dangling => "err:decode-dangling"
  | .error .invalidEscape => "err:decode-invalid-escape"

def stepQ (_ : Unit) (ts : List String) : Unit × String :=
  match ts with
  | [line] =>
    match Sexp.parseLine line with
    | some [.atom "n", .atom text] => ((), s!"f64={nearestF64Bits (decValue text.toList)}")
    | some [.atom "q", .str str] =>
      let s := str.toList
      let rt := if lexFast (pgQuote s) == [Tok.str s] then 1 else 0
      ((), s!"pgq={hexOf (pgQuote s)} ident={hexOf (emitIdent s)} enc={hexOf (encode s)} key={hexOf (unescapeKey s)} keyrt={hexOf (unescapeKey (escapeKeyBt s))} dec={decField s} rt={rt}")
    | _ => ((), "bad-op")
  | _ => ((), "bad-op")

def suiteShape : Suite := { σ := Unit, init := (), step := stepShape, raw := true }
def suiteQ : Suite := { σ := Unit, init := (), step := stepQ, raw := true }
end Driver.C04

def Driver.C04.suites : List (String × Driver.Suite) := [("c04", Driver.C04.suiteShape), ("c04q", Driver.C04.suiteQ)]
