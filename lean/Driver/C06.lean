import Driver.Proto
import Driver.Sexp
import Dawgs.Model.C06
/-! C06 model driver: replays the scope-operation trace of one REAL translation (recorded by the verif hook
cypher/models/pgsql/translate/verif_on.go, hooks/C06.patch) through the Lean scope model.

Input line: `trace (trace (new 1) (pushFrame 1 "<h>") (defineNew 1 "scope" "<h>") …)` or `trace -`.
The replay runs on the LIVE scope definition `Scope USym` (separate key spaces): `alias` / `aliasedLookup` use the
variable table (`USym.var`), `aliasParameter` / `parameterLookup` the parameter table (`USym.param`).
Every operation carries the FNV-1a hash of the real scope's state (generator counters, the variable alias table,
the parameter alias table, definition keys, frame stack) BEFORE the operation; the model's state must hash to the
same value.
Additional result checks: the identifier `DefineNew` generates, the hit/miss of every `Lookup`, and
"every Alias follows the Define of the same binding".

Answer: `ops=<n> mismatches=<m> | first=<description> aliasNotAfterDefine=<k>`. -/
namespace Driver.C06
open Dawgs.C06 Driver

def fnv1a (s : String) : UInt64 :=
  s.toUTF8.foldl (fun h b => (h ^^^ b.toUInt64) * 1099511628211) 14695981039346656037

def hexDigit (n : UInt64) : Char := if n < 10 then Char.ofNat (48 + n.toNat) else Char.ofNat (87 + n.toNat)

def hex16 (h : UInt64) : String :=
  String.ofList ((List.range 16).map (fun i => hexDigit ((h >>> (UInt64.ofNat (60 - 4 * i))) &&& 15)))

def sortStrings (l : List String) : List String := (l.toArray.qsort (· < ·)).toList

/-- canonical text of the modelled part of a scope; must equal `verifScopeDigest` of the hook -/
def aliasEntry (k : String) (v : String) : String := toString k.utf8ByteSize ++ ":" ++ k ++ "=" ++ v

def digest (s : Scope USym) : String :=
  "g:" ++ ",".intercalate (Cls.all.map (fun c => toString (s.gen.ctr c)))
  ++ "|a:" ++ ",".intercalate (sortStrings (s.aliases.filterMap (fun p => match p.1 with | .var k => some (aliasEntry k p.2) | .param _ => none)))
  ++ "|p:" ++ ",".intercalate (sortStrings (s.aliases.filterMap (fun p => match p.1 with | .param k => some (aliasEntry k p.2) | .var _ => none)))
  ++ "|d:" ++ ",".intercalate (sortStrings (s.defs.map (·.1)))
  ++ "|f:" ++ ",".intercalate (s.stack.reverse.map (fun f => toString f.id ++ "/" ++ f.binding))

structure Sc where
  scope : Scope USym
  group : Nat

structure St where
  scopes : List (Nat × Sc) := []
  gens : List (Nat × Gen) := []
  snaps : Array Sc := #[]
  pendingPush : List (Nat × Scope USym) := []   -- scope id ↦ the model's state after `PushFrame`
  pendingNew : List (Nat × String) := []          -- scope id ↦ identifier the model generated in `DefineNew`
  lastDefined : Option (Nat × String) := none
  nops : Nat := 0
  mism : Nat := 0
  aliasOther : Nat := 0
  first : String := "-"

def St.bad (st : St) (what : String) : St :=
  { st with mism := st.mism + 1, first := if st.first == "-" then s!"op{st.nops}:{what}" else st.first }

def strArgs : List Sexp → List String
  | [] => []
  | .str s :: t => s :: strArgs t
  | .atom a :: t => a :: strArgs t
  | _ :: t => strArgs t

def sameCore (a b : Scope USym) : Bool :=
  digest { a with stack := [], nextFrameID := 0 } == digest { b with stack := [], nextFrameID := 0 }

def applyOp (st : St) (op : String) (sid : Nat) (args : List String) : St :=
  match Assoc.get sid st.scopes with
  | none => st.bad s!"unknown-scope-{sid}"
  | some sc =>
    let gen := (Assoc.get sc.group st.gens).getD Gen.new
    let s : Scope USym := { sc.scope with gen := gen }
    -- the last argument is the state hash
    let h := args.getLast?.getD ""
    let args := args.dropLast
    let st := { st with nops := st.nops + 1 }
    let st := if hex16 (fnv1a (digest s)) == h then st else st.bad s!"state-before-{op}"
    let fin (st : St) (s' : Scope USym) : St :=
      { st with scopes := Assoc.set sid { scope := s', group := sc.group } st.scopes, gens := Assoc.set sc.group s'.gen st.gens }
    match op, args with
    | "defineNew", [dt] =>
      let r := s.gen.next dt
      fin { st with pendingNew := Assoc.set sid r.1 st.pendingNew } { s with gen := r.2 }
    | "define", [id, dt] =>
      let st := match Assoc.get sid st.pendingNew with
        | some e => if e == id then st else st.bad s!"generated-id-{e}-vs-{id}"
        | none => st
      let st := { st with pendingNew := Assoc.erase sid st.pendingNew, lastDefined := some (sid, id) }
      let s' := (s.define id dt).1
      match Assoc.get sid st.pendingPush with
      | some target =>
        -- `PushFrame` = bump nextFrameID, DefineNew(scope), push the frame: compare with the model's one-step result
        let st := if sameCore s' target then st else st.bad "pushFrame-define"
        fin { st with pendingPush := Assoc.erase sid st.pendingPush } target
      | none => fin st s'
    | "alias", [k, id] =>
      let st := if st.lastDefined == some (sid, id) then st else { st with aliasOther := st.aliasOther + 1 }
      fin st (s.alias (.var k) id)
    | "aliasParameter", [k, id] =>
      let st := if st.lastDefined == some (sid, id) then st else { st with aliasOther := st.aliasOther + 1 }
      fin st (s.alias (.param k) id)
    | "aliasedLookup", [_] => fin st s
    | "parameterLookup", [_] => fin st s
    | "lookup", [id, b] =>
      let st := if toString (s.lookup id).isSome == b then st else st.bad s!"lookup-{id}"
      fin st s
    | "pushFrame", [] => fin { st with pendingPush := Assoc.set sid s.pushFrame.1 st.pendingPush } s
    | "popFrame", [] => fin st s.popFrame.1
    | "unwindToFrame", [fid] => fin st (s.unwindToFrame fid.toNat!).1
    | "prune", prot => fin st (s.prune prot).1
    | "snapshot", [] => fin { st with snaps := st.snaps.push { scope := s, group := sc.group } } s
    | _, _ => st.bad s!"unknown-op-{op}"

def replay (st : St) : List Sexp → St
  | [] => st
  | .list [.atom "new", .atom sid] :: t =>
    let sid := sid.toNat!
    replay { st with scopes := Assoc.set sid { scope := Scope.new, group := sid } st.scopes, gens := Assoc.set sid Gen.new st.gens } t
  | .list [.atom "from", .atom sid, .atom k] :: t =>
    match st.snaps[k.toNat!]? with
    | some sc => replay { st with scopes := Assoc.set sid.toNat! sc st.scopes } t
    | none => replay (st.bad "unknown-snapshot") t
  | .list (.atom op :: .atom sid :: args) :: t => replay (applyOp st op sid.toNat! (strArgs args)) t
  | _ :: t => replay (st.bad "bad-op") t

def step (_ : Unit) (ts : List String) : Unit × String :=
  match ts with
  | [line] =>
    match Sexp.parseLine line with
    | some [.atom "trace", .atom "-"] => ((), "ops=0 mismatches=0 | first=- aliasNotAfterDefine=0")
    | some [.atom "trace", .list (.atom "trace" :: ops)] =>
      let st := replay {} ops
      ((), s!"ops={st.nops} mismatches={st.mism + st.aliasOther} | first={st.first} aliasNotAfterDefine={st.aliasOther}")
    | _ => ((), "bad-op")
  | _ => ((), "bad-op")

def suite : Suite := { σ := Unit, init := (), step := step, raw := true }
end Driver.C06

def Driver.C06.suites : List (String × Driver.Suite) := [("c06", Driver.C06.suite)]
