import Driver.Proto
import Driver.C01
import Driver.C02
import Driver.C03
import Driver.C16
import Driver.C16Mon

def suites : List (String × Driver.Suite) :=
  Driver.C01.suites ++
  Driver.C02.suites ++
  Driver.C03.suites ++
  Driver.C16.suites ++
  Driver.C16Mon.suites

def main (args : List String) : IO UInt32 := do
  match args with
  | [name] =>
    match suites.lookup name with
    | some s =>
      Driver.loop (← IO.getStdin) (← IO.getStdout) s s.init
      return 0
    | none => IO.eprintln s!"unknown suite {name}"; return 2
  | _ => IO.eprintln "usage: dawgsmodel <suite> < ops"; return 2
