import Driver.Proto
import Driver.C05
import Driver.C06
import Driver.C16
import Driver.C16Mon

def suites : List (String × Driver.Suite) :=
  Driver.C05.suites ++
  Driver.C06.suites ++
  Driver.C16.suites ++
  Driver.C16Mon.suites

def main (args : List String) : IO UInt32 := do
  match args with
  | [name] =>
    match suites.lookup name with
    | some s =>
      Driver.loop (← IO.getStdin) (← IO.getStdout) s s.init
      return 0
    | none => IO.eprintln s!"unknown suite {name}"; return 2
  | _ => IO.eprintln "usage: dawgsmodel <suite> < ops"; return 2
