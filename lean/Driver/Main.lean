import Driver.Proto
import Driver.C01
import Driver.C02
import Driver.C03
import Driver.C04
import Driver.C05
import Driver.C06
import Driver.C10
import Driver.C10P
import Driver.C12
import Driver.C12Batch
import Driver.C12Lit
import Driver.C12Mon
import Driver.C13
import Driver.C13Heap
import Driver.C13Mon
import Driver.C14
import Driver.C14Mon
import Driver.C15
import Driver.C15Mon
import Driver.C16
import Driver.C16Lin
import Driver.C16Mon
import Driver.C17
import Driver.C17Mon
import Driver.C17Par
import Driver.C18
import Driver.C18Mon
import Driver.C19
import Driver.C19Mon
import Driver.C20
import Driver.C20Mon

def suites : List (String × Driver.Suite) :=
  Driver.C01.suites ++
  Driver.C02.suites ++
  Driver.C03.suites ++
  Driver.C04.suites ++
  Driver.C05.suites ++
  Driver.C06.suites ++
  Driver.C10.suites ++
  Driver.C10P.suites ++
  Driver.C12.suites ++
  Driver.C12Batch.suites ++
  Driver.C12Lit.suites ++
  Driver.C12Mon.suites ++
  Driver.C13.suites ++
  Driver.C13Heap.suites ++
  Driver.C13Mon.suites ++
  Driver.C14.suites ++
  Driver.C14Mon.suites ++
  Driver.C15.suites ++
  Driver.C15Mon.suites ++
  Driver.C16.suites ++
  Driver.C16Lin.suites ++
  Driver.C16Mon.suites ++
  Driver.C17.suites ++
  Driver.C17Mon.suites ++
  Driver.C17Par.suites ++
  Driver.C18.suites ++
  Driver.C18Mon.suites ++
  Driver.C19.suites ++
  Driver.C19Mon.suites ++
  Driver.C20.suites ++
  Driver.C20Mon.suites

def main (args : List String) : IO UInt32 := do
  match args with
  | [name] =>
    match suites.lookup name with
    | some s =>
      Driver.loop (← IO.getStdin) (← IO.getStdout) s s.init
      return 0
    | none => IO.eprintln s!"unknown suite {name}"; return 2
  | _ => IO.eprintln "usage: dawgsmodel <suite> < ops"; return 2
