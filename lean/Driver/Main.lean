import Driver.Proto
import Driver.C16
import Driver.C16Mon
import Driver.C18
import Driver.C18Mon
import Driver.C19
import Driver.C19Mon

def suites : List (String × Driver.Suite) :=
  Driver.C16.suites ++
  Driver.C16Mon.suites ++
  Driver.C18.suites ++
  Driver.C18Mon.suites ++
  Driver.C19.suites ++
  Driver.C19Mon.suites

def main (args : List String) : IO UInt32 := do
  match args with
  | [name] =>
    match suites.lookup name with
    | some s =>
      Driver.loop (← IO.getStdin) (← IO.getStdout) s s.init
      return 0
    | none => IO.eprintln s!"unknown suite {name}"; return 2
  | _ => IO.eprintln "usage: dawgsmodel <suite> < ops"; return 2
