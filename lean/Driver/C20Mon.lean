import Driver.Proto
import Driver.C20
import Dawgs.Spec.C20
/-! Monitors for C20: judge the implementation's observable answers with the spec acceptors of
`Dawgs/Spec/C20.lean`. Input lines are `<op> => <implementation answer>`; answers `ok` / `reject <class> <detail>`. -/
namespace Driver.C20Mon
open Dawgs.C20 Driver.C20

def splitArrow (ts : List String) : List String × List String :=
  (ts.takeWhile (· ≠ "=>"), (ts.dropWhile (· ≠ "=>")).drop 1)

def field (name : String) (ts : List String) : Option String :=
  ts.findSome? (fun t => if t.startsWith (name ++ "=") then some (t.drop (name.length + 1)).toString else none)

def parseLoadObs (out : List String) : Option LoadObs :=
  match out with
  | res :: rest =>
    if res ≠ "ok" ∧ res ≠ "err" then none else do
    let log ← (field "log" rest).bind String.toNat?
    let eq ← field "equal" rest
    pure { ok := res = "ok", log := log, equal := if eq = "1" then some true else if eq = "0" then some false else none }
  | [] => none

def judgeLoadLine (k : MutKind) (out : List String) : String :=
  match parseLoadObs out with
  | none => "reject bad-output " ++ " ".intercalate out
  | some o => match judgeLoad k o with
    | none => "ok"
    | some cls => s!"reject {cls} log={o.log}"

/-- `{ROOT}` in a hostile name stands for the absolute sentinel root of the run -/
def substRoot : Str → Str
  | [] => []
  | '{' :: 'R' :: 'O' :: 'O' :: 'T' :: '}' :: rest => '/' :: 'r' :: 'o' :: 'o' :: 't' :: substRoot rest
  | c :: rest => c :: substRoot rest

def typeFlag (c : String) : Option Nat :=
  match c with
  | "r" => some 48 | "a" => some 0 | "s" => some 50 | "h" => some 49 | "c" => some 51 | "b" => some 52
  | "f" => some 54 | "d" => some 53 | "x" => some 90 | _ => none

def parseEntries (spec : String) : Option (List (Nat × Option Str)) :=
  (spec.splitOn ",").foldr (fun e acc => do
    let rest ← acc
    if e = "@collection" then pure rest else
    match e.splitOn ":" with
    | t :: h :: _ => do
      let flag ← typeFlag t
      pure ((flag, (hexToStr h).map substRoot) :: rest)
    | _ => none) (some [])

def parseUnpackObs (out : List String) : Option UnpackObs :=
  match out with
  | res :: rest =>
    if res ≠ "ok" ∧ res ≠ "err" then none else do
    let outside ← field "outside" rest
    let n ← (field "new" rest).bind String.toNat?
    let old ← field "old" rest
    let created ← field "created" rest
    let names ← if created = "-" then some [] else (created.splitOn ";").mapM hexToStr
    pure { ok := res = "ok", outsideSame := outside = "same", newFiles := n,
           old := if old = "kept" then .kept else if old = "gone" then .gone else .na, created := names }
  | [] => none

def judgeTarLine (mode pre spec : String) (out : List String) : String :=
  match out with
  | "skip" :: _ => "ok"
  | _ =>
    let base := (mode.splitOn "+").headD ""
    match parseEntries spec, parseUnpackObs out with
    | some es, some o =>
      -- retriever.Unpack and (since the F11 repair) plain UnpackTar promise staging; the direct encrypted API does not
      let c : UnpackCase := { staged := base.startsWith "staged" || base.startsWith "plain", force := base.endsWith "force",
                              preFull := pre = "full", explicit := es }
      -- `+trunc`, `+nofinal`, `+garbage`, `+flipfinal`: the envelope itself was tampered with; it must not unpack
      if (mode.splitOn "+").length > 1 ∧ o.ok then s!"reject tampered-envelope-accepted api={base} new={o.newFiles}"
      else match judgeUnpack c o with
      | none => "ok"
      | some cls => s!"reject {cls} api={base} new={o.newFiles}"
    | _, _ => "reject bad-output " ++ " ".intercalate out

def stepBase (op out : List String) : Unit × String :=
  match op with
  | "dump" :: _ => match out with
    | "ok" :: _ => ((), "ok")
    | _ => ((), "reject dump-failed " ++ " ".intercalate out)
  | ["noop"] => ((), judgeLoadLine .pristine out)
  | ["arc", "noop"] => ((), judgeLoadLine .pristine out)
  | "sub" :: f :: _ => ((), judgeLoadLine (if f = "0" then .manifest else .fragment) out)
  | "trunc" :: f :: _ => ((), judgeLoadLine (if f = "0" then .manifest else .fragment) out)
  | ["append", f, _, v] =>
    -- bytes appended to manifest.json: JSON white space is legal after the value, anything else must be refused
    let space := v = "9" ∨ v = "10" ∨ v = "13" ∨ v = "32"
    ((), judgeLoadLine (if f = "0" then (if space then .manifest else .garbage) else .fragment) out)
  | "del" :: f :: _ => ((), judgeLoadLine (if f = "0" then .manifest else .fragment) out)
  | "swap" :: _ => if out = ["identical"] then ((), "ok") else ((), judgeLoadLine .fragment out)
  | "copy" :: _ => if out = ["identical"] then ((), "ok") else ((), judgeLoadLine .fragment out)
  | "man" :: _ => ((), judgeLoadLine .manifest out)
  | "mans" :: _ => ((), judgeLoadLine .manifest out)
  | "arcmans" :: _ => if out.head? = some "skip" then ((), "ok") else ((), judgeLoadLine .manifest out)
  | "edge" :: _ => if out = ["identical"] ∨ out = ["not-dangling"] then ((), "ok") else ((), judgeLoadLine .semantic out)
  | "arcedge" :: _ => if out = ["identical"] ∨ out = ["not-dangling"] ∨ out.head? = some "skip" then ((), "ok") else ((), judgeLoadLine .semantic out)
  | "dupnode" :: _ => if out = ["identical"] then ((), "ok") else ((), judgeLoadLine .semantic out)
  | ["uarc", mode, pre, _, _, alter] =>
    if out = ["identical"] ∨ out.head? = some "skip" then ((), "ok") else
    match parseUnpackObs out with
    | some o =>
      let c : UnpackCase := { staged := mode.startsWith "staged", force := mode.endsWith "force", preFull := pre = "full", explicit := [] }
      match judgeHostileArchive (alter ≠ "none") c o with
      | none => ((), "ok")
      | some cls => ((), s!"reject {cls} api={mode} new={o.newFiles}")
    | none => ((), "reject bad-output " ++ " ".intercalate out)
  | "arc" :: _ => ((), judgeLoadLine .archive out)
  | "arckey" :: _ => ((), judgeLoadLine .key out)
  | ["tar", mode, pre, spec] => ((), judgeTarLine mode pre spec out)
  | "path" :: _ => ((), "ok")      -- corpus lines of the sibling suites (shared corpus glob), judged there
  | "frames" :: _ => ((), "ok")
  | "clean" :: _ => ((), "ok")
  | "canon" :: _ => ((), "ok")
  | "join" :: _ => ((), "ok")
  | _ => ((), "reject bad-op " ++ " ".intercalate op)

def hexNats (h : String) : Option Bytes := (hexBytes h.toList).map (fun bs => bs.map UInt8.toNat)

partial def stepOp (op out : List String) : Unit × String :=
  match op with
  | "with" :: beh :: inner =>
    -- the wrapped op judged as usual; a reader that answers (0, nil) or fails transiently may make the honest
    -- input fail (safely): that is not a violation
    let r := stepOp inner out
    if (beh = "zero" ∨ beh = "timeout") ∧ r.2.startsWith "reject pristine-input-rejected" then ((), "ok") else r
  | ["mtail", _, h] => match hexNats h with
    | some bs => ((), judgeLoadLineSkip (if jsonSpaceOnly bs then .manifest else .garbage) out)
    | none => ((), "reject bad-op")
  | ["mhead", _, h] => match hexNats h with
    | some bs => ((), judgeLoadLineSkip (if jsonSpaceOnly bs then .manifest else .garbage) out)
    | none => ((), "reject bad-op")
  | "arcins" :: _ => ((), judgeLoadLine .archive out)
  | ["uins", mode, pre, _, _, _] =>
    match parseUnpackObs out with
    | some o =>
      let c : UnpackCase := { staged := mode.startsWith "staged", force := mode.endsWith "force", preFull := pre = "full", explicit := [] }
      if o.ok then ((), s!"reject tampered-envelope-accepted api={mode} new={o.newFiles}")
      else match judgeUnpack c o with
        | none => ((), "ok")
        | some cls => ((), s!"reject {cls} api={mode} new={o.newFiles}")
    | none => ((), "reject bad-output " ++ " ".intercalate out)
  | ["umtail", mode, pre, h] =>
    match hexNats h, parseUnpackObs out with
    | some bs, some o =>
      let c : UnpackCase := { staged := mode.startsWith "staged", force := mode.endsWith "force", preFull := pre = "full", explicit := [] }
      if ¬ jsonSpaceOnly bs ∧ o.ok then ((), s!"reject manifest-with-garbage-accepted api={mode}")
      else match judgeUnpack c o with
        | none => ((), "ok")
        | some cls => ((), s!"reject {cls} api={mode} new={o.newFiles}")
    | _, _ => ((), "reject bad-output " ++ " ".intercalate out)
  | "arckey" :: "malformed" :: v :: _ =>
    -- bytes AFTER an intact key envelope: the key reader takes the first JSON value; the key is the right one
    if v.startsWith "tail" then ((), judgeLoadLine .manifest out) else ((), judgeLoadLine .key out)
  | _ => stepBase op out
where
  judgeLoadLineSkip (k : MutKind) (out : List String) : String :=
    if out.head? = some "skip" then "ok" else judgeLoadLine k out

/-- strips reader-behaviour wrappers -/
def innerOp : List String → List String
  | "with" :: _ :: rest => innerOp rest
  | op => op

/-- State: the number of write attempts of the case's pristine DIRECTORY load (`noop`). The model
(`archive_load_no_write_before_failure`) predicts for every load through `ArchiveReader`: failure => no write
(judged by `judgeLoad`: `err` with a non-empty log is a violation), success => exactly the trace of the directory
load of the unpacked collection — so an accepted archive load of the case's collection must show the same
number of write attempts as the directory load. -/
def step (st : Option Nat) (ts : List String) : Option Nat × String :=
  let (op, out) := splitArrow ts
  let verdict := (stepOp op out).2
  let log := (parseLoadObs out).map (·.log)
  match innerOp op with
  | "dump" :: _ => (none, verdict)
  | ["noop"] => (if out.head? = some "ok" then log else st, verdict)
  | "arc" :: _ =>
    if verdict = "ok" ∧ out.head? = some "ok" then
      match st, log with
      | some n, some l => if n = l then (st, verdict) else (st, s!"reject archive-load-trace-differs dir={n} archive={l}")
      | _, _ => (st, verdict)
    else (st, verdict)
  | _ => (st, verdict)

def stepPath (_ : Unit) (ts : List String) : Unit × String :=
  let (op, out) := splitArrow ts
  if op.head? = some "clean" ∨ op.head? = some "join" ∨ op.head? = some "canon" then ((), "ok") else   -- model-compared only
  if op.head? ≠ some "path" then ((), "reject bad-op") else
  match out with
  | ["err", _] => ((), "ok")
  | ["ok", h] => match hexToStr h with
    | some p =>
      if acceptPath (.ok p) then ((), "ok")
      else ((), "reject unsafe-path-accepted")
    | none => ((), "reject unsafe-path-accepted not-utf8")
  | _ => ((), "reject bad-output " ++ " ".intercalate out)

def suite : Suite := { σ := Option Nat, init := none, step := step }
def pathSuite : Suite := { σ := Unit, init := (), step := stepPath }
end Driver.C20Mon

def Driver.C20Mon.suites : List (String × Driver.Suite) :=
  [("c20mon", Driver.C20Mon.suite), ("c20pathmon", Driver.C20Mon.pathSuite)]
