import Driver.Proto
import Driver.C13
import Dawgs.Spec.C13
/-! Monitor for C13 (suite `c13mon`): judges the implementation's observable trace with the spec `A` (plain set algebra
on ideal sets). Input lines are `<op> => <implementation answer>`; answers `ok` or `reject <call site:class> <detail>`.
After a rejected observation the ideal set is re-synchronised with the observed one, so that one defect is reported
once and later operations are judged relative to the real state. -/
namespace Driver.C13Mon
open Dawgs.C13 Driver.C13

structure MSet where
  width : Width
  wrapped : Bool
  ideal : S := []
  /-- its mutex is held forever by a call that was reported as deadlocked -/
  dead : Bool := false
  /-- was receiver or operand of a native in-place Xor: the roaring library may have made it share containers with
  another bitmap (reported under `…Xor:native-shares-containers`) -/
  entangled : Bool := false
  /-- content no longer determined by the history (after a concurrent ABBA run that happened not to deadlock) -/
  unknown : Bool := false

structure St where
  sets : List (String × MSet) := []
  dead : Bool := false
  /-- wrapper protocol in force (only used to name the call site in a rejection) -/
  snap : Bool := liveSnapshot

def St.get (st : St) (x : String) : Option MSet := st.sets.lookup x
def St.put (st : St) (x : String) (m : MSet) : St :=
  { st with sets := if (st.sets.lookup x).isSome
      then st.sets.map (fun q => if q.1 == x then (x, m) else q) else st.sets ++ [(x, m)] }

def splitArrow (ts : List String) : List String × List String :=
  (ts.takeWhile (· ≠ "=>"), (ts.dropWhile (· ≠ "=>")).drop 1)

def expandRange (lo : Nat) : Nat → List Nat → List Nat
  | 0, acc => lo :: acc
  | n+1, acc => expandRange lo n ((lo + n + 1) :: acc)

/-- inverse of `rle` (items are processed right to left so that the result is built by consing) -/
def parseRle (s : String) : Option S :=
  if !(s.startsWith "[" && s.endsWith "]") then none else
  let body := ((s.drop 1).dropEnd 1).toString
  if body.isEmpty then some [] else
  (body.splitOn ",").reverse.foldlM (fun (acc : List Nat) it =>
    match it.splitOn "-" with
    | [a] => a.toNat?.map (· :: acc)
    | [a, b] => match a.toNat?, b.toNat? with
      | some a, some b => if a ≤ b then some (expandRange a (b - a) acc) else none
      | _, _ => none
    | _ => none) []

def wname : Width → String
  | .w32 => "32"
  | .w64 => "64"

def opName : BinOp → String
  | .or => "Or" | .and => "And" | .andNot => "AndNot" | .xor => "Xor"

def brief (s : S) : String := if s.length ≤ 12 then rle s else s!"{rle (s.take 12)}…({s.length})"

/-- compare an observation `<card> <rle>` of set `x` with its ideal content; on mismatch reject under `label` and
re-synchronise -/
def judgeObs (st : St) (x : String) (m : MSet) (expected : S) (label : String) (card rleStr : String) : St × Option String :=
  match card.toNat?, parseRle rleStr with
  | some n, some got =>
    if m.unknown then (st.put x { m with ideal := got }, none)
    else if n != got.length then (st.put x { m with ideal := got }, some s!"reject {label} cardinality-vs-slice card={n} len={got.length}")
    else if !Spec.sortedB got then (st.put x { m with ideal := got }, some s!"reject {label} slice-not-strictly-ascending")
    else if got == expected then (st.put x { m with ideal := expected }, none)
    else
      let lab := if m.entangled then s!"bitmap{wname m.width}.Xor:native-shares-containers" else label
      (st.put x { m with ideal := got },
        some s!"reject {lab} set-mismatch {x}: expected={brief expected} got={brief got} missing={brief (diff expected got)} extra={brief (diff got expected)}")
  | _, _ => (st, some s!"reject {label} bad-observation")

def site (m : MSet) (meth : String) : String := s!"bitmap{wname m.width}.{meth}"

/-- single-set mutator answered `ok <card> <rle>` -/
def judgeMut (st : St) (x : String) (meth : String) (f : S → S) (out : List String) : St × String :=
  match st.get x with
  | none => (st, "reject bad-op")
  | some m =>
    match out with
    | ["deadlock"] => if m.dead then (st, "ok") else (st.put x { m with dead := true }, "reject threadSafeDuplex:unexpected-deadlock " ++ meth)
    | ["ok", card, r] =>
      if m.dead then (st, "reject threadSafeDuplex:returned-while-locked " ++ meth) else
      match judgeObs st x m (f m.ideal) (site m meth) card r with
      | (st', none) => (st', "ok")
      | (st', some msg) => (st', msg)
    | _ => (st, "reject " ++ site m meth ++ " bad-output " ++ " ".intercalate out)

def judgeRead (st : St) (x : String) (meth : String) (expected : S → String) (out : List String) : St × String :=
  match st.get x with
  | none => (st, "reject bad-op")
  | some m =>
    match out with
    | ["deadlock"] => if m.dead then (st, "ok") else (st.put x { m with dead := true }, "reject threadSafeDuplex:unexpected-deadlock " ++ meth)
    | [a] =>
      if m.unknown then (st, "ok") else
      if a == expected m.ideal then (st, "ok")
      else
        let lab := if m.entangled then s!"bitmap{wname m.width}.Xor:native-shares-containers" else site m meth
        (st, s!"reject {lab} wrong-answer {meth} {x}: expected={expected m.ideal} got={a}")
    | _ => (st, "reject " ++ site m meth ++ " bad-output " ++ " ".intercalate out)

def step (st : St) (ts : List String) : St × String :=
  let (op, out) := splitArrow ts
  -- a malformed line (both sides answer `bad-op`; happens only while a failing case is being minimised) is not an
  -- observation of the implementation
  if out == ["bad-op"] then (st, "ok") else
  if st.dead then (if op == ["reset"] then ({}, "ok") else if out == ["skipped"] then (st, "ok") else (st, "reject bad-output after panic")) else
  match op with
  | ["reset"] => ({}, if out == ["ok"] then "ok" else "reject bad-output")
  | ["mode", m] => ((if m == "snapshot" then { st with snap := true } else if m == "nosnapshot" then { st with snap := false } else st),
      if out == ["ok"] then "ok" else "reject bad-output")
  | ["new", x, k] => match parseKind k, out with
    | some (w, wr), ["ok"] => (st.put x { width := w, wrapped := wr }, "ok")
    | _, _ => (st, "reject bad-op")
  | "add" :: x :: vs => match parseNats vs with
    | some vs => judgeMut st x "Add" (fun s => addMany s vs) out
    | none => (st, "reject bad-op")
  | ["addrange", x, lo, n, stp] => match lo.toNat?, n.toNat?, stp.toNat? with
    | some lo, some n, some stp => judgeMut st x "Add" (fun s => union s (rangeList lo stp n)) out
    | _, _, _ => (st, "reject bad-op")
  | ["remove", x, v] => match v.toNat? with
    | some v => judgeMut st x "Remove" (Spec.next · (.remove v)) out
    | none => (st, "reject bad-op")
  | ["clear", x] => judgeMut st x "Clear" (Spec.next · .clear) out
  | ["cadd", x, v] => match v.toNat?, st.get x, out with
    | some _, some m, ["deadlock"] => if m.dead then (st, "ok") else (st.put x { m with dead := true }, "reject threadSafeDuplex:unexpected-deadlock CheckedAdd")
    | some v, some m, [b, card, r] =>
      let expB := toString (!has m.ideal v)
      match judgeObs st x m (ins v m.ideal) (site m "CheckedAdd") card r with
      | (st', some msg) => (st', msg)
      | (st', none) =>
        if m.unknown || b == expB then (st', "ok")
        else (st', s!"reject {site m "CheckedAdd"} wrong-answer CheckedAdd {x} {v}: expected={expB} got={b}")
    | some _, some m, _ => (st, "reject " ++ site m "CheckedAdd" ++ " bad-output " ++ " ".intercalate out)
    | _, _, _ => (st, "reject bad-op")
  | ["contains", x, v] => match v.toNat? with
    | some v => judgeRead st x "Contains" (fun s => toString (has s v)) out
    | none => (st, "reject bad-op")
  | ["card", x] => judgeRead st x "Cardinality" (fun s => toString s.length) out
  | ["each", x, k] => match k.toNat? with
    | some k => judgeRead st x "Each" (fun s => natList (eachPrefix s k)) out
    | none => (st, "reject bad-op")
  | ["slice", x] => match st.get x, out with
    | some m, ["deadlock"] => if m.dead then (st, "ok") else (st.put x { m with dead := true }, "reject threadSafeDuplex:unexpected-deadlock Slice")
    | some m, [card, r] => match judgeObs st x m m.ideal (site m "Slice") card r with
      | (st', none) => (st', "ok")
      | (st', some msg) => (st', msg)
    | some m, _ => (st, "reject " ++ site m "Slice" ++ " bad-output " ++ " ".intercalate out)
    | _, _ => (st, "reject bad-op")
  | ["clone", y, x] => match st.get x, st.get y, out with
    | some m, none, ["deadlock"] => if m.dead then (st, "ok") else (st.put x { m with dead := true }, "reject threadSafeDuplex:unexpected-deadlock Clone")
    | some m, none, ["ok", card, r] =>
      let c : MSet := { width := m.width, wrapped := m.wrapped, ideal := m.ideal, unknown := m.unknown }
      let lab := if m.entangled then s!"bitmap{wname m.width}.Xor:native-shares-containers" else site m "Clone"
      match judgeObs (st.put y c) y c m.ideal lab card r with
      | (st', none) => (st', "ok")
      | (st', some msg) => (st', msg)
    | some m, none, _ => (st, "reject " ++ site m "Clone" ++ " bad-output " ++ " ".intercalate out)
    | _, _, _ => (st, "reject bad-op")
  | ["opprivate", a, b, v] => match st.get a, st.get b, v.toNat?, out with
    | some _, some q, some v, [priv, card, r] =>
      -- the wrapper hands its inner provider a PRIVATE snapshot of a wrapper operand: adding v (new) to the operand afterwards
      -- must not show up in it
      if priv != "true" && !has q.ideal v then
        (st, s!"reject threadSafeDuplex:operand-snapshot-aliased after {a}.Op({b}), {b}.Add({v}) shows up in the operand object {a}'s inner provider was given: it is {b}'s live bitmap, not a snapshot")
      else match judgeObs st b q (ins v q.ideal) (site q "Add") card r with
        | (st', none) => (st', "ok")
        | (st', some msg) => (st', msg)
    | some _, some _, some _, _ => (st, "reject threadSafeDuplex:operand-snapshot-aliased bad-output " ++ " ".intercalate out)
    | _, _, _, _ => (st, "reject bad-op")
  | ["fillrace", o, a, b, _, _, _] => match parseOp o, st.get a, st.get b, out with
    | some _, some _, some _, "panic" :: rest =>
      ({ st with dead := true }, s!"reject threadSafeDuplex:operand-read-after-unlock {a}.{o}({b}) panicked while {b} (empty at the start) was being filled: " ++ " ".intercalate rest)
    | some _, some p, some q, "ok" :: bad :: c1 :: r1 :: "|" :: c2 :: r2 :: rest =>
      if bad != "bad=0" then
        (st, s!"reject threadSafeDuplex:operand-read-after-unlock {a}.{o}({b}) with {b} empty at the start and filled meanwhile: a result is not {o}(a0, prefix of what was added): {bad} " ++ " ".intercalate rest)
      else match judgeObs st a p p.ideal "threadSafeDuplex:concurrent-use" c1 r1 with
        | (st1, some msg) => (st1, msg)
        | (st1, none) => match judgeObs st1 b q [] "threadSafeDuplex:concurrent-use" c2 r2 with
          | (st2, some msg) => (st2, msg)
          | (st2, none) => (st2, "ok")
    | some _, some _, some _, _ => (st, "reject threadSafeDuplex:concurrent-use bad-output " ++ " ".intercalate out)
    | _, _, _, _ => (st, "reject bad-op")
  | ["eachcall", x, k, m, y] =>
    let meth : Option NestedM := match m with
      | "remove" => some .remove | "cadd" => some .cadd | "add" => some .add | "contains" => some .contains | _ => none
    match st.get x, st.get y, k.toNat?, meth, out with
    | some p, some q, some _, some _, ["deadlock"] =>
      if p.dead || q.dead then (st, "ok") else
      ((if p.wrapped then st.put x { p with dead := true } else st),
        s!"reject threadSafeDuplex:nested-call-deadlock {x}.Each(func(v) \{ {y}.{m}(v) }) never returns although {y} is another provider")
    | some p, some q, some k, some meth, ["ok", c1, r1, "|", c2, r2] =>
      let vs := if k = 0 then p.ideal else eachPrefix p.ideal k
      match judgeObs st x p p.ideal (site p "Each") c1 r1 with
      | (st1, some msg) => (st1, msg)
      | (st1, none) => match judgeObs st1 y q (vs.foldl (nestedApply meth) q.ideal) (site p "Each" ++ ":delegate-calls-other-provider") c2 r2 with
        | (st2, some msg) => (st2, msg)
        | (st2, none) => (st2, "ok")
    | some p, some _, some _, some _, _ => (st, "reject " ++ site p "Each" ++ " bad-output " ++ " ".intercalate out)
    | _, _, _, _, _ => (st, "reject bad-op")
  | ["toids", x] => match st.get x, out with
    | some m, ["deadlock"] => if m.dead then (st, "ok") else (st, "reject threadSafeDuplex:unexpected-deadlock DuplexToGraphIDs")
    | some m, [card, r] => match judgeObs st x m m.ideal "graph.DuplexToGraphIDs" card r with
      | (st', none) => (st', "ok")
      | (st', some msg) => (st', msg)
    | some _, _ => (st, "reject graph.DuplexToGraphIDs bad-output " ++ " ".intercalate out)
    | _, _ => (st, "reject bad-op")
  | ["toidsrace", x, lo, n] => match st.get x, lo.toNat?, n.toNat?, out with
    | some _, some _, some _, "panic" :: rest =>
      ({ st with dead := true }, "reject graph.DuplexToGraphIDs:concurrent-writer panic " ++ " ".intercalate rest)
    | some m, some lo, some n, "ok" :: bad :: card :: r :: rest =>
      if bad != "bad=0" then
        (st, s!"reject graph.DuplexToGraphIDs:concurrent-writer a conversion returned an ID that was never a member, or out of order: {bad} " ++ " ".intercalate rest)
      else match judgeObs st x m (slideWindow m.ideal lo n) "threadSafeDuplex:concurrent-use" card r with
        | (st', none) => (st', "ok")
        | (st', some msg) => (st', msg)
    | some _, _, _, _ => (st, "reject graph.DuplexToGraphIDs:concurrent-writer bad-output " ++ " ".intercalate out)
    | _, _, _, _ => (st, "reject bad-op")
  | ["caddrace", x, lo, n, _] => match st.get x, lo.toNat?, n.toNat?, out with
    | some m, some lo, some n, ["ok", trues, card, r] =>
      let rng := rangeList lo 1 n
      let e := s!"trues={(diff rng m.ideal).length}"
      if trues != e then
        (st, s!"reject threadSafeDuplex.CheckedAdd:not-atomic concurrent CheckedAdd of the same values: expected {e} got {trues}")
      else match judgeObs st x m (union m.ideal rng) "threadSafeDuplex:concurrent-use" card r with
        | (st', none) => (st', "ok")
        | (st', some msg) => (st', msg)
    | some _, _, _, "panic" :: rest => ({ st with dead := true }, "reject threadSafeDuplex:concurrent-use panic " ++ " ".intercalate rest)
    | some _, _, _, _ => (st, "reject threadSafeDuplex:concurrent-use bad-output " ++ " ".intercalate out)
    | _, _, _, _ => (st, "reject bad-op")
  | ["kindor", x, y] => match st.get x, st.get y, out with
    | some p, some q, [c0, r0, "|", c1, r1, "|", c2, r2] =>
      match c0.toNat?, parseRle r0 with
      | some n, some got =>
        if n != got.length || got != union p.ideal q.ideal then
          (st, s!"reject graph.KindBitmaps:AddDuplexToKind wrong union: expected={brief (union p.ideal q.ideal)} got={brief got}")
        else match judgeObs st x p p.ideal "graph.KindBitmaps:mutates-argument" c1 r1 with
          | (st1, some msg) => (st1, msg)
          | (st1, none) => match judgeObs st1 y q q.ideal "graph.KindBitmaps:mutates-argument" c2 r2 with
            | (st2, some msg) => (st2, msg)
            | (st2, none) => (st2, "ok")
      | _, _ => (st, "reject graph.KindBitmaps:AddDuplexToKind bad-output")
    | some _, some _, _ => (st, "reject graph.KindBitmaps:AddDuplexToKind bad-output " ++ " ".intercalate out)
    | _, _, _ => (st, "reject bad-op")
  | "comm" :: v :: toks => match v.toNat?, commGroups (fun n => (st.get n).map (·.ideal)) toks, out with
    | some v, some (ors, ands), [a] =>
      -- spec: in the union of some `or` group and in the union of every `and` group (Props.commutative_contains)
      let e := toString (commDuplexesContains ors ands v)
      if a == e then (st, "ok") else (st, s!"reject CommutativeDuplexes.Contains wrong-answer v={v}: expected={e} got={a}")
    | _, _, _ => (st, "reject bad-op")
  | ["nd", o, x] => match parseOp o with
    -- operand is not a Duplex: outside the property's statement; the type switch has no case for it and the
    -- receiver must at least stay what it was
    | some op => judgeMut st x (opName op ++ ":non-duplex-operand") id out
    | none => (st, "reject bad-op")
  | ["abba", o, x, y, _] => match parseOp o, st.get x, st.get y, out with
    | some _, some a, some b, ["deadlock"] =>
      ((st.put x { a with dead := true }).put y { b with dead := true },
        s!"reject threadSafeDuplex:abba-deadlock {x}.op({y}) ∥ {y}.op({x}): both goroutines parked in sync.Mutex.Lock")
    | some op, some a, some b, ["ok", c1, r1, "|", c2, r2] =>
      -- And / Or: whatever the interleaving, both end as the intersection / union
      let e := Spec.binop op a.ideal b.ideal
      match judgeObs st x a e "threadSafeDuplex:concurrent-use" c1 r1 with
      | (st1, some msg) => (st1, msg)
      | (st1, none) => match judgeObs st1 y b e "threadSafeDuplex:concurrent-use" c2 r2 with
        | (st2, some msg) => (st2, msg)
        | (st2, none) => (st2, "ok")
    | _, some _, some _, "panic" :: rest => ({ st with dead := true }, "reject threadSafeDuplex:concurrent-use panic " ++ " ".intercalate rest)
    | _, some _, some _, _ => (st, "reject threadSafeDuplex:concurrent-use bad-output " ++ " ".intercalate out)
    | _, _, _, _ => (st, "reject bad-op")
  | ["pairs", x, y, lo, n] => match st.get x, st.get y, lo.toNat?, n.toNat?, out with
    | some p, some q, some lo, some n, ["ok", torn, c1, r1, "|", c2, r2] =>
      if torn != "torn=0" then
        (st, s!"reject threadSafeDuplex:torn-operand-read {x}.Or({y}) saw exactly one element of a pair that {y}.Add(2k,2k+1) inserts under {y}'s lock: {torn}")
      else
        let o' := union q.ideal (rangeList lo 1 (2 * n))
        match judgeObs st x p (union p.ideal o') "threadSafeDuplex:concurrent-use" c1 r1 with
        | (st1, some msg) => (st1, msg)
        | (st1, none) => match judgeObs st1 y q o' "threadSafeDuplex:concurrent-use" c2 r2 with
          | (st2, some msg) => (st2, msg)
          | (st2, none) => (st2, "ok")
    | some _, some _, some _, some _, "panic" :: rest =>
      ({ st with dead := true }, s!"reject threadSafeDuplex:torn-operand-read {x}.Or({y}) panicked while {y} was being written under its lock: " ++ " ".intercalate rest)
    | some _, some _, some _, some _, ["deadlock"] => (st, s!"reject threadSafeDuplex:unexpected-deadlock pairs")
    | some _, some _, some _, some _, _ => (st, "reject threadSafeDuplex:concurrent-use bad-output " ++ " ".intercalate out)
    | _, _, _, _, _ => (st, "reject bad-op")
  | "conc" :: x :: toks => match st.get x, out with
    | some m, ["ok", card, r, cadd] =>
      -- any sequential order: the generator only emits order-independent mixes; operands by plain set algebra
      let lookup := fun y => (st.get y).map (fun q => ({ width := q.width, wrapped := false, set := q.ideal } : Prov))
      match concRun lookup x m.width true true m.ideal toks with
      | some (s', n) =>
        match judgeObs st x m s' "threadSafeDuplex:concurrent-use" card r with
        | (st', some msg) => (st', msg)
        | (st', none) =>
          if cadd == s!"cadd={n}" then (st', "ok")
          else (st', s!"reject threadSafeDuplex:concurrent-use CheckedAdd-true-count expected={n} got={cadd}")
      | none => (st, "reject bad-op")
    | some _, "panic" :: rest => ({ st with dead := true }, "reject threadSafeDuplex:concurrent-use panic " ++ " ".intercalate rest)
    | some _, _ => (st, "reject threadSafeDuplex:concurrent-use bad-output " ++ " ".intercalate out)
    | _, _ => (st, "reject bad-op")
  | ["viewop", o, x] => match parseOp o, st.get x with
    -- operand = a thread-safe view of the receiver's own set: the result is that of the operation with itself
    | some op, some p =>
      if p.wrapped then (st, "reject bad-op") else
      let label := s!"bitmap{wname p.width}.{opName op}:view-of-receiver-operand"
      match out with
      | ["deadlock"] => (st, s!"reject {label} never returns")
      | "panic" :: rest => ({ st with dead := true }, s!"reject {label}-panic " ++ " ".intercalate rest)
      | ["ok", c1, r1] =>
        match judgeObs st x p (Spec.binop op p.ideal p.ideal) label c1 r1 with
        | (st1, some msg) => (st1, msg)
        | (st1, none) => (st1, "ok")
      | _ => (st, s!"reject {label} bad-output " ++ " ".intercalate out)
    | _, _ => (st, "reject bad-op")
  | [o, x, y] => match parseOp o, st.get x, st.get y with
    | some op, some p, some q =>
      if p.width != q.width then (st, "reject bad-op") else
      let self := x == y
      let operandWrapped := if self then p.wrapped else q.wrapped
      let path := if operandWrapped then (if p.wrapped && st.snap then "snapshot-operand" else "fallback-operand") else "native"
      let label := s!"bitmap{wname p.width}.{opName op}:{path}"
      match out with
      | ["deadlock"] =>
        if p.dead || (q.dead && !self) then
          -- consequence of a deadlock already reported: the receiver's or the operand's mutex is held forever
          (if p.wrapped then st.put x { p with dead := true } else st, "ok")
        else if self && p.wrapped then
          (st.put x { p with dead := true }, s!"reject threadSafeDuplex:self-operand-deadlock {x}.{opName op}({x}) never returns")
        else ((if p.wrapped then st.put x { p with dead := true } else st), s!"reject threadSafeDuplex:unexpected-deadlock {opName op}")
      | "panic" :: rest =>
        ({ st with dead := true }, s!"reject bitmap{wname p.width}.{opName op}:{if self then "self-operand" else path}-panic " ++ " ".intercalate rest)
      | ["ok", c1, r1, "|", c2, r2] =>
        if p.dead then (st, s!"reject threadSafeDuplex:returned-while-locked {opName op}") else
        let expected := Spec.binop op p.ideal q.ideal
        match judgeObs st x p expected label c1 r1 with
        | (st1, some msg) => (st1, msg)
        | (st1, none) =>
          let st1 := if self then st1 else
            match st1.get x with
            | some p1 => if op == .xor && path == "native" && xorShares p.width p.ideal q.ideal then st1.put x { p1 with entangled := true } else st1
            | none => st1
          if self then (st1, "ok") else
          match judgeObs st1 y q q.ideal (label ++ "-mutates-operand") c2 r2 with
          | (st2, some msg) => (st2, msg)
          | (st2, none) =>
            match st2.get y with
            | some q1 => ((if op == .xor && path == "native" && xorShares p.width p.ideal q.ideal then st2.put y { q1 with entangled := true } else st2), "ok")
            | none => (st2, "ok")
      | ["ok", c1, r1, "|", "deadlock"] =>
        -- operand cannot be observed any more (dead): judge the receiver only
        if !q.dead then (st, s!"reject threadSafeDuplex:unexpected-deadlock Slice") else
        match judgeObs st x p (Spec.binop op p.ideal q.ideal) label c1 r1 with
        | (st1, some msg) => (st1, msg)
        | (st1, none) => (st1, "ok")
      | _ => (st, s!"reject {label} bad-output " ++ " ".intercalate out)
    | _, _, _ => (st, "reject bad-op")
  | _ => (st, "reject bad-op")

def suite : Suite := { σ := St, init := {}, step := step }
end Driver.C13Mon

def Driver.C13Mon.suites : List (String × Driver.Suite) := [("c13mon", Driver.C13Mon.suite)]
