-- uses-generated
import Driver.Proto
import Driver.Sexp
import Driver.C08
import Dawgs.Spec.C07
import Dawgs.Model.C07Tree
import Dawgs.Model.C07Float
/-! C07 model driver. Input line: `tree <sexp>` (ANTLR tree with typed leaves). Answer:
`unsup=[…] | build=<ok|unmodelled:<rule>|rejected:<why>> model=<sexp|-> emit=<json of the despaced token text|-> ignored=[Visitor@rule,…] shapes=[…]`
* build/model: Lean `build` on the real tree, rendered like harness/sexp.go renders the Go model;
* ignored: the topmost silently ignored (visitor, rule) pairs met while walking THIS tree with the listener model;
* shapes: recognisers of the other known defect shapes (repeated NOT, non-blank SP among arithmetic operators, `*n`, …). -/
namespace Driver.C07
open Dawgs.C07 Dawgs.C07.Inst Dawgs.C08 Dawgs.Grammar Driver

def T : Tables := Dawgs.C08.Inst.T

/-- walk with the listener model; record flagged pairs that are not below another flagged pair or an error-reporting rule -/
partial def iwalk (nth : Nat) : Tree → St × Nat × List String → Except String (St × Nat × List String)
  | .node r kids, (st, sup, acc) =>
    let topV := (st.stack.headD (0, 0)).1
    -- "!<rule>" entries: the active visitor's own method reports the rule as unsupported (counted with the unsupported errors);
    -- `nth`: number of earlier siblings of the same rule (methods that report from the second occurrence on)
    let acc := if T.unsupM.contains (topV, r) || (nth ≥ 1 && T.unsupAfter.contains (topV, r)) then acc ++ ["!" ++ ruleName r] else acc
    let stopHere := sup == 0 && C.stops (topV, r)
    let acc := if sup == 0 && C.flagged (topV, r) then acc ++ [typeName topV ++ "@" ++ ruleName r] else acc
    let sup' := if sup > 0 || stopHere then sup + 1 else 0
    match T.enterRule r kids st with
    | .error e => .error e
    | .ok st1 =>
      let rec go (seen : List Nat) : List Tree → St × Nat × List String → Except String (St × Nat × List String)
        | [], s => .ok s
        | k :: ks, s => match iwalk (match k.rootRule with | some x => seen.count x | none => 0) k s with
          | .error e => .error e
          | .ok s1 => go (match k.rootRule with | some x => x :: seen | none => seen) ks s1
      match go [] kids (st1, sup', acc) with
      | .error e => .error e
      | .ok (st2, _, acc2) =>
        match T.exitRule r kids st2 with
        | .error e => .error e
        | .ok st3 => .ok (st3, sup, acc2)
  | _, s => .ok s

partial def shapes (t : Tree) : List String :=
  match t with
  | .node r ks =>
    let name := ruleName r
    let here : List String :=
      (if name == "oC_NotExpression" && countTok N t "NOT" ≥ 2 then ["oC_NotExpression:repeated-NOT-collapsed"] else []) ++
      (if ["oC_AddOrSubtractExpression", "oC_MultiplyDivideModuloExpression", "oC_PowerOfExpression", "oC_UnaryAddOrSubtractExpression"].contains name
          && !((litTokens t).all arithOps.contains) then ["ArithmeticExpressionVisitor:non-blank-SP-read-as-operator"] else []) ++
      (if name == "oC_RangeLiteral" && (kidsOfRule N t "oC_IntegerLiteral").length == 1 && !(hasTok N t "T__11") then ["oC_RangeLiteral:exact-hops-read-as-lower-bound"] else []) ++
      (if name == "oC_Namespace" && !(kidsOfRule N t "oC_SymbolicName").isEmpty then ["format.FunctionInvocation:namespace-separator-missing"] else []) ++
      (if name == "oC_MapLiteral" &&
          (let ks := (kidsOfRule N t "oC_PropertyKeyName").map (fun k => unescapeKey (getText 100000 k)); ks.eraseDups.length != ks.length)
        then ["MapLiteralVisitor:duplicate-key-keeps-last"] else []) ++
      (if name == "oC_PropertyExpression" && (kidsOfRule N t "oC_PropertyLookup").length ≥ 2 then ["PropertyExpressionVisitor:chained-lookup-keeps-last-key"] else []) ++
      (if name == "oC_PropertyExpression" && (match kidOfRule N t "oC_Atom" with | some a => hasTok N a "COUNT" | none => false)
        then ["PropertyExpressionVisitor:count-star-atom-left-nil"] else [])
    -- repaired shapes (status fixed): recognised last, so that a regression gets its specific key without masking a known one
    let repaired : List String :=
      (if name == "oC_DoubleLiteral" then ["format.formatLiteral:float-reformatted"] else []) ++
      (if name == "oC_NodeLabels" && (kidsOfRule N t "oC_NodeLabel").length ≥ 2 then ["format.KindMatcher:multiple-labels-printed-as-disjunction"] else [])
    here ++ ks.flatMap shapes ++ repaired
  | _ => []

/-- token types of keyword tokens (names in capitals), written in lower case by format.go -/
def kwTypes : List Int :=
  (N.toks.filter (fun p => p.1.length ≥ 2 && p.1.all (fun c => c.isUpper || c == '_') && p.1 != "SP")).map (fun p => (p.2 : Int))

/-- the derivation without layout: SP / EOF / `;` leaves dropped, keyword leaves lower-cased, bare names retagged -/
partial def strip (top : Bool) (inName : Bool) : Tree → Option Tree
  | .node r ks =>
    let nm := ruleName r == "oC_SymbolicName" || ruleName r == "oC_ReservedWord"
    some (.node r (ks.filterMap (strip false nm)))
  | .leaf s =>
    let ty := leafType s
    if top || ty == N.tok "SP" || ty < 0 then none
    -- the token type of a name (HexLetter for `a`…`f`, COUNT / FILTER / … used as names) is immaterial: retag bare names
    else if inName then some (.leaf (mkLeaf (N.tokNat "UnescapedSymbolicName") (leafText s)))
    else if !inName && kwTypes.contains ty then some (.leaf (mkLeaf ty.toNat (lower (leafText s))))
    else some (.leaf s)
  | .err s => some (.err s)

def stripTop (t : Tree) : Tree :=
  match t with
  | .node r ks => .node r (ks.filterMap (strip true false))
  | t => t

/-- the text of every oC_DoubleLiteral node, in pre-order -/
partial def doubleTexts : Tree → List String
  | .node r kids =>
    if ruleName r == "oC_DoubleLiteral" then [String.join (kids.map (fun k => match k with | .leaf s => leafText s | .err s => leafText s | _ => ""))]
    else kids.flatMap doubleTexts
  | _ => []

def despace (s : String) : String := String.ofList (s.toList.filter (fun c => c != ' '))

def step (_ : Unit) (ts : List String) : Unit × String :=
  match ts with
  | [line] =>
    match Sexp.parseLine line with
    | some [.atom "tree", sx] =>
      match Driver.C08.toTree sx with
      | some t =>
        let walked := match iwalk 0 t (T.init, 0, []) with
          | .ok (_, _, acc) => acc
          | .error _ => ["<panic>"]
        let vuns := (walked.filter (·.startsWith "!")).map (fun s => (s.drop 1).toString)
        let unsup := t.rules.flatMap (fun r => List.replicate (Dawgs.C08.Inst.E.unsupErrCount r) (ruleName r)) ++ vuns
        let ign := (walked.filter (fun s => !(s.startsWith "!"))).eraseDups
        let shAll := (shapes t).eraseDups
        -- shapes whose defect is repaired are listed last, so that a rejection is attributed to a shape that is still live
        let isRepaired (x : String) : Bool := x == "format.formatLiteral:float-reformatted" || x == "format.KindMatcher:multiple-labels-printed-as-disjunction" ||
          (Repair.namespaceDot && x == "format.FunctionInvocation:namespace-separator-missing") ||
          (Repair.exactHops && x == "oC_RangeLiteral:exact-hops-read-as-lower-bound") ||
          (Repair.nestedNot && x == "oC_NotExpression:repeated-NOT-collapsed") ||
          (Repair.spNotOperator && x == "ArithmeticExpressionVisitor:non-blank-SP-read-as-operator") ||
          (Repair.chainedLookupRejected && x == "PropertyExpressionVisitor:chained-lookup-keeps-last-key")
        let sh := shAll.filter (fun x => !(isRepaired x)) ++ shAll.filter isRepaired
        let (b, m, e) := match build N t with
          | .ok q =>
            let toks := emit q
            ("ok", toSexp q, if toks.contains unknownFloat then "-" else jsonQuote (despace (String.join toks)))
          | .error (.unmodelled r) => ("unmodelled:" ++ r, "-", "-")
          | .error (.rejected w) => ("rejected:" ++ w.replace " " "_", "-", "-")
        -- the proved domain: the layout-free tree is the canonical derivation of the (well-formed) model it builds;
        -- `strip`: building from the layout-free tree gives the same model
        let st := stripTop t
        let canon := if canonicalAt N (size st) st then "1" else "0"
        let same := match build N t, build N st with
          | .ok q, .ok q' => if toSexp q == toSexp q' then "same" else "diff"
          | .ok _, .error _ => "diff"
          | .error _, _ => "-"
        ((), s!"unsup=[{Driver.C08.sortedNames unsup}] | build={b} ignored=[{",".intercalate ign}] shapes=[{",".intercalate sh}] canon={canon} strip={same} fbits=[{",".intercalate ((doubleTexts t).map (fun s => match floatBits s with | some b => toString b | none => "?"))}] emit={e} model={m}")
      | none => ((), "bad-op")
    | some [.atom "blank"] => ((), "unsup=[] | build=rejected:blank ignored=[] shapes=[] emit=- model=-")
    | _ => ((), "bad-op")
  | _ => ((), "bad-op")

def suite : Suite := { σ := Unit, init := (), step := step, raw := true }
end Driver.C07

def Driver.C07.suites : List (String × Driver.Suite) := [("c07", Driver.C07.suite)]
