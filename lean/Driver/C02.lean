import Driver.C01
import Dawgs.Model.C02
/-! C02 search driver (suite `c02sem`): optimised vs unoptimised translation of the same query, both REAL outputs.

Input: `sem <gseed> <nrandom> <exN> <exE> <kindmap> <cy> <cyopt> <stmtO> <stmtU> <stmtR> <stmtL>` —
`stmtO` = what `Translate` emits, `stmtU` = the hook's `TranslateUnoptimized` (no rewrite rule, no lowering, no fast path),
`stmtR` / `stmtL` = rules only / lowerings only (or `nil`), `cy` = the parsed query, `cyopt` = `optimize.Optimize(q).Query`.
On every graph of the family: `Sql.eval stmtO` vs `Sql.eval stmtU` (no Cypher semantics needed), and `Cy.eval cyopt` vs `Cy.eval cy`.
A final LIMIT / SKIP without ORDER BY returns an arbitrary subset: there the optimised rows must be a sub-multiset of the unoptimised
statement evaluated WITHOUT its outer LIMIT / OFFSET, with the same row count. -/
namespace Driver.C02
open Driver Dawgs Dawgs.Sql Driver.C01

inductive Res where
  | agree
  | agreeError (cls : String)             -- both statements end in the same class of error
  | agreeBagOnly                          -- ORDER BY present, same multiset, order of (possible) ties not checked
  | differ (stage : String) (detail : String)
  | unmodelled (what : String)

def stripCut : Stmt → Stmt
  | .query (.mk r ctes body ob _ _) => .query (.mk r ctes body ob none none)
  | s => s

def topOrdered : Stmt → Bool
  | .query (.mk _ _ _ ob _ _) => !ob.isEmpty
  | _ => false

def topCut : Stmt → Bool
  | .query (.mk _ _ _ _ off lim) => off.isSome || lim.isSome
  | _ => false

/-- sub-multiset -/
def bagSub : List (List RVal) → List (List RVal) → Bool
  | [], _ => true
  | x :: xs, ys =>
    match ys.findIdx? (rowEq x) with
    | some i => bagSub xs (ys.eraseIdx i)
    | none => false

def rowsOf (bagCols : List Nat) (t : Table) : List (List RVal) := t.rows.map (fun r => canonBags bagCols (r.map valToR))

def compareSql (km : KindMap) (q : Option Cy.Query) (bagCols : List Nat) (so su : Stmt) (g : Graph) : Res :=
  let db := encode km g
  match Sql.eval db so [], Sql.eval db su [] with
  | .error eo, .error eu =>
    let (co, wo) := errClass eo
    let (cu, wu) := errClass eu
    if co == "unmodelled" then .unmodelled ("sql-eval:" ++ wo)
    else if cu == "unmodelled" then .unmodelled ("sql-eval:" ++ wu)
    else if co == "name" then .unmodelled "optimised-statement-does-not-bind(C03)"
    else if cu == "name" then .unmodelled "unoptimised-statement-does-not-bind(C03)"
    else if co == cu then .agreeError co
    else .differ "error-class" s!"optimised={co}:{wo.replace " " "_"} unoptimised={cu}:{wu.replace " " "_"} graph={renderGraph g}"
  | .error eo, .ok _ =>
    let (co, wo) := errClass eo
    if co == "unmodelled" then .unmodelled ("sql-eval:" ++ wo)
    else if co == "name" then .unmodelled "optimised-statement-does-not-bind(C03)"
    else .differ "error-only-optimised" s!"{co}:{wo.replace " " "_"} graph={renderGraph g}"
  | .ok _, .error eu =>
    let (cu, wu) := errClass eu
    if cu == "unmodelled" then .unmodelled ("sql-eval:" ++ wu)
    else if cu == "name" then .unmodelled "unoptimised-statement-does-not-bind(C03)"
    else .differ "error-only-unoptimised" s!"{cu}:{wu.replace " " "_"} graph={renderGraph g}"
  | .ok to, .ok tu =>
    let ro := rowsOf bagCols to
    let ru := rowsOf bagCols tu
    let show_ := s!"graph={renderGraph g} optimised={(renderRows ro).replace " " "_"} unoptimised={(renderRows ru).replace " " "_"}"
    -- is the difference only in multiplicities (same set of distinct rows)?
    let setEq := ro.all (fun r => ru.any (rowEq r)) && ru.all (fun r => ro.any (rowEq r))
    let rowsStage := if setEq then "multiplicity" else "rows"
    if topCut su && !topOrdered su then
      -- arbitrary subset semantics
      match Sql.eval db (stripCut su) [] with
      | .ok tf =>
        if ro.length == ru.length && bagSub ro (rowsOf bagCols tf) then .agree else .differ rowsStage show_
      | .error _ => if bagEq ro ru then .agree else .unmodelled "uncut-statement-does-not-evaluate"
    else if topOrdered su then
      if ro.length == ru.length && (ro.zip ru).all (fun p => rowEq p.1 p.2) then .agree
      else if !bagEq ro ru then
        -- ORDER BY + LIMIT may cut inside ties: then any completion of the tie block is valid
        if topCut su then
          match Sql.eval db (stripCut su) [] with
          | .ok tf =>
            -- … but only if the reference semantics agrees that the cut falls inside a tie block (it then refuses the query as
            -- nondeterministic); when the reference DOES determine the rows, two different bags cannot both be right
            let referenceDetermines := match q with
              | some cq => (match Cy.evalKeyed Cy.Quirks.none g cq with | .ok _ => true | .error _ => false)
              | none => false
            if referenceDetermines then .differ rowsStage show_
            else if ro.length == ru.length && bagSub ro (rowsOf bagCols tf) then .agreeBagOnly else .differ rowsStage show_
          | .error _ => .differ rowsStage show_
        else .differ rowsStage show_
      else
        -- same multiset, different order: fine iff both are orderings the reference semantics accepts (ties)
        match q with
        | some cq =>
          match Cy.evalKeyed Cy.Quirks.none g cq with
          | .ok (_, crows) =>
            if sameRows g km true bagCols crows ro && sameRows g km true bagCols crows ru then .agree else .agreeBagOnly
          | .error _ => .agreeBagOnly
        | none => .agreeBagOnly
    else if bagEq ro ru then .agree else .differ rowsStage show_

/-- the optimiser's rewritten query against the query as written, under the reference semantics -/
def compareCy (km : KindMap) (q q' : Cy.Query) (bagCols : List Nat) (g : Graph) : Res :=
  match Cy.evalKeyed Cy.Quirks.none g q, Cy.evalKeyed Cy.Quirks.none g q' with
  | .ok (_, rows), .ok (_, rows') =>
    let r' := rows'.map (fun r => r.1.map (Cy.CVal.toR g km))
    if sameRows g km (!q.ret.orderBy.isEmpty) bagCols rows r' then .agree
    else .differ "cypher-rewrite" s!"graph={renderGraph g} written={(renderRows (rows.map (fun r => r.1.map (Cy.CVal.toR g km)))).replace " " "_"} rewritten={(renderRows r').replace " " "_"}"
  | .error w, .error w' => if w == w' then .agreeError "cypher" else .unmodelled ("cypher-eval:" ++ w)
  | .error w, _ => .unmodelled ("cypher-eval:" ++ w)
  | _, .error w => .unmodelled ("cypher-eval-rewritten:" ++ w)

def countBy (rs : List Res) (p : Res → Bool) : Nat := (rs.filter p).length

def step (_ : Unit) (ts : List String) : Unit × String :=
  match ts with
  | [line] =>
    match Sexp.parseLine line with
    | some [.atom "skip"] => ((), "skip")
    | some [.atom "sem", .atom gs, .atom nr, .atom en, .atom ee, kmS, cyS, cyoptS, soS, suS, srS, slS] =>
      match gs.toNat?, nr.toNat?, en.toNat?, ee.toNat?, kindMapOf kmS with
      | some gseed, some nrandom, some exN, some exE, some km =>
        match SqlSexp.stmt soS, SqlSexp.stmt suS with
        | .error tag, _ => ((), s!"unmodelled sql-optimised:{tag.replace " " "_"}")
        | _, .error tag => ((), s!"unmodelled sql-unoptimised:{tag.replace " " "_"}")
        | .ok so, .ok su =>
          let q := (ReadCy.query cyS).toOption
          let q' := (ReadCy.query cyoptS).toOption
          -- a LIMIT / SKIP without ORDER BY inside a WITH makes both statements pick arbitrary rows: not comparable
          if (match q with | some cq => cq.parts.any (fun p => unorderedCut p.proj) | none => false) then
            ((), "unmodelled nondeterministic:with-limit-without-order-by") else
          let bagCols := match q with | some cq => bagColumns cq | none => []
          let graphs := match q with
            | some cq => graphsWithin cq gseed nrandom exN exE
            | none => (graphsFor gseed nrandom exN exE).filter (fun g => g.edges.length ≤ 3 && g.nodes.length ≤ 3)
          let sqlRes := graphs.map (compareSql km q bagCols so su)
          let cyRes := match q, q' with
            | some cq, some cq' => if cq == cq' then [] else
                if nondeterministic cq then [] else graphs.map (compareCy km cq cq' bagCols)
            | _, _ => []
          let isAgree := fun (r : Res) => match r with | .agree => true | .agreeError _ => true | _ => false
          let isBag := fun (r : Res) => match r with | .agreeBagOnly => true | _ => false
          let isUn := fun (r : Res) => match r with | .unmodelled _ => true | _ => false
          let hasLoop := fun (g : Graph) => g.edges.any (fun e => e.start == e.stop)
          let tagged := ((graphs.zip sqlRes) ++ (graphs.zip cyRes)).filterMap (fun p => match p.2 with
            | .differ st d => some (st, d, hasLoop p.1)
            | _ => none)
          -- witness: prefer a difference in the SET of rows over one in multiplicities only, and a loop-free graph over one with self loops
          let rank := fun (t : String × String × Bool) => (if t.1 == "multiplicity" then 2 else 0) + (if t.2.2 then 1 else 0)
          let best := tagged.foldl (fun (acc : Option (String × String × Bool)) t => match acc with
            | none => some t
            | some a => if rank t < rank a then some t else some a) none
          let diffs := match best with
            | some (st, d, lp) => [(st, (if lp then "witness=self-loop-graph " else "witness=loop-free-graph ") ++ d)]
            | none => []
          -- tie of the count-store fast path theorem: are these the two statement shapes `count_fast_path_preserves` is about?
          let cfp := if so == C02.cfpOpt then (if su == C02.cfpUnopt then " cfp-tie=ok" else " cfp-tie=differs") else ""
          -- tie of `opt_equiv`: inside the proved fragment the two REAL statements must be the model pair's statements (and parameterless)
          let frag := match q with
            | some cq =>
              -- either join order of a hop is a statement of the model (`trVariantL` takes the direction choice as a parameter; on a hop with
              -- LIMIT and no ORDER BY the optimised model statement carries the LIMIT on the frame as well: limit pushdown)
              let cands := fun (fast : Bool) => [C02.withCross (fun _ => false) fast (C02.withStages (C02.trVariantL (fun _ => false) (fun _ => false) (fun _ => false) fast)) km cq, C02.withCross (fun _ => true) fast (C02.withStages (C02.trVariantL (fun _ => true) (fun _ => true) (fun _ => true) fast)) km cq].filterMap id
              match cands true, cands false with
              | [], _ => ""
              | _, [] => ""
              | co, cu =>
                let okO := co.any (fun c => c.1 == so)
                let okU := cu.any (fun c => c.1 == su)
                if okO && okU then (if so == su then " frag-tie=ok:same-statement" else " frag-tie=ok:statements-differ")
                else if okO then " frag-tie=differs:unoptimised" else " frag-tie=differs:optimised"
            | none => ""
          let cfp := cfp ++ frag
          let counts := s!"graphs={graphs.length} sql-agree={countBy sqlRes isAgree} sql-bag-only={countBy sqlRes isBag} sql-unmodelled={countBy sqlRes isUn} cy-compared={cyRes.length} cy-agree={countBy cyRes isAgree} cy-unmodelled={countBy cyRes isUn}{cfp}"
          match diffs with
          | (st, d) :: _ =>
            -- attribute an SQL difference to the rules or to the lowerings when the partial variants are available
            let stage :=
              if st == "cypher-rewrite" then "" else
              match SqlSexp.stmt srS, SqlSexp.stmt slS with
              | .ok sr, .ok sl =>
                let bad := fun (s : Stmt) => graphs.any (fun g => match compareSql km q bagCols s su g with | .differ _ _ => true | _ => false)
                s!" rules-only-differs={bad sr} lowerings-only-differs={bad sl}"
              | _, _ => ""
            ((), s!"differ {st} {counts}{stage} {d}")
          | [] =>
            match (sqlRes ++ cyRes).filterMap (fun r => match r with | .unmodelled w => some w | _ => none) with
            | w :: _ => if countBy sqlRes isAgree + countBy sqlRes isBag == 0 then ((), s!"unmodelled {w.replace " " "_"} {counts}") else ((), s!"agree {counts}")
            | [] => ((), s!"agree {counts}")
      | _, _, _, _, _ => ((), "bad-op")
    | _ => ((), "bad-op")
  | _ => ((), "bad-op")

def suite : Suite := { σ := Unit, init := (), step := step, raw := true }
end Driver.C02

def Driver.C02.suites : List (String × Driver.Suite) :=
  [("c02sem", Driver.C02.suite)]
