import Driver.Proto
import Driver.Sexp
import Driver.SqlSexp
import Dawgs.Model.SqlSchema
import Dawgs.Model.C03Bind
/-! C03 model driver. Input line: `stmt upd=<0|1> (list "pi0" …) <sexp of the real pgsql statement>`; answer:
`ok | unbound <name> | ambiguous <name> | arity <what> | missing-param <p> | dml-without-update | dangling-future | unmodelled <tag> |
checker-disagrees <detail>` — the verdict of the verified binder `wellScoped`, with the error class taken from the
resolution semantics `resolve`. -/
namespace Driver.C03
open Driver Dawgs.Sql

def renderErr : RErr → String
  | .unbound n => s!"unbound {n.replace " " "_"}"
  | .ambiguous n => s!"ambiguous {n.replace " " "_"}"
  | .arity n => s!"arity {n.replace " " "_"}"
  | .missingParam p => s!"missing-param {p}"
  | .dmlWithoutUpdate => "dml-without-update"
  | .unsupported w => s!"unmodelled {w}"

/-- names of `*_harness` functions called anywhere: their SQL arguments are executed dynamically and are not bound here -/
partial def harnessCalls : Sexp → List String
  | .list [.atom "Function", .list [.atom "pgsql.Identifier", .str n]] => if n.endsWith "_harness" then [n] else []
  | .list xs => xs.flatMap harnessCalls
  | _ => []

def paramNames : Sexp → Option (List String)
  | .list (.atom "list" :: xs) => xs.mapM (fun x => match x with | .str s => some s | _ => none)
  | _ => none

def verdict (Γ : Env) (s : Stmt) : String :=
  let sem := resolve Γ s
  let chk := wellScoped Γ s
  match sem, chk with
  | .ok _, true => "ok"
  | .error e, false => renderErr e
  | .ok _, false => "checker-disagrees resolve-ok-binder-rejects"
  | .error e, true => "checker-disagrees binder-accepts-" ++ renderErr e

def step (_ : Unit) (ts : List String) : Unit × String :=
  match ts with
  | [line] =>
    match Sexp.parseLine line with
    | some [.atom "stmt", .atom upd, ps, sx] =>
      match paramNames ps with
      | none => ((), "bad-op")
      | some params =>
        match SqlSexp.stmt sx with
        | .error tag =>
          -- an unsatisfied pgsql.Future is a placeholder that was never filled in: the statement cannot even be printed
          if tag == "dangling:Future" then ((), "dangling-future nil-syntax-node")
          else ((), s!"unmodelled {tag.replace " " "_"}")
        | .ok s =>
          let Γ : Env := { cat := schema, params := params, updating := upd == "upd=1" }
          let v := verdict Γ s
          match v, harnessCalls sx with
          | "ok", h :: _ => ((), s!"unmodelled dynamic-sql:{h}")
          | _, _ => ((), v)
    | some [.atom "skip"] => ((), "skip")
    | _ => ((), "bad-op")
  | _ => ((), "bad-op")

def suite : Suite := { σ := Unit, init := (), step := step, raw := true }
end Driver.C03

def Driver.C03.suites : List (String × Driver.Suite) := [("c03", Driver.C03.suite)]
