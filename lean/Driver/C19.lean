import Driver.Proto
import Driver.C18
import Dawgs.Model.C19
/-! Model driver for C19: the same op lines as harness/c19.go answered by the Lean model — the directory
after a crash at point k is `applyOps (take k ops) fs`, resume is `Dawgs.C19.resume`. DB read faults are
placed by a small simulation of the batch boundaries (tie only; the resulting directory is always one of
the crash-prefix directories the theorems quantify over). -/
namespace Driver.C19
open Dawgs.C18 Dawgs.C19

abbrev P := String

def defaultOpts : Opts :=
  { driver := "fake", targets := [], outputDir := "", force := false, resume := false, scrub := false, salt := "",
    scrubConfig := "default", compression := "none", zstdLevel := 3, shardSize := 1, batchSize := 1, progressInterval := 0,
    progressSet := false }

structure St where
  graphs : List (Graph P) := []
  o : Opts := defaultOpts                       -- every setting of the call
  hasOpts : Bool := false
  targetNames : Option (List String) := none     -- none = every declared graph in declaration order
  fs : FS P := []
  dirCodec : String := ""     -- codec of the fresh dump that created the directory

def renderFPath (codec : String) : FPath → String
  | .ckpt => ".retriever-checkpoint.json"
  | .ckptTmp => ".retriever-checkpoint.json.tmp"
  | .manifest => "manifest.json"
  | .manifestTmp => "manifest.json.tmp"
  | .frag p => Driver.C18.renderPath codec p
  | .fragTmp p => Driver.C18.renderPath codec p ++ ".tmp"
  | .stray n => n

def baseName (s : String) : String := (s.splitOn "/").getLast!

def doneStr (gs : List (Done P)) : String :=
  if gs.isEmpty then "-" else "+".intercalate (gs.map (fun g => s!"{g.name}#{g.nodeCount}#{g.edgeCount}#{g.files.length}"))

def filesStr (codec : String) (fs : List (Frag P)) : String :=
  if fs.isEmpty then "-" else "+".intercalate (fs.map (fun f => s!"{baseName (Driver.C18.renderPath codec f.path)}#{f.content.count}"))

def phaseStr : Phase → String
  | .nodes => "nodes"
  | .edges => "edges"

def describe (codec : String) : FData P → String
  | .ckpt v =>
    let cur := match v.current with
      | none => "-"
      | some c =>
        let snap := match c.snapshot with | some (a, b) => s!"{a}.{b}" | none => "-"
        let last := match c.last with | some l => toString l | none => "-"
        s!"{c.index}/{phaseStr c.phase}/{snap}/{last}/{filesStr codec c.files}"
    s!"ckpt:{doneStr v.done}:{cur}"
  | .manifest gs => s!"manifest:{doneStr gs}"
  | .frag c => s!"frag:{c.count}:{Driver.C18.contentIds c}"
  | .tmp => "tmp"
  | .junk => "stray"

def summary (codec : String) (fs : FS P) : String :=
  if fs.isEmpty then "-" else
  let entries := fs.map (fun e => (renderFPath codec e.1, describe codec e.2))
  let sorted := entries.mergeSort (fun a b => decide (a.1 ≤ b.1))
  " ".intercalate (sorted.map (fun e => s!"{e.1}={e.2}"))

def opName : FsOp P → String
  | .mkdir => "outdir.prepared"
  | .writeTmp .ckptTmp => "checkpoint.tmp.written"
  | .writeTmp .manifestTmp => "manifest.tmp.written"
  | .writeTmp _ => "fragment.tmp.created"
  | .touch => "fragment.record.written"
  | .close => "fragment.tmp.closed"
  | .rename _ .ckpt _ => "checkpoint.renamed"
  | .rename _ .manifest _ => "manifest.renamed"
  | .rename _ _ _ => "fragment.renamed"
  | .remove .ckpt => "checkpoint.removed"
  | .remove _ => "resume.temp.removed"

def refusalStr : Refusal → String
  | .manifestPresent => "manifest-present"
  | .noCheckpoint => "no-checkpoint"
  | .badCheckpoint => "bad-checkpoint"
  | .identityChanged => "identity-changed"
  | .checkpointInvalid => "checkpoint-invalid"
  | .fragmentMissing => "fragment-missing"
  | .checksum => "checksum"
  | .unexpectedFile => "unexpected-file"
  | .sourceChanged => "source-changed"

/-! ### read-fault placement (tie only) -/

structure Sim where
  v : Ckpt P
  q : Nat := 0             -- records handled by the current scan
  fetches : Nat := 0
  active : Bool := false   -- the faulty fetch is being delivered
  delivered : Nat := 0
  limit : Nat := 0

/-- handle the records of one chunk; `none` = the fault surfaced inside the chunk -/
def simChunk (batch f : Nat) (m : Int) (remLen : Nat) : Nat → Nat → Sim → Option Sim
  | 0, _, s => some s
  | c + 1, j, s =>
    let boundary := s.q % batch == 0
    if boundary && s.active then none else
    let s := if boundary then { s with fetches := s.fetches + 1 } else s
    let hit := boundary && s.fetches == f
    if hit && m < 0 then none else
    let s := if hit then { s with active := true, delivered := 0, limit := min m.toNat (min batch (remLen - j)) } else s
    if s.active && s.delivered == s.limit then none else
    simChunk batch f m remLen c (j + 1) { s with q := s.q + 1, delivered := if s.active then s.delivered + 1 else s.delivered }

/-- the file-system steps performed until the read fault surfaces (or the dump completes) -/
def simFault (db : List (Graph P)) (batch shard f : Nat) (m : Int) : Nat → Sim → List (FsOp P) → List (FsOp P) × Bool
  | 0, _, acc => (acc, true)
  | fuel + 1, s, acc =>
    match next db s.v with
    | none => if s.active then (acc, true) else (acc ++ finalOps s.v, false)
    | some (none, v') =>
      if s.active then (acc, true)
      else simFault db batch shard f m fuel { s with v := v', q := 0 } (acc ++ stepOps (none, v'))
    | some (some fr, v') =>
      let cur := curOf s.v
      let remLen := match db[s.v.done.length]? with
        | some g => (match cur.phase with
          | .nodes => (remainingNodes g cur.last).length
          | .edges => (remainingEdges g cur.last).length)
        | none => 0
      match simChunk batch f m remLen fr.content.count 0 s with
      | none => (acc, true)
      | some s' =>
        if fr.content.count ≥ shard then simFault db batch shard f m fuel { s' with v := v' } (acc ++ stepOps (some fr, v'))
        else if s'.active then (acc, true)
        else simFault db batch shard f m fuel { s' with v := v' } (acc ++ stepOps (some fr, v'))

/-- which path of the model a file name denotes -/
def parseFPath (codec : String) (targets : List String) (name : String) : FPath :=
  if name == ".retriever-checkpoint.json" then .ckpt
  else if name == ".retriever-checkpoint.json.tmp" then .ckptTmp
  else if name == "manifest.json" then .manifest
  else if name == "manifest.json.tmp" then .manifestTmp
  else
    let cands : List Path := targets.flatMap (fun g => [Phase.nodes, Phase.edges].flatMap (fun ph => (List.range 99).map (fun k => (⟨g, ph, k + 1⟩ : Path))))
    match cands.find? (fun p => Driver.C18.renderPath codec p == name) with
    | some p => .frag p
    | none =>
      match cands.find? (fun p => Driver.C18.renderPath codec p ++ ".tmp" == name) with
      | some p => .fragTmp p
      | none => .stray name

def fragPathsSorted (codec : String) (fs : FS P) : List (String × FPath) :=
  let frs := fs.filterMap (fun e => match e.1 with
    | .frag p => some (Driver.C18.renderPath codec p, FPath.frag p)
    | .stray n => if n.startsWith "graphs/" && !n.endsWith ".tmp" then some (n, FPath.stray n) else none
    | _ => none)
  frs.mergeSort (fun a b => decide (a.1 ≤ b.1))

def keysOf (fs : FS P) : List FPath := fs.map (·.1)

def sameFS (a b : FS P) : Bool :=
  (keysOf a ++ keysOf b).all (fun p => a.get p == b.get p)

def step (st : St) (ts : List String) : St × String :=
  match ts with
  | ["reset"] => ({}, "ok")
  | ["graph", name] =>
    if st.graphs.any (·.name == name) then (st, "bad-op")
    else ({ st with graphs := st.graphs ++ [{ name := name, nodes := [], edges := [] }] }, "ok")
  | ["node", g, id, ks, props] =>
    match id.toNat? with
    | some id =>
      match Driver.C18.updGraph st.graphs g (fun gr => { gr with nodes := gr.nodes ++ [⟨id, Driver.C18.parseKinds ks, Driver.C18.normProps props⟩] }) with
      | some gs => ({ st with graphs := gs }, "ok")
      | none => (st, "bad-op")
    | none => (st, "bad-op")
  | ["edge", g, id, s, t, kind, props] =>
    match id.toNat?, s.toNat?, t.toNat? with
    | some id, some s, some t =>
      match Driver.C18.updGraph st.graphs g (fun gr => { gr with edges := gr.edges ++ [⟨id, s, t, Driver.C18.normKind kind, Driver.C18.normProps props⟩] }) with
      | some gs => ({ st with graphs := gs }, "ok")
      | none => (st, "bad-op")
    | _, _, _ => (st, "bad-op")
  | ["opts", codec, batch, shard] =>
    match batch.toNat?, shard.toNat? with
    | some b, some s =>
      if b < 1 || s < 1 || !(["none", "gzip", "zstd"].contains codec) then (st, "bad-op")
      else ({ st with o := { st.o with compression := codec, batchSize := b, shardSize := s }, hasOpts := true }, "ok")
    | _, _ => (st, "bad-op")
  | ["set", field, value] =>
    let num := value.toNat?
    match field, num with
    | "driver", _ => ({ st with o := { st.o with driver := value } }, "ok")
    | "zstdlevel", some n => if n < 1 then (st, "bad-op") else ({ st with o := { st.o with zstdLevel := n } }, "ok")
    | "scrub", _ =>
      if value == "full" then ({ st with o := { st.o with scrub := true } }, "ok")
      else if value == "none" then ({ st with o := { st.o with scrub := false } }, "ok") else (st, "bad-op")
    | "salt", _ => ({ st with o := { st.o with salt := if value == "-" then "" else value } }, "ok")
    | "rules", _ => ({ st with o := { st.o with scrubConfig := value } }, "ok")
    | "targets", _ => ({ st with targetNames := if value == "-" then none else some (value.splitOn ",") }, "ok")
    | "progress", some n => ({ st with o := { st.o with progressInterval := n } }, "ok")
    | "progresscb", _ => ({ st with o := { st.o with progressSet := value == "1" } }, "ok")
    | "force", _ => ({ st with o := { st.o with force := value == "1" } }, "ok")
    | _, _ => (st, "bad-op")
  | _ =>
  if !st.hasOpts || st.graphs.isEmpty then (st, "bad-op") else
  -- the call: targets are the requested names in order; the database the dump sees is those graphs
  let targets := st.targetNames.getD (st.graphs.map (·.name))
  let o : Opts := { st.o with targets := targets }
  let ident : Identity := identityOf o
  let invalidFresh := o.scrub && o.salt == ""            -- DumpOptions.Validate
  let invalidResume := invalidFresh || o.force
  let codec := st.dirCodec
  let db : List (Graph P) := targets.map (fun n => (st.graphs.find? (·.name == n)).getD { name := n, nodes := [], edges := [] })
  let wf := st.graphs.all (fun g => g.edges.all (fun e => g.nodes.any (·.id == e.src) && g.nodes.any (·.id == e.dst)))
  if !wf && ["plan", "crash", "readfault", "resume", "resumefault", "final"].contains (ts.headD "") then (st, "bad-db") else
  if invalidFresh && ["plan", "final"].contains (ts.headD "") then
    (st, if ts.headD "" == "plan" then "err options-invalid" else "err reference-dump options-invalid") else
  if invalidFresh && ["crash", "readfault"].contains (ts.headD "") then ({ st with fs := [], dirCodec := ident.codec }, "err options-invalid | -") else
  if invalidResume && ["resume", "resumefault"].contains (ts.headD "") then (st, "refused options-invalid | " ++ summary codec st.fs) else
  match ts with
  | ["plan"] =>
    let ops := dumpOps db ident
    (st, s!"ok n={ops.length} {",".intercalate (ops.map opName)}")
  | ["crash", k] =>
    match k.toNat? with
    | some k =>
      let ops := dumpOps db ident
      if k == 0 || k > ops.length then
        let fs := applyOps ops []
        ({ st with fs := fs, dirCodec := ident.codec }, "completed | " ++ summary ident.codec fs)
      else
        let fs := applyOps (ops.take k) []
        ({ st with fs := fs, dirCodec := ident.codec }, s!"crashed {k} {opName (ops.getD (k - 1) .mkdir)} | {summary ident.codec fs}")
    | none => (st, "bad-op")
  | ["resume", k] =>
    match k.toNat? with
    | some k =>
      let r := resume db ident st.fs
      if k ≥ 1 && k ≤ r.ops.length then
        let fs := applyOps (r.ops.take k) st.fs
        ({ st with fs := fs }, s!"crashed {k} {opName (r.ops.getD (k - 1) .mkdir)} | {summary codec fs}")
      else
        let fs := applyOps r.ops st.fs
        match r.outcome with
        | .ok => ({ st with fs := fs }, "ok | " ++ summary codec fs)
        | .refused c => ({ st with fs := fs }, s!"refused {refusalStr c} | {summary codec fs}")
    | none => (st, "bad-op")
  | ["readfault", f, m] =>
    match f.toNat?, m.toInt? with
    | some f, some m =>
      let pre : List (FsOp P) := [.mkdir] ++ ckOps (V0 ident)
      let (ops, faulted) := simFault db ident.batch ident.shard f m (measure db (V0 (P := P) ident) + 1) { v := V0 ident } []
      let fs := applyOps (pre ++ ops) []
      ({ st with fs := fs, dirCodec := ident.codec }, (if faulted then "err db-read | " else "completed | ") ++ summary ident.codec fs)
    | _, _ => (st, "bad-op")
  | ["resumefault", f, m] =>
    match f.toNat?, m.toInt? with
    | some f, some m =>
      let r := resume db ident st.fs
      match r.outcome, st.fs.get .ckpt with
      | .ok, some (.ckpt v) =>
        let rm := (knownTemps ident v).map FsOp.remove
        let (ops, faulted) := simFault db ident.batch ident.shard f m (measure db v + 1) { v := v } []
        let fs := applyOps (rm ++ ops) st.fs
        ({ st with fs := fs }, (if faulted then "err db-read | " else "ok | ") ++ summary codec fs)
      | .refused c, _ =>
        let fs := applyOps r.ops st.fs
        ({ st with fs := fs }, s!"refused {refusalStr c} | {summary codec fs}")
      | _, _ => (st, "bad-op")
    | _, _ => (st, "bad-op")
  | ["stray", name] =>
    -- a foreign file: it lands on whatever path the name denotes (a known temporary, a fragment or fragment temp of a
    -- target graph, the manifest, the checkpoint) or is simply a stray; `*.tmp` names read as temporaries
    let path := parseFPath codec targets name
    ({ st with fs := st.fs.set path (if name.endsWith ".tmp" then .tmp else .junk) }, "ok")
  | ["straydir", _] => (st, "ok")   -- directories hold no data: the resume-time walk skips them
  | ["torn"] => (st, "ok")
  | [verb, i] =>
    if verb == "corrupt" || verb == "rmfrag" then
      match i.toNat? with
      | some i =>
        match (fragPathsSorted codec st.fs)[i]? with
        | some (name, p) =>
          if verb == "rmfrag" then ({ st with fs := st.fs.remove p }, "ok " ++ name)
          else ({ st with fs := st.fs.set p .junk }, "ok " ++ name)
        | none => (st, "none")
      | none => (st, "bad-op")
    else (st, "bad-op")
  | ["srcadd", g, id] =>
    match id.toNat? with
    | some id =>
      match Driver.C18.updGraph st.graphs g (fun gr => { gr with nodes := gr.nodes ++ [⟨id, [], "{}"⟩] }) with
      | some gs => ({ st with graphs := gs }, "ok")
      | none => (st, "bad-op")
    | none => (st, "bad-op")
  | ["srcaddedge", g, id, s, t] =>
    match id.toNat?, s.toNat?, t.toNat? with
    | some id, some s, some t =>
      match Driver.C18.updGraph st.graphs g (fun gr => { gr with edges := gr.edges ++ [⟨id, s, t, "R", "{}"⟩] }) with
      | some gs => ({ st with graphs := gs }, "ok")
      | none => (st, "bad-op")
    | _, _, _ => (st, "bad-op")
  | ["srcdelnode", g, id] =>
    match id.toNat?, st.graphs.find? (·.name == g) with
    | some id, some gr =>
      if gr.nodes.any (·.id == id) then
        let firstIdx := (gr.nodes.map (·.id)).idxOf id
        ({ st with graphs := st.graphs.map (fun x => if x.name == g then { x with nodes := x.nodes.eraseIdx firstIdx } else x) }, "ok")
      else (st, "none")
    | _, _ => (st, "bad-op")
  | ["srcdeledge", g, id] =>
    match id.toNat?, st.graphs.find? (·.name == g) with
    | some id, some gr =>
      if gr.edges.any (·.id == id) then
        let firstIdx := (gr.edges.map (·.id)).idxOf id
        ({ st with graphs := st.graphs.map (fun x => if x.name == g then { x with edges := x.edges.eraseIdx firstIdx } else x) }, "ok")
      else (st, "none")
    | _, _ => (st, "bad-op")
  | ["final"] =>
    let ref := applyOps (dumpOps db ident) []
    (st, if sameFS st.fs ref then "same" else "differ")
  | _ => (st, "bad-op")

def suite : Suite := { σ := St, init := {}, step := step }

end Driver.C19

def Driver.C19.suites : List (String × Driver.Suite) := [("c19", Driver.C19.suite)]
