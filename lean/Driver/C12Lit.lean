import Driver.Proto
import Dawgs.Model.C12Lit
/-! Suites `c12lit` (the array-literal decoder model, compared with pgtype's parser on the literals the real emitters
produce) and `c12litmon` (the round-trip property judged on those literals).  Strings travel hex-encoded (UTF-8).

    decode <literal hex>                -> dec=<hex,hex,…|->     (sorted; `null` for a NULL element; `err` if malformed)
monitor lines:
    delkeys <hex,hex,…|-> => lit=<hex> dec=…     the literal must decode to exactly the deleted keys
    int2 <n,n,…|->        => lit=<hex> dec=…     the literal must decode to exactly the decimal numbers
-/
namespace Driver.C12Lit
open Dawgs.C12Lit

def hexVal (c : Char) : Option Nat :=
  if '0' ≤ c ∧ c ≤ '9' then some (c.toNat - 48) else if 'a' ≤ c ∧ c ≤ 'f' then some (c.toNat - 87) else none

def bytesOfHex : List Char → Option (List UInt8)
  | [] => some []
  | [_] => none
  | a :: b :: rest => do
    let x ← hexVal a
    let y ← hexVal b
    let r ← bytesOfHex rest
    some (UInt8.ofNat (16 * x + y) :: r)

/-- hex of UTF-8 bytes -> code points (`e` is the empty string) -/
def strOfHex (h : String) : Option Str :=
  if h = "e" then some [] else do
    let bs ← bytesOfHex h.toList
    let s ← String.fromUTF8? (ByteArray.mk bs.toArray)
    some (s.toList.map Char.toNat)

def hexDigitChar (n : Nat) : Char := Char.ofNat (if n < 10 then 48 + n else 87 + n)

def hexOfStr (s : Str) : String :=
  if s.isEmpty then "e" else
  let bytes := (String.mk (s.map Char.ofNat)).toUTF8.toList
  String.mk (bytes.flatMap (fun b => [hexDigitChar (b.toNat / 16), hexDigitChar (b.toNat % 16)]))

def elemStr : Option Str → String
  | none => "null"
  | some s => hexOfStr s

def sortStrs (l : List String) : List String := (l.toArray.qsort (· < ·)).toList

def decStr (r : Option (List (Option Str))) : String :=
  match r with
  | none => "dec=err"
  | some es => if es.isEmpty then "dec=-" else "dec=" ++ ",".intercalate (sortStrs (es.map elemStr))

def step (st : Unit) (ts : List String) : Unit × String :=
  match ts with
  | ["decode", h] => match strOfHex h with
      | some lit => (st, decStr (decode lit))
      | none => (st, "bad-op")
  -- unquoted numeric literals: the tokens as text, in order
  | ["decodebare", h] => match strOfHex h with
      | some lit => match decode lit with
        | some es =>
          let toks := es.map (fun e => match e with | some s => String.mk (s.map Char.ofNat) | none => "NULL")
          (st, if toks.isEmpty then "dec=-" else "dec=" ++ ",".intercalate toks)
        | none => (st, "dec=err")
      | none => (st, "bad-op")
  | _ => (st, "bad-op")

def suite : Suite := { σ := Unit, init := (), step := step }

/-! #### monitor -/

def field (t : String) (name : String) : Option String :=
  if t.startsWith (name ++ "=") then some (t.drop (name.length + 1)).toString else none

def parseKeys (s : String) : Option (List Str) := if s = "-" then some [] else (s.splitOn ",").mapM strOfHex

/-- a rune `strconv.Quote` escapes (or may escape) with a Go-only escape sequence -/
def goEscaped (c : Nat) : Bool := c < 32 || c == 127 || c ≥ 128

def monStep (st : Unit) (ts : List String) : Unit × String :=
  let op := ts.takeWhile (· ≠ "=>")
  let out := (ts.dropWhile (· ≠ "=>")).drop 1
  match op, out with
  | ["delkeys", ks], [l, _dec] =>
    match parseKeys ks, (field l "lit").bind strOfHex with
    | some keys, some lit =>
      let want := sortStrs (keys.map hexOfStr)
      match decode lit with
      | some es =>
        let got := sortStrs (es.map elemStr)
        if got == want then (st, "ok")
        else
          -- which key did not survive?
          let lost := keys.filter (fun k => !got.contains (hexOfStr k))
          let cls := if lost.any (fun k => k.any goEscaped) then "go-escape-in-text-array" else "text-array-round-trip"
          (st, s!"reject literal:pgsql.DeletedPropertiesToString:{cls} deleted={",".intercalate want} decoded={",".intercalate got}")
      | none => (st, s!"reject literal:pgsql.DeletedPropertiesToString:text-array-malformed deleted={",".intercalate want}")
    | _, _ => (st, "reject bad-op")
  | ["int2", ns], [l, _dec] =>
    match (field l "lit").bind strOfHex with
    | some lit =>
      let want := if ns = "-" then [] else ns.splitOn ","
      match decode lit with
      | some es =>
        let got := es.map (fun e => match e with | some s => String.mk (s.map Char.ofNat) | none => "NULL")
        if got == want then (st, "ok")
        else (st, s!"reject literal:pg.Int2ArrayEncoder.Encode:int2-array-round-trip sent={ns} decoded={",".intercalate got}")
      | none => (st, s!"reject literal:pg.Int2ArrayEncoder.Encode:int2-array-malformed sent={ns}")
    | none => (st, "reject bad-op")
  | _, _ => (st, "reject bad-output " ++ " ".intercalate out)

def monSuite : Suite := { σ := Unit, init := (), step := monStep }

end Driver.C12Lit

def Driver.C12Lit.suites : List (String × Driver.Suite) :=
  [("c12lit", Driver.C12Lit.suite), ("c12litmon", Driver.C12Lit.monSuite)]
