-- uses-generated
import Driver.Proto
import Driver.Sexp
import Dawgs.Spec.C09
import Driver.C08
/-! C09 model driver. Input line: `tree <sexp> syn=<k>` where the S-expression is the ANTLR parse tree
(N ruleIndex child…); answer: the listener's verdict and error classes from the model, then ` | ` and the
structural judgements used by the monitor. -/
namespace Driver.C09
open Dawgs.C09 Dawgs.C09.Inst Dawgs.Grammar Driver

/-- trees with typed leaves `(L <tokenType> "text")` as in the c08/c07 suites (untyped `(L "text")` still accepted) -/
partial def toTree : Sexp → Option Tree
  | .list (.atom "N" :: .atom r :: kids) => do
    let r ← r.toNat?
    let ks ← kids.mapM toTree
    pure (.node r ks)
  | .list [.atom "L", .atom ty, .str s] => some (.leaf (ty ++ ":" ++ s))
  | .list [.atom "E", .atom ty, .str s] => some (.err (ty ++ ":" ++ s))
  | .list [.atom "L", .str s] => some (.leaf s)
  | .list [.atom "E", .str s] => some (.err s)
  | _ => none

/-- rules reported "not supported" by a method of the ACTIVE visitor (not BaseVisitor's, e.g. AtomVisitor.EnterOC_ShortestPathPattern):
found by walking the tree with the listener model of C08 under the default context (Generated.Visitors.unsupMethods) -/
def visitorUnsup (t : Tree) : List Nat :=
  match Driver.C08.twalk Dawgs.C08.Inst.TD 0 t (Dawgs.C08.Inst.TD.init, {}) with
  | .ok (_, o) => o.vunsup
  | .error _ => []

def forbiddenIdx : List Nat := forbiddenNames.map idx

def ruleName (r : Nat) : String := Dawgs.Generated.Grammar.ruleNames.getD r s!"?{r}"

def step (_ : Unit) (ts : List String) : Unit × String :=
  match ts with
  | [line] =>
    match Sexp.parseLine line with
    | some [.atom "tree", sx, .atom synTok] =>
      match toTree sx, (synTok.drop 4).toString.toNat? with
      | some t, some syn =>
        let rules := t.rules
        let filt := (rules.map T.filterErrCount).foldl (· + ·) 0
        let vuns := visitorUnsup t
        let unsup := rules.flatMap (fun r => List.replicate (T.unsupErrCount r) (ruleName r)) ++ vuns.map ruleName
        let unsupSorted := unsup.toArray.qsort (· < ·) |>.toList
        -- more errors only shrink the accepted set: the theorems of Props/C09.lean are about `T.listenerErrors` and stay valid
        let acc := syn == 0 && (T.listenerErrors t).isEmpty && vuns.isEmpty
        let forb := (rules.filter (forbiddenIdx.contains ·)).eraseDups.map ruleName
        ((), s!"acc={if acc then 1 else 0} filt={filt} unsup=[{",".intercalate unsupSorted}] | wf={if t.wf refs then 1 else 0} conforms={if t.conforms must then 1 else 0} root={t.rootRule.getD 999} forbidden=[{",".intercalate forb}]")
      | _, _ => ((), "bad-op")
    | _ => ((), "bad-op")
  | _ => ((), "bad-op")

def suite : Suite := { σ := Unit, init := (), step := step, raw := true }
end Driver.C09

def Driver.C09.suites : List (String × Driver.Suite) := [("c09", Driver.C09.suite)]
