import Driver.Proto
import Driver.C13
import Dawgs.Model.C13Roaring
/-! Model driver suite `c13heap`: plain bitmaps with CONTAINER IDENTITY (Model/C13Roaring) — what the value-level
suite `c13` cannot express: after a native in-place `Xor` two bitmaps may share a container, so that an `Add`/`Remove`
on one shows up in the other. Ops (answers as in Driver/C13): `reset`, `new <x> b32|b64`, `add`, `addrange`, `remove`,
`xor <x> <y>`, `slice <x>`, `card <x>`. -/
namespace Driver.C13Heap
open Dawgs.C13 Dawgs.C13.Roaring Driver.C13

structure St where
  w : World := {}
  names : List (String × Nat × Width) := []
  dead : Bool := false

def St.get (st : St) (x : String) : Option (Nat × Width) := st.names.lookup x

def mutate (st : St) (x : String) (f : Width → World → Nat → World) : St × String :=
  match st.get x with
  | some (b, wd) =>
    let w' := f wd st.w b
    ({ st with w := w' }, "ok " ++ obs (den wd w' b))
  | none => (st, "bad-op")

def step (st : St) (ts : List String) : St × String :=
  if st.dead && ts != ["reset"] then (st, "skipped") else
  match ts with
  | ["reset"] => ({}, "ok")
  | ["mode", _] => (st, "ok")
  | ["new", x, k] =>
    if (st.get x).isSome then (st, "bad-op") else
    match k with
    | "b32" => ({ st with w := st.w.new st.names.length, names := st.names ++ [(x, st.names.length, .w32)] }, "ok")
    | "b64" => ({ st with w := st.w.new st.names.length, names := st.names ++ [(x, st.names.length, .w64)] }, "ok")
    | _ => (st, "bad-op")
  | "add" :: x :: vs => match parseNats vs, st.get x with
    | some vs, some (_, wd) => if vs.all (· < limit wd) then mutate st x (fun wd w b => addMany wd w b vs) else (st, "bad-op")
    | _, _ => (st, "bad-op")
  | ["addrange", x, lo, n, stp] => match lo.toNat?, n.toNat?, stp.toNat?, st.get x with
    | some lo, some n, some stp, some (_, wd) =>
      if stp ≥ 1 && lo + n * stp < limit wd then mutate st x (fun wd w b => addMany wd w b (rangeList lo stp n)) else (st, "bad-op")
    | _, _, _, _ => (st, "bad-op")
  | ["remove", x, v] => match v.toNat? with
    | some v => mutate st x (fun wd w b => remove wd w b v)
    | none => (st, "bad-op")
  | ["slice", x] => match st.get x with
    | some (b, wd) => (st, obs (den wd st.w b))
    | none => (st, "bad-op")
  | ["card", x] => match st.get x with
    | some (b, wd) => (st, toString (den wd st.w b).length)
    | none => (st, "bad-op")
  | ["xor", x, y] => match st.get x, st.get y with
    | some (b1, w1), some (b2, w2) =>
      if w1 != w2 then (st, "bad-op") else
      match xor w1 st.w b1 b2 with
      | some w' => ({ st with w := w' }, "ok " ++ obs (den w1 w' b1) ++ " | " ++ obs (den w1 w' b2))
      | none => ({ st with dead := true }, "panic index-out-of-range")
    | _, _ => (st, "bad-op")
  | _ => (st, "bad-op")

def suite : Suite := { σ := St, init := {}, step := step }
end Driver.C13Heap

def Driver.C13Heap.suites : List (String × Driver.Suite) := [("c13heap", Driver.C13Heap.suite)]
