-- uses-generated
import Driver.Proto
import Driver.Sexp
import Dawgs.Spec.C08
/-! C08 model driver. Input line: `tree <sexp> nsyn=<k> nother=<k> dsyn=<k> dother=<k>` where the S-expression is the
ANTLR parse tree `(N rule child…)` with typed leaves `(L <tokenType> "text")` / `(E <tokenType> "text")`, or `blank`.
Answer: outcome classes of the listener model for frontend.NewContext() (n) and DefaultCypherContext() (d), the
unsupported-rule / filter errors (C09 error model on the same method table), the FNV-1a trace of the visitor stack at
every rule entry; then ` | ` and structural judgements used by the monitor. -/
namespace Driver.C08
open Dawgs.C08 Dawgs.C08.Inst Dawgs.Grammar Driver

partial def toTree : Sexp → Option Tree
  | .list (.atom "N" :: .atom r :: kids) => do
    let r ← r.toNat?
    let ks ← kids.mapM toTree
    pure (.node r ks)
  | .list [.atom "L", .atom ty, .str s] => some (.leaf (ty ++ ":" ++ s))
  | .list [.atom "E", .atom ty, .str s] => some (.err (ty ++ ":" ++ s))
  | _ => none

def ruleName (r : Nat) : String := Dawgs.Generated.Grammar.ruleNames.getD r s!"?{r}"
def typeName (v : Nat) : String := Dawgs.Generated.Visitors.typeNames.getD v s!"?{v}"

def fnvAdd (h : UInt64) (s : String) : UInt64 :=
  s.toUTF8.foldl (fun h b => (h ^^^ b.toUInt64) * 1099511628211) h

structure Obs where
  hash : UInt64 := 14695981039346656037
  events : Nat := 0
  max : Nat := 0
  flags : List Bool := [false]     -- per stack frame (head = top): one of the frame's OWN non-empty methods ran
  empties : List String := []      -- popped frames that never ran an own method although their node had rule children
  vunsup : List Nat := []          -- rules reported "not supported" by a method of the ACTIVE visitor (not BaseVisitor's)
  mis : Nat := 0                   -- CurrentPart() calls that returned a part already closed by a WITH
  cnts : List Cnt := [{ len := 0, idx := 0 }]   -- per stack frame (head = top): Parts / partIdx counters of that visitor instance

def ownMethod (tab : List (List (Nat × Bool × Bool × Bool))) (V r : Nat) : Bool :=
  (tab.getD r []).any (fun m => m.1 == V && !m.2.2.1)

def setFlag : List Bool → Nat → List Bool
  | [], _ => []
  | _ :: fs, 0 => true :: fs
  | f :: fs, n + 1 => f :: setFlag fs n

def partsTypes : List Nat := (PT.map (·.1)).eraseDups

/-- what the Go code does: only `CurrentPart()` on an EMPTY slice panics; an access while len ≠ idx + 1 silently returns
the previous, already closed part (counted in `mis`) -/
def runOpsGo : Cnt × Nat → List Nat → Except String (Cnt × Nat)
  | s, [] => .ok s
  | (c, mis), op :: ops =>
    if op == 1 && c.len != 0 && c.len != c.idx + 1 then runOpsGo (c, mis + 1) ops
    else match runOp c op with
      | .ok c' => runOpsGo (c', mis) ops
      | .error e => .error e

def applyAt (cs : List Cnt) (i : Nat) (ops : List Nat) : Except String (List Cnt × Nat) :=
  match cs.drop i with
  | c :: rest => (runOpsGo (c, 0) ops).map (fun p => (cs.take i ++ p.1 :: rest, p.2))
  | [] => .ok (cs, 0)

def hex16 (n : UInt64) : String :=
  let ds := (Nat.toDigits 16 n.toNat)
  String.ofList (List.replicate (16 - ds.length) '0' ++ ds)

mutual
/-- `nth`: how many earlier siblings have the same rule (a visitor instance counts the rule nodes it meets at its own depth) -/
partial def twalk (T : Tables) (nth : Nat) : Tree → St × Obs → Except String (St × Obs)
  | .node r kids, (st, o) =>
    -- probe: stack snapshot before EnterEveryRule touches it (bottom … top)
    let snap := toString r ++ ":" ++ String.join ((st.stack.zip o.cnts).reverse.map (fun p =>
      typeName p.1.1 ++ "/" ++ toString p.1.2 ++ (if partsTypes.contains p.1.1 then "#" ++ toString p.2.len ++ "/" ++ toString p.2.idx else "") ++ ",")) ++ ";"
    let o := { o with hash := fnvAdd o.hash snap, events := o.events + 1, max := Nat.max o.max st.stack.length }
    let topV := (st.stack.headD (0, 0)).1
    let o := if ownMethod T.enterM topV r then { o with flags := setFlag o.flags 0 } else o
    let o := if T.unsupM.contains (topV, r) || (nth ≥ 1 && T.unsupAfter.contains (topV, r)) then { o with vunsup := o.vunsup ++ [r] } else o
    -- the Enter method's bookkeeping on the active instance's Parts / partIdx
    match applyAt o.cnts 0 (PT.ops topV r true) with
    | .error e => .error e
    | .ok (cs, m) =>
    let o := { o with cnts := cs, mis := o.mis + m }
    match T.enterRule r kids st with
    | .error e => .error e
    | .ok st1 =>
      let pushed := st1.stack.length > st.stack.length
      let o := if pushed then { o with flags := false :: o.flags, cnts := { len := 0, idx := 0 } :: o.cnts } else o
      match twalkL T [] kids (st1, o) with
      | .error e => .error e
      | .ok (st2, o) =>
        -- which frame receives ExitOC_r (as in ExitEveryRule)
        let idx := match st2.stack with
          | (_, d) :: _ => if d == 0 then 1 else 0
          | [] => 0
        let curV := ((st2.stack.drop idx).headD (0, 0)).1
        let o := if ownMethod T.exitM curV r then { o with flags := setFlag o.flags idx } else o
        match applyAt o.cnts idx (PT.ops curV r false) with
        | .error e => .error e
        | .ok (cs, m) =>
        let o := { o with cnts := cs, mis := o.mis + m }
        match T.exitRule r kids st2 with
        | .error e => .error e
        | .ok st3 =>
          let o := if st3.stack.length < st2.stack.length then { o with cnts := o.cnts.drop 1 } else o
          if st3.stack.length < st2.stack.length then
            let touched := o.flags.headD true
            let poppedV := (st2.stack.headD (0, 0)).1
            let firstKid := (kids.filterMap Tree.rootRule).head?
            let o := { o with flags := o.flags.drop 1 }
            match touched, firstKid with
            | false, some k => .ok (st3, { o with empties := o.empties ++ [typeName poppedV ++ "@" ++ ruleName k] })
            | _, _ => .ok (st3, o)
          else .ok (st3, o)
  | .leaf _, (st, o) => (visitLeaf st).map (fun s => (s, o))
  | .err _, (st, o) => (visitLeaf st).map (fun s => (s, o))
partial def twalkL (T : Tables) (seen : List Nat) : List Tree → St × Obs → Except String (St × Obs)
  | [], s => .ok s
  | t :: ts, s =>
    let r := t.rootRule
    match twalk T (match r with | some x => seen.count x | none => 0) t s with
    | .error e => .error e
    | .ok s1 => twalkL T (match r with | some x => x :: seen | none => seen) ts s1
end

def field (toks : List Sexp) (name : String) : Nat :=
  (toks.findSome? (fun s => match s with
    | .atom a => if a.startsWith (name ++ "=") then (a.drop (name.length + 1)).toString.toNat? else none
    | _ => none)).getD 0

def sortedNames (xs : List String) : String := ",".intercalate (xs.toArray.qsort (· < ·)).toList

def cls (panicked : Bool) (errs : Nat) (nonNil : Bool) : String :=
  if panicked then "panic" else if errs > 0 then "err" else if nonNil then "ok" else "nilnil"

def qkind (t : Tree) : String :=
  -- rule of the first rule child of the first oC_Query node on the leftmost-rule spine from the root
  let rec go (fuel : Nat) (t : Tree) : String :=
    match fuel, t with
    | 0, _ => "none"
    | f + 1, .node r kids =>
      if ruleName r == "oC_Query" then
        match (kids.filterMap Tree.rootRule).head? with
        | some k => ruleName k
        | none => "none"
      else
        match kids.find? (fun k => k.rootRule.isSome && (match k with | .node r' _ => ruleName r' != "oC_QueryOptions" | _ => false)) with
        | some k => go f k
        | none => "none"
    | _, _ => "none"
  go 6 t

def step (_ : Unit) (ts : List String) : Unit × String :=
  match ts with
  | [line] =>
    if line.trimAscii.toString == "blank" then ((), "n=err/1 d=err/1 nunsup=[] dfilt=0 dunsup=[] trace=cbf29ce484222325:0:0 | blank") else
    match Sexp.parseLine line with
    | some (.atom "tree" :: sx :: rest) =>
      match toTree sx with
      | some t =>
        let nsyn := field rest "nsyn"; let nother := field rest "nother"
        let dsyn := field rest "dsyn"; let dother := field rest "dother"
        let rules := t.rules
        -- observer walk (same step functions) for the trace, with the probe as the only filter
        let TP : Tables := { T with filters := [0] }   -- the probe embeds BaseVisitor: inert
        let tr := twalk TP 0 t (TP.init, {})
        let vuns := match tr with | .ok (_, o) => o.vunsup.map ruleName | .error _ => []
        let mis := match tr with | .ok (_, o) => o.mis | .error _ => 0
        let nunsup := rules.flatMap (fun r => List.replicate (E.unsupErrCount r) (ruleName r)) ++ vuns
        let dunsup := rules.flatMap (fun r => List.replicate (ED.unsupErrCount r) (ruleName r)) ++ vuns
        let dfilt := (rules.map ED.filterErrCount).foldl (· + ·) 0
        -- the proven model
        let rn := T.run t
        let rd := TD.run t
        let nNonNil := T.modelNonNil t
        let dNonNil := TD.modelNonNil t
        let ppanic := match tr with | .error _ => true | .ok _ => false   -- CurrentPart() on an empty Parts slice
        let npanic := (match rn with | .error _ => true | .ok _ => false) || ppanic
        let dpanic := (match rd with | .error _ => true | .ok _ => false) || ppanic
        -- the denotational counter machine (the proven one) must agree with the stack-aligned one
        let pden := match T.pwalk PT T.root t { len := 0, idx := 0 } with | .error _ => true | .ok _ => false
        let ppanic' := ppanic || mis > 0
        -- integer literals the visitors cannot read (ParseInt base 10, 64 bit): one recorded error each, whatever the implementation reports
        let badInts := intLiteralErrors (Dawgs.Generated.Grammar.ruleNames.idxOf "oC_IntegerLiteral") t
        let nerrs := nsyn + nother + nunsup.length + badInts
        let derrs := dsyn + dother + dunsup.length + dfilt + badInts
        let (trace, empties, why) := match tr with
          | .ok (_, o) => (s!"{hex16 o.hash}:{o.events}:{o.max}", o.empties, "")
          | .error e => ("panic", [], e)
        let steps := match rn with | .ok st => st.steps | .error _ => 0
        let stepsOk := steps ≤ 4 * size t
        let nn (b : Bool) : String := if b then "0" else "1"
        ((), s!"n={cls npanic nerrs nNonNil}/{nn nNonNil} d={cls dpanic derrs dNonNil}/{nn dNonNil} nunsup=[{sortedNames nunsup}] dfilt={dfilt} dunsup=[{sortedNames dunsup}] trace={trace} | wf={if t.wf refs then 1 else 0} conforms={if t.conforms must then 1 else 0} root={t.rootRule.getD 999} qkind={qkind t} reaches={if T.reaches t then 1 else 0} empty=[{",".intercalate empties.eraseDups}] steps_ok={if stepsOk then 1 else 0} misattached={mis} parts_agree={if pden == ppanic' then 1 else 0} size={size t} why={why.replace " " "_"}")
      | none => ((), "bad-op")
    | _ => ((), "bad-op")
  | _ => ((), "bad-op")

def suite : Suite := { σ := Unit, init := (), step := step, raw := true }
end Driver.C08

def Driver.C08.suites : List (String × Driver.Suite) := [("c08", Driver.C08.suite)]
