-- uses-generated
import Driver.Proto
import Dawgs.Spec.C12
import Dawgs.Generated.C12Consumers
/-! Suite `c12cons`: one answer line per regenerated consumer path, `<path> <reads> <ok|gap class>` — the classification
of Dawgs/Spec/C12.lean (`pathOk`, `pathGap`) evaluated on the table extracted from drivers/**/*.go.  Input line
`path <i>` answers row i (`end` past the table). -/
namespace Driver.C12Cons
open Dawgs.C12 Dawgs.Generated

def step (st : Unit) (ts : List String) : Unit × String :=
  match ts with
  | ["path", i] => match i.toNat? with
      | some i => match C12Consumers.paths[i]? with
        | some p => (st, s!"{p.1} {",".intercalate (p.2.map toString)} {if pathOk p.2 then "ok" else pathGap p.2}")
        | none => (st, "end")
      | none => (st, "bad-op")
  | _ => (st, "bad-op")

def suite : Suite := { σ := Unit, init := (), step := step }
end Driver.C12Cons

def Driver.C12Cons.suites : List (String × Driver.Suite) := [("c12cons", Driver.C12Cons.suite)]
