/-! Helpers shared by the C14 model driver and monitor: FNV-1a digests of canonical projection views. -/
namespace Driver.UtilC14

def fnv64 (s : String) : UInt64 :=
  s.toUTF8.foldl (fun h b => (h ^^^ b.toUInt64) * 1099511628211) 14695981039346656037

def hex16 (x : UInt64) : String :=
  let d := "0123456789abcdef".toList
  String.ofList ((List.range 16).map (fun i => d.getD ((x >>> (UInt64.ofNat (60 - 4 * i))).toNat % 16) '?'))

def digest (s : String) : String := hex16 (fnv64 s)

def natL (xs : List Nat) : String := "[" ++ ",".intercalate (xs.map toString) ++ "]"

/-- the canonical view of a projection handle, from its observable pieces -/
def viewOf (numNodes : Nat) (nodes : List Nat) (numEdges : Nat) (edges : List (Nat × Nat × Nat))
    (adj : Nat → String → List Nat) (adjE : Nat → String → List Nat) : String :=
  let head := s!"n={numNodes};N={natL nodes};m={numEdges};E=[{",".intercalate (edges.map (fun e => s!"{e.1}:{e.2.1}:{e.2.2}"))}]"
  let per := nodes.flatMap (fun v => ["out", "in", "both"].map (fun d => s!";{d}({v})={natL (adj v d)}/{natL (adjE v d)}"))
  head ++ String.join per

def argsOf (argN argE : List Nat) : String := s!"aN={natL argN};aE={natL argE}"

def sortNames (xs : List String) : List String := (xs.toArray.qsort (· < ·)).toList

end Driver.UtilC14
