import Driver.Proto
import Dawgs.Spec.C16
/-! Monitor for C16: judges the implementation's observable trace with the spec `A` (ideal map,
capacity bound, size statistic). Input lines are `<op> => <implementation answer>`. -/
namespace Driver.C16Mon
open Dawgs.C16

structure St where
  bound : Nat := 0
  ideal : Ideal := []
  count : Option Nat := none     -- entry count of the last dump, if no mutation happened since

def splitArrow (ts : List String) : List String × List String :=
  (ts.takeWhile (· ≠ "=>"), (ts.dropWhile (· ≠ "=>")).drop 1)

def parseEntries (s : String) : Option (List (Nat × Nat)) :=
  if s.isEmpty then some [] else
  (s.splitOn ",").mapM (fun e => match e.splitOn ":" with
    | k :: v :: _ => do some ((← k.toNat?), (← v.toNat?))
    | _ => none)

def field (t : String) (name : String) : Option String :=
  if t.startsWith (name ++ "=") then some (t.drop (name.length + 1)).toString else none

def checkEntries (st : St) (es : List (Nat × Nat)) : Option String :=
  if es.length > st.bound then some s!"over-capacity {es.length}>{st.bound}"
  else if (es.map (·.1)).eraseDups.length != es.length then some "duplicate-key"
  else match es.find? (fun e => st.ideal.get e.1 != some e.2) with
    | some e => some s!"stale-stored key={e.1} val={e.2}"
    | none => none

def step (st : St) (ts : List String) : St × String :=
  let (op, out) := splitArrow ts
  match op, out with
  | ["new", "sieve", c], ["ok"] => match c.toInt? with
      | some c => ({ bound := if c ≤ 0 then 1 else c.toNat }, "ok")
      | none => (st, "reject bad-op")
  | ["new", "nemap", c], ["ok"] => match c.toInt? with
      | some c => ({ bound := c.toNat }, "ok")
      | none => (st, "reject bad-op")
  | ["put", k, v], ["ok"] => match k.toNat?, v.toNat? with
      | some k, some v => ({ st with ideal := st.ideal.put k v, count := none }, "ok")
      | _, _ => (st, "reject bad-op")
  | ["del", k], ["ok"] => match k.toNat? with
      | some k => ({ st with ideal := st.ideal.del k, count := none }, "ok")
      | none => (st, "reject bad-op")
  | ["get", k], ["miss"] => match k.toNat? with
      | some k => if accepts st.ideal (.get k) .miss then (st, "ok") else (st, "reject bad-miss")
      | none => (st, "reject bad-op")
  | ["get", k], ["hit", v] => match k.toNat?, v.toNat? with
      | some k, some v =>
        if accepts st.ideal (.get k) (.hit v) then (st, "ok")
        else (st, s!"reject stale-or-foreign-value get {k} returned {v} ideal={st.ideal.get k}")
      | _, _ => (st, "reject bad-op")
  | ["dump"], [q, _hand] => match (field q "queue").bind parseEntries with
      | some es => match checkEntries st es with
        | some m => (st, "reject " ++ m)
        | none => ({ st with count := some es.length }, "ok")
      | none => (st, "reject bad-dump")
  | ["dump"], [q] => match (field q "store").bind parseEntries with
      | some es => match checkEntries st es with
        | some m => (st, "reject " ++ m)
        | none => ({ st with count := some es.length }, "ok")
      | none => (st, "reject bad-dump")
  | ["dump"], [] => (st, "reject bad-dump")
  | ["comb"], _ :: sz :: _ => match (field sz "size").bind String.toInt?, st.count with
      -- the combined reading counts this cache's stored entries plus the peer's two
      | some n, some c => if n == (c : Int) + 2 then (st, "ok") else (st, s!"reject combined-size-mismatch stat={n} stored={c}+2")
      | some _, none => (st, "ok")
      | none, _ => (st, "reject bad-comb")
  | ["stats"], sz :: _ => match (field sz "size").bind String.toInt? with
      | some n =>
        if n > st.bound then (st, s!"reject size-stat-over-capacity {n}>{st.bound}")
        else match st.count with
          | some c => if n == c then (st, "ok") else (st, s!"reject size-stat-mismatch stat={n} stored={c}")
          | none => (st, "ok")
      | none => (st, "reject bad-stats")
  | _, _ => (st, "reject bad-output " ++ " ".intercalate out)

def suite : Suite := { σ := St, init := {}, step := step }
end Driver.C16Mon

def Driver.C16Mon.suites : List (String × Driver.Suite) := [("c16mon", Driver.C16Mon.suite)]
