/-
Line protocol plumbing shared by every suite of the model driver (core Lean only).
One operation per input line, one answer line per input line. Lines starting with `#` are comments
(answered with an empty `#` line so that streams stay aligned).
-/
namespace Driver

def tokens (line : String) : List String :=
  (line.splitOn " ").filter (· ≠ "") |>.map (fun s => (s.replace "\n" "").replace "\r" "")
    |>.filter (· ≠ "")

def natList (xs : List Nat) : String := "[" ++ ",".intercalate (xs.map toString) ++ "]"
def intList (xs : List Int) : String := "[" ++ ",".intercalate (xs.map toString) ++ "]"

def parseNats (ts : List String) : Option (List Nat) := ts.mapM String.toNat?
def parseInts (ts : List String) : Option (List Int) := ts.mapM String.toInt?

/-- A suite: initial state and a step function over tokenised lines. -/
structure Suite where
  σ : Type
  init : σ
  step : σ → List String → σ × String
  /-- when true, `step` receives the whole line (newline stripped) as a single token -/
  raw : Bool := false

partial def loop (h : IO.FS.Stream) (out : IO.FS.Stream) (s : Suite) (st : s.σ) : IO Unit := do
  let line ← h.getLine
  if line.isEmpty then
    out.flush
    return ()
  let ts := tokens line
  match ts with
  | [] => out.putStrLn "#"; loop h out s st
  | t :: _ =>
    if t.startsWith "#" then
      out.putStrLn "#"; loop h out s st
    else
      let (st', o) := s.step st (if s.raw then [(line.replace "\n" "").replace "\r" ""] else ts)
      out.putStrLn o
      loop h out s st'

end Driver
