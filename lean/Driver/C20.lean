import Driver.Proto
import Dawgs.Model.C20
/-! Model driver for C20: `c20path` (sanitizeArchivePath) and `c20frames` (frame protocol over the symbolic AEAD). -/
namespace Driver.C20
open Dawgs.C20

def hexVal (c : Char) : Option Nat :=
  if '0' ≤ c ∧ c ≤ '9' then some (c.toNat - '0'.toNat)
  else if 'a' ≤ c ∧ c ≤ 'f' then some (c.toNat - 'a'.toNat + 10)
  else if 'A' ≤ c ∧ c ≤ 'F' then some (c.toNat - 'A'.toNat + 10)
  else none

def hexBytes : List Char → Option (List UInt8)
  | [] => some []
  | [_] => none
  | a :: b :: rest => do
    let x ← hexVal a
    let y ← hexVal b
    let r ← hexBytes rest
    pure (UInt8.ofNat (16 * x + y) :: r)

/-- hex of UTF-8 bytes → characters; `none` when the hex is malformed or the bytes are not valid UTF-8 -/
def hexToStr (h : String) : Option Str := do
  let bs ← hexBytes h.toList
  let s ← String.fromUTF8? (ByteArray.mk bs.toArray)
  pure s.toList

def hexDigit (n : Nat) : Char := if n < 10 then Char.ofNat (48 + n) else Char.ofNat (87 + n)

def strToHex (s : Str) : String :=
  String.ofList ((String.ofList s).toUTF8.toList.flatMap (fun b => [hexDigit (b.toNat / 16), hexDigit (b.toNat % 16)]))

def pathAnswer (n : Str) : String :=
  match sanitize n with
  | .ok p => "ok " ++ strToHex p
  | .error e => "err " ++ e.name

def stepPath (_ : Unit) (ts : List String) : Unit × String :=
  match ts with
  | ["path"] => ((), pathAnswer [])
  | ["path", h] => match hexToStr h with
    | some n => ((), pathAnswer n)
    | none => ((), "unmodelled invalid-utf8")
  | ["canon"] => ((), "rejected")
  | ["canon", h] => match hexToStr h with
    | some n => match sanitize n with
      | .error _ => ((), "rejected")
      | .ok p => ((), if p = n then "canonical" else "respelled")
    | none => ((), "unmodelled invalid-utf8")
  | ["clean"] => ((), "= " ++ strToHex (pathClean []))
  | ["clean", h] => match hexToStr h with
    | some n => ((), "= " ++ strToHex (pathClean n))
    | none => ((), "unmodelled invalid-utf8")
  | ["join", o] => match hexToStr o with
    | some out => ((), "= " ++ strToHex (joinOut out []))
    | none => ((), "unmodelled invalid-utf8")
  | ["join", o, h] => match hexToStr o, hexToStr h with
    | some out, some n => ((), "= " ++ strToHex (joinOut out n))
    | _, _ => ((), "unmodelled invalid-utf8")
  | _ => ((), "bad-op")

/-! ### frames: archives A (key 1, header hash 1, chunks A0 A1 A2) and B (key 2, header hash 2, chunks B0 B1),
both written to the same recipient; `Am` is A's header re-encoded (same key 1, header hash 3); the wrong
identity yields key 0 whatever the header. -/

abbrev SC := Nat × Aad Nat × Bytes
def sym : Aead Nat (Aad Nat) SC := symAead Nat (Aad Nat)

def chunk (s : String) : Bytes := s.toList.map Char.toNat
def chunksA : List Bytes := [chunk "A0", chunk "A1", chunk "A2"]
def chunksB : List Bytes := [chunk "B0", chunk "B1"]
def framesA : List (Frame SC) := writeFrames sym 1 1 chunksA
def framesB : List (Frame SC) := writeFrames sym 2 2 chunksB

/-- an inserted frame nobody sealed: `z<type>.<n>`; its ciphertext is under a key no reader has -/
def insertedFrame (tok : String) : Option (Frame SC) :=
  match (tok.drop 1).toString.splitOn "." with
  | [t, n] => match t.toNat?, n.toNat? with
    | some t, some n => some ⟨t, (99, ⟨0, 0, 0⟩, List.replicate n 0)⟩
    | _, _ => none
  | _ => none

def baseFrame (tok : List Char) : Option (Frame SC) :=
  match tok with
  | ['a', 'f'] => framesA.getLast?
  | ['b', 'f'] => framesB.getLast?
  | ['a', d] => if '0' ≤ d ∧ d ≤ '2' then framesA[d.toNat - 48]? else none
  | ['b', d] => if '0' ≤ d ∧ d ≤ '1' then framesB[d.toNat - 48]? else none
  | _ => none

/-- parse the script into complete frames and the tail -/
def parseScript : List String → Option (List (Frame SC) × Tail)
  | [] => some ([], .clean)
  | [t] =>
    match t.toList with
    | ['j'] => some ([], .partialHeader)
    | 't' :: rest => (baseFrame rest).map (fun _ => ([], Tail.partialBody))
    | 'z' :: _ => (insertedFrame t).map (fun f => ([f], Tail.clean))
    | 'x' :: rest => (baseFrame rest).map (fun f => ([{ f with typ := if f.typ = 0 then 1 else 0 }], Tail.clean))
    | 'y' :: rest => (baseFrame rest).map (fun f => ([{ f with typ := 7 }], Tail.clean))
    | tok => (baseFrame tok).map (fun f => ([f], Tail.clean))
  | t :: ts =>
    let f? := match t.toList with
      | 'x' :: rest => (baseFrame rest).map (fun f => { f with typ := if f.typ = 0 then 1 else 0 })
      | 'y' :: rest => (baseFrame rest).map (fun f => { f with typ := 7 })
      | 'j' :: _ => none
      | 't' :: _ => none
      | 'z' :: _ => insertedFrame t
      | tok => baseFrame tok
    match f?, parseScript ts with
    | some f, some (fs, tail) => some (f :: fs, tail)
    | _, _ => none

def chunkName (b : Bytes) : String := String.ofList (b.map Char.ofNat)

def probeOf (beh : String) : Probe := if beh = "zero" then zeroProbe else directProbe

def framesAnswer (probe : Probe) (hdr key : String) (script : List String) : String :=
    let hk : Option (Nat × Nat) := match hdr with
      | "A" => some (1, 1) | "B" => some (2, 2) | "Am" => some (3, 1) | _ => none
    let kOk : Option Bool := match key with | "R" => some true | "W" => some false | _ => none
    match hk, kOk, parseScript script with
    | some (hh, k), some right, some (fs, tail) =>
      match readFramesVia sym (if right then k else 0) hh probe 0 fs tail with
      | .ok ps => if ps.isEmpty then "ok -" else "ok " ++ ".".intercalate (ps.map chunkName)
      | .error e => "err " ++ e.name
    | _, _, _ => "bad-op"

def stepFrames (_ : Unit) (ts : List String) : Unit × String :=
  match ts with
  | "framesr" :: beh :: hdr :: key :: script =>
    if ¬ ["plain", "dataerr", "onebyte", "half", "zero", "timeout"].contains beh then ((), "bad-op")
    else
      let ans := framesAnswer (probeOf beh) hdr key script
      -- a transient read error (second Read call) aborts the reader wherever it strikes
      ((), if beh = "timeout" ∧ ans ≠ "bad-op" then "err transient" else ans)
  | "frames" :: hdr :: key :: script =>
    let hk : Option (Nat × Nat) := match hdr with
      | "A" => some (1, 1) | "B" => some (2, 2) | "Am" => some (3, 1) | _ => none
    let kOk : Option Bool := match key with | "R" => some true | "W" => some false | _ => none
    match hk, kOk, parseScript script with
    | some (hh, k), some right, some (fs, tail) =>
      match readFrames sym (if right then k else 0) hh 0 fs tail with
      | .ok ps => ((), if ps.isEmpty then "ok -" else "ok " ++ ".".intercalate (ps.map chunkName))
      | .error e => ((), "err " ++ e.name)
    | _, _, _ => ((), "bad-op")
  | _ => ((), "bad-op")

def pathSuite : Suite := { σ := Unit, init := (), step := stepPath }
def framesSuite : Suite := { σ := Unit, init := (), step := stepFrames }

end Driver.C20

def Driver.C20.suites : List (String × Driver.Suite) :=
  [("c20path", Driver.C20.pathSuite), ("c20frames", Driver.C20.framesSuite)]
