import Driver.Proto
import Driver.C18
import Dawgs.Spec.C18
/-! Monitor for C18 (`c18mon`): judges the raw observations of the real Dump / Load / Verify written by
the harness suite `obs18`. Input lines are `<op> => <observation>`; answers are `ok …` or
`reject <class> <detail>`. -/
namespace Driver.C18Mon
open Dawgs.C18 Dawgs.C18.Spec

structure SrcG where
  g : MGraph
  nodeIds : List Nat := []
  edgeKeys : List (Nat × String) := []     -- relationship id, "src>dst"
deriving Inhabited

structure St where
  src : List SrcG := []
  codec : String := ""
  shard : Nat := 0
  dumped : Bool := false
  loaded : Option (List MGraph) := none
  fresh : Bool := false        -- `loaded` reflects the current destination database
  mutated : Bool := false

def splitArrow (ts : List String) : List String × List String :=
  (ts.takeWhile (· ≠ "=>"), (ts.dropWhile (· ≠ "=>")).drop 1)

def parseKinds (t : String) : List String := if t == "-" || t == "" then [] else t.splitOn ","
/-- source property text as the monitor compares it with the loaded one: the Go types the loader must produce -/
def normProps (t : String) : String := loadText (if t == "-" then "{}" else t)
def normKind (t : String) : String := if t == "-" then "" else t

def updSrc (st : St) (name : String) (f : SrcG → SrcG) : Option St :=
  if st.src.any (·.g.name == name) then some { st with src := st.src.map (fun s => if s.g.name == name then f s else s) }
  else none

def sortNat (xs : List Nat) : List Nat := xs.mergeSort (fun a b => decide (a ≤ b))

/-- parse `G name nc ec (F …12 fields…)* … L names… M entries…` -/
structure GObs where
  name : String
  nodeCount : Nat
  edgeCount : Nat
  files : List FileObs := []

structure DumpObs where
  graphs : List GObs := []
  listing : List String := []
  metrics : List String := []

partial def parseDump (ts : List String) (acc : DumpObs) : Option DumpObs :=
  match ts with
  | [] => some acc
  | "G" :: name :: nc :: ec :: rest => do
    let nc ← nc.toNat?
    let ec ← ec.toNat?
    parseDump rest { acc with graphs := acc.graphs ++ [{ name := name, nodeCount := nc, edgeCount := ec }] }
  | "F" :: ph :: path :: cnt :: cb :: ub :: sha :: "|" :: ex :: sz :: osha :: ocnt :: oub :: ids :: rest => do
    let f : FileObs := { phase := ph, path := path, count := ← cnt.toNat?, cbytes := ← cb.toNat?, ubytes := ← ub.toNat?, sha := sha,
                         obsExists := ex == "1", obsSize := ← sz.toNat?, obsSha := osha, obsCount := ← ocnt.toNat?,
                         obsUBytes := ← oub.toNat?, ids := ids }
    match acc.graphs.reverse with
    | [] => none
    | g :: gs => parseDump rest { acc with graphs := (({ g with files := g.files ++ [f] }) :: gs).reverse }
  | "L" :: rest =>
    let names := rest.takeWhile (· ≠ "M")
    let ms := (rest.dropWhile (· ≠ "M")).drop 1
    some { acc with listing := names, metrics := ms }
  | _ => none

partial def parseLoaded (ts : List String) (acc : List MGraph) : Option (List MGraph) :=
  match ts with
  | [] => some acc
  | "G" :: name :: rest => parseLoaded rest (acc ++ [{ name := name, nodes := [], edges := [] }])
  | "N" :: n :: ks :: props :: rest =>
    match acc.reverse with
    | [] => none
    | g :: gs => parseLoaded rest (({ g with nodes := g.nodes ++ [(n, parseKinds ks, props)] }) :: gs).reverse
  | "E" :: s :: t :: k :: props :: rest =>
    match acc.reverse with
    | [] => none
    | g :: gs => parseLoaded rest (({ g with edges := g.edges ++ [(s, t, normKind k, props)] }) :: gs).reverse
  | _ => none

def field (t name : String) : Option String :=
  if t.startsWith (name ++ "=") then some (t.drop (name.length + 1)).toString else none

def firstSome {α : Type} (xs : List α) (f : α → Option String) : Option String :=
  xs.foldl (fun acc x => match acc with | some m => some m | none => f x) none

def checkGraphDump (st : St) (s : SrcG) (g : GObs) : Option String :=
  let nodeFiles := g.files.filter (·.phase == "nodes")
  let edgeFiles := g.files.filter (·.phase == "edges")
  let expNodeIds := "+".intercalate ((sortNat s.nodeIds).map toString)
  let expEdgeIds := "+".intercalate ((s.edgeKeys.mergeSort (fun a b => decide (a.1 ≤ b.1))).map (·.2))
  let sum (fs : List FileObs) := (fs.map (·.count)).foldl (· + ·) 0
  let expPaths (ph : Phase) (n : Nat) := (List.range n).map (fun i => Driver.C18.renderPath st.codec ⟨g.name, ph, i + 1⟩)
  if g.name != s.g.name then some s!"graph-order expected {s.g.name} got {g.name}"
  else match firstSome g.files FileObs.describes with
  | some m => some ("manifest-file-mismatch " ++ m)
  | none =>
    if g.files.map (·.phase) != nodeFiles.map (·.phase) ++ edgeFiles.map (·.phase) then some "node-file-after-edge-file"
    else if g.files.any (fun f => f.phase != "nodes" && f.phase != "edges") then some "unknown-phase"
    else match phaseShape st.shard nodeFiles, phaseShape st.shard edgeFiles with
    | some m, _ => some m
    | _, some m => some m
    | none, none =>
      if nodeFiles.map (·.path) != expPaths .nodes nodeFiles.length then some s!"fragment-name nodes {g.name}"
      else if edgeFiles.map (·.path) != expPaths .edges edgeFiles.length then some s!"fragment-name edges {g.name}"
      else if joinIds nodeFiles != expNodeIds then some s!"nodes-not-exactly-once-in-id-order {g.name} got={joinIds nodeFiles} want={expNodeIds}"
      else if joinIds edgeFiles != expEdgeIds then some s!"edges-not-exactly-once-in-id-order {g.name} got={joinIds edgeFiles} want={expEdgeIds}"
      else if g.nodeCount != sum nodeFiles || g.nodeCount != s.nodeIds.length then
        some s!"manifest-count nodes {g.name} manifest={g.nodeCount} files={sum nodeFiles} source={s.nodeIds.length}"
      else if g.edgeCount != sum edgeFiles || g.edgeCount != s.edgeKeys.length then
        some s!"manifest-count edges {g.name} manifest={g.edgeCount} files={sum edgeFiles} source={s.edgeKeys.length}"
      else none

def checkDump (st : St) (d : DumpObs) : Option String :=
  if d.graphs.length != st.src.length then some s!"graph-count {d.graphs.length}!={st.src.length}"
  else match firstSome (st.src.zip d.graphs) (fun (s, g) => checkGraphDump st s g) with
  | some m => some m
  | none =>
    let expected := ("manifest.json" :: (d.graphs.map (fun g => g.files.map (·.path))).flatten).mergeSort (fun a b => decide (a ≤ b))
    let listing := d.listing.mergeSort (fun a b => decide (a ≤ b))
    if listing != expected then
      match listing.find? (fun n => !expected.contains n) with
      | some n => some s!"stray-file {n}"
      | none => some "listed-file-missing"
    else
      let expM := (st.src.zip d.graphs).map (fun (_, g) => s!"{g.name}/{g.nodeCount}/{g.edgeCount}/1")
      if d.metrics != expM then some s!"metrics-entry got={" ".intercalate d.metrics}" else none

def total (xs : List Nat) : Nat := xs.foldl (· + ·) 0

def judgeDump (st : St) (codec shard sh : String) (rest : List String) : St × String :=
  match shard.toNat?, (field sh "shard").bind String.toNat?, parseDump rest {} with
  | some shard, some sh', some d =>
    let st' := { st with codec := codec, shard := shard, dumped := true, loaded := none, fresh := false, mutated := false }
    if shard != sh' then (st', "reject shard-echo")
    else match checkDump st' d with
      | some m => (st', "reject " ++ m)
      | none => (st', "ok")
  | _, _, _ => (st, "reject bad-dump-observation")

def step (st : St) (ts : List String) : St × String :=
  let (op, out) := splitArrow ts
  match op, out with
  | ["reset"], ["ok"] => ({}, "ok")
  -- scale boundary ops: the re-pointed relationship starts at a node of another kind combination, so an exact
  -- metrics comparison must reject it whatever the size of the graph
  | ["nandump", _], ["nandump", "rejected"] => (st, "ok")
  | ["nandump", _], other => (st, "reject unsupported-float-dumped " ++ " ".intercalate other)
  | ["scale", _], ["ok"] => ({}, "ok")
  | ["scaledump", _], "ok" :: _ => (st, "ok")
  | ["scaleverify"], "ok" :: _ => (st, "ok")
  | ["scaleverify"], ["bad-op"] => (st, "ok")
  | ["scaleverify"], other => (st, "reject scale-verify-rejects-faithful-copy " ++ " ".intercalate other)
  | ["scalemutate"], ["mismatch"] => (st, "ok")
  | ["scalemutate"], "ok" :: rest => (st, "reject verify-accepts-repointed-relationship-at-scale ok " ++ " ".intercalate rest)
  | ["scalemutate"], ["bad-op"] => (st, "ok")
  | ["scalemutate"], other => (st, "reject scale-verify-error " ++ " ".intercalate other)
  | ["graph", name], ["ok"] =>
    if st.src.any (·.g.name == name) then (st, "reject bad-op")
    else ({ st with src := st.src ++ [{ g := { name := name, nodes := [], edges := [] } }] }, "ok")
  | ["node", g, id, ks, props], ["ok"] =>
    match id.toNat? with
    | some idn =>
      match updSrc st g (fun s => { s with g := { s.g with nodes := s.g.nodes ++ [(id, parseKinds ks, normProps props)] }, nodeIds := s.nodeIds ++ [idn] }) with
      | some st' => (st', "ok")
      | none => (st, "reject bad-op")
    | none => (st, "reject bad-op")
  | ["edge", g, id, s, t, kind, props], ["ok"] =>
    match id.toNat? with
    | some idn =>
      match updSrc st g (fun sg => { sg with g := { sg.g with edges := sg.g.edges ++ [(s, t, normKind kind, normProps props)] },
                                              edgeKeys := sg.edgeKeys ++ [(idn, s!"{s}>{t}")] }) with
      | some st' => (st', "ok")
      | none => (st, "reject bad-op")
    | none => (st, "reject bad-op")
  | ["dump", codec, _batch, shard], "ok" :: sh :: _gc :: rest => judgeDump st codec shard sh rest
  -- a dump that was interrupted (crash / read fault) and resumed is judged exactly like an uninterrupted one
  | "idump" :: codec :: _batch :: shard :: _, "ok" :: sh :: _gc :: rest => judgeDump st codec shard sh rest
  -- the property allows a resume to refuse (e.g. the publish-before-record window); there is then no dump to load
  | "idump" :: _, "stuck" :: _ => ({ st with dumped := false, loaded := none, fresh := false }, "ok")
  | "idump" :: _, ["bad-db"] => ({ st with dumped := false, loaded := none, fresh := false }, "ok")
  | ["dump", _, _, _], "err" :: cls => (st, "reject dump-failed " ++ " ".intercalate cls)
  | ["load", _], ["ok", g, n, e] =>
    match (field g "g").bind String.toNat?, (field n "n").bind String.toNat?, (field e "e").bind String.toNat? with
    | some g, some n, some e =>
      let en := total (st.src.map (·.nodeIds.length))
      let ee := total (st.src.map (·.edgeKeys.length))
      if g != st.src.length || n != en || e != ee then (st, s!"reject load-counts g={g} n={n} e={e} expected g={st.src.length} n={en} e={ee}")
      else ({ st with mutated := false, fresh := false }, "ok")
    | _, _, _ => (st, "reject bad-load-observation")
  | ["load", _], ["bad-op"] => if st.dumped then (st, "reject bad-output bad-op") else (st, "ok")
  | ["loaded"], ["none"] => if st.dumped then (st, "reject loaded-missing") else (st, "ok")
  | ["verify", _], ["bad-op"] => if st.dumped then (st, "reject bad-output bad-op") else (st, "ok")
  | ["load", _], "err" :: cls => (st, "reject load-failed " ++ " ".intercalate cls)
  | ["loaded"], "ok" :: rest =>
    match parseLoaded rest [] with
    | none => (st, "reject bad-loaded-observation")
    | some gs =>
      let st' := { st with loaded := some gs, fresh := true }
      if st.mutated then (st', "ok")
      else if gs.length != st.src.length then (st', "reject not-isomorphic graph-count")
      else match firstSome (st.src.zip gs) (fun (s, l) => (sameGraph s.g l).map (fun m => s!"{s.g.name} {m}")) with
        | some m => (st', "reject not-isomorphic " ++ m)
        | none => (st', "ok")
  | "mutate" :: _, ["ok"] => ({ st with mutated := true, fresh := false }, "ok")
  | ["verify", _], ans :: rest =>
    match st.loaded, st.fresh with
    | some gs, true =>
      if gs.length != st.src.length then (st, "ok unjudged") else
      let pairs := st.src.zip gs
      let ms := pairs.map (fun (s, l) => (mMetrics s.g, mMetrics l))
      if ms.any (fun p => p.1.isNone || p.2.isNone) then (st, "ok unjudged") else
      let agree := ms.all (fun p => match p.1, p.2 with | some a, some b => a.agree b | _, _ => false)
      let iso := pairs.all (fun (s, l) => (sameGraph s.g l).isNone)
      if ans == "ok" then
        let n := total (gs.map (·.nodes.length))
        let e := total (gs.map (·.edges.length))
        if !agree then (st, "reject verify-accepts-metrics-mismatch")
        else if rest != [s!"n={n}", s!"e={e}"] then (st, "reject verify-counts " ++ " ".intercalate rest)
        else if iso then (st, "ok") else (st, "ok gap-nonisomorphic-accepted")
      else if ans == "mismatch" then
        if agree then (st, "reject verify-rejects-matching-metrics") else (st, "ok")
      else (st, "reject verify-error " ++ " ".intercalate rest)
    | _, _ => (st, "ok unjudged")
  | _, _ => (st, "reject bad-output " ++ " ".intercalate out)

def suite : Suite := { σ := St, init := {}, step := step }
end Driver.C18Mon

def Driver.C18Mon.suites : List (String × Driver.Suite) := [("c18mon", Driver.C18Mon.suite)]
