import Driver.Proto
import Dawgs.Model.C12Heap
/-! Model driver for C12 (suite `c12`): same line protocol as harness/c12.go, answers
`<ret> | <dump of entity 0> | <dump of entity 1>`.  The model runs the merges of the code as it is; `mode old` (alias
`mode current`, the name used before the fix was committed) switches the rest of the case to the merges before commit
179da67 — only old replay files use it; `mode fixed` switches back.  Properties run in the list model (`St`); the kind
slices run in the heap model (`HSt`, Model/C12Heap.lean: backing arrays, `Is` vs `==`), which is what the dump shows. -/
namespace Driver.C12
open Dawgs.C12

structure DSt where
  old : Bool := false
  st : Option St := none
  hs : HSt := HSt.init [] false false

/-! #### tokens -/

def letterCode (base : Char) (s : String) : Option Nat :=
  match s.toList with
  | [c] => if base.toNat ≤ c.toNat ∧ c.toNat < base.toNat + 26 then some (c.toNat - base.toNat) else none
  | _ => none

def keyOf (s : String) : Option Nat := letterCode 'a' s
/-- `A` is the canonical kind of name 0; `A!` a foreign Kind implementation with the same name (code 100) -/
def kindOf (s : String) : Option Nat :=
  if s.endsWith "!" then (letterCode 'A' (s.dropRight 1)).map (· + 100) else letterCode 'A' s
def keyStr (k : Nat) : String := String.singleton (Char.ofNat ('a'.toNat + k))
def kindStr (k : Nat) : String :=
  String.singleton (Char.ofNat ('A'.toNat + k % 100)) ++ (if k ≥ 100 then "!" else "")

def valOf (s : String) : Option Nat :=
  match s.toNat? with
  | some v => if v ≤ 9 then some v else none
  | none => none

def entOf (s : String) : Option Bool :=
  if s = "0" then some false else if s = "1" then some true else none

/-- `nil` ↦ `some none`, `-` ↦ `some (some [])`, `a:1,b:2` ↦ pairs -/
def parseMap (s : String) : Option (Option KV) :=
  if s = "nil" then some none
  else if s = "-" then some (some [])
  else ((s.splitOn ",").mapM (fun (e : String) => match e.splitOn ":" with
    | [k, v] => do some ((← keyOf k), (← valOf v))
    | _ => none)).map some

def parseKinds (s : String) (allowNil : Bool) : Option (List (Option Nat)) :=
  if s = "-" then some []
  else (s.splitOn ",").mapM (fun (e : String) =>
    if e = "_" then (if allowNil then some none else none) else (kindOf e).map some)

def allSome (l : List (Option Nat)) : List Nat := l.filterMap id

/-! #### canonical dump -/

def sortNat (l : List Nat) : List Nat := (l.toArray.qsort (· < ·)).toList
def sortKV (l : KV) : KV := (l.toArray.qsort (fun a b => a.1 < b.1)).toList

def commaOr (empty : String) (l : List String) : String := if l.isEmpty then empty else ",".intercalate l

def mapStr (m : Option KV) : String :=
  match m with
  | none => "nil"
  | some m => commaOr "-" ((sortKV m).map (fun p => s!"{keyStr p.1}:{p.2}"))

def setStr (s : Option (List Nat)) : String :=
  match s with
  | none => "nil"
  | some s => commaOr "-" ((sortNat s).map keyStr)

def kindsStr (l : List Nat) : String := commaOr "-" (l.map kindStr)

def dumpEnt (e : Ent) (ks : List Nat × List Nat × List Nat) : String :=
  let p := e.props
  s!"M={mapStr p.map} mod={setStr p.modified} del={setStr p.deleted} mp={mapStr (some p.modifiedProperties)} " ++
  s!"dp={setStr p.deletedProperties} K={kindsStr ks.1} add={kindsStr ks.2.1} rem={kindsStr ks.2.2}"

def heldStr (hs : HSt) : String :=
  if hs.held.isEmpty then "" else " | H=" ++ ";".intercalate (hs.held.map (fun s => kindsStr (s.read hs.heap)))

def withDump (st : St) (hs : HSt) (ret : String) : String :=
  s!"{ret} | {dumpEnt st.e0 (hs.kindsOf false)} | {dumpEnt st.e1 (hs.kindsOf true)}{heldStr hs}"

/-! #### one line -/

def apply (d : DSt) (st : St) (o : Op) : DSt × String :=
  let st' := st.step d.old o
  let hs' := d.hs.step d.old o
  ({ d with st := some st', hs := hs' }, withDump st' hs' "ok")

def readOut (d : DSt) (st : St) (r : String) : DSt × String := (d, withDump st d.hs r)

def bad (d : DSt) : DSt × String := (d, "bad-op")

def stepLoaded (d : DSt) (st : St) (ts : List String) : DSt × String :=
  match ts with
  | ["set", e, k, v] => match entOf e, keyOf k, valOf v with
      | some e, some k, some v => apply d st (.set e k v)
      | _, _, _ => bad d
  | ["setall", e, m] => match entOf e, parseMap m with
      | some e, some m => apply d st (.setAll e (m.getD []))
      | _, _ => bad d
  | ["del", e, k] => match entOf e, keyOf k with
      | some e, some k => apply d st (.delete e k)
      | _, _ => bad d
  | ["get", e, k] => match entOf e, keyOf k with
      | some e, some k => readOut d st s!"v{(st.get e).props.get k}"
      | _, _ => bad d
  | ["gd", e, k, v] => match entOf e, keyOf k, valOf v with
      | some e, some k, some v => readOut d st s!"v{(st.get e).props.getOrDefault k v}"
      | _, _, _ => bad d
  | ["ex", e, k] => match entOf e, keyOf k with
      | some e, some k => readOut d st (if (st.get e).props.exists k then "t" else "f")
      | _, _ => bad d
  | ["len", e] => match entOf e with
      | some e => readOut d st s!"n{(st.get e).props.len}"
      | none => bad d
  | ["gf", e, k, v, fb] => match entOf e, keyOf k, valOf v, (fb.splitOn ",").mapM keyOf with
      | some e, some k, some v, some fb => readOut d st s!"v{(st.get e).props.getWithFallback k v fb}"
      | _, _, _, _ => bad d
  | ["keys", e] => match entOf e with
      | some e => readOut d st ("k" ++ commaOr "-" ((sortNat (st.get e).props.keys).map keyStr))
      | none => bad d
  -- what the pg batch node-update builders send: Kinds, DeletedKinds, the whole map, DeletedProperties()
  | ["drv", e] => match entOf e with
      | some e =>
        let x := st.get e
        let ks := d.hs.kindsOf e
        readOut d st s!"u kinds={kindsStr ks.1} dkinds={kindsStr ks.2.2} props={mapStr (some x.props.m)} dprops={setStr (some x.props.del)}"
      | none => bad d
  | ["rmerge", e, f] => match entOf e, entOf f with
      | some e, some f => apply d st (.rmerge e f)
      | _, _ => bad d
  -- the kind factory is a function of the name: whatever the goroutines do, one handle per name
  | ["intern", g, r] => match g.toNat?, r.toNat? with
      | some _, some _ => readOut d st "interned"
      | _, _ => bad d
  | ["internscale", n] => match n.toNat? with
      | some _ => readOut d st "interned"
      | none => bad d
  -- the late kind of the scale probe is kind Z (code 25), one handle whatever was interned before
  | ["addlate", e] => match entOf e with
      | some e => apply d st (.addKinds e [some 25])
      | none => bad d
  | ["dellate", e] => match entOf e with
      | some e => apply d st (.deleteKinds e [25])
      | none => bad d
  | ["hold", e] => match entOf e with
      | some e =>
        let hs' := d.hs.hold e
        ({ d with hs := hs' }, withDump st hs' "ok")
      | none => bad d
  | ["json", e] => match entOf e with
      | some e => apply d st (.json e)
      | none => bad d
  | ["strip", e, ks] => match entOf e, (if ks = "-" then some [] else (ks.splitOn ",").mapM keyOf) with
      | some e, some ks => apply d st (.strip e ks)
      | _, _ => bad d
  | ["clone", e, f] => match entOf e, entOf f with
      | some e, some f => apply d st (.clone e f)
      | _, _ => bad d
  | ["pmerge", e, f] => match entOf e, entOf f with
      | some e, some f => apply d st (.pmerge e f)
      | _, _ => bad d
  | ["merge", e, f] => match entOf e, entOf f with
      | some e, some f => apply d st (.nmerge e f)
      | _, _ => bad d
  | ["addk", e, ks] => match entOf e, parseKinds ks true with
      | some e, some ks => apply d st (.addKinds e ks)
      | _, _ => bad d
  | ["delk", e, ks] => match entOf e, parseKinds ks false with
      | some e, some ks => apply d st (.deleteKinds e (allSome ks))
      | _, _ => bad d
  | _ => bad d

def step (d : DSt) (ts : List String) : DSt × String :=
  match ts with
  | ["mode", "current"] => ({ d with old := true }, "ok")
  | ["mode", "old"] => ({ d with old := true }, "ok")
  | ["mode", "fixed"] => ({ d with old := false }, "ok")
  -- `load <map> <kinds> [<constructor> [node|rel]]`: every constructor yields the same untracked state
  | "load" :: m :: ks :: rest => match parseMap m, parseKinds ks false with
      | some m, some ks =>
        let st := St.init { store := m, kinds := allSome ks }
        let entity := rest.getD 1 "node"
        let hs := HSt.init (allSome ks) (entity == "shared") (entity == "prep")
        ({ d with st := some st, hs := hs }, withDump st hs "ok")
      | _, _ => bad d
  | _ => match d.st with
      | some st => stepLoaded d st ts
      | none => bad d

def suite : Suite := { σ := DSt, init := {}, step := step }

end Driver.C12

def Driver.C12.suites : List (String × Driver.Suite) := [("c12", Driver.C12.suite)]
