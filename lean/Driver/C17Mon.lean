import Driver.Proto
import Dawgs.Spec.C17
import Driver.C17
/-! Monitors for C17. Input lines are `<op> => <implementation answer>`.
  `c17pipemon` — FIFO-prefix acceptor over scripted and concurrent pipe histories.
  `c17bfmon`   — trace acceptor over the driver-call order of real BreadthFirst runs. -/
namespace Driver.C17Mon
open Dawgs.C17

def splitArrow (ts : List String) : List String × List String :=
  (ts.takeWhile (· ≠ "=>"), (ts.dropWhile (· ≠ "=>")).drop 1)

def parseCsv (s : String) : Option (List Nat) :=
  if s.isEmpty then some [] else (s.splitOn ",").mapM String.toNat?

def verdictStr : Verdict → String
  | .ok => "ok"
  | .reject c d => s!"reject {c} {d}"

/-- answers of burst ops: `sent m got a,b,c [closed]` → (m, [a,b,c], closed?) -/
def parseBurst (out : List String) : Option (Nat × List Nat × Bool) :=
  match out with
  | ["sent", m, "got"] => do some ((← m.toNat?), [], false)
  | ["sent", m, "got", "closed"] => do some ((← m.toNat?), [], true)
  | ["sent", m, "got", vs] => do some ((← m.toNat?), (← parseCsv vs), false)
  | ["sent", m, "got", vs, "closed"] => do some ((← m.toNat?), (← parseCsv vs), true)
  | _ => none

def pstep (m : FifoMon) (ts : List String) : FifoMon × String :=
  let (op, out) := splitArrow ts
  match op, out with
  | ["new"], ["ok"] => ({}, "ok")
  | ["sub", v], ["ok"] => match v.toNat? with
    | some v => ({ m with submitted := m.submitted ++ [v] }, "ok")
    | none => (m, "reject bad-op")
  | ["sub", _], ["refused"] =>
    if m.cancelled then (m, "ok") else (m, "reject refused-live submit refused although the context is live")
  | ["sub", _], ["hang"] => (m, "reject writer-blocked submit did not complete")
  | _, ["leak"] => (m, "reject goroutine-leak the pipe goroutine did not exit after its reader channel closed")
  | [r], [a] =>
    if r == "read" || r == "tryread" then
      if a == "closed" then (m, verdictStr m.sawClosed)
      else if a == "empty" then
        if m.outstanding > 0 && !m.cancelled then (m, s!"reject lost {m.outstanding} submitted values not delivered to a waiting reader")
        else (m, "ok")
      else if a == "hang" then (m, "reject reader-blocked read neither delivered nor saw closed")
      else match a.toNat? with
        | some v => let (m', vd) := m.deliver v; (m', verdictStr vd)
        | none => (m, "reject bad-output " ++ a)
    else if r == "close" && a == "ok" then ({ m with closed := true }, "ok")
    else if r == "cancel" && a == "closed" then ({ m with cancelled := true }, "ok")
    else (m, "reject bad-output " ++ a)
  | ["cancel"], ["closed", "got", vs] => match parseCsv vs with
    | some vs => let (m', vd) := { m with cancelled := true }.deliverAll vs; (m', verdictStr vd)
    | none => (m, "reject bad-output")
  | ["cancel"], ["closed", "got"] => ({ m with cancelled := true }, "ok")
  | ["drain"], "got" :: rest =>
    let (vs, closed) := match rest with
      | [vs, "closed"] => (parseCsv vs, true)
      | ["closed"] => (some [], true)
      | [vs] => (parseCsv vs, false)
      | _ => (none, false)
    match vs with
    | some vs =>
      match m.deliverAll vs with
      | (m', .ok) => if closed then (m', verdictStr m'.sawClosed) else (m', "reject reader-blocked drain did not see the channel closed")
      | (m', vd) => (m', verdictStr vd)
    | none => (m, "reject bad-output")
  | ["burst", start, k, j], out => match start.toNat?, k.toNat?, j.toNat?, parseBurst out with
    | some start, some k, some j, some (sent, got, closed) =>
      let m1 := { m with submitted := m.submitted ++ (List.range sent).map (· + start) }
      if sent != k && !m.cancelled then (m1, s!"reject writer-blocked {sent}/{k} submissions accepted on a live pipe")
      else match m1.deliverAll got with
        | (m2, .ok) =>
          if closed then (m2, verdictStr m2.sawClosed)
          else if got.length != j && !m.cancelled then (m2, s!"reject lost reader got {got.length}/{j}")
          else (m2, "ok")
        | (m2, vd) => (m2, verdictStr vd)
    | _, _, _, _ => (m, "reject bad-output")
  | ["cburst", start, k, _j, i], out => match start.toNat?, k.toNat?, i.toNat?, parseBurst out with
    | some start, some k, some i, some (sent, got, _closed) =>
      let m1 := { m with submitted := m.submitted ++ (List.range sent).map (· + start), cancelled := true }
      if sent < min i k && !m.cancelled then (m1, s!"reject refused-live only {sent} of the {i} pre-cancel submissions accepted")
      else let (m2, vd) := m1.deliverAll got; (m2, verdictStr vd)
    | _, _, _, _ => (m, "reject bad-output")
  | _, _ => (m, "reject bad-output " ++ " ".intercalate out)

def pipeMon : Suite := { σ := FifoMon, init := {}, step := pstep }

structure BMon where
  parents : List (Nat × Option Nat) := []
  size : Nat := 0

def field (t : String) (name : String) : Option String :=
  if t.startsWith (name ++ "=") then some (t.drop (name.length + 1)).toString else none

def bstep (m : BMon) (ts : List String) : BMon × String :=
  let (op, out) := splitArrow ts
  match op, out with
  | ["tree", sh], "ok" :: _ => match Driver.C17.parseTree sh with
    | some t => ({ parents := parentsOf t, size := t.nodes.length }, "ok")
    | none => (m, "reject bad-op")
  | ["run", _n, f, k, _seed, _mode], out =>
    let ret := (out.findSome? (field · "ret")).getD "?"
    let calls := (out.findSome? (field · "calls")).bind parseCsv
    let settled := out.contains "settled"
    let k := k.toNat?.getD 0
    let faultHits := k ≥ 1 && k ≤ m.size
    let memHits := k < m.size
    match calls with
    | none =>
      if ret == "skipped-after-hangs" then (m, "reject hang-skipped not run: the harness already saw 6 hangs in this process")
      else (m, "reject bad-output missing calls")
    | some calls =>
      if ret == "hang" then (m, "reject hang BreadthFirst did not return") else
      if ret == "panic" then (m, "reject panic BreadthFirst panicked") else
      if !settled then
        let site := (out.find? (·.startsWith "leak@")).getD "leak@?"
        (m, s!"reject goroutine-leak a goroutine started by BreadthFirst is still running 10 s after it returned on a live caller context ({site})") else
      match callsOk m.parents calls with
      | .reject c d => (m, s!"reject {c} {d}")
      | .ok =>
        let hits := if f == "mem" then memHits else (f != "none" && faultHits)
        let expectErr := hits && (f == "err" || f == "mem" || f == "swallow")
        let expectAll := !hits
        if expectErr && ret != "err" && ret != "memlimit" then (m, s!"reject error-lost driver failed but BreadthFirst returned {ret}")
        else if !expectErr && ret != "ok" then (m, s!"reject spurious-error BreadthFirst returned {ret}")
        else if expectAll then (m, verdictStr (callsComplete m.parents calls))
        else (m, "ok")
  | _, _ => (m, "reject bad-output " ++ " ".intercalate out)

def bfMon : Suite := { σ := BMon, init := {}, step := bstep }

/-! ### c17seqmon: the real helper results against the plan-defined result (filters first, then the window) -/

open Dawgs.C17.Seq in
/-- did the tracker-free DFS finish within the fuel? -/
def coreDone (p : Plan) : Nat → Core → Bool
  | 0, c => c.stack.isEmpty
  | f + 1, c => match iterCore p c with
    | none => true
    | some (c', _) => coreDone p f c'

open Dawgs.C17.Seq in
def sstep (st : Driver.C17.SSt) (ts : List String) : Driver.C17.SSt × String :=
  let (op, out) := splitArrow ts
  let got := " ".intercalate out
  match op with
  | ["graph"] => ({}, if got == "ok" then "ok" else "reject bad-output " ++ got)
  | ["edge", e, a, b] => match e.toNat?, a.toNat?, b.toNat? with
    | some e, some a, some b => ({ st with edges := Driver.C17.insertEdge (e, a, b) st.edges }, "ok")
    | _, _, _ => (st, "reject bad-op")
  | ["window", skip, limit, n] => match skip.toInt?, limit.toInt?, n.toNat? with
    | some skip, some limit, some n =>
      let want := natList (window skip limit (List.range n))
      (st, if got == want then "ok" else s!"reject window-mismatch LimitSkipTracker collected {got}, the plan defines {want}")
    | _, _, _ => (st, "reject bad-op")
  | ["pfloors", mx, _workers] => match mx.toNat? with
    | some mx =>
      let want := natList ((List.range (mx / 20000 + 1)).map (· * 20000))
      (st, if got == want then "ok" else s!"reject range-partition queried floors {got}, expected {want}")
    | none => (st, "reject bad-op")
  | _ => match Driver.C17.parseQuery st.edges op with
    | none => (st, "reject bad-op")
    | some q =>
      let fuel := Driver.C17.seqFuel st.edges
      let c0 : Core := { stack := [{ root := q.root, steps := [] }], visited := [] }
      if !coreDone q.plan fuel c0 then (st, "ok unjudged: the plan does not terminate within the model fuel") else
      let want := Driver.C17.fmtResult q (specOut q.plan q.root q.skip q.limit fuel)
      if got != want then (st, s!"reject result-mismatch got {got} but the plan defines {want}") else
      -- TraversePaths is also judged against the recursive definition of the plan's paths (no stack at all)
      if q.plan.helper == .paths then
        let bound := (st.edges.foldl (fun m e => max m (max e.2.1 e.2.2)) q.root) + 1
        let want2 := Driver.C17.fmtResult q (window q.skip q.limit (pathsSpec q.plan bound { root := q.root, steps := [] }))
        (st, if got == want2 then "ok" else s!"reject paths-spec-mismatch got {got} but the maximal acyclic filtered paths are {want2}")
      else (st, "ok")

def seqMon : Suite := { σ := Driver.C17.SSt, init := {}, step := sstep }

end Driver.C17Mon

def Driver.C17Mon.suites : List (String × Driver.Suite) :=
  [("c17pipemon", Driver.C17Mon.pipeMon), ("c17bfmon", Driver.C17Mon.bfMon), ("c17seqmon", Driver.C17Mon.seqMon)]
