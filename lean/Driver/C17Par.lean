import Driver.Proto
import Driver.C17
import Dawgs.Model.C17Par
/-! Model drivers and monitors for C17 round 2: suites `c17fsl`, `c17pnq`, `c17pat` (transcriptions) and
`c17fslmon`, `c17pnqmon`, `c17patmon` (the specs judging the real results). -/
namespace Driver.C17Par
open Dawgs.C17 Dawgs.C17.Seq Dawgs.C17.Par Driver.C17

def splitArrow (ts : List String) : List String × List String :=
  (ts.takeWhile (· ≠ "=>"), (ts.dropWhile (· ≠ "=>")).drop 1)

/-! ### FilteredSkipLimit -/

/-- 'a' = (collect, descend), 'b' = (collect, stop), 'c' = (no, descend), 'd' = (no, stop) -/
def parseCalls (s : String) : Option (List (Nat × Bool × Bool)) :=
  (s.toList.zipIdx).mapM (fun (ch, i) => match ch with
    | 'a' => some (i, true, true) | 'b' => some (i, true, false)
    | 'c' => some (i, false, true) | 'd' => some (i, false, false) | _ => none)

def bits (bs : List Bool) : String := String.ofList (bs.map (fun b => if b then '1' else '0'))

def fslStep (_ : Unit) (ts : List String) : Unit × String :=
  match ts with
  | ["fsl", skip, limit, workers, pat] => match skip.toInt?, limit.toInt?, workers.toNat?, parseCalls pat with
    | some skip, some limit, some w, some calls =>
      let r := fslRun (calls.length + 1) { skip := skip, limit := limit } calls
      if w ≤ 1 then ((), s!"visited={natList r.1} descend={bits r.2}") else ((), s!"count={r.1.length}")
    | _, _, _, _ => ((), "bad-op")
  | _ => ((), "bad-op")

def fslMonStep (_ : Unit) (ts : List String) : Unit × String :=
  let (op, out) := splitArrow ts
  let got := " ".intercalate out
  match op with
  | ["fsl", skip, limit, workers, pat] => match skip.toInt?, limit.toInt?, workers.toNat?, parseCalls pat with
    | some skip, some limit, some w, some calls =>
      let xs := (calls.filter (fun c => c.2.1)).map (·.1)
      let want := if skip < 0 then [] else window skip limit xs
      if w ≤ 1 then
        -- descent: the filter's own answer, except for a collectable segment that arrives after the limit was reached
        let rec desc (cs : List (Nat × Bool × Bool)) (j : Nat) : List Bool := match cs with
          | [] => []
          | (_, c, d) :: rest =>
            if !c then d :: desc rest j
            else ((if skip ≥ 0 && limit > 0 && j ≥ skip.toNat && j - skip.toNat ≥ limit.toNat then false else d) :: desc rest (j + 1))
        let wantLine := s!"visited={natList want} descend={bits (desc calls 0)}"
        if got == wantLine then ((), "ok")
        else ((), s!"reject window-mismatch {got} but the plan defines {wantLine}")
      else if got == s!"count={want.length}" then ((), "ok")
      else ((), s!"reject count-mismatch {got} but the plan defines count={want.length}")
    | _, _, _, _ => ((), "reject bad-op")
  | _ => ((), "reject bad-op")

def fslSuite : Suite := { σ := Unit, init := (), step := fslStep }
def fslMon : Suite := { σ := Unit, init := (), step := fslMonStep }

/-! ### parallelNodeQuery -/

def pnqActs (s : PNQ) (fails : List Nat) : List Par.PAct :=
  [Par.PAct.send, .sendDropped, .close, .submitErr, .submitErrDropped, .workerClosed, .workerCancel, .joined, .mergeClosed,
   .mergeCancel, .ret] ++ s.holding.map (fun f => if fails.contains f then Par.PAct.queryErr f else Par.PAct.queryOk f)

def pnqSim (fails : List Nat) : Nat → Driver.C17.Rng → PNQ → PNQ
  | 0, _, s => s
  | fuel + 1, r, s =>
    let en := (pnqActs s fails).filterMap (fun a => (s.step a).map (fun s' => s'))
    if en.isEmpty then s else
    let (r', x) := r.next
    match en[x.toNat % en.length]? with
    | some s' => pnqSim fails fuel r' s'
    | none => s

def parseCsvOrDash (s : String) : Option (List Nat) :=
  if s == "-" then some [] else (s.splitOn ",").mapM String.toNat?

def pnqStep (_ : Unit) (ts : List String) : Unit × String :=
  match ts with
  | ["pnq", mx, workers, fails, seed] => match mx.toNat?, workers.toNat?, parseCsvOrDash fails, seed.toNat? with
    | some mx, some w, some fails, some seed =>
      if w == 0 then ((), "bad-op") else
      let fl := floors mx 20000
      let s := pnqSim fails (20 * fl.length + 8 * w + 64) (Driver.C17.Rng.new seed) (PNQ.init fl w)
      let ret := if s.pc != .returned then "hang" else if s.errs == 0 then "ok" else s!"err:{s.errs}"
      ((), s!"ret={ret} floors={natList (sortNat s.handled)}")
    | _, _, _, _ => ((), "bad-op")
  | _ => ((), "bad-op")

def field (t : String) (name : String) : Option String :=
  if t.startsWith (name ++ "=") then some (t.drop (name.length + 1)).toString else none

def parseNatList (s : String) : Option (List Nat) :=
  let body := ((s.drop 1).dropEnd 1).toString
  if !s.startsWith "[" || !s.endsWith "]" then none
  else if body.isEmpty then some [] else (body.splitOn ",").mapM String.toNat?

def pnqMonStep (_ : Unit) (ts : List String) : Unit × String :=
  let (op, out) := splitArrow ts
  match op with
  | ["pnq", mx, workers, fails, _seed] => match mx.toNat?, workers.toNat?, parseCsvOrDash fails with
    | some mx, some w, some fails =>
      let want := (List.range (mx / 20000 + 1)).map (· * 20000)
      let ret := (out.findSome? (field · "ret")).getD "?"
      match (out.findSome? (field · "floors")).bind parseNatList with
      | none => ((), "reject bad-output")
      | some got =>
        if got.eraseDups.length != got.length then ((), s!"reject duplicate a range was queried twice: {natList got}")
        else if got.any (fun f => !want.contains f) then ((), s!"reject foreign-range {natList got}")
        else
          let failed := (got.filter fails.contains).length
          if ret == "hang" then
            -- observation O2 (outside the statement of C17): every worker failed while ranges remained
            if failed ≥ w && got.length < want.length then ((), "ok observation-O2 all workers failed, the range producer blocks until the context ends")
            else ((), "reject hang parallelNodeQuery did not return although a worker was alive")
          else if got != want then ((), s!"reject lost-range queried {natList got} of {natList want}")
          else if failed == 0 && ret != "ok" then ((), s!"reject spurious-error {ret}")
          else if failed > 0 && ret != s!"err:{failed}" then ((), s!"reject error-lost {failed} queries failed but the result is {ret}")
          else ((), "ok")
    | _, _, _ => ((), "reject bad-op")
  | _ => ((), "reject bad-op")

def pnqSuite : Suite := { σ := Unit, init := (), step := pnqStep }
def pnqMon : Suite := { σ := Unit, init := (), step := pnqMonStep }

/-! ### pattern.Driver -/

def parseExps (s : String) : Option (List Exp) :=
  (s.splitOn ";").mapM (fun e => match e.splitOn ":" with
    | [d, mn, mx] => do
      let mn ← mn.toNat?
      let mx ← mx.toNat?
      if d == "o" then some ⟨false, mn, mx⟩ else if d == "i" then some ⟨true, mn, mx⟩ else none
    | _ => none)

def sortStr (xs : List String) : List String := (xs.toArray.qsort (· < ·)).toList

def patFuel (edges : List (Nat × Nat × Nat)) (exps : List Exp) : Nat := edges.length + exps.length + 4

def fmtMatches (ms : List Seg) : String :=
  let body := " ".intercalate (sortStr (ms.map fmtPath))
  if body.isEmpty then "matches=" else "matches=" ++ body

def patStep (st : SSt) (ts : List String) : SSt × String :=
  match ts with
  | ["graph"] => ({}, "ok")
  | ["edge", e, a, b] => match e.toNat?, a.toNat?, b.toNat? with
    | some e, some a, some b => ({ st with edges := insertEdge (e, a, b) st.edges }, "ok")
    | _, _, _ => (st, "bad-op")
  | ["pattern", root, _workers, exps] => match root.toNat?, parseExps exps with
    | some root, some exps =>
      (st, fmtMatches (expand exps st.edges (patFuel st.edges exps) ({ root := root, steps := [] }, {})))
    | _, _ => (st, "bad-op")
  | _ => (st, "bad-op")

def patMonStep (st : SSt) (ts : List String) : SSt × String :=
  let (op, out) := splitArrow ts
  let got := " ".intercalate out
  match op with
  | ["graph"] => ({}, "ok")
  | ["edge", e, a, b] => match e.toNat?, a.toNat?, b.toNat? with
    | some e, some a, some b => ({ st with edges := insertEdge (e, a, b) st.edges }, "ok")
    | _, _, _ => (st, "reject bad-op")
  | ["pattern", root, _workers, exps] => match root.toNat?, parseExps exps with
    | some root, some exps =>
      let want := fmtMatches (patSpec exps st.edges (patFuel st.edges exps) { root := root, steps := [] } 0 0)
      (st, if got == want then "ok" else s!"reject match-mismatch got {got} but the pattern defines {want}")
    | _, _ => (st, "reject bad-op")
  | _ => (st, "reject bad-op")

def patSuite : Suite := { σ := SSt, init := {}, step := patStep }
def patMon : Suite := { σ := SSt, init := {}, step := patMonStep }

end Driver.C17Par

def Driver.C17Par.suites : List (String × Driver.Suite) :=
  [("c17fsl", Driver.C17Par.fslSuite), ("c17fslmon", Driver.C17Par.fslMon), ("c17pnq", Driver.C17Par.pnqSuite),
   ("c17pnqmon", Driver.C17Par.pnqMon), ("c17pat", Driver.C17Par.patSuite), ("c17patmon", Driver.C17Par.patMon)]
