import Driver.Proto
import Driver.C17
import Dawgs.Model.C17Par
/-! Model drivers and monitors for C17 round 2: suites `c17fsl`, `c17pnq`, `c17pat` (transcriptions) and
`c17fslmon`, `c17pnqmon`, `c17patmon` (the specs judging the real results). -/
namespace Driver.C17Par
open Dawgs.C17 Dawgs.C17.Seq Dawgs.C17.Par Driver.C17

def splitArrow (ts : List String) : List String × List String :=
  (ts.takeWhile (· ≠ "=>"), (ts.dropWhile (· ≠ "=>")).drop 1)

/-! ### FilteredSkipLimit -/

/-- 'a' = (collect, descend), 'b' = (collect, stop), 'c' = (no, descend), 'd' = (no, stop) -/
def parseCalls (s : String) : Option (List (Nat × Bool × Bool)) :=
  (s.toList.zipIdx).mapM (fun (ch, i) => match ch with
    | 'a' => some (i, true, true) | 'b' => some (i, true, false)
    | 'c' => some (i, false, true) | 'd' => some (i, false, false) | _ => none)

def bits (bs : List Bool) : String := String.ofList (bs.map (fun b => if b then '1' else '0'))

def fslStep (_ : Unit) (ts : List String) : Unit × String :=
  match ts with
  | ["fsl", skip, limit, workers, pat] => match skip.toInt?, limit.toInt?, workers.toNat?, parseCalls pat with
    | some skip, some limit, some w, some calls =>
      let r := fslRun (calls.length + 1) { skip := skip, limit := limit } calls
      if w ≤ 1 then ((), s!"visited={natList r.1} descend={bits r.2}") else ((), s!"count={r.1.length}")
    | _, _, _, _ => ((), "bad-op")
  | _ => ((), "bad-op")

def fslMonStep (_ : Unit) (ts : List String) : Unit × String :=
  let (op, out) := splitArrow ts
  let got := " ".intercalate out
  match op with
  | ["fsl", skip, limit, workers, pat] => match skip.toInt?, limit.toInt?, workers.toNat?, parseCalls pat with
    | some skip, some limit, some w, some calls =>
      let xs := (calls.filter (fun c => c.2.1)).map (·.1)
      let want := if skip < 0 then [] else window skip limit xs
      if w ≤ 1 then
        -- descent: the filter's own answer, except for a collectable segment that arrives after the limit was reached
        let rec desc (cs : List (Nat × Bool × Bool)) (j : Nat) : List Bool := match cs with
          | [] => []
          | (_, c, d) :: rest =>
            if !c then d :: desc rest j
            else ((if skip ≥ 0 && limit > 0 && j ≥ skip.toNat && j - skip.toNat ≥ limit.toNat then false else d) :: desc rest (j + 1))
        let wantLine := s!"visited={natList want} descend={bits (desc calls 0)}"
        if got == wantLine then ((), "ok")
        else ((), s!"reject window-mismatch {got} but the plan defines {wantLine}")
      else if got == s!"count={want.length}" then ((), "ok")
      else ((), s!"reject count-mismatch {got} but the plan defines count={want.length}")
    | _, _, _, _ => ((), "reject bad-op")
  | _ => ((), "reject bad-op")

def fslSuite : Suite := { σ := Unit, init := (), step := fslStep }
def fslMon : Suite := { σ := Unit, init := (), step := fslMonStep }

/-! ### parallelNodeQuery -/

def pnqActs (s : PNQ) (fails : List Nat) : List Par.PAct :=
  [Par.PAct.send, .sendDropped, .close, .submitErr, .submitErrDropped, .workerClosed, .workerCancel, .joined, .mergeClosed,
   .mergeCancel, .ret] ++ s.holding.map (fun f => if fails.contains f then Par.PAct.queryErr f else Par.PAct.queryOk f)

def pnqSim (fails : List Nat) : Nat → Driver.C17.Rng → PNQ → PNQ
  | 0, _, s => s
  | fuel + 1, r, s =>
    let en := (pnqActs s fails).filterMap (fun a => (s.step a).map (fun s' => s'))
    if en.isEmpty then s else
    let (r', x) := r.next
    match en[x.toNat % en.length]? with
    | some s' => pnqSim fails fuel r' s'
    | none => s

def parseCsvOrDash (s : String) : Option (List Nat) :=
  if s == "-" then some [] else (s.splitOn ",").mapM String.toNat?

def pnqStep (_ : Unit) (ts : List String) : Unit × String :=
  match ts with
  | ["pnq", mx, workers, fails, seed] => match mx.toNat?, workers.toNat?, parseCsvOrDash fails, seed.toNat? with
    | some mx, some w, some fails, some seed =>
      if w == 0 then ((), "bad-op") else
      let fl := floors mx 20000
      let s := pnqSim fails (20 * fl.length + 8 * w + 64) (Driver.C17.Rng.new seed) (PNQ.init fl w)
      let ret := if s.pc != .returned then "hang" else if s.errs == 0 then "ok" else s!"err:{s.errs}"
      ((), s!"ret={ret} floors={natList (sortNat s.handled)}")
    | _, _, _, _ => ((), "bad-op")
  | _ => ((), "bad-op")

def field (t : String) (name : String) : Option String :=
  if t.startsWith (name ++ "=") then some (t.drop (name.length + 1)).toString else none

def parseNatList (s : String) : Option (List Nat) :=
  let body := ((s.drop 1).dropEnd 1).toString
  if !s.startsWith "[" || !s.endsWith "]" then none
  else if body.isEmpty then some [] else (body.splitOn ",").mapM String.toNat?

def pnqMonStep (_ : Unit) (ts : List String) : Unit × String :=
  let (op, out) := splitArrow ts
  match op with
  | ["pnq", mx, workers, fails, _seed] => match mx.toNat?, workers.toNat?, parseCsvOrDash fails with
    | some mx, some w, some fails =>
      let want := (List.range (mx / 20000 + 1)).map (· * 20000)
      let ret := (out.findSome? (field · "ret")).getD "?"
      match (out.findSome? (field · "floors")).bind parseNatList with
      | none => ((), "reject bad-output")
      | some got =>
        if got.eraseDups.length != got.length then ((), s!"reject duplicate a range was queried twice: {natList got}")
        else if got.any (fun f => !want.contains f) then ((), s!"reject foreign-range {natList got}")
        else
          let failed := (got.filter fails.contains).length
          if ret == "hang" then
            -- observation O2 (outside the statement of C17): every worker failed while ranges remained
            if failed ≥ w && got.length < want.length then ((), "ok observation-O2 all workers failed, the range producer blocks until the context ends")
            else ((), "reject hang parallelNodeQuery did not return although a worker was alive")
          else if got != want then ((), s!"reject lost-range queried {natList got} of {natList want}")
          else if failed == 0 && ret != "ok" then ((), s!"reject spurious-error {ret}")
          else if failed > 0 && ret != s!"err:{failed}" then ((), s!"reject error-lost {failed} queries failed but the result is {ret}")
          else ((), "ok")
    | _, _, _ => ((), "reject bad-op")
  | _ => ((), "reject bad-op")

def pnqSuite : Suite := { σ := Unit, init := (), step := pnqStep }
def pnqMon : Suite := { σ := Unit, init := (), step := pnqMonStep }

/-! ### pattern.Driver -/

def parseExps (s : String) : Option (List Exp) :=
  (s.splitOn ";").mapM (fun e => match e.splitOn ":" with
    | [d, mn, mx] => do
      let mn ← mn.toNat?
      let mx ← mx.toNat?
      if d == "o" then some ⟨false, mn, mx⟩ else if d == "i" then some ⟨true, mn, mx⟩ else none
    | _ => none)

def sortStr (xs : List String) : List String := (xs.toArray.qsort (· < ·)).toList

def patFuel (edges : List (Nat × Nat × Nat)) (exps : List Exp) : Nat := edges.length + exps.length + 4

def fmtMatches (ms : List Seg) : String :=
  let body := " ".intercalate (sortStr (ms.map fmtPath))
  if body.isEmpty then "matches=" else "matches=" ++ body

def patStep (st : SSt) (ts : List String) : SSt × String :=
  match ts with
  | ["graph"] => ({}, "ok")
  | ["edge", e, a, b] => match e.toNat?, a.toNat?, b.toNat? with
    | some e, some a, some b => ({ st with edges := insertEdge (e, a, b) st.edges }, "ok")
    | _, _, _ => (st, "bad-op")
  | ["pattern", root, _workers, exps] => match root.toNat?, parseExps exps with
    | some root, some exps =>
      (st, fmtMatches (expand exps st.edges (patFuel st.edges exps) ({ root := root, steps := [] }, {})))
    | _, _ => (st, "bad-op")
  | _ => (st, "bad-op")

def patMonStep (st : SSt) (ts : List String) : SSt × String :=
  let (op, out) := splitArrow ts
  let got := " ".intercalate out
  match op with
  | ["graph"] => ({}, "ok")
  | ["edge", e, a, b] => match e.toNat?, a.toNat?, b.toNat? with
    | some e, some a, some b => ({ st with edges := insertEdge (e, a, b) st.edges }, "ok")
    | _, _, _ => (st, "reject bad-op")
  | ["pattern", root, _workers, exps] => match root.toNat?, parseExps exps with
    | some root, some exps =>
      let want := fmtMatches (patSpec exps st.edges (patFuel st.edges exps) { root := root, steps := [] } 0 0)
      (st, if got == want then "ok" else s!"reject match-mismatch got {got} but the pattern defines {want}")
    | _, _ => (st, "reject bad-op")
  | _ => (st, "reject bad-op")

def patSuite : Suite := { σ := SSt, init := {}, step := patStep }
def patMon : Suite := { σ := SSt, init := {}, step := patMonStep }

/-! ### library filters and collectors under the parallel BreadthFirst (DAGs) -/

def outTargets (edges : List (Nat × Nat × Nat)) (n : Nat) : List Nat :=
  (edges.filter (fun e => e.2.1 == n)).map (·.2.2)

/-- nodes reachable from the stack (every node expanded once) -/
def reachNodes (edges : List (Nat × Nat × Nat)) : Nat → List Nat → List Nat → List Nat
  | 0, _, v => v
  | _, [], v => v
  | f + 1, n :: rest, v =>
    if v.contains n then reachNodes edges f rest v else reachNodes edges f (outTargets edges n ++ rest) (n :: v)

/-- number of path segments of the DAG below `n` (the sequential enumeration without any filter) -/
def countSegs (edges : List (Nat × Nat × Nat)) : Nat → Nat → Nat
  | 0, _ => 1
  | f + 1, n => 1 + ((outTargets edges n).map (countSegs edges f)).sum

/-- the sequential enumeration: every edge out of a reachable node is delivered exactly once -/
def fltExpect (edges : List (Nat × Nat × Nat)) (mode : String) (root arg : Nat) : Option String :=
  let nodes := reachNodes edges (2 * edges.length + 4) [root] []
  let es := (edges.filter (fun e => nodes.contains e.2.1)).map (·.1)
  match mode with
  | "unique" => some s!"edges={natList (sortNat es)}"
  | "collect" => some s!"nodes={natList (sortNat nodes)} paths={es.length + 1}"
  | "acyclic" => some s!"segments={countSegs edges (edges.length + 1) root} nodes={natList (sortNat nodes)}"
  | "fslskip" => some s!"visited={es.length - arg}"
  | _ => none

def fltStep (st : SSt) (ts : List String) : SSt × String :=
  match ts with
  | ["graph"] => ({}, "ok")
  | ["edge", e, a, b] => match e.toNat?, a.toNat?, b.toNat? with
    | some e, some a, some b => ({ st with edges := insertEdge (e, a, b) st.edges }, "ok")
    | _, _, _ => (st, "bad-op")
  | ["flt", mode, root, _workers, arg] => match root.toNat?, arg.toNat? with
    | some root, some arg => (st, (fltExpect st.edges mode root arg).getD "bad-op")
    | _, _ => (st, "bad-op")
  | _ => (st, "bad-op")

def fltMonStep (st : SSt) (ts : List String) : SSt × String :=
  let (op, out) := splitArrow ts
  let got := " ".intercalate out
  match op with
  | ["graph"] => ({}, "ok")
  | ["edge", e, a, b] => match e.toNat?, a.toNat?, b.toNat? with
    | some e, some a, some b => ({ st with edges := insertEdge (e, a, b) st.edges }, "ok")
    | _, _, _ => (st, "reject bad-op")
  | ["flt", mode, root, workers, arg] => match root.toNat?, arg.toNat? with
    | some root, some arg =>
      if got.startsWith "leak@" then (st, s!"reject goroutine-leak {got}") else
      if got == "hang" then (st, "reject hang BreadthFirst did not return") else
      match fltExpect st.edges mode root arg with
      | none => (st, "reject bad-op")
      | some want =>
        if got == want then (st, "ok") else
        -- name the failure: a duplicated result is the exactly-once violation
        let dup := match (out.findSome? (field · "edges")).bind parseNatList with
          | some es => ((sortNat es).zip ((sortNat es).drop 1)).find? (fun (p : Nat × Nat) => p.1 == p.2)
          | none => none
        match dup with
        | some p => (st, s!"reject duplicate segment over edge {p.1} delivered more than once with {workers} workers (the sequential enumeration delivers each edge once)")
        | none => (st, s!"reject result-mismatch got {(got.take 200).toString} but the sequential enumeration gives {(want.take 200).toString}")
    | _, _ => (st, "reject bad-op")
  | _ => (st, "reject bad-op")

def fltSuite : Suite := { σ := SSt, init := {}, step := fltStep }
def fltMon : Suite := { σ := SSt, init := {}, step := fltMonStep }

end Driver.C17Par

def Driver.C17Par.suites : List (String × Driver.Suite) :=
  [("c17fsl", Driver.C17Par.fslSuite), ("c17fslmon", Driver.C17Par.fslMon), ("c17pnq", Driver.C17Par.pnqSuite),
   ("c17pnqmon", Driver.C17Par.pnqMon), ("c17pat", Driver.C17Par.patSuite), ("c17patmon", Driver.C17Par.patMon),
   ("c17flt", Driver.C17Par.fltSuite), ("c17fltmon", Driver.C17Par.fltMon)]
