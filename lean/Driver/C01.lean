import Driver.Proto
import Driver.Sexp
import Driver.SqlSexp
import Driver.ReadCy
import Dawgs.Model.CyEval
import Dawgs.Model.SqlEval
import Dawgs.Model.GraphGen
import Dawgs.Model.C01
import Dawgs.Model.C01S2
import Dawgs.Model.C01Chain
import Dawgs.Model.C01Count
import Dawgs.Model.C01Limit
import Dawgs.Model.C01With
import Dawgs.Model.C01Order
import Dawgs.Model.C01Distinct
import Dawgs.Model.C01Cross
import Dawgs.Model.C03Bind
import Dawgs.Model.SqlSchema
/-! C01 semantic-search driver (suite `c01sem`, also used by C02).

Input: `sem <gseed> <nrandom> <exN> <exE> <kindmap> <params> <cypher sexp> <sql sexp>` — the parsed Cypher model and the REAL emitted
statement; both are evaluated (Cy.eval on the graph, Sql.eval on its encoding) on the fixed corner-case graphs, `nrandom` random graphs from
`gseed`, and all graphs with ≤ exN template nodes / ≤ exE edges. Answer (first differing graph wins):
`agree n=<k> …` | `differ …graph… cy=… sql=…` | `sql-runtime-error …` | `unmodelled <side> <what>`; counts of every outcome are appended. -/
namespace Driver.C01
open Driver Dawgs Dawgs.Sql

partial def renderR : RVal → String
  | .null => "null"
  | .bool b => toString b
  | .num d => d.toText
  | .str s => s.quote
  | .list xs => "[" ++ ",".intercalate (xs.map renderR) ++ "]"
  | .map kvs => "{" ++ ",".intercalate (kvs.map (fun p => p.1 ++ ":" ++ renderR p.2)) ++ "}"
  | .node i ks _ => s!"node({i};{ks})"
  | .rel i s e k _ => s!"rel({i}:{s}->{e};{k})"
  | .path ns es => "path(" ++ ",".intercalate (ns.map renderR) ++ "|" ++ ",".intercalate (es.map renderR) ++ ")"

def renderRows (rows : List (List RVal)) : String :=
  "[" ++ " ".intercalate (rows.map (fun r => "(" ++ ",".intercalate (r.map renderR) ++ ")")) ++ "]"

partial def renderJson : Json → String
  | .null => "null" | .bool b => toString b | .num d => d.toText | .str s => s.quote
  | .arr xs => "[" ++ ",".intercalate (xs.map renderJson) ++ "]"
  | .obj kvs => "{" ++ ",".intercalate (kvs.map (fun p => p.1.quote ++ ":" ++ renderJson p.2)) ++ "}"

def renderGraph (g : Graph) : String :=
  let ns := g.nodes.map (fun n => s!"({n.id}:{":".intercalate n.kinds} {renderJson (.obj n.props)})")
  let es := g.edges.map (fun e => s!"[{e.id}:{e.start}-{e.kind}->{e.stop} {renderJson (.obj e.props)}]")
  ("nodes=" ++ "".intercalate ns ++ ";edges=" ++ "".intercalate es).replace " " "_"

def rowEq (a b : List RVal) : Bool := RVal.beqList a b

/-- multiset equality -/
def bagEq : List (List RVal) → List (List RVal) → Bool
  | [], [] => true
  | [], _ => false
  | x :: xs, ys =>
    match ys.findIdx? (rowEq x) with
    | some i => bagEq xs (ys.eraseIdx i)
    | none => false

inductive Outcome where
  | agree
  | differ (explained : List String) (detail : String)     -- explained = names of the quirk switches that reproduce the SQL rows; [] = unexplained
  | sqlRuntime (detail : String)
  | sqlOther (cls : String) (detail : String)
  | unmodelledCy (what : String)
  | unmodelledSql (what : String)

def errClass : EErr → String × String
  | .unmodelled w => ("unmodelled", w)
  | .runtime w => ("runtime", w)
  | .typing w => ("typing", w)
  | .name w => ("name", w)

def keysEq (a b : List Cy.CVal) : Bool :=
  a.length == b.length && (a.zip b).all (fun p => Cy.cEquiv p.1 p.2)

/-- ordered comparison up to ties: rows with equal ORDER BY keys may come in any order -/
partial def blocksEq (cy : List (List RVal × List Cy.CVal)) (sql : List (List RVal)) : Bool :=
  match cy with
  | [] => sql.isEmpty
  | (_, k) :: _ =>
    let blk := cy.takeWhile (fun r => keysEq r.2 k)
    let rest := cy.drop blk.length
    let sblk := sql.take blk.length
    sblk.length == blk.length && bagEq (blk.map (·.1)) sblk && blocksEq rest (sql.drop blk.length)

/-- collect() returns its elements in an unspecified order: such columns are compared as bags (elements sorted by their rendering) -/
def sortList (v : RVal) : RVal :=
  match v with
  | .list xs => .list ((xs.toArray.qsort (fun a b => renderR a < renderR b)).toList)
  | x => x

def canonBags (bagCols : List Nat) (row : List RVal) : List RVal :=
  (List.range row.length).zip row |>.map (fun p => if bagCols.contains p.1 then sortList p.2 else p.2)

def sameRows (g : Graph) (km : KindMap) (ordered : Bool) (bagCols : List Nat) (crows : List (List Cy.CVal × List Cy.CVal)) (sr : List (List RVal)) : Bool :=
  let sr := sr.map (canonBags bagCols)
  let cr := crows.map (fun r => (canonBags bagCols (r.1.map (Cy.CVal.toR g km)), r.2))
  if ordered then blocksEq cr sr else bagEq (cr.map (·.1)) sr

def quirkList : List (String × Cy.Quirks) := [
  ("optional-match-first-clause-behaves-as-match", { optionalFirstIsMatch := true }),
  ("undirected-pattern-drops-self-loops", { undirectedNoSelfLoop := true }),
  ("no-relationship-uniqueness-across-pattern-parts", { noCrossPatternUniq := true }),
  ("in-string-list-compares-text-form", { inListTextCompare := true }),
  ("negated-string-predicate-treats-null-as-empty", { negStringNullIsEmpty := true }),
  ("expansion-not-continued-after-initial-self-loop", { expansionStopsAtLoop := true }),
  ("collect-of-property-returns-text", { collectAsText := true }),
  ("sum-of-nothing-is-null", { sumEmptyIsNull := true }),
  ("order-by-uses-jsonb-cross-type-order", { jsonbOrdering := true }),
  ("null-plus-list-is-list", { nullListConcat := true }),
  ("string-predicate-compares-text-form", { stringPredicateOnTextForm := true }),
  ("reversed-expansion-drops-paths-ending-in-self-loop", { expansionDropsTrailingLoop := true }),
  ("property-equals-variable-compares-text-form", { propEqualsVariableOnTextForm := true }),
  ("rebound-node-pattern-is-cross-product", { reboundNodePatternIsCrossProduct := true }),
  ("undirected-same-variable-matches-any-incident-edge", { undirectedSameVariableMatchesIncident := true }),
  ("undirected-step-from-bound-node-returns-both-endpoints", { undirectedBoundStepBothEndpoints := true }),
  ("with-clause-drops-order-by-skip-limit", { withDropsOrderSkipLimit := true }),
  ("property-to-property-comparison-uses-jsonb-order", { propVsPropJsonbOrder := true }),
  ("expansion-reuses-relationships-of-earlier-steps", { expansionIgnoresUsed := true }),
  ("optional-match-outer-joins-only-the-last-step", { optionalOnlyLastStepOuter := true })
]

def allQuirks : Cy.Quirks :=
  { optionalFirstIsMatch := true, undirectedNoSelfLoop := true, noCrossPatternUniq := true, inListTextCompare := true,
    negStringNullIsEmpty := true, expansionStopsAtLoop := true, collectAsText := true, sumEmptyIsNull := true,
    jsonbOrdering := true, nullListConcat := true, stringPredicateOnTextForm := true, expansionDropsTrailingLoop := true,
    propEqualsVariableOnTextForm := true, reboundNodePatternIsCrossProduct := true, undirectedSameVariableMatchesIncident := true,
    undirectedBoundStepBothEndpoints := true, withDropsOrderSkipLimit := true, propVsPropJsonbOrder := true, expansionIgnoresUsed := true, optionalOnlyLastStepOuter := true }

def withQuirk (base : Cy.Quirks) (name : String) (on : Bool) : Cy.Quirks :=
  match name with
  | "optional-match-first-clause-behaves-as-match" => { base with optionalFirstIsMatch := on }
  | "undirected-pattern-drops-self-loops" => { base with undirectedNoSelfLoop := on }
  | "no-relationship-uniqueness-across-pattern-parts" => { base with noCrossPatternUniq := on }
  | "in-string-list-compares-text-form" => { base with inListTextCompare := on }
  | "negated-string-predicate-treats-null-as-empty" => { base with negStringNullIsEmpty := on }
  | "expansion-not-continued-after-initial-self-loop" => { base with expansionStopsAtLoop := on }
  | "collect-of-property-returns-text" => { base with collectAsText := on }
  | "sum-of-nothing-is-null" => { base with sumEmptyIsNull := on }
  | "order-by-uses-jsonb-cross-type-order" => { base with jsonbOrdering := on }
  | "null-plus-list-is-list" => { base with nullListConcat := on }
  | "string-predicate-compares-text-form" => { base with stringPredicateOnTextForm := on }
  | "reversed-expansion-drops-paths-ending-in-self-loop" => { base with expansionDropsTrailingLoop := on }
  | "property-equals-variable-compares-text-form" => { base with propEqualsVariableOnTextForm := on }
  | "rebound-node-pattern-is-cross-product" => { base with reboundNodePatternIsCrossProduct := on }
  | "undirected-same-variable-matches-any-incident-edge" => { base with undirectedSameVariableMatchesIncident := on }
  | "undirected-step-from-bound-node-returns-both-endpoints" => { base with undirectedBoundStepBothEndpoints := on }
  | "with-clause-drops-order-by-skip-limit" => { base with withDropsOrderSkipLimit := on }
  | "property-to-property-comparison-uses-jsonb-order" => { base with propVsPropJsonbOrder := on }
  | "expansion-reuses-relationships-of-earlier-steps" => { base with expansionIgnoresUsed := on }
  | "optional-match-outer-joins-only-the-last-step" => { base with optionalOnlyLastStepOuter := on }
  | _ => base

/-- which known deviations (switches of the reference semantics) reproduce exactly the rows the SQL returned? -/
def explain (g : Graph) (km : KindMap) (q : Cy.Query) (ordered : Bool) (bagCols : List Nat) (sr : List (List RVal)) : List String :=
  let agreesUnder (qk : Cy.Quirks) : Bool :=
    match Cy.evalKeyed qk g q with
    | .ok (_, rows) => sameRows g km ordered bagCols rows sr
    | .error w => w.startsWith "nondeterministic"      -- a cut inside ties cannot refute the explanation
  let names := quirkList.map (·.1)
  let mk (ns : List String) : Cy.Quirks := ns.foldl (fun acc n => withQuirk acc n true) Cy.Quirks.none
  match names.find? (fun n => agreesUnder (mk [n])) with
  | some n => [n]
  | none =>
    -- the deviations interact (some exclude each other), so combinations are searched explicitly: pairs, then triples.
    -- Budget: on graphs with more than 5 edges only the switches that change the result on their own are combined; when that
    -- restricted search finds nothing the answer is "?over-budget" (the query is then judged on its smaller graphs).
    let small := g.edges.length ≤ 5
    let base := match Cy.evalKeyed Cy.Quirks.none g q with | .ok (_, rows) => some (renderRows (rows.map (fun r => r.1.map (Cy.CVal.toR g km)))) | .error _ => none
    let cand := if small then names else names.filter (fun n =>
      match Cy.evalKeyed (mk [n]) g q with
      | .ok (_, rows) => some (renderRows (rows.map (fun r => r.1.map (Cy.CVal.toR g km)))) != base
      | .error _ => true)
    let idx := List.range cand.length
    let pairs := idx.flatMap (fun i => (idx.filter (· > i)).map (fun j => [cand.getD i "", cand.getD j ""]))
    match pairs.find? (fun ns => agreesUnder (mk ns)) with
    | some ns => ns
    | none =>
      let triples := idx.flatMap (fun i => (idx.filter (· > i)).flatMap (fun j => (idx.filter (· > j)).map (fun k =>
        [cand.getD i "", cand.getD j "", cand.getD k ""])))
      match triples.find? (fun ns => agreesUnder (mk ns)) with
      | some ns => ns
      | none =>
        if !small then ["?over-budget"] else
        -- four interacting deviations: only on very small graphs, among the switches that change the result in some pair
        if g.edges.length > 4 || g.nodes.length > 3 then [] else
        let live := cand.filter (fun n => pairs.any (fun ns => ns.contains n &&
          (match Cy.evalKeyed (mk ns) g q with
           | .ok (_, rows) => some (renderRows (rows.map (fun r => r.1.map (Cy.CVal.toR g km)))) != base
           | .error _ => true)))
        let li := List.range live.length
        let quads := li.flatMap (fun i => (li.filter (· > i)).flatMap (fun j => (li.filter (· > j)).flatMap (fun k => (li.filter (· > k)).map (fun l =>
          [live.getD i "", live.getD j "", live.getD k "", live.getD l ""]))))
        match quads.find? (fun ns => agreesUnder (mk ns)) with
        | some ns => ns
        | none => []

/-- a path with its node and relationship lists reversed; a list of nodes / of relationships (nodes(p), relationships(p)) reversed -/
def revPathTop : RVal → RVal
  | .path ns rs => .path ns.reverse rs.reverse
  | .list xs =>
    if !xs.isEmpty && (xs.all (fun x => match x with | .node .. => true | _ => false) || xs.all (fun x => match x with | .rel .. => true | _ => false))
    then .list xs.reverse else .list xs
  | v => v

def compareOn (km : KindMap) (params : List (String × Val)) (q : Cy.Query) (s : Stmt) (ordered : Bool) (bagCols : List Nat) (g : Graph) : Outcome :=
  match Cy.evalKeyed Cy.Quirks.none g q with
  | .error w => .unmodelledCy w
  | .ok (_, crows) =>
    let cr := crows.map (fun r => r.1.map (Cy.CVal.toR g km))
    match Sql.eval (encode km g) s params with
    | .error e =>
      let (c, w) := errClass e
      if c == "unmodelled" then .unmodelledSql w
      else if c == "runtime" then .sqlRuntime s!"{w.replace " " "_"} graph={renderGraph g} cy={(renderRows cr).replace " " "_"}"
      else .sqlOther c s!"{w.replace " " "_"} graph={renderGraph g}"
    | .ok t =>
      let sr := t.rows.map (fun r => r.map valToR)
      if sameRows g km ordered bagCols crows sr then .agree
      else
        let ex := explain g km q ordered bagCols sr
        -- no switch combination reproduces the SQL rows, but both sides hold the same SET of rows: only multiplicities differ
        let crS := crows.map (fun r => canonBags bagCols (r.1.map (Cy.CVal.toR g km)))
        let srS := sr.map (canonBags bagCols)
        let ex := if ex.isEmpty && !crS.isEmpty && crS.all (fun r => srS.any (rowEq r)) && srS.all (fun r => crS.any (rowEq r))
          then ["multiplicity-only"] else ex
        -- not a deviation switch of the reference semantics but a recognisable symptom: the SQL rows are the Cypher rows with every path
        -- (and every nodes(p) / relationships(p) list) in REVERSE order — the path was materialised in the optimiser's drive direction
        let crRev := cr.map (fun r => canonBags bagCols (r.map revPathTop))
        let ex := if ex.isEmpty && !(bagEq crRev crS) && bagEq crRev srS then ["path-in-reverse-order"] else ex
        .differ ex s!"graph={renderGraph g} cy={(renderRows cr).replace " " "_"} sql={(renderRows sr).replace " " "_"}"

def subBag : List (List RVal) → List (List RVal) → Bool
  | [], _ => true
  | x :: xs, ys =>
    match ys.findIdx? (rowEq x) with
    | some i => subBag xs (ys.eraseIdx i)
    | none => false

/-- stage S2L (LIMIT k without ORDER BY): the prediction of `tr_sound_S2L` — against the rows of the BASE query the statement's rows are a
sub-bag of exactly min(k, number of base rows) rows -/
def compareCut (km : KindMap) (base : Cy.Query) (k : Nat) (s : Stmt) (g : Graph) : Outcome :=
  match Cy.eval Cy.Quirks.none g base with
  | .error w => .unmodelledCy w
  | .ok (_, crows) =>
    let cr := crows.map (fun r => r.map (Cy.CVal.toR g km))
    match Sql.eval (encode km g) s [] with
    | .error e =>
      let (c, w) := errClass e
      if c == "unmodelled" then .unmodelledSql w
      else if c == "runtime" then .sqlRuntime s!"{w.replace " " "_"} graph={renderGraph g} cy={(renderRows cr).replace " " "_"}"
      else .sqlOther c s!"{w.replace " " "_"} graph={renderGraph g}"
    | .ok t =>
      let sr := t.rows.map (fun r => r.map valToR)
      if sr.length == min k cr.length && subBag sr cr then .agree
      else .differ [] s!"graph={renderGraph g} limit={k} base-cy={(renderRows cr).replace " " "_"} sql={(renderRows sr).replace " " "_"}"

/-- stage S1o (ORDER BY on a property): the prediction of `tr_sound_S1o` — on a graph satisfying `keyOKb` the statement's rows are, in the same
order, the rows the reference semantics returns (no deviation switch); a query the reference refuses (SKIP / LIMIT cutting inside ties) is not compared -/
def compareOrd (km : KindMap) (q : Cy.Query) (s : Stmt) (g : Graph) : Outcome :=
  match Cy.eval Cy.Quirks.none g q with
  | .error w => .unmodelledCy w
  | .ok (_, crows) =>
    let cr := crows.map (fun r => r.map (Cy.CVal.toR g km))
    match Sql.eval (encode km g) s [] with
    | .error e =>
      let (c, w) := errClass e
      if c == "unmodelled" then .unmodelledSql w
      else if c == "runtime" then .sqlRuntime s!"{w.replace " " "_"} graph={renderGraph g} cy={(renderRows cr).replace " " "_"}"
      else .sqlOther c s!"{w.replace " " "_"} graph={renderGraph g}"
    | .ok t =>
      let sr := t.rows.map (fun r => r.map valToR)
      if sr.length == cr.length && (sr.zip cr).all (fun p => rowEq p.1 p.2) then .agree
      else .differ [] s!"graph={renderGraph g} cy={(renderRows cr).replace " " "_"} sql={(renderRows sr).replace " " "_"}"

def kindMapOf : Sexp → Option KindMap
  | .list (.atom "list" :: xs) => xs.mapM (fun x => match x with
      | .list [.str k, .atom n] => n.toNat?.map (fun i => (k, i))
      | _ => none)
  | _ => none

/-! a reader for the JSON text of a jsonb parameter (`pgtype.JSONB`): objects, arrays, strings with the common escapes, integers and
decimals, true / false / null — anything else makes the parameter unreadable (`none`), and the case is not evaluated -/
namespace JsonText
def isWs (c : Char) : Bool := c == ' ' || c == '\n' || c == '\t' || c == '\r'
def skipWs : List Char → List Char
  | c :: cs => if isWs c then skipWs cs else c :: cs
  | [] => []
partial def str (acc : List Char) : List Char → Option (String × List Char)
  | '"' :: rest => some (String.ofList acc.reverse, rest)
  | '\\' :: c :: rest =>
    match c with
    | 'n' => str ('\n' :: acc) rest
    | 't' => str ('\t' :: acc) rest
    | 'r' => str ('\r' :: acc) rest
    | '"' => str ('"' :: acc) rest
    | '\\' => str ('\\' :: acc) rest
    | '/' => str ('/' :: acc) rest
    | _ => none
  | c :: rest => str (c :: acc) rest
  | [] => none
def number (cs : List Char) : Option (Json × List Char) :=
  let (neg, cs) := match cs with | '-' :: r => (true, r) | _ => (false, cs)
  let ip := cs.takeWhile Char.isDigit
  let rest := cs.dropWhile Char.isDigit
  if ip.isEmpty then none else
  let (fp, rest) := match rest with
    | '.' :: r => (r.takeWhile Char.isDigit, r.dropWhile Char.isDigit)
    | _ => ([], rest)
  match rest with
  | 'e' :: _ => none
  | 'E' :: _ => none
  | _ =>
    match (String.ofList (ip ++ fp)).toNat? with
    | some n => some (.num ⟨if neg then -(n : Int) else (n : Int), fp.length⟩, rest)
    | none => none
mutual
partial def value (cs : List Char) : Option (Json × List Char) :=
  match skipWs cs with
  | '{' :: rest => members [] (skipWs rest)
  | '[' :: rest => elems [] (skipWs rest)
  | '"' :: rest => (str [] rest).map (fun p => (.str p.1, p.2))
  | 't' :: 'r' :: 'u' :: 'e' :: rest => some (.bool true, rest)
  | 'f' :: 'a' :: 'l' :: 's' :: 'e' :: rest => some (.bool false, rest)
  | 'n' :: 'u' :: 'l' :: 'l' :: rest => some (.null, rest)
  | cs' => number cs'
partial def members (acc : List (String × Json)) (cs : List Char) : Option (Json × List Char) :=
  match cs with
  | '}' :: rest => some (.obj acc.reverse, rest)
  | '"' :: rest =>
    match str [] rest with
    | some (k, rest) =>
      match skipWs rest with
      | ':' :: rest =>
        match value rest with
        | some (v, rest) =>
          match skipWs rest with
          | ',' :: rest => members ((k, v) :: acc) (skipWs rest)
          | '}' :: rest => some (.obj ((k, v) :: acc).reverse, rest)
          | _ => none
        | none => none
      | _ => none
    | none => none
  | _ => none
partial def elems (acc : List Json) (cs : List Char) : Option (Json × List Char) :=
  match cs with
  | ']' :: rest => some (.arr acc.reverse, rest)
  | _ =>
    match value cs with
    | some (v, rest) =>
      match skipWs rest with
      | ',' :: rest => elems (v :: acc) (skipWs rest)
      | ']' :: rest => some (.arr (v :: acc).reverse, rest)
      | _ => none
    | none => none
end
def parse (s : String) : Option Json :=
  match value s.toList with
  | some (j, rest) => if (skipWs rest).isEmpty then some j else none
  | none => none
end JsonText

partial def paramVal : Sexp → Option Val
  | .list [.atom "pgtype.JSONB", .list [.atom "Bytes", .list [.atom "bytes", .str js]], _] => (JsonText.parse js).map Val.jsonb
  | .atom "nil" => some .null
  | .atom "true" => some (.bool true)
  | .atom "false" => some (.bool false)
  | .str s => some (.text s)
  | .atom a => a.toInt?.map Val.int
  | .list (.atom "list" :: xs) => (xs.mapM paramVal).map Val.arr
  | .list [.atom _, v] => paramVal v          -- named scalar type, e.g. (graph.ID 5)
  | _ => none

def paramsOf : Sexp → Option (List (String × Val))
  | .list (.atom "map" :: kvs) => kvs.mapM (fun kv => match kv with
      | .list [.str k, v] => (paramVal v).map (fun x => (k, x))
      | _ => none)
  | .atom "nil" => some []
  | _ => none

def graphsFor (gseed nrandom exN exE : Nat) : List Graph :=
  GraphGen.fixedGraphs ++ (List.range nrandom).map (fun i => GraphGen.randomGraph (gseed * 1000 + i)) ++
    (if exN == 0 then [] else GraphGen.exhaustiveUpTo exN exE)

def summarize (outs : List Outcome) : String :=
  let agree := (outs.filter (fun o => match o with | .agree => true | _ => false)).length
  let rt := outs.filterMap (fun o => match o with | .sqlRuntime d => some d | _ => none)
  let df := outs.filterMap (fun o => match o with | .differ ex d => some (ex, d) | _ => none)
  let other := outs.filterMap (fun o => match o with | .sqlOther c d => some (c ++ " " ++ d) | _ => none)
  let uc := outs.filterMap (fun o => match o with | .unmodelledCy w => some w | _ => none)
  let us := outs.filterMap (fun o => match o with | .unmodelledSql w => some w | _ => none)
  let nOver := (df.filter (fun p => p.1 == ["?over-budget"])).length
  let counts := s!"graphs={outs.length} agree={agree} differ={df.length} rterr={rt.length} other={other.length} ucy={uc.length} usql={us.length} overbudget={nOver}"
  -- unexplained differences first; then, per distinct explanation, one representative
  let overBudget := df.filter (fun p => p.1 == ["?over-budget"])
  let df := df.filter (fun p => p.1 != ["?over-budget"])
  -- differences whose explanation search ran over budget count as unexplained unless a smaller graph of the same query was explained
  let df := if df.any (fun p => !p.1.isEmpty) then df else df ++ overBudget.map (fun p => (([] : List String), p.2))
  let unexplained := df.filter (fun p => p.1.isEmpty)
  let classes := (df.filter (fun p => !p.1.isEmpty)).map (fun p => "+".intercalate p.1) |>.eraseDups
  let expl := if classes.isEmpty then "" else " explained=" ++ ",".intercalate classes
  match unexplained, df, other, rt, uc, us with
  | d :: _, _, _, _, _, _ => s!"differ unexplained {counts}{expl} {d.2}"
  | [], d :: _, _, _, _, _ => s!"differ explained {counts}{expl} {d.2}"
  | _, _, o :: _, _, _, _ => s!"sql-{o} {counts}"
  | _, _, _, r :: _, _, _ => s!"sql-runtime-error {counts} {r}"
  | _, _, _, _, w :: _, _ => s!"unmodelled cypher-eval:{w.replace " " "_"} {counts}"
  | _, _, _, _, _, w :: _ => s!"unmodelled sql-eval:{w.replace " " "_"} {counts}"
  | _, _, _, _, _, _ => s!"agree {counts}"

/-- names bound (in some WITH) to a collect(...) result, and the final RETURN columns that are such a list -/
def collectNames (q : Cy.Query) : List String :=
  q.parts.flatMap (fun p => p.proj.items.filterMap (fun it => match Cy.aggCall? it.e, it.alias with
    | some ("collect", _, _), some a => some a
    | _, _ => none))

def bagColumns (q : Cy.Query) : List Nat :=
  let names := collectNames q
  (List.range q.ret.items.length).zip q.ret.items |>.filterMap (fun p =>
    match Cy.aggCall? p.2.e with
    | some ("collect", _, _) => some p.1
    | _ => match p.2.e with
      | .var v => if names.contains v then some p.1 else none
      | _ => none)

/-- a projection whose items are all aggregates returns exactly one row: any SKIP / LIMIT on it is deterministic -/
def singleRow (p : Cy.Projection) : Bool := !p.items.isEmpty && p.items.all (fun it => (Cy.aggCall? it.e).isSome ||
  (match it.e with | .fn _ _ [inner] => (Cy.aggCall? inner).isSome | _ => false))
/-- SKIP / LIMIT without ORDER BY picks an arbitrary subset in both languages: results are not comparable -/
def unorderedCut (p : Cy.Projection) : Bool := (p.skip.isSome || p.limit.isSome) && p.orderBy.isEmpty && !singleRow p
/-- ORDER BY a collect(...) value: the element order inside the collected list is unspecified in both languages -/
def ordersByCollect (names : List String) (p : Cy.Projection) : Bool :=
  let aliases := names ++ p.items.filterMap (fun it => match Cy.aggCall? it.e, it.alias with
    | some ("collect", _, _), some a => some a
    | _, _ => none)
  p.orderBy.any (fun k => match Cy.aggCall? k.1 with
    | some ("collect", _, _) => true
    | _ => match k.1 with
      | .var v => aliases.contains v
      | _ => false)
def nondeterministic (q : Cy.Query) : Bool :=
  unorderedCut q.ret || q.parts.any (fun p => unorderedCut p.proj) ||
  ordersByCollect (collectNames q) q.ret || q.parts.any (fun p => ordersByCollect (collectNames q) p.proj)

/-- size of the MATCH patterns: every relationship step counts 1 (variable-length: 2), every further pattern part of a MATCH 1.
Both evaluators enumerate join products / trails naively, so the cost grows exponentially with this number. -/
def patternWeight (q : Cy.Query) : Nat :=
  let ofClauses := fun (cs : List Cy.Clause) => (cs.map (fun c => match c with
    | .match _ parts _ => (parts.map (fun p => match p with
        | .mk _ _ _ _ steps => 1 + (steps.map (fun s => if s.1.range.isSome then 2 else 1)).foldl (· + ·) 0)).foldl (· + ·) 0 - 1
    | _ => 0)).foldl (· + ·) 0
  (q.parts.map (fun p => ofClauses p.clauses)).foldl (· + ·) 0 + ofClauses q.clauses

/-- evaluation budget (stated in the rule text): heavier queries are only run on the smaller graphs of the family -/
def graphAllowed (q : Cy.Query) (g : Graph) : Bool :=
  let w := patternWeight q
  if w ≤ 1 then true
  else if w == 2 then g.edges.length ≤ 6
  else if w == 3 then g.edges.length ≤ 4 && g.nodes.length ≤ 4
  else g.edges.length ≤ 3 && g.nodes.length ≤ 3

/-- the graphs a query is evaluated on: the hand-made family always (up to pattern weight 6: they have at most 5 edges), the generated ones
within the budget -/
def graphsWithin (q : Cy.Query) (gseed nrandom exN exE : Nat) : List Graph :=
  (if patternWeight q ≤ 6 then GraphGen.fixedGraphs else GraphGen.fixedGraphs.filter (graphAllowed q)) ++
  (((List.range nrandom).map (fun i => GraphGen.randomGraph (gseed * 1000 + i)) ++
    (if exN == 0 then [] else GraphGen.exhaustiveUpTo exN exE)).filter (graphAllowed q))

def step (_ : Unit) (ts : List String) : Unit × String :=
  match ts with
  | [line] =>
    match Sexp.parseLine line with
    | some [.atom "skip"] => ((), "skip")
    | some [.atom "sem", .atom gs, .atom nr, .atom en, .atom ee, kmS, pS, cyS, sqlS] =>
      match gs.toNat?, nr.toNat?, en.toNat?, ee.toNat?, kindMapOf kmS with
      | some gseed, some nrandom, some exN, some exE, some km =>
        match ReadCy.query cyS with
        | .error tag => ((), s!"unmodelled cypher:{tag.replace " " "_"}")
        | .ok q =>
          if nondeterministic q then ((), "unmodelled nondeterministic:limit-without-order-by-or-order-by-collected-list") else
          match SqlSexp.stmt sqlS with
          | .error tag => ((), s!"unmodelled sql:{tag.replace " " "_"}")
          | .ok s =>
            match paramsOf pS with
            | none => ((), "unmodelled params")
            | some params =>
              let ordered := !q.ret.orderBy.isEmpty
              let graphs := graphsWithin q gseed nrandom exN exE
              let outs := graphs.map (compareOn km params q s ordered (bagColumns q))
              ((), summarize outs)
      | _, _, _, _, _ => ((), "bad-op")
    | _ => ((), "bad-op")
  | _ => ((), "bad-op")

def dbgStep (_ : Unit) (ts : List String) : Unit × String :=
  match ts with
  | [line] =>
    match Sexp.parseLine line with
    | some [.atom "sem", _, _, _, _, _, _, _, sqlS] =>
      match SqlSexp.stmt sqlS with
      | .ok s => ((), (toString (repr s)).replace "\n" " ")
      | .error e => ((), "unmodelled " ++ e)
    | _ => ((), "bad-op")
  | _ => ((), "bad-op")

/-- tie 1 (model = code on the fragment): for a parsed query inside S1 or S2b the REAL statement must equal the model statement (either join order for a hop) (and carry no parameters).
Then the theorem's prediction is run: on every generated graph that satisfies the hypothesis (`GraphOK` by `graphOKb` for S1, `GraphOK2` by `graphOK2b` for S2b) the two
evaluators must agree (or the SQL model stops with `unmodelled`); graphs outside the hypothesis are evaluated too and only counted. -/
def tieStep (_ : Unit) (ts : List String) : Unit × String :=
  match ts with
  | [line] =>
    match Sexp.parseLine line with
    | some [.atom "skip"] => ((), "skip")
    | some [.atom "sem", .atom gs, .atom nr, .atom en, .atom ee, kmS, pS, cyS, sqlS] =>
      match kindMapOf kmS, ReadCy.query cyS, SqlSexp.stmt sqlS with
      | some km, .ok q, .ok s =>
        -- which stage does the parsed query belong to, and is its Cypher reading the parsed query itself?
        let lim := C01.ofCyLimit2 q
        let ord := C01.ofCyOrder q
        let stage : Option (String × Bool × Bool) := match C01.ofCyCross q with
          | some x => some ("S2x", x.toCy == q, x.wf)
          | none => match lim with
          | some l => some ("S2L", l.toCy == q, l.base.wf)
          | none => match ord with
          | some o => some ("S1o", o.toCy == q, o.wf)
          | none => match C01.ofCyDistinct q with
          | some d => some ("S1d", d.toCy == q, d.wf)
          | none => match C01.ofCyWith q with
          | some w => some ("S3a", w.toCy == q, w.wf)
          | none => match C01.ofCyWithHop q with
          | some w => some ("S3b", w.toCy == q, w.wf)
          | none => match C01.ofCy q with
          | some s1 => some ("S1", s1.toCy == q, s1.wf)
          | none => match C01.ofCy2 q with
            | some s2 => some ("S2b", s2.toCy == q, s2.wf)
            | none => match C01.ofCyChain q with
              | some ch => some ("S2c", ch.toCy == q, ch.wf)
              | none => match C01.ofCyCount1 q with
                | some c1 => some ("S1c", c1.toCy == q, true)
                | none => match C01.ofCyCount2 q with
                  | some c2 => some ("S2n", c2.toCy == q, c2.base.wf)
                  | none => none
        match stage with
        | none => ((), "outside-fragment")
        | some (stg, reading, wf) =>
          if !reading then ((), "tie-differs cypher-reading-of-fragment-term-is-not-the-parsed-query") else
          if !wf then ((), "outside-fragment not-well-formed-for-" ++ stg) else
          -- the hop's join order is the translator's choice (selectivity heuristic over its Go tree): the real statement must be the
          -- model statement for ONE of the two orders; `dir` records whether it is the order the model's approximation picks
          let cands := [C01.tr10F (fun _ => false) (fun _ => false) (fun _ => false) (fun _ => false) true true true km q, C01.tr10F (fun _ => true) (fun _ => true) (fun _ => true) (fun _ => true) true true true km q].filterMap id
          match cands with
          | [] => ((), "tie-differs model-translator-rejects-a-translated-query")
          | (st0, ps) :: _ =>
            if !((paramsOf pS).map (·.length) == some ps.length) then ((), "tie-differs real-translation-has-parameters") else
            if !(cands.any (fun c => c.1 == s)) then
              -- is the REAL statement at least closed (C03's verified binder)? if not, the difference is a scoping defect of the real translator
              let closed := Sql.wellScoped ⟨Sql.schema, ((paramsOf pS).getD []).map (·.1), false⟩ s
              ((), (if closed then "tie-differs" else "tie-differs-real-statement-not-closed") ++ " model=" ++ ((toString (repr st0)).replace "\n" " ").replace " " "_" ++ " real=" ++ ((toString (repr s)).replace "\n" " ").replace " " "_")
            else
              let dir := if (C01.tr2 km q).map (·.1) == some s then "model" else (if cands.head?.map (·.1) == some s then "unflipped" else "flipped")
              match gs.toNat?, nr.toNat?, en.toNat?, ee.toNat? with
              | some gseed, some nrandom, some exN, some exE =>
                let graphs := graphsFor gseed nrandom exN exE
                let ordered := !q.ret.orderBy.isEmpty
                -- the hypothesis of the stage's theorem: `GraphOK` for S1, `GraphOK2` for S2b
                let hypB := fun (g : Graph) =>
                  if stg == "S1o" then C01.graphOKb km g && (match ord with | some o => C01.keyOKb g o.key | none => false)
                  else if stg == "S1d" then C01.graphOKb km g && (match C01.ofCyDistinct q with | some d => d.keys.all (C01.scalarKeyB g) | none => false)
                  else if stg == "S2x" then C01.graphOK2b km g && (match C01.ofCyCross q with | some x => x.keys.all (C01.scalarKeyB g) | none => false)
                  else if stg == "S1" || stg == "S1c" || stg == "S3a" then C01.graphOKb km g else C01.graphOK2b km g
                let inHyp := graphs.filter hypB
                let outHyp := graphs.filter (fun g => !hypB g)
                -- S2L: the reference semantics refuses a LIMIT that has to choose; the theorem speaks about the base query's rows
                let cmp := match lim with
                  | some l => compareCut km l.base.toCy l.k s
                  | none => if stg == "S1o" then compareOrd km q s else compareOn km [] q s ordered []
                let outsIn := inHyp.map cmp
                let outsOut := outHyp.map cmp
                let isAgree := fun (o : Outcome) => match o with | .agree => true | _ => false
                let isUsql := fun (o : Outcome) => match o with | .unmodelledSql _ => true | _ => false
                -- S1o: the reference refuses a SKIP / LIMIT that cuts inside a block of equal sort keys; the theorem claims nothing there
                let isTieRefusal := fun (o : Outcome) => match o with | .unmodelledCy w => stg == "S1o" && w.startsWith "nondeterministic-" | _ => false
                let bad := outsIn.filter (fun o => !(isAgree o || isUsql o || isTieRefusal o))
                let counts := s!"stage={stg} dir={dir} graphs={graphs.length} hyp={inHyp.length} agree={(outsIn.filter isAgree).length} usql={(outsIn.filter isUsql).length} outside-hyp={outHyp.length} outside-hyp-agree={(outsOut.filter isAgree).length}"
                if bad.isEmpty then ((), s!"tie-ok {counts}")
                else ((), s!"tie-proof-mismatch {counts} {summarize bad}")
              | _, _, _, _ => ((), "bad-op")
      | _, .error e, _ => ((), "outside-fragment cypher:" ++ e.replace " " "_")
      | _, _, .error e => ((), "outside-fragment sql:" ++ e.replace " " "_")
      | _, _, _ => ((), "bad-op")
    | _ => ((), "bad-op")
  | _ => ((), "bad-op")

def suite : Suite := { σ := Unit, init := (), step := step, raw := true }
def dbgSuite : Suite := { σ := Unit, init := (), step := dbgStep, raw := true }
def tieSuite : Suite := { σ := Unit, init := (), step := tieStep, raw := true }
end Driver.C01

def Driver.C01.suites : List (String × Driver.Suite) :=
  [("c01sem", Driver.C01.suite), ("c01dbg", Driver.C01.dbgSuite), ("c01tie", Driver.C01.tieSuite)]
