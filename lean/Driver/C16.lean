import Driver.Proto
import Dawgs.Model.C16
namespace Driver.C16
open Dawgs.C16

inductive St where
  | none
  | sieve (s : Sieve)
  | nemap (s : NeMap)

def boolStr (b : Bool) : String := if b then "1" else "0"

def step (st : St) (ts : List String) : St × String :=
  match ts with
  | ["new", "sieve", c] => match c.toInt? with
      | some c => (.sieve (Sieve.new c), "ok")
      | none => (st, "bad-op")
  | ["new", "nemap", c] => match c.toInt? with
      | some c => (.nemap (NeMap.new c), "ok")
      | none => (st, "bad-op")
  | ["put", k, v] => match k.toNat?, v.toNat?, st with
      | some k, some v, .sieve s => (.sieve (s.put k v), "ok")
      | some k, some v, .nemap s => (.nemap (s.put k v), "ok")
      | _, _, _ => (st, "bad-op")
  | ["get", k] => match k.toNat?, st with
      | some k, .sieve s => match s.get k with
        | (s', some v) => (.sieve s', s!"hit {v}")
        | (s', none) => (.sieve s', "miss")
      | some k, .nemap s => match s.get k with
        | (s', some v) => (.nemap s', s!"hit {v}")
        | (s', none) => (.nemap s', "miss")
      | _, _ => (st, "bad-op")
  | ["del", k] => match k.toNat?, st with
      | some k, .sieve s => (.sieve (s.delete k), "ok")
      | some k, .nemap s => (.nemap (s.delete k), "ok")
      | _, _ => (st, "bad-op")
  | ["stats"] => match st with
      | .sieve s => (st, s!"size={s.size} hits={s.hits} misses={s.misses} cap={s.cap}")
      | .nemap s => (st, s!"size={s.size} hits={s.hits} misses={s.misses} cap={s.cap}")
      | .none => (st, "bad-op")
  | ["comb"] =>
      -- Stats().Combined(peer.Stats()) with the harness' fixed peer cache (2 entries, 1 hit, 1 miss, capacity 4): a pure reading
      let peer : StatsV := { size := 2, hits := 1, misses := 1, cap := 4 }
      let show_ (v : StatsV) := s!"comb size={v.size} hits={v.hits} misses={v.misses} cap={v.cap}"
      match st with
      | .sieve s => (st, show_ (s.stats.combined peer))
      | .nemap s => (st, show_ (s.stats.combined peer))
      | .none => (st, "bad-op")
  | ["dump"] => match st with
      -- internal state, compared with the verif-tagged VerifDump hook of the real cache
      | .sieve s =>
        let ents := s.queue.map (fun e => s!"{e.key}:{e.val}:{boolStr e.visited}")
        let hand := match s.hand with | some k => toString k | none => "nil"
        (st, s!"queue={",".intercalate ents} hand={hand}")
      | .nemap s =>
        let ents := (s.store.map (fun p => (p.1, p.2))).toArray.qsort (fun a b => a.1 < b.1) |>.toList
        (st, s!"store={",".intercalate (ents.map (fun p => s!"{p.1}:{p.2}"))}")
      | .none => (st, "bad-op")
  | _ => (st, "bad-op")

def suite : Suite := { σ := St, init := .none, step := step }

end Driver.C16

def Driver.C16.suites : List (String × Driver.Suite) := [("c16", Driver.C16.suite)]
