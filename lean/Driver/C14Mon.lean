import Driver.Proto
import Driver.UtilC14
import Dawgs.Spec.C14
/-! Monitor for C14 (suite `c14mon`): judges the REAL containers' answers against the naive computation
on the edge list (spec `A`). Input lines are `<op> => <implementation answer>`.

A rejected answer is classified: if it equals what one of the known defect shapes would produce
(F2: `triplestore.adjacent` adds both ends under `both`; projection `Pick(both)` returns `Start`;
projection ignores the origin's `DeleteEdge` tombstones; F3: `ReadEach` yields nothing) the class names
that shape, otherwise the class is the generic `<op>-mismatch`. Classes are never accepted here; the
check's `known_findings.json` decides which classes are known. -/
namespace Driver.C14Mon
open Dawgs.C14
open Driver.UtilC14

structure St where
  g : G := {}
  tomb : List Nat := []
  /-- projection handles: name ↦ (accumulated deleted nodes, accumulated deleted edges, the argument sets the
  caller passed when the handle was created). A handle is a VALUE: nothing that happens later may change it. -/
  handles : List (String × (List Nat × List Nat × List Nat × List Nat)) := [("proj", ([], [], [], []))]
  /-- the graph an adjacency description denotes (`build`): every key and every destination is a node -/
  fg : G := {}
  /-- the graph of the relationships a `fetch` selected: their end points and nothing else -/
  fetchG : G := {}

def splitArrow (ts : List String) : List String × List String :=
  (ts.takeWhile (· ≠ "=>"), (ts.dropWhile (· ≠ "=>")).drop 1)

def parseDir : String → Option Dir
  | "out" => some .out
  | "in" => some .inn
  | "both" => some .both
  | _ => none

def parseIds (s : String) : Option (List Nat) :=
  if s == "-" then some [] else (s.splitOn ",").mapM String.toNat?

def stripBr (s : String) : Option String :=
  if s.startsWith "[" && s.endsWith "]" then some ((s.drop 1).dropEnd 1).toString else none

def parseList (s : String) : Option (List Nat) := do
  let inner ← stripBr s
  if inner.isEmpty then some [] else (inner.splitOn ",").mapM String.toNat?

def parsePairs (s : String) : Option (List (Nat × Nat)) := do
  let inner ← stripBr s
  if inner.isEmpty then some [] else
    (inner.splitOn ",").mapM (fun e => match e.splitOn "@" with
      | [n, d] => do some ((← n.toNat?), (← d.toNat?))
      | _ => none)

/-- `v:[..]` tokens → list of (v, payload string) -/
def parsePerNode (ts : List String) : Option (List (Nat × String)) :=
  if ts == ["-"] then some [] else
  ts.mapM (fun t => match t.splitOn ":" with
    | [v, p] => do some ((← v.toNat?), p)
    | _ => none)

def field (t name : String) : Option String :=
  if t.startsWith (name ++ "=") then some (t.drop (name.length + 1)).toString else none

def sortStrs (xs : List String) : List String := (xs.toArray.qsort (· < ·)).toList

def canonPairs (xs : List (Nat × Nat)) : List (Nat × Nat) :=
  (xs.toArray.qsort (fun a b => a.1 < b.1 || (a.1 == b.1 && a.2 < b.2))).toList

/-! graphs the containers are supposed to present -/

def St.graphOf (st : St) (c : String) (ignoreTomb : Bool := false) : G :=
  match c with
  | "ts" => if ignoreTomb then st.g else st.g.dropEdges st.tomb
  | "am" | "csr" => st.g
  | "fam" | "fcsr" => st.fg
  | "fetch" => st.fetchG
  | h => match st.handles.lookup h with
    | some (dn, de, _, _) => ((if ignoreTomb then st.g else st.g.dropEdges st.tomb).dropEdges de).dropNodes dn
    | none => st.g

def St.isHandle (st : St) (c : String) : Bool := (st.handles.lookup c).isSome

/-- adjacency under a defect shape -/
inductive Shape where
  | exact
  | tsSelf          -- triplestore.adjacent(both) = out ∪ in ∪ {v} when v has an incident edge
  | projStart       -- projection both = Start of every incident edge
deriving DecidableEq

def adjShape (g : G) (sh : Shape) (v : Nat) (d : Dir) : List Nat :=
  match sh, d with
  | .tsSelf, .both => g.adj v .both ++ (if (g.incident v .both).isEmpty then [] else [v])
  | .projStart, .both => (g.incident v .both).map (·.start)
  | _, _ => g.adj v d

/-- candidate explanations of an answer from container `c` in direction `d`: (class, graph, shape);
the first entry is the property itself. -/
def candidates (st : St) (c : String) (d : Dir) : List (String × G × Shape) :=
  let exact := [("ok", st.graphOf c, Shape.exact)]
  let tombs := !st.tomb.isEmpty
  if c == "ts" && d == .both then exact ++ [("ts-both-includes-self", st.graphOf c, Shape.tsSelf)]
  else if st.isHandle c && d == .both then
    exact ++ [("proj-both-returns-start", st.graphOf c, Shape.projStart)] ++
      (if tombs then [("proj-ignores-tombstone", st.graphOf c true, Shape.exact),
                      ("proj-ignores-tombstone", st.graphOf c true, Shape.projStart)] else [])
  else if st.isHandle c then exact ++ (if tombs then [("proj-ignores-tombstone", st.graphOf c true, Shape.exact)] else [])
  else exact

/-- judge with the first candidate whose prediction `f graph shape` equals `true`. -/
def classify (cands : List (String × G × Shape)) (ok : G → Shape → Bool) (generic : String) : String :=
  match cands.find? (fun c => ok c.2.1 c.2.2) with
  | some c => c.1
  | none => generic

def nodeSet (g : G) : List Nat := canon g.nodes

def verdict (cls detail : String) : String := if cls == "ok" then "ok" else s!"reject {cls} {detail}"

/-- first non-ok class over the per-node entries -/
def judgePerNode (st : St) (c : String) (d : Dir) (ents : List (Nat × String)) (generic : String)
    (okAt : G → Shape → Nat → String → Bool) : String :=
  let g0 := st.graphOf c
  if canon (ents.map (·.1)) != nodeSet g0 || (ents.map (·.1)).length != (nodeSet g0).length then
    s!"reject node-set-mismatch {c} listed={natList (ents.map (·.1))} want={natList (nodeSet g0)}"
  else
    let cands := candidates st c d
    -- one shape must explain the WHOLE line (all nodes)
    let cls := classify cands (fun g sh => ents.all (fun e => okAt g sh e.1 e.2)) generic
    if cls == "ok" then "ok" else
      let bad := ents.find? (fun e => !(okAt g0 .exact e.1 e.2))
      match bad with
      | some e => s!"reject {cls} {c} node={e.1} got={e.2}"
      | none => s!"reject {cls} {c}"

def adjOk (d : Dir) (g : G) (sh : Shape) (v : Nat) (p : String) : Bool :=
  match parseList p with
  | some got => canon got == canon (adjShape g sh v d)
  | none => false

def reachOk (d : Dir) (g : G) (sh : Shape) (v : Nat) (p : String) : Bool :=
  match parseList p with
  | some got => got == naiveReach (fun x => adjShape g sh x d) v ((nodeSet g).length + 1)
  | none => false

def bfsOk (d : Dir) (g : G) (sh : Shape) (v : Nat) (p : String) : Bool :=
  match parsePairs p with
  | some got => canonPairs got == naiveDists (fun x => adjShape g sh x d) v ((nodeSet g).length + 1)
  | none => false

def leSpec (n : Nat) : List Nat := (List.range 8).map (fun i => n / 256 ^ i % 256)

def hex2 (n : Nat) : String :=
  let d := "0123456789abcdef".toList
  String.ofList [d.getD (n / 16) '?', d.getD (n % 16) '?']

def parseSeg : List Nat → Option (List Seg)
  | [n] => some [⟨n, 0⟩]
  | n :: e :: rest => (parseSeg rest).map (fun t => ⟨n, e⟩ :: t)
  | [] => none

def fmtSeg : List Seg → String
  | [] => ""
  | [s] => s!"({s.node})"
  | s :: t :: rest => s!"({s.node})-[{s.edge}]->" ++ fmtSeg (t :: rest)

def parseFilter (s : String) : Option (Edge → Bool) :=
  if s == "all" then some (fun _ => true)
  else match s.splitOn ":" with
    | ["nostart", ids] => (parseIds ids).map (fun l => fun e => !(l.contains e.start))
    | ["noedge", ids] => (parseIds ids).map (fun l => fun e => !(l.contains e.id))
    | _ => none

def walkFuel (g : G) (md : Int) : Nat := if md > 0 then md.toNat + 2 else g.edges.length + 2

def expectWalks (g : G) (d : Dir) (f : Edge → Bool) (md : Int) (root : Nat) (startPick : Bool) : List String :=
  let pick : Edge → Nat → Nat := if startPick then (fun e _ => e.start) else Edge.other
  sortStrs ((maxWalks g d f md pick (walkFuel g md) [⟨root, 0⟩]).map fmtSeg)

def judgeTraverse (st : St) (name c dir md root filt : String) (out : List String) : String :=
  match parseDir dir, md.toInt?, root.toNat?, parseFilter filt, out with
  | some d, some md, some root, some f, [inc, segs] =>
    let got := if segs == "-" then [] else sortStrs (segs.splitOn "|")
    let g := st.graphOf c
    let incOk (ws : List String) : Bool :=
      let want := if md > 0 then (ws.filter (fun w => ((w.splitOn "(").length : Int) - 1 > md)).length else 0
      field inc "inc" == some (toString want)
    if got == expectWalks g d f md root false then
      if incOk got then "ok" else s!"reject {name}-incomplete-count {inc}"
    else if d == .both && got == expectWalks g d f md root true then
      s!"reject {name}-both-returns-start {c} root={root} got={segs}"
    else s!"reject {name}-mismatch {c} {dir} root={root} got={segs} want={"|".intercalate (expectWalks g d f md root false)}"
  | _, _, _, _, _ => s!"reject bad-output {name}"

def edgeWeight (e : Edge) : Nat := 1 + e.id % 3

def fmtPTerm (t : PTerm) : String := s!"{t.node}@{t.dist}*{t.weight}"

def judgeStateless (st : St) (c dir md root filt : String) (out : List String) : String :=
  match parseDir dir, md.toInt?, root.toNat?, parseFilter filt, out with
  | some d, some md, some root, some f, [inc, ts] =>
    let got := if ts == "-" then [] else sortStrs (ts.splitOn "|")
    let g := st.graphOf c
    let fuel := if md > 0 then md.toNat + 3 else g.edges.length + 2
    let wantT := maxTerms g d (fun e => if f e then some (edgeWeight e) else none) md fuel ⟨root, 0, 0⟩
    let want := sortStrs (wantT.map fmtPTerm)
    let wantInc := if md > 0 then (wantT.filter (fun t => decide ((t.dist : Int) > md))).length else 0
    if got != want then s!"reject tssl-mismatch {c} {dir} root={root} got={ts} want={"|".intercalate want}"
    else if field inc "inc" != some (toString wantInc) then s!"reject tssl-incomplete-count {inc} want={wantInc}"
    else "ok"
  | _, _, _, _, _ => "reject bad-output tssl"

def maxOf (xs : List Nat) : Nat := xs.foldl (fun m x => if x > m then x else m) 0

def multiDeg (g : G) (v : Nat) : Dir → Nat
  | .out => (g.incident v .out).length
  | .inn => (g.incident v .inn).length
  | .both => (g.incident v .out).length + (g.incident v .inn).length

/-- the canonical view a handle must have: a function of the graph it denotes, nothing else -/
def specView (g : G) : String :=
  let dirOf : String → Dir := fun d => if d == "out" then .out else if d == "in" then .inn else .both
  viewOf (nodeSet g).length (nodeSet g) g.edges.length (g.edges.map (fun e => (e.id, e.start, e.stop)))
    (fun v d => canon (g.adj v (dirOf d))) (fun v d => (g.incident v (dirOf d)).map (·.id))

def setHandle {α : Type} (hs : List (String × α)) (name : String) (h : α) : List (String × α) :=
  (hs.filter (fun p => p.1 != name)) ++ [(name, h)]

/-- `PARENT.Projection(dn, de)`: child = parent's deletions plus the new ones; nothing else changes. -/
def derive (st : St) (name parent dn de : String) (out : List String) : St × String :=
  match parseIds dn, parseIds de with
  | some dn, some de =>
    let base := if parent == "store" then some ([], [], [], []) else st.handles.lookup parent
    match base with
    | some (pn, pe, _, _) =>
      ({ st with handles := setHandle st.handles name (pn ++ dn, pe ++ de, dn, de) },
       if out == ["ok"] then "ok" else "reject bad-output proj")
    | none => (st, "reject bad-op proj parent")
  | _, _ => (st, "reject bad-op")

/-- the re-observation of every live handle that follows each answer: `H=<view digest>:<argument digest>` -/
def judgeDigests (st : St) (toks : List String) : String :=
  let names := sortNames (st.handles.map (·.1))
  if toks.length != names.length then s!"reject handle-set-mismatch listed={toks.length} live={names.length}"
  else
    let bad := (names.zip toks).findSome? (fun (n, tok) =>
      match st.handles.lookup n, tok.splitOn "=" with
      | some (_, _, aN, aE), [n', hv] =>
        match hv.splitOn ":" with
        | [v, a] =>
          if n' != n then some s!"reject handle-set-mismatch expected={n} got={n'}"
          else
            let argsOk := a == digest (argsOf (canon aN) (canon aE))
            let argMsg := s!"reject projection-argument-mutated handle={n} the bitmaps passed to Projection no longer hold {natL (canon aN)} / {natL (canon aE)}"
            if v == digest (specView (st.graphOf n)) then (if argsOk then none else some argMsg)
            else if !st.tomb.isEmpty && v == digest (specView (st.graphOf n true)) then
              (if argsOk then some s!"reject proj-ignores-tombstone handle={n}" else some argMsg)
            else some s!"reject handle-view-changed handle={n} its view is no longer the store minus its own deletions{if argsOk then "" else " AND the bitmaps passed to Projection were mutated"} (use `snap {n}` for the full view)"
        | _ => some "reject bad-output digest"
      | _, _ => some "reject bad-output digest")
    bad.getD "ok"

def step0 (st : St) (ts : List String) : St × String :=
  let (op, out) := splitArrow ts
  match op with
  | ["graph"] => ({}, if out == ["ok"] then "ok" else "reject bad-output graph")
  | ["mode", _] => (st, "ok")
  | ["node", n] => match n.toNat? with
      | some n => ({ st with g := st.g.step (.node n) }, if out == ["ok"] then "ok" else "reject bad-output node")
      | none => (st, "reject bad-op")
  | ["edge", id, s, e] => match id.toNat?, s.toNat?, e.toNat? with
      | some id, some s, some e => ({ st with g := st.g.step (.edge id s e) }, if out == ["ok"] then "ok" else "reject bad-output edge")
      | _, _, _ => (st, "reject bad-op")
  | ["tsdel", id] => match id.toNat? with
      | some id => ({ st with tomb := id :: st.tomb }, if out == ["ok"] then "ok" else "reject bad-output tsdel")
      | none => (st, "reject bad-op")
  | ["proj", dn, de] => derive st "proj" "store" dn de out
  | ["proj2", dn, de] => derive st "proj" "proj" dn de out
  | ["proj", name, parent, dn, de] => derive st name parent dn de out
  | ["proj", name, parent, dn, de, _prov] => derive st name parent dn de out     -- a set is a set in every Duplex implementation
  | ["build", desc] =>
      let ents : Option (List (Nat × List Nat)) :=
        if desc == "-" then some [] else
        (desc.splitOn ";").mapM (fun ent => match ent.splitOn ">" with
          | [k, v] => do
            let src ← k.toNat?
            if v == "~" || v == "" then some (src, []) else
              let outs ← (v.splitOn ",").mapM String.toNat?
              some (src, outs)
          | _ => none)
      match ents with
      | some es =>
        let g : G := { nodes := es.flatMap (fun kv => kv.1 :: kv.2),
                       edges := es.flatMap (fun kv => kv.2.map (fun dst => ⟨0, kv.1, dst⟩)) }
        ({ st with fg := g }, if out == ["ok"] then "ok" else "reject bad-output build")
      | none => (st, "reject bad-op build")
  | ["fetch", which] =>
      let sel : Option (Edge → Bool) := match which with
        | "all" => some (fun _ => true)
        | "k0" => some (fun e => e.id % 2 == 0)
        | "k1" => some (fun e => e.id % 2 == 1)
        | _ => none
      match sel with
      | some f =>
        let es := st.g.edges.filter f
        ({ st with fetchG := { nodes := es.flatMap (fun e => [e.start, e.stop]), edges := es } },
         if out == ["ok"] then "ok" else s!"reject fetch-failed {" ".intercalate out}")
      | none => (st, "reject bad-op fetch")
  | ["snap", name] => match st.handles.lookup name, out with
      | some (_, _, aN, aE), [txt] =>
        let want (ig : Bool) := specView (st.graphOf name ig) ++ ";" ++ argsOf (canon aN) (canon aE)
        if txt == want false then (st, "ok")
        else if !st.tomb.isEmpty && txt == want true then (st, s!"reject proj-ignores-tombstone snap {name}")
        else (st, s!"reject handle-view-mismatch {name} snap want={want false}")
      | _, _ => (st, "reject bad-output snap")
  | ["nodes", c] => match out with
      | [n, l] => match (field n "n").bind String.toNat?, parseList l with
        | some n, some l =>
          let want := nodeSet (st.graphOf c)
          if n != want.length then (st, s!"reject numnodes-mismatch {c} got={n} want={want.length}")
          else if canon l != want || l.length != want.length then (st, s!"reject node-set-mismatch {c} got={natList l} want={natList want}")
          else (st, "ok")
        | _, _ => (st, "reject bad-output nodes")
      | _ => (st, "reject bad-output nodes")
  | ["adj", c, d] => match parseDir d, parsePerNode out with
      | some d, some ents => (st, judgePerNode st c d ents "adj-mismatch" (adjOk d))
      | _, _ => (st, "reject bad-output adj")
  | ["adj1", c, d, n] => match parseDir d, n.toNat?, out with
      | some d, some n, [p] =>
        (st, verdict (classify (candidates st c d) (fun g sh => adjOk d g sh n p) "adj-mismatch") s!"{c} node={n} got={p}")
      | _, _, _ => (st, "reject bad-output adj1")
  | ["reach", c, d] => match parseDir d, parsePerNode out with
      | some d, some ents => (st, judgePerNode st c d ents "reach-mismatch" (reachOk d))
      | _, _ => (st, "reject bad-output reach")
  | ["reach1", c, d, n] => match parseDir d, n.toNat?, out with
      | some d, some n, [p] =>
        (st, verdict (classify (candidates st c d) (fun g sh => reachOk d g sh n p) "reach-mismatch") s!"{c} node={n} got={p}")
      | _, _, _ => (st, "reject bad-output reach1")
  | ["bfs", c, d] => match parseDir d, parsePerNode out with
      | some d, some ents => (st, judgePerNode st c d ents "bfs-mismatch" (bfsOk d))
      | _, _ => (st, "reject bad-output bfs")
  | ["bfs1", c, d, n] => match parseDir d, n.toNat?, out with
      | some d, some n, [p] =>
        (st, verdict (classify (candidates st c d) (fun g sh => bfsOk d g sh n p) "bfs-mismatch") s!"{c} node={n} got={p}")
      | _, _, _ => (st, "reject bad-output bfs1")
  | ["norm", c, d] => match parseDir d, out with
      | some d, revTok :: rest => match (field revTok "rev").bind parseList, parsePerNode rest with
        | some rev, some ents =>
          let g := st.graphOf c
          let want := nodeSet g
          let n := want.length
          if canon rev != want || rev.length != n then (st, s!"reject normalize-reverse-index-not-a-bijection {c} rev={natList rev}")
          else if canon (ents.map (·.1)) != List.range n || ents.length != n then
            (st, s!"reject normalize-node-set {c}")
          else
            let bad := ents.find? (fun e => match parseList e.2 with
              | some got => !(got.all (· < n) && canon (got.map (fun i => rev.getD i 0)) == canon (g.adj (rev.getD e.1 0) d))
              | none => true)
            match bad with
            | some e => (st, s!"reject normalize-not-isomorphic {c} normal-node={e.1} got={e.2}")
            | none => (st, "ok")
        | _, _ => (st, "reject bad-output norm")
      | _, _ => (st, "reject bad-output norm")
  | "seg" :: ids => match (parseNats ids).bind parseSeg, out with
      | some s, [h, ns, es] =>
        let ids := (s.dropLast.flatMap (fun x => [x.node, x.edge])) ++ (match s.getLast? with | some l => [l.node] | none => [])
        let wantHex := String.join ((ids.flatMap leSpec).map hex2)
        if field h "hex" != some wantHex then (st, s!"reject segment-bytes-mismatch want={wantHex}")
        else if (field ns "nodes").bind parseList != some (s.map (·.node)) || (field es "edges").bind parseList != some (s.dropLast.map (·.edge)) then
          (st, s!"reject segment-roundtrip-mismatch {ns} {es}")
        else (st, "ok")
      | _, _ => (st, "reject bad-output seg")
  | ["toseg", ns, es] => match parseIds ns, parseIds es, out with
      -- a well-formed serialized path (k+1 nodes, k edges) must come back as a chain with exactly those nodes and edges
      | some ns, some es, ["index-panic"] => (st, s!"reject toseg-index-panic nodes={natList ns} edges={natList es}")
      | some ns, some es, [gn, ge] =>
        if ns.length != es.length + 1 then (st, "ok")
        else match (field gn "nodes").bind parseList, (field ge "edges").bind parseList with
          | some gn, some ge =>
            if (gn == ns && ge == es) || (gn == ns.reverse && ge == es.reverse) then (st, "ok")
            else (st, s!"reject toseg-mismatch got nodes={natList gn} edges={natList ge}")
          | _, _ => (st, "reject bad-output toseg")
      | _, _, _ => (st, "reject bad-output toseg")
  | ["tsbfs", c, d, md, root, filt] => (st, judgeTraverse st "tsbfs" c d md root filt out)
  | ["tsdfs", c, d, md, root, filt] => (st, judgeTraverse st "tsdfs" c d md root filt out)
  | ["tssl", c, d, md, root, filt] => (st, judgeStateless st c d md root filt out)
  | ["numedges", c] => match out with
      | [n] => match n.toNat? with
        | some n =>
          let g := st.graphOf c
          -- the triple store and its projections hold a multigraph (every triple counts); the adjacency map and the
          -- CSR digraph can only count distinct (start, end) pairs
          let want := if c == "ts" || st.isHandle c then g.edges.length else g.pairs.length
          if n == want then (st, "ok")
          else if c == "am" && n == (nodeSet g).length then (st, s!"reject am-numedges-returns-node-count got={n} want={want}")
          else if c == "ts" && !st.tomb.isEmpty && n == (st.graphOf c true).edges.length then
            (st, s!"reject ts-numedges-ignores-tombstone got={n} want={want}")
          else if st.isHandle c && !st.tomb.isEmpty && n == (st.graphOf c true).edges.length then
            (st, s!"reject proj-ignores-tombstone numedges got={n} want={want}")
          else (st, s!"reject numedges-mismatch {c} got={n} want={want}")
        | none => (st, "reject bad-output numedges")
      | _ => (st, "reject bad-output numedges")
  | ["dims", c, d] => match parseDir d, out with
      | some d, [n, m] => match n.toNat?, m.toNat? with
        | some n, some m =>
          let judge (g : G) : Bool :=
            let ns := nodeSet g
            let setMax := maxOf (ns.map (fun v => (canon (g.adj v d)).length))
            let multiMax := maxOf (ns.map (fun v => multiDeg g v d))
            -- multiplicity of callbacks is not part of the property: any count between the number of distinct
            -- neighbours and the number of incident edges is accepted; the set-valued containers must be exact
            n == ns.length && setMax ≤ m && m ≤ multiMax && (!(c == "am" || c == "ts") || m == setMax)
          if judge (st.graphOf c) then (st, "ok")
          else if st.isHandle c && !st.tomb.isEmpty && judge (st.graphOf c true) then (st, s!"reject proj-ignores-tombstone dims got={n},{m}")
          else (st, s!"reject dims-mismatch {c} got={n},{m}")
        | _, _ => (st, "reject bad-output dims")
      | _, _ => (st, "reject bad-output dims")
  | ["zone", md, ids] => match md.toInt?, parseIds ids, out with
      | some md, some zone, [w, r, segs] =>
        let g := st.graphOf "ts"
        let want := sortStrs (zone.flatMap (fun z => expectWalks g .inn (fun e => !(zone.contains e.start)) md z false))
        let got := if segs == "-" then [] else sortStrs (segs.splitOn "|")
        if field w "written" != some (toString want.length) then (st, s!"reject zone-written-count {w} want={want.length}")
        else if got == want && field r "read" == some (toString want.length) then (st, "ok")
        else if got.isEmpty then (st, s!"reject readeach-lost-all-segments {w} {r}")
        else (st, s!"reject readeach-mismatch {w} {r} got={segs}")
      | _, _, _ => (st, "reject bad-output zone")
  | _ => (st, "reject bad-op " ++ " ".intercalate op)

/-- judge the answer proper, then the re-observation of all live handles that follows `##` -/
def step (st : St) (ts : List String) : St × String :=
  let main := ts.takeWhile (· ≠ "##")
  let dig := (ts.dropWhile (· ≠ "##")).drop 1
  let (st', r) := step0 st main
  if r != "ok" || !(ts.contains "##") then (st', r) else (st', judgeDigests st' dig)

def suite : Suite := { σ := St, init := {}, step := step }
end Driver.C14Mon

def Driver.C14Mon.suites : List (String × Driver.Suite) := [("c14mon", Driver.C14Mon.suite)]
