import Driver.Sexp
import Driver.SqlSexp
import Dawgs.Model.Cypher
/-!
Reader: harness reflection S-expression of the parsed Cypher model (`ToSexp(*cypher.RegularQuery)`) → `Dawgs.Cy.Query`.
Anything outside the Lean Cypher AST is the explicit error `unmodelled <tag>`.
-/
namespace Driver.ReadCy
open Driver Dawgs Dawgs.Cy
open Driver.SqlSexp (R fields fld need tagOf isNil asBool asNamedStr asList)

/-- the translator's decodeCypherStringLiteral: strip the quotes, resolve \\ \' \" \b \f \n \r \t -/
def decodeString (raw : String) : R String :=
  let cs := raw.toList
  match cs with
  | q :: rest =>
    if (q != '\'' && q != '"') || rest.getLast? != some q || rest.isEmpty then .error "string-literal:quotes" else
    let body := rest.dropLast
    let rec go (cs : List Char) (acc : List Char) : R String :=
      match cs with
      | [] => .ok (String.ofList acc.reverse)
      | '\\' :: c :: rest =>
        match c with
        | '\\' | '\'' | '"' => go rest (c :: acc)
        | 'b' | 'B' => go rest ('\x08' :: acc)
        | 'f' | 'F' => go rest ('\x0c' :: acc)
        | 'n' | 'N' => go rest ('\n' :: acc)
        | 'r' | 'R' => go rest ('\r' :: acc)
        | 't' | 'T' => go rest ('\t' :: acc)
        | _ => .error "string-literal:escape"
      | ['\\'] => .error "string-literal:dangling-escape"
      | c :: rest => go rest (c :: acc)
    go body []
  | [] => .error "string-literal:empty"

/-- "12.50" → ⟨1250, 2⟩ (no exponent form) -/
def parseDec (s : String) : Option Dec :=
  let (neg, body) := if s.startsWith "-" then (true, (s.drop 1).toString) else (false, s)
  match body.splitOn "." with
  | [ip] => ip.toNat?.map (fun n => ⟨if neg then -(n : Int) else n, 0⟩)
  | [ip, fp] =>
    if fp.isEmpty || !(fp.all Char.isDigit) then none else
    match (ip ++ fp).toNat? with
    | some n => some ⟨if neg then -(n : Int) else n, fp.length⟩
    | none => none
  | _ => none

def lit (fs : List Sexp) : R Lit := do
  let null ← asBool "Literal" (← need "Literal" "Null" fs)
  if null then pure .null else
  match ← need "Literal" "Value" fs with
  | .atom "true" => pure (.bool true)
  | .atom "false" => pure (.bool false)
  | .atom "nil" => pure .null
  | .str s => do let d ← decodeString s; pure (.str d)
  | .atom a => match a.toInt? with
    | some i => pure (.int i)
    | none => .error "Literal.Value:atom"
  | .list [.atom "f64", .str s] => match parseDec (Driver.SqlSexp.plainDecimal s) with
    | some d => pure (.dec d)
    | none => .error "Literal.Value:float-form"
  | v => .error s!"Literal.Value:{tagOf v}"

def kinds (s : Sexp) : R (List String) := do
  if isNil s then pure [] else
  (← asList "Kinds" s).mapM (asNamedStr "Kind")

def optVar (s : Sexp) : R (Option String) :=
  if isNil s then pure none else
  match fields s with
  | some ("cypher.Variable", fs) => do let n ← asNamedStr "Variable" (← need "Variable" "Symbol" fs); pure (some n)
  | _ => .error s!"Variable:{tagOf s}"

def exprList (tag : String) (fs : List Sexp) : R (List Sexp) := do
  let el ← need tag "expressionList" fs
  match fields el with
  | some ("cypher.expressionList", efs) => asList tag (← need tag "Expressions" efs)
  | _ => .error s!"{tag}.expressionList"

def direction : Sexp → R Dir
  | .list [.atom "graph.Direction", .atom "0"] => pure .inn
  | .list [.atom "graph.Direction", .atom "1"] => pure .out
  | .list [.atom "graph.Direction", .atom "2"] => pure .both
  | s => .error s!"Direction:{tagOf s}"

def optNat (s : Sexp) : R (Option Nat) :=
  match s with
  | .atom "nil" => pure none
  | .atom a => match a.toNat? with
    | some n => pure (some n)
    | none => .error "PatternRange:negative"
  | _ => .error "PatternRange"

mutual
partial def expr (s : Sexp) : R Expr := do
  match fields s with
  | none => .error s!"cypher-expr:{tagOf s}"
  | some (tag, fs) =>
  match tag with
  | "cypher.Literal" => do let l ← lit fs; pure (.lit l)
  | "cypher.Variable" => do let n ← asNamedStr tag (← need tag "Symbol" fs); pure (.var n)
  | "cypher.PropertyLookup" =>
    let a ← expr (← need tag "Atom" fs)
    let k ← asNamedStr tag (← need tag "Symbol" fs)
    pure (.prop a k)
  | "cypher.FunctionInvocation" =>
    let ns ← need tag "Namespace" fs
    if !isNil ns && (← asList tag ns).length > 0 then .error "FunctionInvocation.Namespace" else
    let name ← asNamedStr tag (← need tag "Name" fs)
    let d ← asBool tag (← need tag "Distinct" fs)
    let args ← (← asList tag (← need tag "Arguments" fs)).mapM expr
    pure (.fn name.toLower d args)
  | "cypher.Comparison" =>
    let l ← expr (← need tag "Left" fs)
    let ps ← asList tag (← need tag "Partials" fs)
    match ps with
    | [] => pure l
    | [p] =>
      match fields p with
      | some ("cypher.PartialComparison", pfs) =>
        let op ← asNamedStr tag (← need tag "Operator" pfs)
        let r ← expr (← need tag "Right" pfs)
        pure (.cmp op.toLower l r)
      | _ => .error "PartialComparison"
    | _ => .error "Comparison:chained"
  | "cypher.Conjunction" => do let es ← (← exprList tag fs).mapM expr; pure (.conj es)
  | "cypher.Disjunction" => do let es ← (← exprList tag fs).mapM expr; pure (.disj es)
  | "cypher.ExclusiveDisjunction" => do let es ← (← exprList tag fs).mapM expr; pure (.xor es)
  | "cypher.Negation" => do let e ← expr (← need tag "Expression" fs); pure (.not e)
  | "cypher.Parenthetical" => do let e ← expr (← need tag "Expression" fs); pure (.paren e)
  | "cypher.ArithmeticExpression" =>
    let l ← expr (← need tag "Left" fs)
    let ps ← asList tag (← need tag "Partials" fs)
    if ps.isEmpty then pure l else
    let rest ← ps.mapM (fun p => do
      match fields p with
      | some ("cypher.PartialArithmeticExpression", pfs) =>
        let op ← asNamedStr tag (← need tag "Operator" pfs)
        let r ← expr (← need tag "Right" pfs)
        pure (op, r)
      | _ => .error "PartialArithmeticExpression")
    pure (.arith l rest)
  | "cypher.UnaryAddOrSubtractExpression" =>
    let op ← asNamedStr tag (← need tag "Operator" fs)
    let e ← expr (← need tag "Right" fs)
    pure (.neg op e)
  | "cypher.ListLiteral" => do let es ← (← asList tag s).mapM expr; pure (.list es)
  | "cypher.KindMatcher" =>
    let e ← expr (← need tag "Reference" fs)
    let ks ← kinds (← need tag "Kinds" fs)
    let ex ← asBool tag (← need tag "IsExclusive" fs)
    pure (.kindIs e ks ex)
  | "cypher.PatternPredicate" => do
    let p ← patternOf none false false (← asList tag (← need tag "PatternElements" fs))
    pure (.pattern p)
  | "cypher.Quantifier" =>
    let ty ← asNamedStr tag (← need tag "Type" fs)
    let q ← match ty.toLower with
      | "any" => pure Quant.any | "all" => pure Quant.all | "none" => pure Quant.none | "single" => pure Quant.single
      | _ => .error s!"Quantifier:{ty}"
    let f ← need tag "Filter" fs
    match fields f with
    | some ("cypher.FilterExpression", ffs) =>
      let sp ← need "FilterExpression" "Specifier" ffs
      match fields sp with
      | some ("cypher.IDInCollection", sfs) =>
        let v ← optVar (← need "IDInCollection" "Variable" sfs)
        let src ← expr (← need "IDInCollection" "Expression" sfs)
        let w ← optWhere (← need "FilterExpression" "Where" ffs)
        match v with
        | some v => pure (.quant q v src w)
        | none => .error "IDInCollection.Variable"
      | _ => .error "FilterExpression.Specifier"
    | _ => .error "Quantifier.Filter"
  | t => .error s!"cypher-expr:{t}"

/-- `Where` node → its single expression (several → conjunction) -/
partial def optWhere (s : Sexp) : R (Option Expr) := do
  if isNil s then pure none else
  match fields s with
  | some ("cypher.Where", fs) =>
    let es ← (← exprList "Where" fs).mapM expr
    match es with
    | [] => pure none
    | [e] => pure (some e)
    | es => pure (some (.conj es))
  | _ => .error s!"Where:{tagOf s}"

partial def propMap (s : Sexp) : R (List (String × Expr)) := do
  if isNil s then pure [] else
  match fields s with
  | some ("cypher.Properties", fs) =>
    let p ← need "Properties" "Parameter" fs
    if !isNil p then .error "Properties.Parameter" else
    match ← need "Properties" "Map" fs with
    | .atom "nil" => pure []
    | .list (.atom "map" :: kvs) =>
      kvs.mapM (fun kv => match kv with
        | .list [.str k, v] => do let e ← expr v; pure (k, e)
        | _ => .error "Properties.Map:entry")
    | .list [.atom "cypher.MapLiteral", .list (.atom "map" :: kvs)] =>
      kvs.mapM (fun kv => match kv with
        | .list [.str k, v] => do let e ← expr v; pure (k, e)
        | _ => .error "Properties.Map:entry")
    | .list [.atom "cypher.MapLiteral", .atom "nil"] => pure []
    | m => .error s!"Properties.Map:{tagOf m}"
  | _ => .error s!"Properties:{tagOf s}"

partial def nodePat (s : Sexp) : R NodePat := do
  match fields s with
  | some ("cypher.NodePattern", fs) =>
    let v ← optVar (← need "NodePattern" "Variable" fs)
    let ks ← kinds (← need "NodePattern" "Kinds" fs)
    let ps ← propMap (← need "NodePattern" "Properties" fs)
    pure (.mk v ks ps)
  | _ => .error s!"NodePattern:{tagOf s}"

partial def relPat (s : Sexp) : R RelPat := do
  match fields s with
  | some ("cypher.RelationshipPattern", fs) =>
    let v ← optVar (← need "RelationshipPattern" "Variable" fs)
    let ks ← kinds (← need "RelationshipPattern" "Kinds" fs)
    let d ← direction (← need "RelationshipPattern" "Direction" fs)
    let rs ← need "RelationshipPattern" "Range" fs
    let range ← if isNil rs then pure none else
      match fields rs with
      | some ("cypher.PatternRange", rfs) => do
        let a ← optNat (← need "PatternRange" "StartIndex" rfs)
        let b ← optNat (← need "PatternRange" "EndIndex" rfs)
        pure (some (a, b))
      | _ => .error "RelationshipPattern.Range"
    let ps ← propMap (← need "RelationshipPattern" "Properties" fs)
    pure (.mk v ks d range ps)
  | _ => .error s!"RelationshipPattern:{tagOf s}"

partial def element (s : Sexp) : R Sexp :=
  match fields s with
  | some ("cypher.PatternElement", fs) => need "PatternElement" "Element" fs
  | _ => .error s!"PatternElement:{tagOf s}"

partial def steps : List Sexp → R (List (RelPat × NodePat))
  | [] => pure []
  | r :: n :: rest => do
    let rp ← relPat (← element r)
    let np ← nodePat (← element n)
    let more ← steps rest
    pure ((rp, np) :: more)
  | _ => .error "PatternElements:odd"

partial def patternOf (pathVar : Option String) (sp asp : Bool) (els : List Sexp) : R PatternPart := do
  match els with
  | [] => .error "PatternElements:empty"
  | f :: rest =>
    let first ← nodePat (← element f)
    let st ← steps rest
    pure (.mk pathVar sp asp first st)
end

def patternPart (s : Sexp) : R PatternPart := do
  match fields s with
  | some ("cypher.PatternPart", fs) =>
    let v ← optVar (← need "PatternPart" "Variable" fs)
    let sp ← asBool "PatternPart" (← need "PatternPart" "ShortestPathPattern" fs)
    let asp ← asBool "PatternPart" (← need "PatternPart" "AllShortestPathsPattern" fs)
    -- set by the optimiser's traversal reversal: the elements are stored right-to-left and a bound path is re-reversed when materialised
    let reversed ← (match fld "PathDirectionReversed" fs with
      | some b => asBool "PatternPart" b
      | none => pure false)
    if reversed && v.isSome then .error "path-variable-over-reversed-pattern" else
    patternOf v sp asp (← asList "PatternPart" (← need "PatternPart" "PatternElements" fs))
  | _ => .error s!"PatternPart:{tagOf s}"

def clause (s : Sexp) : R Clause := do
  match fields s with
  | some ("cypher.ReadingClause", fs) =>
    let m ← need "ReadingClause" "Match" fs
    let u ← need "ReadingClause" "Unwind" fs
    if !isNil m then
      match fields m with
      | some ("cypher.Match", mfs) =>
        let opt ← asBool "Match" (← need "Match" "Optional" mfs)
        let ps ← (← asList "Match" (← need "Match" "Pattern" mfs)).mapM patternPart
        let w ← optWhere (← need "Match" "Where" mfs)
        pure (.match opt ps w)
      | _ => .error "ReadingClause.Match"
    else if !isNil u then
      match fields u with
      | some ("cypher.Unwind", ufs) =>
        let e ← expr (← need "Unwind" "Expression" ufs)
        match ← optVar (← need "Unwind" "Variable" ufs) with
        | some v => pure (.unwind e v)
        | none => .error "Unwind.Variable"
      | _ => .error "ReadingClause.Unwind"
    else .error "ReadingClause:empty"
  | _ => .error s!"ReadingClause:{tagOf s}"

def optExprOf (tag field : String) (s : Sexp) : R (Option Expr) := do
  if isNil s then pure none else
  match fields s with
  | some (_, fs) => do let e ← expr (← need tag field fs); pure (some e)
  | none => .error tag

def projection (s : Sexp) : R Projection := do
  match fields s with
  | some ("cypher.Projection", fs) =>
    let d ← asBool "Projection" (← need "Projection" "Distinct" fs)
    let all ← asBool "Projection" (← need "Projection" "All" fs)
    let items ← (← asList "Projection" (← need "Projection" "Items" fs)).mapM (fun it => do
      match fields it with
      | some ("cypher.ProjectionItem", ifs) =>
        let e ← expr (← need "ProjectionItem" "Expression" ifs)
        let a ← optVar (← need "ProjectionItem" "Alias" ifs)
        pure (⟨e, a⟩ : ProjItem)
      | _ => .error "ProjectionItem")
    let o ← need "Projection" "Order" fs
    let order ← if isNil o then pure [] else
      match fields o with
      | some ("cypher.Order", ofs) =>
        (← asList "Order" (← need "Order" "Items" ofs)).mapM (fun it => do
          match fields it with
          | some ("cypher.SortItem", sfs) =>
            let asc ← asBool "SortItem" (← need "SortItem" "Ascending" sfs)
            let e ← expr (← need "SortItem" "Expression" sfs)
            pure (e, asc)
          | _ => .error "SortItem")
      | _ => .error "Projection.Order"
    let skip ← optExprOf "Skip" "Value" (← need "Projection" "Skip" fs)
    let limit ← optExprOf "Limit" "Value" (← need "Projection" "Limit" fs)
    pure ⟨d, all, items, order, skip, limit⟩
  | _ => .error s!"Projection:{tagOf s}"

def noUpdates (tag : String) (fs : List Sexp) : R Unit := do
  let u ← need tag "UpdatingClauses" fs
  if isNil u then pure () else
  if (← asList tag u).isEmpty then pure () else .error "updating-clause"

def singlePart (s : Sexp) : R (List Clause × Projection) := do
  match fields s with
  | some ("cypher.SinglePartQuery", fs) =>
    noUpdates "SinglePartQuery" fs
    let cs ← (← asList "SinglePartQuery" (← need "SinglePartQuery" "ReadingClauses" fs)).mapM clause
    let r ← need "SinglePartQuery" "Return" fs
    if isNil r then .error "no-return" else
    match fields r with
    | some ("cypher.Return", rfs) => do
      let p ← projection (← need "Return" "Projection" rfs)
      pure (cs, p)
    | _ => .error "Return"
  | _ => .error s!"SinglePartQuery:{tagOf s}"

def query (s : Sexp) : R Query := do
  match fields s with
  | some ("cypher.RegularQuery", fs) =>
    let sq ← need "RegularQuery" "SingleQuery" fs
    match fields sq with
    | some ("cypher.SingleQuery", sfs) =>
      let sp ← need "SingleQuery" "SinglePartQuery" sfs
      let mp ← need "SingleQuery" "MultiPartQuery" sfs
      if !isNil sp then do
        let (cs, p) ← singlePart sp
        pure ⟨[], cs, p⟩
      else if !isNil mp then
        match fields mp with
        | some ("cypher.MultiPartQuery", mfs) =>
          let parts ← (← asList "MultiPartQuery" (← need "MultiPartQuery" "Parts" mfs)).mapM (fun p => do
            match fields p with
            | some ("cypher.MultiPartQueryPart", pfs) =>
              noUpdates "MultiPartQueryPart" pfs
              let cs ← (← asList "MultiPartQueryPart" (← need "MultiPartQueryPart" "ReadingClauses" pfs)).mapM clause
              let w ← need "MultiPartQueryPart" "With" pfs
              match fields w with
              | some ("cypher.With", wfs) =>
                let pr ← projection (← need "With" "Projection" wfs)
                let wh ← optWhere (← need "With" "Where" wfs)
                pure (⟨cs, pr, wh⟩ : Part)
              | _ => .error "MultiPartQueryPart.With"
            | _ => .error "MultiPartQueryPart")
          let (cs, p) ← singlePart (← need "MultiPartQuery" "SinglePartQuery" mfs)
          pure ⟨parts, cs, p⟩
        | _ => .error "MultiPartQuery"
      else .error "SingleQuery:empty"
    | _ => .error "RegularQuery.SingleQuery"
  | _ => .error s!"RegularQuery:{tagOf s}"

end Driver.ReadCy
