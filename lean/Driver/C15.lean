import Driver.Proto
import Dawgs.Model.C15
/-! Model driver for C15 (`c15`: the DFS as the code has it; `c15fixed`: the repaired DFS by default).
A `mode current|fixed` line switches the variant for the following `graph` lines. -/
namespace Driver.C15
open Dawgs.C15

structure St where
  fixed : Bool
  g : Digraph := Digraph.empty
  rc : Option RC := none

def parseDir : String → Option Dir
  | "in" => some .inb
  | "out" => some .outb
  | "both" => some .both
  | _ => none

def listList (xs : List (List Nat)) : String := "[" ++ ",".intercalate (xs.map natList) ++ "]"

def parseSet (s : String) : Option (List Nat) :=
  if s == "-" then some [] else (s.splitOn ",").mapM String.toNat?

/-- builder tokens: `v` = AddNode, `u>v` = AddEdge -/
def buildGraph : List String → Digraph → Option Digraph
  | [], g => some g
  | t :: ts, g =>
    match t.splitOn ">" with
    | [v] => match v.toNat? with
      | some v => buildGraph ts (g.addNode v)
      | none => none
    | [u, v] => match u.toNat?, v.toNat? with
      | some u, some v => buildGraph ts (g.addEdge u v)
      | _, _ => none
    | _ => none

def fuelOut : String := "model-fuel-exhausted"

def step (st : St) (ts : List String) : St × String :=
  match ts with
  | "graph" :: c :: toks =>
    match c.toInt?, buildGraph toks Digraph.empty with
    | some c, some g =>
      match RC.new g c st.fixed with
      | some rc => ({ st with g := g, rc := some rc }, s!"ok n={g.nodes.length} k={rc.k}")
      | none => ({ st with g := g, rc := none }, fuelOut)
    | _, _ => (st, "bad-op")
  | ["mode", "current"] => ({ st with fixed := false }, "ok")
  | ["mode", "fixed"] => ({ st with fixed := true }, "ok")
  | _ =>
  match st.rc with
  | none => (st, "bad-op")
  | some rc =>
  match ts with
  | ["scc"] =>
    match tarjan st.g with
    | some (comps, _) => (st, listList (comps.map canon))
    | none => (st, fuelOut)
  | ["canreach", u, v, d] =>
    match u.toNat?, v.toNat?, parseDir d with
    | some u, some v, some d =>
      match rc.canReach u v d with
      | some true => (st, "1")
      | some false => (st, "0")
      | none => (st, fuelOut)
    | _, _, _ => (st, "bad-op")
  | ["reach", u, d] =>
    match u.toNat?, parseDir d with
    | some u, some d =>
      match rc.reachOf u d with
      | some (rc', r) => ({ st with rc := some rc' }, natList r)
      | none => (st, fuelOut)
    | _, _ => (st, "bad-op")
  | ["reachslice", u, d] =>
    match u.toNat?, parseDir d with
    | some u, some d =>
      match rc.reachSlice u d with
      | some (rc', some sl) => ({ st with rc := some rc' }, listList (sl.map canon))
      | some (rc', none) => ({ st with rc := some rc' }, "nil")
      | none => (st, fuelOut)
    | _, _ => (st, "bad-op")
  | ["orreach", u, d, set] =>
    match u.toNat?, parseDir d, parseSet set with
    | some u, some d, some dup =>
      match rc.orReach u d dup with
      | some (rc', r) => ({ st with rc := some rc' }, natList r)
      | none => (st, fuelOut)
    | _, _, _ => (st, "bad-op")
  | ["xorreach", u, d, set] =>
    match u.toNat?, parseDir d, parseSet set with
    | some u, some d, some dup =>
      match rc.xorReach u d dup with
      | some (rc', r) => ({ st with rc := some rc' }, natList r)
      | none => (st, fuelOut)
    | _, _, _ => (st, "bad-op")
  | ["mutate"] =>
    -- caller-side edits of values the cache has handed out: every result is a fresh value (`Prov.fresh`,
    -- Generated.C15Fresh + Props/C15 `results_fresh_fact`), so nothing of the model's state changes
    (st, "ok")
  | ["stats"] =>
    (st, s!"size={rc.inC.size + rc.outC.size} hits={rc.inC.hits + rc.outC.hits} misses={rc.inC.misses + rc.outC.misses} cap={rc.inC.cap + rc.outC.cap}")
  | _ => (st, "bad-op")

def suite (fixed : Bool) : Suite := { σ := St, init := { fixed := fixed }, step := step }

end Driver.C15

def Driver.C15.suites : List (String × Driver.Suite) :=
  [("c15", Driver.C15.suite false), ("c15fixed", Driver.C15.suite true)]
