import Driver.Proto
import Driver.UtilC14
import Dawgs.Model.C14
/-! Model driver for C14 (suite `c14`): runs the concrete model `B` on the same op lines as the Go
harness (`harness/c14.go`). The live definitions are the repaired `DirectionBoth` ones (`fixed = true`);
`mode old` / suite `c14old` run the pre-789c790 definitions (for the `…_old` replays). -/
namespace Driver.C14
open Dawgs.C14
open Driver.UtilC14

/-- a projection handle as an IMMUTABLE value: accumulated deletions and the (never changing) argument bitmaps -/
structure HProj where
  dn : List Nat := []
  de : List Nat := []
  argN : List Nat := []
  argE : List Nat := []

structure St where
  fixed : Bool := true
  tomb : Bool := false          -- hooks/C14-fix3.patch semantics (proposal)
  seg4 : Bool := false          -- hooks/C14-fix4.patch: repaired SerializedSegment.ToSegment
  am : AdjMap := {}
  csrb : CsrB := {}
  ts : TS := {}
  handles : List (String × HProj) := [("proj", {})]
  fops : Option (List Op) := none       -- `build DESC`: the ops the factories perform
  fetched : Option (List Op) := none    -- `fetch …`: the AddEdge calls FetchDirectedGraph performed
  snapOn : Bool := false

/-- a container seen through the `DirectedGraph` interface -/
structure View where
  nodes : List Nat                    -- `EachNode` order
  numNodes : Nat
  adj : Nat → Dir → List Nat          -- `EachAdjacentNode` callback sequence

def parseDir : String → Option Dir
  | "out" => some .out
  | "in" => some .inn
  | "both" => some .both
  | _ => none

def parseIds (s : String) : Option (List Nat) :=
  if s == "-" then some [] else (s.splitOn ",").mapM String.toNat?

def amView (g : AdjMap) : View := { nodes := g.nodes, numNodes := g.numNodes, adj := g.adjacent }
def csrView (g : Csr) : View := { nodes := g.nodes, numNodes := g.numNodes, adj := g.adjacent }

def St.projOf (st : St) (name : String) : Option Proj :=
  (st.handles.lookup name).map (fun h => { origin := st.ts, delNodes := h.dn, delEdges := h.de })

def St.curProj (st : St) : Proj := (st.projOf "proj").getD { origin := st.ts, delNodes := [], delEdges := [] }

def setHandle (hs : List (String × HProj)) (name : String) (h : HProj) : List (String × HProj) := hset hs name h

def St.view (st : St) : String → Option View
  | "am" => some (amView st.am)
  | "csr" => some (csrView st.csrb.build)
  | "ts" => some { nodes := st.ts.nodes, numNodes := st.ts.numNodes, adj := st.ts.adjacent st.fixed }
  | "fam" => st.fops.map (fun o => amView (AdjMap.build o))
  | "fcsr" => st.fops.map (fun o =>
      let c := Csr.ofOps o
      { nodes := sofList c.nodes, numNodes := c.numNodes, adj := fun n d => sortD (c.adjacent n d) })
  | "fetch" => st.fetched.map (fun o => csrView (Csr.ofOps o))
  | name => (st.projOf name).map (fun p => { nodes := p.nodes, numNodes := p.numNodes, adj := p.adjacentT st.tomb st.fixed })

def perNode (v : View) (f : Nat → String) : String :=
  if v.nodes.isEmpty then "-" else " ".intercalate (v.nodes.map (fun n => s!"{n}:{f n}"))

def fmtOpt (o : Option (List Nat)) : String :=
  match o with
  | some xs => natList xs
  | none => "fuel-exhausted"

def fmtTerms (o : Option (List Term)) : String :=
  match o with
  | some ts => "[" ++ ",".intercalate (ts.map (fun t => s!"{t.node}@{t.dist}")) ++ "]"
  | none => "fuel-exhausted"

def hex2 (n : Nat) : String :=
  let d := "0123456789abcdef".toList
  String.ofList [d.getD (n / 16) '?', d.getD (n % 16) '?']

def parseSeg : List Nat → Option (List Seg)
  | [n] => some [⟨n, 0⟩]
  | n :: e :: rest => (parseSeg rest).map (fun t => ⟨n, e⟩ :: t)
  | [] => none

def segNodes (s : List Seg) : List Nat := s.map (·.node)
def segEdges (s : List Seg) : List Nat := (s.dropLast).map (·.edge)

/-- `Segment.Format()` -/
def fmtSeg : List Seg → String
  | [] => ""
  | [s] => s!"({s.node})"
  | s :: t :: rest => s!"({s.node})-[{s.edge}]->" ++ fmtSeg (t :: rest)

def parseFilter (s : String) : Option (Edge → Bool) :=
  if s == "all" then some (fun _ => true)
  else match s.splitOn ":" with
    | ["nostart", ids] => (parseIds ids).map (fun l => fun e => !(l.contains e.start))
    | ["noedge", ids] => (parseIds ids).map (fun l => fun e => !(l.contains e.id))
    | _ => none

def tsFuel : Nat := 200000

/-- the weight the tie's descent filter gives an admitted edge -/
def edgeWeight (e : Edge) : Nat := 1 + e.id % 3

def parseWFilter (s : String) : Option (Edge → Option Nat) :=
  (parseFilter s).map (fun f => fun e => if f e then some (edgeWeight e) else none)

def fmtPTerm (t : PTerm) : String := s!"{t.node}@{t.dist}*{t.weight}"

def St.adjE (st : St) : String → Option (Nat → Dir → List Edge)
  | "ts" => some (st.ts.adjacentEdgesT st.tomb)
  | name => (st.projOf name).map (fun p => p.adjacentEdgesT st.tomb)

def traverse (st : St) (bfs : Bool) (c dir md root filt : String) : String :=
  match st.adjE c, parseDir dir, md.toInt?, root.toNat?, parseFilter filt with
  | some adjE, some d, some md, some root, some f =>
    match tsTraverse bfs st.fixed (fun n => adjE n d) d f md tsFuel root with
    | some (segs, inc) => s!"inc={inc} " ++ (if segs.isEmpty then "-" else "|".intercalate (segs.map fmtSeg))
    | none => "fuel-exhausted"
  | _, _, _, _, _ => "bad-op"

def stateless (st : St) (c dir md root filt : String) : String :=
  match st.adjE c, parseDir dir, md.toInt?, root.toNat?, parseWFilter filt with
  | some adjE, some d, some md, some root, some f =>
    match statelessBFS st.fixed (fun n => adjE n d) d f md tsFuel root with
    | some (ts, inc) => s!"inc={inc} " ++ (if ts.isEmpty then "-" else "|".intercalate (ts.map fmtPTerm))
    | none => "fuel-exhausted"
  | _, _, _, _, _ => "bad-op"

def St.numEdges (st : St) : String → Option Nat
  | "am" => some (if st.fixed then st.am.numEdges else st.am.numEdgesOld)
  | "csr" => some st.csrb.build.numEdges
  | "ts" => some (st.ts.numEdgesT st.tomb)
  | "fam" => st.fops.map (fun o => (AdjMap.build o).numEdges)
  | "fcsr" => st.fops.map (fun o => (Csr.ofOps o).numEdges)
  | "fetch" => st.fetched.map (fun o => (Csr.ofOps o).numEdges)
  | name => (st.projOf name).map (fun p => p.numEdgesT st.tomb)

def reserved (name : String) : Bool :=
  name == "am" || name == "csr" || name == "ts" || name == "store" || name == "fam" || name == "fcsr" || name == "fetch"

def provOk (p : String) : Bool := p == "b64" || p == "tsd" || p == "tsd2"

/-- `src>d1,d2;src>;src>~` -/
def parseDesc (s : String) : Option Desc :=
  if s == "-" then some [] else
  (s.splitOn ";").mapM (fun ent => match ent.splitOn ">" with
    | [k, v] => do
      let src ← k.toNat?
      if v == "~" || v == "" then some (src, []) else
        let outs ← (v.splitOn ",").mapM String.toNat?
        some (src, outs)
    | _ => none)

def dirOf : String → Dir
  | "out" => .out
  | "in" => .inn
  | _ => .both

/-- the canonical view of a handle: every read method of the `Triplestore` interface -/
def viewStr (st : St) (p : Proj) : String :=
  viewOf p.numNodes p.nodes (p.numEdgesT st.tomb)
    (((p.origin.edgesT st.tomb).filter p.alive).map (fun e => (e.id, e.start, e.stop)))
    (fun v d => sofList (p.adjacentT st.tomb st.fixed v (dirOf d)))
    (fun v d => (p.adjacentEdgesT st.tomb v (dirOf d)).map (·.id))

/-- `PARENT.Projection(dn, de)`: the child's deletions are the parent's plus the new ones; the parent is untouched
and the argument bitmaps stay what the caller put in. -/
def derive (st : St) (name parent dn de : String) : St × String :=
  match parseIds dn, parseIds de with
  | some dn, some de =>
    let base : Option HProj := if parent == "store" then some {} else st.handles.lookup parent
    match base with
    | some b =>
      let h : HProj := { dn := sunion b.dn (sofList dn), de := sunion b.de (sofList de), argN := sofList dn, argE := sofList de }
      ({ st with handles := setHandle st.handles name h, snapOn := true }, "ok")
    | none => (st, "bad-op")
  | _, _ => (st, "bad-op")

def digests (st : St) : String :=
  " ".intercalate ((sortNames (st.handles.map (·.1))).filterMap (fun n =>
    match st.projOf n, st.handles.lookup n with
    | some p, some h => some s!"{n}={digest (viewStr st p)}:{digest (argsOf h.argN h.argE)}"
    | _, _ => none))

def step0 (st : St) (ts : List String) : St × String :=
  match ts with
  | ["graph"] => ({ fixed := st.fixed, tomb := st.tomb, seg4 := st.seg4 }, "ok")
  | ["mode", "tomb"] => ({ st with tomb := true }, "ok")
  | ["mode", "fixed"] => ({ st with fixed := true }, "ok")
  | ["mode", "old"] => ({ st with fixed := false }, "ok")
  | ["node", n] => match n.toNat? with
      | some n => ({ st with am := st.am.addNode n, csrb := st.csrb.addNode n, ts := st.ts.addNode n }, "ok")
      | none => (st, "bad-op")
  | ["edge", id, s, e] => match id.toNat?, s.toNat?, e.toNat? with
      | some id, some s, some e =>
        ({ st with am := st.am.addEdge s e, csrb := st.csrb.addEdge s e, ts := st.ts.addTriple id s e }, "ok")
      | _, _, _ => (st, "bad-op")
  | ["tsdel", id] => match id.toNat? with
      | some id => ({ st with ts := st.ts.deleteEdge id }, "ok")
      | none => (st, "bad-op")
  | ["proj", dn, de] => derive st "proj" "store" dn de
  | ["proj2", dn, de] => derive st "proj" "proj" dn de
  | ["proj", name, parent, dn, de] =>
      if reserved name then (st, "bad-op") else derive st name parent dn de
  | ["proj", name, parent, dn, de, prov] =>
      -- the Duplex implementation of the arguments is irrelevant to a set: `b64`, `tsd`, `tsd2`
      match prov.splitOn "/" with
      | [a, b] => if reserved name || !(provOk a && provOk b) then (st, "bad-op") else derive st name parent dn de
      | _ => (st, "bad-op")
  | ["build", desc] => match parseDesc desc with
      | some d => ({ st with fops := some (descOps d) }, "ok")
      | none => (st, "bad-op")
  | ["fetch", which] =>
      let sel : Option (Edge → Bool) := match which with
        | "all" => some (fun _ => true)
        | "k0" => some (fun e => e.id % 2 == 0)
        | "k1" => some (fun e => e.id % 2 == 1)
        | _ => none
      match sel with
      | some f => ({ st with fetched := some (fetchOps f st.ts.edges) }, "ok")
      | none => (st, "bad-op")
  | ["snap", name] => match st.projOf name, st.handles.lookup name with
      | some p, some h => (st, viewStr st p ++ ";" ++ argsOf h.argN h.argE)
      | _, _ => (st, "bad-op")
  | ["nodes", c] => match st.view c with
      | some v => (st, s!"n={v.numNodes} {natList v.nodes}")
      | none => (st, "bad-op")
  | ["adj", c, d] => match st.view c, parseDir d with
      | some v, some d => (st, perNode v (fun n => natList (v.adj n d)))
      | _, _ => (st, "bad-op")
  | ["adj1", c, d, n] => match st.view c, parseDir d, n.toNat? with
      | some v, some d, some n => (st, natList (v.adj n d))
      | _, _, _ => (st, "bad-op")
  | ["reach", c, d] => match st.view c, parseDir d with
      | some v, some d => (st, perNode v (fun n => fmtOpt (reach (fun x => v.adj x d) (v.numNodes + 1) n)))
      | _, _ => (st, "bad-op")
  | ["reach1", c, d, n] => match st.view c, parseDir d, n.toNat? with
      | some v, some d, some n => (st, fmtOpt (reach (fun x => v.adj x d) (v.numNodes + 1) n))
      | _, _, _ => (st, "bad-op")
  | ["bfs", c, d] => match st.view c, parseDir d with
      | some v, some d => (st, perNode v (fun n => fmtTerms (bfsTree (fun x => v.adj x d) (v.numNodes + 1) n)))
      | _, _ => (st, "bad-op")
  | ["bfs1", c, d, n] => match st.view c, parseDir d, n.toNat? with
      | some v, some d, some n => (st, fmtTerms (bfsTree (fun x => v.adj x d) (v.numNodes + 1) n))
      | _, _, _ => (st, "bad-op")
  | ["norm", c, d] => match parseDir d with
      | some d =>
        match c with
        | "am" => let r := st.am.normalize
                  (st, s!"rev={natList r.1} " ++ perNode (amView r.2) (fun n => natList (r.2.adjacent n d)))
        | "csr" => let r := st.csrb.build.normalize
                   (st, s!"rev={natList r.1} " ++ perNode (csrView r.2) (fun n => natList (r.2.adjacent n d)))
        | _ => (st, "bad-op")
      | none => (st, "bad-op")
  | "seg" :: ids => match (parseNats ids).bind parseSeg with
      | some s =>
        let bytes := marshal s
        match unmarshal bytes with
        | some back => (st, s!"hex={String.join (bytes.map hex2)} nodes={natList (segNodes back)} edges={natList (segEdges back)}")
        | none => (st, "panic")
      | none => (st, "bad-op")
  | ["toseg", ns, es] => match parseIds ns, parseIds es with
      | some ns, some es => match (if st.seg4 then some (toSegment ns es) else toSegmentOld ns es) with
        | some sg => (st, s!"nodes={natList (segNodes sg)} edges={natList (segEdges sg)}")
        | none => (st, "index-panic")
      | _, _ => (st, "bad-op")
  | ["tsbfs", c, d, md, root, filt] => (st, traverse st true c d md root filt)
  | ["tsdfs", c, d, md, root, filt] => (st, traverse st false c d md root filt)
  | ["tssl", c, d, md, root, filt] => (st, stateless st c d md root filt)
  | ["numedges", c] => match st.numEdges c with
      | some n => (st, toString n)
      | none => (st, "bad-op")
  | ["dims", c, d] => match st.view c, parseDir d with
      | some v, some d => let r := dimensions v.nodes v.numNodes (fun n => v.adj n d); (st, s!"{r.1} {r.2}")
      | _, _ => (st, "bad-op")
  | ["zone", md, ids] => match md.toInt?, parseIds ids with
      -- WriteZoneBFSTree + BFSTreeFile.ReadEach AS THE CODE IS: ReadEach scans the raw file behind the
      -- gzip reader's buffer and therefore yields nothing for files under one 4096-byte buffer (F3).
      | some md, some zone =>
        let counts := zone.map (fun z =>
          match tsTraverse true st.fixed (fun n => st.ts.adjacentEdgesT st.tomb n .inn) .inn (fun e => !(zone.contains e.start)) md tsFuel z with
          | some (segs, _) => segs.length
          | none => 0)
        (st, s!"written={counts.foldl (· + ·) 0} read=0 -")
      | _, _ => (st, "bad-op")
  | _ => (st, "bad-op")

/-- one op, then (once a projection was requested in this case) the digest of EVERY live handle -/
def step (st : St) (ts : List String) : St × String :=
  let (st', ans) := step0 st ts
  if st'.snapOn && ans != "bad-op" then (st', ans ++ " ## " ++ digests st') else (st', ans)

def suite : Suite := { σ := St, init := {}, step := step }
/-- the same model started with the pre-repair definitions (selected by `VERIF_C14_MODE=old`). -/
def suiteOld : Suite := { σ := St, init := { fixed := false }, step := step }
/-- the live model plus the semantics of the proposed hooks/C14-fix3.patch (selected by `VERIF_C14_TOMB=1`). -/
def suiteTomb : Suite := { σ := St, init := { tomb := true }, step := step }

end Driver.C14

def Driver.C14.suites : List (String × Driver.Suite) :=
  [("c14", Driver.C14.suite), ("c14old", Driver.C14.suiteOld), ("c14t", Driver.C14.suiteTomb),
   -- `s` = hooks/C14-fix4.patch landed (repaired ToSegment); selected by lib/props/c14.py from known_findings.json
   ("c14s", { Driver.C14.suite with init := ({ seg4 := true } : Driver.C14.St) }),
   ("c14ts", { Driver.C14.suite with init := ({ tomb := true, seg4 := true } : Driver.C14.St) })]
