import Driver.Proto
import Driver.C07
import Driver.C08
import Driver.C09
import Driver.C11
import Driver.C11Mon
import Driver.C12Cons

def suites : List (String × Driver.Suite) :=
  Driver.C07.suites ++
  Driver.C08.suites ++
  Driver.C09.suites ++
  Driver.C11.suites ++
  Driver.C11Mon.suites ++
  Driver.C12Cons.suites

def main (args : List String) : IO UInt32 := do
  match args with
  | [name] =>
    match suites.lookup name with
    | some s =>
      Driver.loop (← IO.getStdin) (← IO.getStdout) s s.init
      return 0
    | none => IO.eprintln s!"unknown suite {name}"; return 2
  | _ => IO.eprintln "usage: dawgsmodel <suite> < ops"; return 2
