import Driver.Proto
import Driver.C15
import Dawgs.Spec.C15
/-! Monitor for C15: judges the implementation's answers against plain BFS on the original graph
(spec `A`), per query, whatever the history.  Input lines are `<op> => <implementation answer>`. -/
namespace Driver.C15Mon
open Dawgs.C15 Driver.C15

structure St where
  g : Option Digraph := none
  cap : Nat := 1

def dirStr : Dir → String
  | .inb => "in"
  | .outb => "out"
  | .both => "both"

def splitArrow (ts : List String) : List String × List String :=
  (ts.takeWhile (· ≠ "=>"), (ts.dropWhile (· ≠ "=>")).drop 1)

/-- `[1,2,3]` -/
def parseList (s : String) : Option (List Nat) :=
  if s.startsWith "[" && s.endsWith "]" then
    let inner := ((s.drop 1).dropEnd 1).toString
    if inner.isEmpty then some [] else (inner.splitOn ",").mapM String.toNat?
  else none

/-- `[[1,2],[3]]` -/
def parseListList (s : String) : Option (List (List Nat)) :=
  if s.startsWith "[" && s.endsWith "]" then
    let inner := ((s.drop 1).dropEnd 1).toString
    if inner.isEmpty then some [] else
    -- inner looks like `[1,2],[3],[]`
    let parts := (inner.splitOn "],").map (fun p => if p.endsWith "]" then p else p ++ "]")
    parts.mapM parseList
  else none

def field (t : String) (name : String) : Option String :=
  if t.startsWith (name ++ "=") then some (t.drop (name.length + 1)).toString else none

def rejectSet (cls : String) (op : List String) (got want : List Nat) : String :=
  s!"reject {cls} {" ".intercalate op} got={natList (canon got)} want={natList want}"

def step (st : St) (ts : List String) : St × String :=
  let (op, out) := splitArrow ts
  match op with
  | "graph" :: c :: toks =>
    match c.toInt?, buildGraph toks Digraph.empty with
    | some c, some g =>
      let st' : St := { g := some g, cap := if c ≤ 0 then 1 else c.toNat }
      match out with
      | ["ok", n, _] =>
        if field n "n" == some (toString g.nodes.length) then (st', "ok")
        else (st', s!"reject graph-node-count {n} want n={g.nodes.length}")
      | _ => (st', "reject bad-output " ++ " ".intercalate out)
    | _, _ => (st, "reject bad-op")
  | ["mode", _] => (st, if out == ["ok"] then "ok" else "reject bad-output " ++ " ".intercalate out)
  | _ =>
  match st.g with
  | none => (st, if out == ["bad-op"] then "ok" else "reject bad-op")
  | some g =>
  match op with
  | ["scc"] =>
    match out with
    | [l] => match parseListList l with
      | some comps => match judgeSCC g comps with
        | none =>
          -- the verified certificate checker must accept what the spec accepts (emission order included)
          if checkSCC g comps then (st, "ok") else (st, s!"reject scc-certificate-rejected got={l}")
        | some (cls, detail) => (st, s!"reject {cls} {detail} got={l}")
      | none => (st, "reject bad-output " ++ l)
    | [_, "lookup-mismatch"] => (st, "reject scc-lookup-mismatch")
    | _ => (st, "reject bad-output " ++ " ".intercalate out)
  | ["canreach", u, v, d] =>
    match u.toNat?, v.toNat?, parseDir d, out with
    | some u, some v, some d, [b] =>
      let want := expectCanReach g u v d
      if b == "1" then (if want then (st, "ok") else (st, s!"reject canreach-false-positive {u} {v} {dirStr d}"))
      else if b == "0" then (if want then (st, s!"reject canreach-false-negative {u} {v} {dirStr d}") else (st, "ok"))
      else (st, "reject bad-output " ++ b)
    | _, _, _, _ => (st, "reject bad-output " ++ " ".intercalate out)
  | ["reach", u, d] =>
    match u.toNat?, parseDir d, out with
    | some u, some d, [l] => match parseList l with
      | some got =>
        let want := expectReach g u d
        match judgeSet got want with
        | none => (st, "ok")
        | some cls => (st, rejectSet cls op got want)
      | none => (st, "reject bad-output " ++ l)
    | _, _, _ => (st, "reject bad-output " ++ " ".intercalate out)
  | ["reachslice", u, d] =>
    match u.toNat?, parseDir d, out with
    | some u, some d, [l] =>
      let sl := if l == "nil" then some none else (parseListList l).map some
      match sl with
      | some sl => match judgeSlices g u d sl with
        | none => (st, "ok")
        | some cls => (st, rejectSet cls op ((sl.getD []).flatten) (expectReach g u d))
      | none => (st, "reject bad-output " ++ l)
    | _, _, _ => (st, "reject bad-output " ++ " ".intercalate out)
  | ["orreach", u, d, set] =>
    match u.toNat?, parseDir d, parseSet set, out with
    | some u, some d, some dup, [l] => match parseList l with
      | some got =>
        let want := expectOrReach g u d dup
        match judgeSet got want with
        | none => (st, "ok")
        | some cls => (st, rejectSet cls op got want)
      | none => (st, "reject bad-output " ++ l)
    | _, _, _, _ => (st, "reject bad-output " ++ " ".intercalate out)
  | ["xorreach", u, d, set] =>
    match u.toNat?, parseDir d, parseSet set, out with
    | some u, some d, some dup, [l] => match parseList l with
      | some got =>
        let want := expectXorReach g u d dup
        if canon got == want then (st, "ok") else
        -- classify by the reach set the answer implies: got = dup xor R'  ⇒  R' = got xor dup
        let implied := got.filter (fun x => !dup.contains x) ++ dup.filter (fun x => !got.contains x)
        let wantR := (expectReach g u d).filter (· != u)
        let cls := if subsetOf implied wantR then "reach-missing" else "reach-extra"
        (st, rejectSet cls op got want)
      | none => (st, "reject bad-output " ++ l)
    | _, _, _, _ => (st, "reject bad-output " ++ " ".intercalate out)
  | ["mutate"] => (st, if out == ["ok"] then "ok" else "reject bad-output " ++ " ".intercalate out)
  | ["stats"] =>
    match out with
    | sz :: _ :: _ :: [cp] =>
      match (field sz "size").bind String.toNat?, (field cp "cap").bind String.toNat? with
      | some n, some c =>
        if c != 2 * st.cap then (st, s!"reject stats-capacity {c} want {2 * st.cap}")
        else if n > c then (st, s!"reject stats-over-capacity {n}>{c}")
        else (st, "ok")
      | _, _ => (st, "reject bad-output " ++ " ".intercalate out)
    | _ => (st, "reject bad-output " ++ " ".intercalate out)
  | _ => (st, if out == ["bad-op"] then "ok" else "reject bad-op")

def suite : Suite := { σ := St, init := {}, step := step }
end Driver.C15Mon

def Driver.C15Mon.suites : List (String × Driver.Suite) := [("c15mon", Driver.C15Mon.suite)]
