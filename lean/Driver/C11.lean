-- uses-generated
import Driver.Proto
import Driver.Sexp
import Dawgs.Spec.C11
import Dawgs.Generated.C11
/-! C11 model driver. Input lines (built by lib/props/c11.py from the op line and the implementation's answer):

    types
    parse-error
    case <scripts> nilish=<0|1> <V>
    tree <scripts> <T>                (suite c11pg: the branch tree is given, T ::= (N "<type>" T…))

`<V>` is the harness's rendering of the real query-model value (see harness/c11.go). The driver converts it to a
`Val` of Model/C11 (checking type names and field names against the extracted schema), runs the model `copy`
driven by the extracted copy table, builds the branch trees from the extracted branch tables and runs the
transcribed `walk.Generic` with every scripted visitor. Answer:

    ok equal=<1|0|panic|-> shared=[…] | W <script> <res> <log> | W …
-/
namespace Driver.C11
open Dawgs.C11 Driver

def T : Tables := Dawgs.Generated.C11.tables

def typeIdx (n : String) : Option Nat := T.types.findIdx? (fun d => d.name == n)

/-- conversion state: next abstract address -/
abbrev M := StateT Nat (Except String)

def fresh : M Nat := do
  let n ← get
  set (n + 1)
  pure n

partial def toVal : Sexp → M Val
  | .atom "nil" => pure .nil
  | .list [.atom "t", .str tn] =>
    match typeIdx tn with
    | some ty => pure (.tnil ty)
    | none => throw s!"unknown-type {tn}"
  | .list [.atom "s", .str tn, .str txt] => pure (.scalar tn txt)
  | .list (.atom "o" :: .str tn :: fields) => do
    match typeIdx tn with
    | none => throw s!"unknown-type {tn}"
    | some ty =>
      let d := T.decl ty
      let a ← fresh
      let names := fields.map (fun f => match f with
        | .list [.atom n, _] => n
        | _ => "?")
      if d.shape != .obj || names != d.fields.map (·.name) then
        throw s!"schema-mismatch {tn} got={names} want={d.fields.map (·.name)}"
      let kids ← fields.mapM (fun f => match f with
        | .list [_, v] => toVal v
        | _ => throw "bad-field")
      pure (.node .obj a ty [] kids)
  | .list (.atom "l" :: .str tn :: elems) => do
    match typeIdx tn with
    | none => throw s!"unknown-type {tn}"
    | some ty =>
      if (T.decl ty).shape != .list then throw s!"schema-mismatch {tn} not-a-list"
      let a ← fresh
      -- `(l "<T>" +cap)`: an empty slice that owns spare capacity; its backing array is an identity (keys = ["cap"])
      if elems matches [.atom "+cap"] then pure (.node .list a ty ["cap"] [])
      else
        let kids ← elems.mapM toVal
        pure (.node .list a ty [] kids)
  | .list (.atom "m" :: .str tn :: entries) => do
    match typeIdx tn with
    | none => throw s!"unknown-type {tn}"
    | some ty =>
      if (T.decl ty).shape != .map then throw s!"schema-mismatch {tn} not-a-map"
      let a ← fresh
      let keys := entries.map (fun e => match e with
        | .list [.str k, _] => k
        | _ => "?")
      let kids ← entries.mapM (fun e => match e with
        | .list [_, v] => toVal v
        | _ => throw "bad-entry")
      pure (.node .map a ty keys kids)
  | _ => throw "bad-sexp"

mutual
partial def valEq : Val → Val → Bool
  | .scalar a b, .scalar c d => a == c && b == d
  | .nil, .nil => true
  | .tnil a, .tnil b => a == b
  | .node s1 a1 t1 k1 c1, .node s2 a2 t2 k2 c2 => s1 == s2 && a1 == a2 && t1 == t2 && k1 == k2 && valsEq c1 c2
  | _, _ => false
partial def valsEq : List Val → List Val → Bool
  | [], [] => true
  | a :: as, b :: bs => valEq a b && valsEq as bs
  | _, _ => false
end

/-- positions at which copy and original hold the same address, labelled like the harness does -/
partial def sharedOf (label : String) : Val → Val → List String
  | .node sh a ty keys kids, .node _ a' _ _ kids' =>
    -- an empty slice has an identity only if it owns capacity (marker "cap")
    if sh == .list && kids.isEmpty && keys != ["cap"] then []
    else if a == a' then [label]
    else
      let rec go (i : Nat) : List Val → List Val → List String
        | k :: ks, k' :: ks' =>
          let lbl := match sh with
            | .obj => T.typeName ty ++ "." ++ (T.field ty i).name
            | _ => T.typeName ty ++ "[]"
          (if sh == .obj && (T.field ty i).kind == .opaque then [] else sharedOf lbl k k') ++ go (i + 1) ks ks'
        | _, _ => []
      go 0 kids kids'
  | _, _ => []

def sortDedup (xs : List String) : List String :=
  (xs.toArray.qsort (· < ·)).toList.eraseDups

/-- the handler calls of a script, in order: c Consume(), d SetDone(), e SetError(non-nil), z SetError(nil); "n" = none -/
def parseCalls (s : String) : Option (List Call) :=
  if s == "n" then some []
  else s.toList.mapM (fun c => match c with
    | 'c' => some Call.consume
    | 'd' => some Call.setDone
    | 'e' => some (Call.setError false)
    | 'z' => some (Call.setError true)
    | _ => none)

/-- their net effect on the handler (`calls_eq_apply`: exact) -/
def parseAct (s : String) : Option Act := (parseCalls s).map actOf

/-- in which callbacks a scripted visitor acts (see harness/c11.go, c11Script) -/
inductive Sel where
  | at (ks : List Nat)                      -- the listed callbacks (1-based)
  | kinds (e v x : Bool) (m r : Nat)        -- every callback of these kinds whose node name has byte sum ≡ r (mod m); m = 0: all
deriving Repr

structure Script1 where
  mode : String
  structural : Bool
  leaf : Bool        -- `L` prefix: the walk runs over a bare leaf root
  sel : Sel
  act : Act

/-- a script, optionally followed by a second walk `>B` made with the SAME visitor object -/
structure Script where
  text : String
  structural : Bool
  sel : Sel
  act : Act
  leaf : Bool := false
  next : Option Script1 := none

def nameHash (s : String) : Nat := s.foldl (fun h c => h + c.toNat) 0

def parseKinds (s : String) : Option (Bool × Bool × Bool) :=
  if s.isEmpty || s.any (fun c => c != 'E' && c != 'V' && c != 'X') then none
  else some (s.contains 'E', s.contains 'V', s.contains 'X')

def parseSel (s : String) : Option Sel :=
  if s.startsWith "*" then do
    let (e, v, x) ← parseKinds (s.drop 1).toString
    pure (.kinds e v x 0 0)
  else if s.startsWith "#" then
    match ((s.drop 1).toString).splitOn "." with
    | [m, rest] => do
      let m ← m.toNat?
      let digits := rest.takeWhile Char.isDigit
      let r ← digits.toString.toNat?
      let (e, v, x) ← parseKinds (rest.drop digits.toString.length).toString
      if m == 0 then none else pure (.kinds e v x m r)
    | _ => none
  else do
    let ks ← (s.splitOn "+").mapM String.toNat?
    pure (.at ks)

def parseScript1 (s : String) : Option Script1 :=
  let leaf := s.startsWith "L"
  match ((if leaf then (s.drop 1).toString else s)).splitOn ":" with
  | [m, sel, a] => do
    let sel ← parseSel sel
    let a ← parseAct a
    if m == "st" || m == "pg" then some ⟨m, true, leaf, sel, a⟩ else if m == "se" then some ⟨m, false, leaf, sel, a⟩ else none
  | _ => none

def parseScript (s : String) : Option Script :=
  match s.splitOn ">" with
  | [a] => do
    let a ← parseScript1 a
    pure { text := s, structural := a.structural, sel := a.sel, act := a.act, leaf := a.leaf }
  | [a, b] => do
    let a ← parseScript1 a
    let b ← parseScript1 b
    pure { text := s, structural := a.structural, sel := a.sel, act := a.act, leaf := a.leaf, next := some b }
  | _ => none

/-- the bare leaf root of an `L` walk, as the harness builds it -/
def leafTree (mode : String) : Tree Lbl :=
  .node ⟨[], if mode == "pg" then "pgsql.Identifier" else "*cypher.Variable"⟩ []

/-- the scripted visitor as a function of the event history: the action is taken in the selected callbacks -/
def schedVisitor {α : Type} (name : α → String) (sel : Sel) (act : Act) : Visitor α := fun hist =>
  match hist.getLast? with
  | none => .continue
  | some ev =>
    let hit := match sel with
      | .at ks => ks.contains hist.length
      | .kinds e v x m r =>
        (match ev with
          | .enter _ => e
          | .visit _ => v
          | .exit _ => x) && (m == 0 || nameHash (name ev.label) % m == r)
    if hit then act else .continue

def evStr : Ev Lbl → String
  | .enter l => "E:" ++ l.name
  | .visit l => "V:" ++ l.name
  | .exit l => "X:" ++ l.name

def resStr : Option Result → String
  | some .ok => "ok"
  | some .visitorError => "verr"
  | some .cursorError => "cerr"
  | none => "no-return"

def logStr (l : List (Ev Lbl)) : String := if l.isEmpty then "-" else ",".intercalate (l.map evStr)

def runScript (ts tse : Tree Lbl) (sc : Script) : String :=
  let mode := (sc.text.splitOn ":").headD ""
  let tA := if sc.leaf then leafTree ((mode.drop 1).toString) else (if sc.structural then ts else tse)
  let st := generic (schedVisitor (·.name) sc.sel sc.act) tA
  match sc.next with
  | none => s!"W {sc.text} {resStr st.ret} {logStr st.log}"
  | some b =>
    -- the second walk starts with the handler the first one left behind
    let sb := genericFrom st.h (schedVisitor (·.name) b.sel b.act) (if b.structural then ts else tse)
    s!"W {sc.text} {resStr st.ret}>{resStr sb.ret} {logStr st.log}>{logStr sb.log}"

/-- a branch tree given explicitly (suite c11pg): `(N "<type>" child…)` -/
partial def toTree : Sexp → Option (Tree Lbl)
  | .list (.atom "N" :: .str n :: kids) => do
    let ks ← kids.mapM toTree
    pure (.node ⟨[], n⟩ ks)
  | _ => none

def copyPart (nilish : Bool) (v : Val) (next : Nat) : String :=
  if nilish then "equal=- shared=[]"
  else if copyPanics T v then "equal=panic shared=[]"
  else
    let c := (copy T v next).1
    let eq := valEq c.erase v.erase
    let sh := sortDedup (sharedOf "root" v c)
    s!"equal={if eq then 1 else 0} shared=[{",".intercalate sh}]"

/-- well-typed against the extracted schema (`wellTyped`), to be compared with the harness's reflection check -/
def wtPart (v : Val) : String := s!"welltyped={if wellTyped T v then 1 else 0}"

def step (_ : Unit) (ts : List String) : Unit × String :=
  match ts with
  | [line] =>
    if line == "types" then
      ((), "types " ++ ",".intercalate (sortDedup ((T.types.filter (·.isNode)).map (·.name))))
    else if line == "parse-error" then ((), "parse-error")
    else match Sexp.parseLine line with
    | some [.atom "case", .atom scripts, .atom nil, sx] =>
      match (toVal sx).run 1 with
      | .error e => ((), e)
      | .ok (v, next) =>
        match (scripts.splitOn ",").mapM parseScript with
        | none => ((), "bad-scripts")
        | some scs =>
          let tst := treeOf T T.structural v
          let tse := treeOf T T.semantic v
          let walks := scs.map (runScript tst tse)
          ((), "ok " ++ copyPart (nil == "nilish=1") v next ++ " " ++ wtPart v ++ " | " ++ " | ".intercalate walks)
    | some [.atom "tree", .atom scripts, sx] =>
      match toTree sx, (scripts.splitOn ",").mapM parseScript with
      | some t, some scs => ((), "ok | " ++ " | ".intercalate (scs.map (runScript t t)))
      | _, _ => ((), "bad-op")
    | some [.atom other] => ((), other)      -- parse-error / xlate-error / walk0-… are passed through
    | _ => ((), "bad-op")
  | _ => ((), "bad-op")

def suite : Suite := { σ := Unit, init := (), step := step, raw := true }
end Driver.C11

def Driver.C11.suites : List (String × Driver.Suite) := [("c11", Driver.C11.suite), ("c11pg", Driver.C11.suite)]
