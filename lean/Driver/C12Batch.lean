import Driver.Proto
import Dawgs.Model.C12Batch
/-! Suites `c12batch` (model of the neo4j batch statement builders: which nodes share a statement, and whose clauses it
carries) and `c12batchmon` (the property of a flush judged on the REAL builders' statements).  Protocol:

    key old|framed                      which batching keys the model uses (old = /repo ae91177, framed = hooks/C12-fix3.patch)
    node <id> <added> <removed>         one node of a batch.UpdateNodes flush (AddedKinds, DeletedKinds; names, `-` = none)
    flush                               -> s=<n> | add=<kinds> rem=<kinds> ids=<ids> | …      (statements by first id)
    bynode <oid> <kinds> <removed>      one update of a batch.UpdateNodeBy flush (identity kind Base, identity property oid)
    byflush                             -> same shape; ids are the oid values
-/
namespace Driver.C12Batch
open Dawgs.C12Batch

def nameOf (s : String) : Name := s.toList.map Char.toNat
def nameStr (n : Name) : String := String.mk (n.map Char.ofNat)

def parseNames (s : String) : List Name := if s = "-" then [] else (s.splitOn ",").map nameOf
def namesStr (l : List Name) : String := if l.isEmpty then "-" else ",".intercalate (l.map nameStr)

def lexLt : List Nat → List Nat → Bool
  | [], [] => false
  | [], _ :: _ => true
  | _ :: _, [] => false
  | a :: as, b :: bs => a < b || (a == b && lexLt as bs)

def sortNames (l : List Name) : List Name := (l.toArray.qsort lexLt).toList
/-- the Go code collects the names in a set and sorts them -/
def canonSet (l : List Name) : List Name := sortNames l.eraseDups

structure St where
  framed : Bool := false
  nodes : List BNode := []      -- in arrival order

abbrev Key := List Nat × List Name × List Name

def batchKey (framed : Bool) (n : BNode) : Key :=
  let c : BNode := { n with added := canonSet n.added, removed := canonSet n.removed }
  (if framed then keyFramed c else keyOld c, [], [])

def byKey (framed : Bool) (n : BNode) : Key :=
  if framed then byKeyFramed { n with added := sortNames n.added, removed := sortNames n.removed } else (byKeyOld n, [], [])

def stmtStr (g : Group Key) : String :=
  s!"add={namesStr g.first.added} rem={namesStr g.first.removed} ids={",".intercalate (g.ids.map toString)}"

def render (gs : List (Group Key)) : String :=
  let sorted := (gs.toArray.qsort (fun a b => a.ids.headD 0 < b.ids.headD 0)).toList
  s!"s={gs.length}" ++ String.join (sorted.map (fun g => " | " ++ stmtStr g))

def step (st : St) (ts : List String) : St × String :=
  match ts with
  | ["key", "old"] => ({ st with framed := false }, "ok")
  | ["key", "framed"] => ({ st with framed := true }, "ok")
  | ["node", id, a, r] => match id.toNat? with
      | some id => ({ st with nodes := st.nodes ++ [{ id := id, added := parseNames a, removed := parseNames r }] }, "ok")
      | none => (st, "bad-op")
  | ["bynode", id, k, r] => match id.toNat? with
      | some id =>
        let kinds := parseNames k
        let base := flat (sortNames ([nameOf "Base", nameOf "oid"] ++ kinds))
        ({ st with nodes := st.nodes ++ [{ id := id, added := kinds, removed := parseNames r, base := base }] }, "ok")
      | none => (st, "bad-op")
  -- the implementation could not be reached (verif hook missing): nothing to compare
  | ["nohook"] => ({ st with nodes := [] }, "hook-missing")
  | ["flush"] => ({ st with nodes := [] }, render (build (batchKey st.framed) st.nodes))
  | ["byflush"] => ({ st with nodes := [] }, render (build (byKey st.framed) st.nodes))
  | _ => (st, "bad-op")

def suite : Suite := { σ := St, init := {}, step := step }

/-! #### monitor -/

structure MSt where
  nodes : List BNode := []

def field (t : String) (name : String) : Option String :=
  if t.startsWith (name ++ "=") then some (t.drop (name.length + 1)).toString else none

def splitOnTok (sep : String) (ts : List String) : List (List String) :=
  let rec go (cur : List String) (acc : List (List String)) : List String → List (List String)
    | [] => (cur.reverse :: acc).reverse
    | t :: ts => if t = sep then go [] (cur.reverse :: acc) ts else go (t :: cur) acc ts
  go [] [] ts

def parseStmt (ts : List String) : Option Stmt :=
  match ts with
  | [a, r, i] => do
    let a ← field a "add"
    let r ← field r "rem"
    let i ← field i "ids"
    let ids ← (if i.isEmpty then some [] else (i.splitOn ",").mapM String.toNat?)
    some (parseNames a, parseNames r, ids)
  | _ => none

def judge (by_ : Bool) (st : MSt) (out : List String) : MSt × String :=
  match splitOnTok "|" out with
  | _ :: segs =>
    match segs.mapM parseStmt with
    | some stmts =>
      match badNode st.nodes stmts with
      | none => ({}, "ok")
      | some n =>
        let got := stmts.filter (fun s => s.2.2.contains n.id)
        let remWrong := match got with | [s] => !(sameSet s.2.1 n.removed) | _ => false
        let site :=
          if !by_ then "batch:neo4j.nodeToNodeUpdateKey:batch-key-collision"
          else if remWrong then "batch:neo4j.nodeUpdateByMap.add:batch-key-ignores-deleted-kinds"
          else "batch:neo4j.newUpdateKey:kind-names-concatenated"
        let gotStr := ";".intercalate (got.map (fun s => s!"add={namesStr s.1},rem={namesStr s.2.1}"))
        ({}, s!"reject {site} id={n.id} wants add={namesStr n.added},rem={namesStr n.removed} gets {gotStr} ({got.length} statement(s))")
    | none => ({}, "reject batch:bad-output " ++ " ".intercalate out)
  | [] => ({}, "reject batch:bad-output")

def monStep (st : MSt) (ts : List String) : MSt × String :=
  let op := ts.takeWhile (· ≠ "=>")
  let out := (ts.dropWhile (· ≠ "=>")).drop 1
  match op, out with
  | ["key", _], _ => (st, "ok")
  | _, ["hook-missing"] => ({}, "ok")
  | ["node", id, a, r], ["ok"] => match id.toNat? with
      | some id => ({ nodes := st.nodes ++ [{ id := id, added := parseNames a, removed := parseNames r }] }, "ok")
      | none => (st, "reject bad-op")
  | ["bynode", id, k, r], ["ok"] => match id.toNat? with
      | some id => ({ nodes := st.nodes ++ [{ id := id, added := parseNames k, removed := parseNames r }] }, "ok")
      | none => (st, "reject bad-op")
  | ["flush"], _ => judge false st out
  | ["byflush"], _ => judge true st out
  | _, _ => (st, "reject bad-op")

def monSuite : Suite := { σ := MSt, init := {}, step := monStep }

end Driver.C12Batch

def Driver.C12Batch.suites : List (String × Driver.Suite) :=
  [("c12batch", Driver.C12Batch.suite), ("c12batchmon", Driver.C12Batch.monSuite)]
