import Driver.Proto
import Driver.Sexp
import Dawgs.Model.C10P
/-! C10 parameter-map driver (suite pmc10, raw lines).
  r <current|fix9> (pats ("p0" (keys "a" "b")) …) (plains "p1" …)
    -> syms <symbols of the rewritten text, sorted> TAB bound <keys of the map sent, sorted>      | error
The values are irrelevant to which symbols are bound (the harness compares values itself), so the model runs over Unit. -/
namespace Driver.C10P
open Dawgs.C10 Driver

def strs (xs : List Sexp) : Option (List String) := xs.mapM (fun x => match x with | .str s => some s | _ => none)

def readPats (xs : List Sexp) : Option (List (String × List String)) :=
  xs.mapM (fun x => match x with
    | .list [.str s, .list (.atom "keys" :: ks)] => (strs ks).map (fun k => (s, k))
    | _ => none)

def dedupS (xs : List String) : List String := xs.foldl (fun acc x => if acc.contains x then acc else acc ++ [x]) []

def sortedJoin (xs : List String) : String :=
  let ys := (dedupS xs).toArray.qsort (· < ·) |>.toList
  if ys.isEmpty then "-" else ",".intercalate ys

def step (_ : Unit) (ts : List String) : Unit × String :=
  match ts with
  | [line] =>
    match Sexp.parseLine line with
    | some [.atom "r", .atom md, .list (.atom "pats" :: ps), .list (.atom "plains" :: ls)] =>
      match readPats ps, strs ls with
      | some pats, some plains =>
        let params : PMap Unit := pats.map (fun p => (p.1, PVal.props (p.2.map (fun k => (k, ()))))) ++
          (dedupS plains).map (fun s => (s, PVal.val ()))
        match rewriteParams (md == "fix9") params (pats.map (·.1)) with
        | some (entries, m) => ((), "syms " ++ sortedJoin (symsAfter plains entries) ++ "\tbound " ++ sortedJoin (m.map (·.1)))
        | none => ((), "error")
      | _, _ => ((), "bad-op")
    | _ => ((), "bad-op")
  | _ => ((), "bad-op")

def suite : Suite := { σ := Unit, init := (), step := step, raw := true }
end Driver.C10P

def Driver.C10P.suites : List (String × Driver.Suite) := [("pmc10", Driver.C10P.suite)]
