import Driver.Proto
import Driver.Sexp
import Dawgs.Spec.C10
import Dawgs.Spec.C10Q
/-! C10 model driver (raw lines, fields separated by TAB).

  mode fixed | mode current          switch between `emit` (format.go as it is) and `emitOld` (before the C10 fixes)            -> ok
  e [fixed|current] <M> <R>          (mode may also be given per line)
                                     M = the where-expression of the model the text was rendered from,
                                     R = the where-expression the REAL parser built from the REAL text (or `none`)
    -> toks <canonical tokens of emit M> TAB parse <norm (parse (emit M)) | none> TAB nm <norm M> TAB nr <norm R | none>
       TAB shapes <F8 shape classes present in M, comma separated | -> TAB valid 0|1 TAB safe 0|1
       TAB needs <smallest set of repairs parens,frac,allOf under which M round-trips | - | unfixable>
  e <mode> <M> <R> <A> <RK>          additionally A = the WHERE criteria as APPLIED (before Prepare), RK = kinds on the real
                                     relationship pattern after Prepare; answer gains
       TAB pk <kinds the model hoists | error> TAB pw <model WHERE after Prepare | none | error>
       TAB eqreal yes|no|skip   (real Prepare output ≡ model output, by valuations)
       TAB eqapplied yes|no|skip (prepared query ≡ applied criteria, string-negation guard aside)
       TAB sites <context of every hoisted matcher: and|or|xor|allof[,multi] | ->
  e <mode> <M> <R> <A> <RK> <QM> <QR> <QA>   additionally the whole query (after Prepare / re-parsed / as applied); gains
       TAB qtoks <tokens of emitQ QM> TAB qparse <normQ (parseQ (emitQ QM))> TAB qnm <normQ QM> TAB qnr <normQ QR>
       TAB qprep <prepareQ QA: parameters named p0.. in text order, at most one kind matcher hoisted | error>
  o <O>                              one operand: tokens, parse∘emit, ok flag (literal suite)
  s <json string>                    quote / lex / decode of one string at character level
  unmodelled(<tag>) when M uses a construct outside the algebra (never silently accepted).
-/
namespace Driver.C10
open Dawgs.C10 Driver

/-! ### quoting -/
def hexDigit (n : Nat) : Char := if n < 10 then Char.ofNat (48 + n) else Char.ofNat (87 + n)

def jq (s : String) : String :=
  let body := s.toList.foldl (fun (acc : String) c =>
    if c = '"' then acc ++ "\\\""
    else if c = '\\' then acc ++ "\\\\"
    else if c = '\n' then acc ++ "\\n"
    else if c = '\r' then acc ++ "\\r"
    else if c = '\t' then acc ++ "\\t"
    else if c.toNat < 32 then acc ++ "\\u00" ++ String.singleton (hexDigit (c.toNat / 16)) ++ String.singleton (hexDigit (c.toNat % 16))
    else acc.push c) ""
  "\"" ++ body ++ "\""

def digits (ds : List Nat) : String := String.join (ds.map toString)

/-! ### rendering -/
def cmpName : CmpOp → String
  | .eq => "=" | .ne => "<>" | .lt => "<" | .le => "<=" | .gt => ">" | .ge => ">="
  | .startsWith => "starts_with" | .endsWith => "ends_with" | .contains => "contains" | .isIn => "in"

def cmpOfName : String → Option CmpOp
  | "=" => some .eq | "<>" => some .ne | "<" => some .lt | "<=" => some .le | ">" => some .gt | ">=" => some .ge
  | "starts_with" => some .startsWith | "ends_with" => some .endsWith | "contains" => some .contains | "in" => some .isIn
  | _ => none

def opName : Op → String
  | .or => "or" | .xor => "xor" | .and => "and"

def opOfName : String → Option Op
  | "or" => some .or | "xor" => some .xor | "and" => some .and | _ => none

def tokStr : Tok → String
  | .lp => "(" | .rp => ")" | .lb => "[" | .rb => "]" | .comma => "," | .dot => "." | .colon => ":" | .minus => "-"
  | .kw op => opName op
  | .kwNot => "not"
  | .cmp op => cmpName op
  | .isNull false => "is_null"
  | .isNull true => "is_not_null"
  | .kwNull => "null" | .kwTrue => "true" | .kwFalse => "false"
  | .int n => "#" ++ toString n
  | .float i fr => "#" ++ toString i ++ "." ++ digits fr
  | .str s => "s" ++ jq (String.ofList (quote s.toList))     -- the source form cypher.NewStringLiteral must produce
  | .ident s => "i" ++ jq s
  | .param s => "$" ++ jq s
  | .kwMatch => "match" | .kwWhere => "where" | .kwReturn => "return" | .kwDistinct => "distinct" | .kwOrderBy => "order_by"
  | .kwAsc => "asc" | .kwDesc => "desc" | .kwSkip => "skip" | .kwLimit => "limit" | .kwSet => "set" | .kwRemove => "remove"
  | .kwDelete => "delete" | .kwDetachDelete => "detach_delete" | .kwCreate => "create"
  | .relOpen => "-[" | .relClose => "]->" | .pipe => "|"

def toksStr (ts : List Tok) : String := " ".intercalate (ts.map tokStr)

def litStr : Lit → String
  | .null => "(lit null)"
  | .bool true => "(lit true)"
  | .bool false => "(lit false)"
  | .int i => "(lit (int " ++ jq (toString i) ++ "))"
  | .float d => "(lit (float " ++ jq (if d.neg then "-" else "") ++ " " ++ jq (toString d.int) ++ " " ++ jq (digits d.frac) ++ "))"
  | .str s => "(lit (str " ++ jq s ++ "))"

mutual
partial def operandStr : Operand → String
  | .var v => "(var " ++ jq v ++ ")"
  | .prop v p => "(prop " ++ jq v ++ " " ++ jq p ++ ")"
  | .fn f a => "(fn " ++ jq f ++ " " ++ operandStr a ++ ")"
  | .param s => "(param " ++ jq s ++ ")"
  | .lit l => litStr l
  | .list xs => "(list" ++ String.join (xs.map (fun x => " " ++ operandStr x)) ++ ")"
end

partial def exprStr : Expr → String
  | .cmp l op r => "(cmp " ++ operandStr l ++ " " ++ jq (cmpName op) ++ " " ++ operandStr r ++ ")"
  | .isNull l b => "(isnull " ++ operandStr l ++ (if b then " 1)" else " 0)")
  | .kinds ref ks a => "(kinds " ++ jq ref ++ " (ks" ++ String.join (ks.map (fun k => " " ++ jq k)) ++ ")" ++ (if a then " 1)" else " 0)")
  | .neg e => "(neg " ++ exprStr e ++ ")"
  | .paren e => "(paren " ++ exprStr e ++ ")"
  | .join op es => "(join " ++ jq (opName op) ++ String.join (es.map (fun x => " " ++ exprStr x)) ++ ")"

/-! ### reading -/
inductive Rd (α : Type) where
  | ok (a : α)
  | unmodelled (tag : String)
  | bad (why : String)

instance : Monad Rd where
  pure := .ok
  bind x f := match x with
    | .ok a => f a
    | .unmodelled t => .unmodelled t
    | .bad w => .bad w

def digitList (s : String) : Option (List Nat) :=
  s.toList.mapM (fun c => if '0' ≤ c && c ≤ '9' then some (c.toNat - 48) else none)

def readLit : Sexp → Rd Lit
  | .atom "null" => .ok .null
  | .atom "true" => .ok (.bool true)
  | .atom "false" => .ok (.bool false)
  | .list [.atom "int", .str s] => match s.toInt? with
    | some i => .ok (.int i)
    | none => .bad ("int " ++ s)
  | .list [.atom "float", .str sg, .str ip, .str fr] =>
    match ip.toNat?, digitList fr with
    | some i, some ds => .ok (.float ⟨sg == "-", i, ds⟩)
    | _, _ => .bad "float"
  | .list [.atom "str", .str s] => .ok (.str s)
  | _ => .bad "lit"

partial def readOperand : Sexp → Rd Operand
  | .list [.atom "var", .str v] => .ok (.var v)
  | .list [.atom "prop", .str v, .str p] => .ok (.prop v p)
  | .list [.atom "fn", .str f, a] => do let a' ← readOperand a; pure (.fn f a')
  | .list [.atom "param", .str s] => .ok (.param s)
  | .list [.atom "lit", l] => do let l' ← readLit l; pure (.lit l')
  | .list (.atom "list" :: xs) => do let xs' ← xs.mapM readOperand; pure (.list xs')
  | .list [.atom "unmodelled", .str t] => .unmodelled t
  | _ => .bad "operand"

def strsOf (xs : List Sexp) : Option (List String) :=
  xs.mapM (fun x => match x with | .str s => some s | _ => none)

partial def readExpr : Sexp → Rd Expr
  | .list [.atom "cmp", l, .str op, r] => do
    let l' ← readOperand l
    let r' ← readOperand r
    match cmpOfName op with
    | some o => pure (.cmp l' o r')
    | none => .unmodelled ("operator:" ++ op)
  | .list [.atom "isnull", l, .atom b] => do let l' ← readOperand l; pure (.isNull l' (b == "1"))
  | .list [.atom "kinds", .str ref, .list (.atom "ks" :: ks), .atom a] =>
    match strsOf ks with
    | some ks' => .ok (.kinds ref ks' (a == "1"))
    | none => .bad "kinds"
  | .list [.atom "neg", e] => do let e' ← readExpr e; pure (.neg e')
  | .list [.atom "paren", e] => do let e' ← readExpr e; pure (.paren e')
  | .list (.atom "join" :: .str op :: es) => do
    let es' ← es.mapM readExpr
    match opOfName op with
    | some o => pure (.join o es')
    | none => .bad "join"
  | .list [.atom "unmodelled", .str t] => .unmodelled t
  | _ => .bad "expr"

/-! ### F8 shape classes present in a term (names are the suffixes of the known-finding keys) -/
def conName : Expr → String
  | .join op _ => opName op
  | .neg _ => "not"
  | _ => "atom"

mutual
partial def shapesOperand : Operand → List String
  | .lit (.float d) => if d.frac.isEmpty then ["integral-float"] else []
  | .lit (.int i) => if i.natAbs ≤ maxI then [] else ["int-out-of-range"]
  | .fn _ a => shapesOperand a
  | .list xs => xs.flatMap shapesOperand
  | _ => []
end

partial def shapes : Expr → List String
  | .cmp l _ r => shapesOperand l ++ shapesOperand r
  | .isNull l _ => shapesOperand l
  | .kinds _ ks a => (if a && decide (2 ≤ ks.length) then ["all-of-kinds"] else []) ++ (if ks.isEmpty then ["empty-list"] else [])
  | .neg e => (if e.lvl < 4 then ["not-over-unparenthesised-" ++ conName e] else []) ++ shapes e
  | .paren e => shapes e
  | .join op es =>
    (if es.isEmpty then ["empty-list"] else []) ++
      es.flatMap (fun c => (if c.lvl < op.lvl then [opName op ++ "-over-unparenthesised-" ++ conName c] else []) ++ shapes c)

def dedup (xs : List String) : List String := xs.foldl (fun acc x => if acc.contains x then acc else acc ++ [x]) []


/-! ### Prepare: model output and a semantic comparison by valuations (search, not proof) -/

inductive F where
  | atom (i : Nat)
  | tt
  | neg (f : F)
  | join (op : Op) (fs : List F)
deriving Inhabited

abbrev Tab := Array String

def internAtom (t : Tab) (k : String) : Tab × Nat :=
  match t.findIdx? (· == k) with
  | some i => (t, i)
  | none => (t.push k, t.size)

mutual
partial def blankO : Operand → Operand
  | .param _ => .param ""
  | .fn f a => .fn f (blankO a)
  | .list xs => .list (xs.map blankO)
  | o => o
end

partial def blankE : Expr → Expr
  | .cmp l op r => .cmp (blankO l) op (blankO r)
  | .isNull l b => .isNull (blankO l) b
  | .neg e => .neg (blankE e)
  | .paren e => .paren (blankE e)
  | .join op es => .join op (es.map blankE)
  | e => e

def kindAtomsF (t : Tab) (ref : String) (ks : List String) : Tab × List F :=
  ks.foldl (fun (acc : Tab × List F) k => let (t', i) := internAtom acc.1 ("k " ++ jq ref ++ " " ++ jq k); (t', acc.2 ++ [F.atom i])) (t, [])

partial def compileF (t : Tab) : Expr → Tab × F
  | .cmp l op r => let (t', i) := internAtom t (exprStr (.cmp l op r)); (t', .atom i)
  | .isNull l b => let (t', i) := internAtom t (exprStr (.isNull l b)); (t', .atom i)
  | .kinds ref ks a => let (t', fs) := kindAtomsF t ref ks; (t', .join (if a then .and else .or) fs)
  | .neg e => let (t', f) := compileF t e; (t', .neg f)
  | .paren e => compileF t e
  | .join op es =>
    let (t', fs) := es.foldl (fun (acc : Tab × List F) e => let (t2, f) := compileF acc.1 e; (t2, acc.2 ++ [f])) (t, [])
    (t', .join op fs)

def compileMeaning (t : Tab) (ks : List String) (w : Option Expr) : Tab × F :=
  let (t1, pk) := if ks.isEmpty then (t, F.tt) else (let (t', fs) := kindAtomsF t edgeSym ks; (t', F.join .or fs))
  match w with
  | none => (t1, .join .and [pk, .tt])
  | some e => let (t2, f) := compileF t1 e; (t2, .join .and [pk, f])

partial def evalF (asg : Array V3) : F → V3
  | .atom i => asg.getD i none
  | .tt => some true
  | .neg f => not3 (evalF asg f)
  | .join op fs => fs.foldr (fun f acc => op3 op (evalF asg f) acc) (unit3 op)

def v3Of (n : Nat) : V3 := if n % 3 == 0 then some false else if n % 3 == 1 then some true else none

/-- assignments: all 3^n for n ≤ 7, otherwise 1500 pseudo-random ones (fixed LCG) -/
def assignments (n : Nat) : List (Array V3) :=
  if n ≤ 7 then
    (List.range (3 ^ n)).map (fun code => (List.range n).foldl (fun (acc : Array V3 × Nat) _ => (acc.1.push (v3Of acc.2), acc.2 / 3)) (#[], code) |>.1)
  else
    (List.range 1500).map (fun j =>
      (List.range n).foldl (fun (acc : Array V3 × Nat) _ =>
        let s := (acc.2 * 6364136223846793005 + 1442695040888963407) % 18446744073709551616
        (acc.1.push (v3Of (s / 4294967296)), s)) (#[], j * 2654435761 + n) |>.1)

def semEq (t : Tab) (a b : F) : Bool := (assignments t.size).all (fun asg => evalF asg a == evalF asg b)

def siteNames (e : Expr) : List String :=
  let rec go (neg : Bool) (ctx : String) : Expr → List String
    | .kinds ref ks a => if ref == edgeSym && !neg then [if a && decide (2 ≤ ks.length) then "allof" else ctx] else []
    | .neg c => go true ctx c
    | .paren c => go neg ctx c
    | .join op es => es.flatMap (go neg (if op == .and then ctx else opName op))
    | _ => []
  go false "and" e

def ksStr (ks : List String) : String := "(ks" ++ String.join (ks.map (fun k => " " ++ jq k)) ++ ")"

/-- fields about Prepare: A = criteria as applied, rk/m = kinds on the real pattern and the real WHERE after Prepare -/
def answerP (pm : PrepMode) (a : Expr) (rk : Option (List String)) (m : Option Expr) : String :=
  let sn := dedup (siteNames a)
  let nsites := (siteNames a).length
  let sites := "\tsites " ++ (if sn.isEmpty then "-" else ",".intercalate sn) ++ (if nsites > 1 then ",multi" else "")
  match (match pm with | .live => prepare a | .fix7 => some (prepareFix7 a) | .guarded => prepareGuarded a) with
  | none => "\tpk error\tpw error\teqreal skip\teqapplied skip" ++ sites
  | some (pk, pw) =>
    let eqApplied :=
      match (match pm with | .fix7 => some (prepFix7 false false false true true a) | _ => prep false false true a) with
      | some (h0, w0) =>
        let (t1, fm) := compileMeaning #[] (flattenKinds h0) w0
        let (t2, fa) := compileF t1 a
        if semEq t2 fm fa then "yes" else "no"
      | none => "skip"
    let eqReal :=
      match rk with
      | some rk' =>
        let (t1, fm) := compileMeaning #[] pk pw
        let (t2, fr) := compileMeaning t1 rk' (m.map blankE)
        if semEq t2 fm fr then "yes" else "no"
      | none => "skip"
    "\tpk " ++ ksStr pk ++ "\tpw " ++ (match pw with | some x => exprStr x | none => "none") ++
      "\teqreal " ++ eqReal ++ "\teqapplied " ++ eqApplied ++ sites


/-! ### whole queries -/
def optStr : Option String → String
  | some v => jq v
  | none => "none"

def elStr : PatEl → String
  | .node v ks p => "(node " ++ optStr v ++ " " ++ ksStr ks ++ " " ++ optStr p ++ ")"
  | .rel v ks p => "(rel " ++ optStr v ++ " " ++ ksStr ks ++ " " ++ optStr p ++ ")"

def itemStr : Item → String
  | .op o => "(op " ++ operandStr o ++ ")"
  | .fnDistinct f a => "(fnd " ++ jq f ++ " " ++ operandStr a ++ ")"

def optOStr : Option Operand → String
  | some o => operandStr o
  | none => "none"

def projStr (p : Proj) : String :=
  "(proj " ++ (if p.distinct then "1" else "0") ++ " (items" ++ String.join (p.items.map (fun i => " " ++ itemStr i)) ++ ") (order" ++
    String.join (p.order.map (fun s => " (s " ++ operandStr s.o ++ (if s.asc then " 1)" else " 0)"))) ++ ") " ++
    optOStr p.skip ++ " " ++ optOStr p.limit ++ ")"

def updStr : Upd → String
  | .set items => "(set" ++ String.join (items.map (fun i => match i with
      | .prop v p val => " (sprop " ++ jq v ++ " " ++ jq p ++ " " ++ operandStr val ++ ")"
      | .kinds v ks => " (skinds " ++ jq v ++ " " ++ ksStr ks ++ ")")) ++ ")"
  | .remove items => "(remove" ++ String.join (items.map (fun i => match i with
      | .prop v p => " (rprop " ++ jq v ++ " " ++ jq p ++ ")"
      | .kinds v ks => " (rkinds " ++ jq v ++ " " ++ ksStr ks ++ ")")) ++ ")"
  | .delete d vs => "(delete " ++ (if d then "1" else "0") ++ String.join (vs.map (fun v => " " ++ jq v)) ++ ")"
  | .create pat => "(create" ++ String.join (pat.map (fun e => " " ++ elStr e)) ++ ")"

def queryStr (q : Query) : String :=
  "(Q (pat" ++ String.join (q.pattern.map (fun e => " " ++ elStr e)) ++ ") (where " ++
    (match q.where_ with | some e => exprStr e | none => "none") ++ ") (upds" ++
    String.join (q.updates.map (fun u => " " ++ updStr u)) ++ ") (ret " ++
    (match q.ret with | some p => projStr p | none => "none") ++ "))"

def readOptS : Sexp → Option (Option String)
  | .atom "none" => some none
  | .str s => some (some s)
  | _ => none

def readKs : Sexp → Option (List String)
  | .list (.atom "ks" :: ks) => strsOf ks
  | _ => none

def readEl : Sexp → Rd PatEl
  | .list [.atom "node", v, ks, p] =>
    match readOptS v, readKs ks, readOptS p with
    | some v', some ks', some p' => .ok (.node v' ks' p')
    | _, _, _ => .bad "node"
  | .list [.atom "rel", v, ks, p] =>
    match readOptS v, readKs ks, readOptS p with
    | some v', some ks', some p' => .ok (.rel v' ks' p')
    | _, _, _ => .bad "rel"
  | .list [.atom "unmodelled", .str t] => .unmodelled t
  | _ => .bad "patel"

def readOptO : Sexp → Rd (Option Operand)
  | .atom "none" => .ok none
  | x => do let o ← readOperand x; pure (some o)

def readItem : Sexp → Rd Item
  | .list [.atom "op", o] => do let o' ← readOperand o; pure (.op o')
  | .list [.atom "fnd", .str f, a] => do let a' ← readOperand a; pure (.fnDistinct f a')
  | .list [.atom "unmodelled", .str t] => .unmodelled t
  | _ => .bad "item"

def readSort : Sexp → Rd SortItem
  | .list [.atom "s", o, .atom a] => do let o' ← readOperand o; pure ⟨o', a == "1"⟩
  | _ => .bad "sort"

def readProj : Sexp → Rd (Option Proj)
  | .atom "none" => .ok none
  | .list [.atom "proj", .atom d, .list (.atom "items" :: items), .list (.atom "order" :: order), sk, lim] => do
    let items' ← items.mapM readItem
    let order' ← order.mapM readSort
    let sk' ← readOptO sk
    let lim' ← readOptO lim
    pure (some ⟨d == "1", items', order', sk', lim'⟩)
  | .list [.atom "unmodelled", .str t] => .unmodelled t
  | _ => .bad "proj"

def readUpd : Sexp → Rd Upd
  | .list (.atom "set" :: items) => do
    let items' ← items.mapM (fun i => match i with
      | .list [.atom "sprop", .str v, .str p, val] => do let val' ← readOperand val; pure (SetItem.prop v p val')
      | .list [.atom "skinds", .str v, ks] => match readKs ks with | some ks' => Rd.ok (SetItem.kinds v ks') | none => Rd.bad "skinds"
      | .list [.atom "unmodelled", .str t] => Rd.unmodelled t
      | _ => Rd.bad "setitem")
    pure (.set items')
  | .list (.atom "remove" :: items) => do
    let items' ← items.mapM (fun i => match i with
      | .list [.atom "rprop", .str v, .str p] => Rd.ok (RemItem.prop v p)
      | .list [.atom "rkinds", .str v, ks] => match readKs ks with | some ks' => Rd.ok (RemItem.kinds v ks') | none => Rd.bad "rkinds"
      | .list [.atom "unmodelled", .str t] => Rd.unmodelled t
      | _ => Rd.bad "remitem")
    pure (.remove items')
  | .list (.atom "delete" :: .atom d :: vs) =>
    match strsOf vs with
    | some vs' => .ok (.delete (d == "1") vs')
    | none => .bad "delete"
  | .list (.atom "create" :: els) => do let els' ← els.mapM readEl; pure (.create els')
  | .list [.atom "unmodelled", .str t] => .unmodelled t
  | _ => .bad "upd"

def readQuery : Sexp → Rd Query
  | .list [.atom "Q", .list (.atom "pat" :: els), .list [.atom "where", w], .list (.atom "upds" :: us), .list [.atom "ret", r]] => do
    let els' ← els.mapM readEl
    let w' ← (match w with
      | .atom "none" => Rd.ok none
      | x => do let e ← readExpr x; pure (some e))
    let us' ← us.mapM readUpd
    let r' ← readProj r
    pure ⟨els', w', us', r'⟩
  | .list [.atom "unmodelled", .str t] => .unmodelled t
  | _ => .bad "query"

/-- the kinds of a relationship pattern are a set (`[r:A|B|A]` re-parses as `[r:A|B]`) -/
def dedupEl : PatEl → PatEl
  | .rel v ks p => .rel v (dedup ks) p
  | el => el

def normQd (q : Query) : Query := { q with pattern := q.pattern.map dedupEl, where_ := q.where_.map norm }

/-- fields about the whole query: QM = the model the text was rendered from (after Prepare), QR = the real re-parse,
QA = the query as applied (parameters unnamed, pattern kinds not yet hoisted) -/
def answerQ (pm : PrepMode) (qm qr qa : Sexp) : String :=
  match readQuery qm with
  | .unmodelled t => "\tqunmodelled " ++ t
  | .bad w => "\tqbad " ++ w
  | .ok m =>
    let ts := emitQ m
    let base := "\tqtoks " ++ toksStr ts ++
      "\tqparse " ++ (match parseQ ts with | some x => queryStr (normQd x) | none => "none") ++
      "\tqnm " ++ queryStr (normQd m) ++
      "\tqnr " ++ (match qr with
        | .atom "none" => "none"
        | _ => match readQuery qr with | .ok r => queryStr (normQd r) | _ => "unmodelled")
    match qa with
    | .atom "none" => base
    | _ =>
      match readQuery qa with
      | .ok a => base ++ "\tqprep " ++ (match prepareQ pm a with | some x => queryStr x | none => "error")
      | _ => base

/-! ### steps -/
structure St where
  fixed : Bool := false
  pm : PrepMode := .live

def emitter (st : St) : Expr → List Tok := if st.fixed then emit else emitOld

/-- the smallest set of repairs (in a fixed order) under which `m` round-trips: attributes a failure to a defect -/
def needs (m : Expr) : String :=
  let target := exprStr (norm m)
  let ok (fx : Fix) : Bool := match (parse (emitE fx m)).map norm with
    | some x => exprStr x == target
    | none => false
  let cands : List (String × Fix) := [("-", ⟨false, false, false⟩), ("parens", ⟨true, false, false⟩), ("frac", ⟨false, true, false⟩),
    ("allOf", ⟨false, false, true⟩), ("parens,frac", ⟨true, true, false⟩), ("parens,allOf", ⟨true, false, true⟩),
    ("frac,allOf", ⟨false, true, true⟩), ("parens,frac,allOf", ⟨true, true, true⟩)]
  match cands.find? (fun c => ok c.2) with
  | some c => c.1
  | none => "unfixable"

def answerE (st : St) (m : Expr) (r : Option Expr) : String :=
  let ts := emitter st m
  let p := (parse ts).map norm
  let sh := dedup (shapes m)
  "toks " ++ toksStr ts ++
  "\tparse " ++ (match p with | some x => exprStr x | none => "none") ++
  "\tnm " ++ exprStr (norm m) ++
  "\tnr " ++ (match r with | some x => exprStr (norm x) | none => "none") ++
  "\tshapes " ++ (if sh.isEmpty then "-" else ",".intercalate sh) ++
  "\tvalid " ++ (if valid m then "1" else "0") ++
  "\tsafe " ++ (if safe m then "1" else "0") ++
  "\tneeds " ++ needs m

def stepE (st : St) (m r : Sexp) : String :=
  match readExpr m with
  | .unmodelled t => "unmodelled(" ++ t ++ ")"
  | .bad w => "bad-op " ++ w
  | .ok m' =>
    match r with
    | .atom "none" => answerE st m' none
    | _ =>
      match readExpr r with
      | .ok r' => answerE st m' (some r')
      | .unmodelled t => answerE st m' none ++ "\trunmodelled " ++ t
      | .bad w => "bad-op re " ++ w

/-- `e <mode> M R A RK` (mode fixed = format.go and Prepare as they are, fix7 / fix8 = Prepare with the proposal hooks/C10-fix7 / C10-fix8,
current = format.go before the three emitter fixes): as `e`, plus the Prepare fields when the applied criteria A are in the algebra -/
def stepEP (st : St) (m r a rk : Sexp) : String :=
  let base := match m with
    | .atom "none" => "nowhere"
    | _ => stepE st m r
  let rkv : Option (List String) := match rk with
    | .list (.atom "ks" :: ks) => strsOf ks
    | _ => none
  let mv : Option Expr := match m with
    | .atom "none" => none
    | _ => match readExpr m with | .ok x => some x | _ => none
  let mBad : Bool := match m with
    | .atom "none" => false
    | _ => mv.isNone
  match a with
  | .atom "none" => base
  | _ =>
    match readExpr a with
    | .ok a' => base ++ answerP st.pm a' (if mBad then none else rkv) mv
    | _ => base

def step (st : St) (ts : List String) : St × String :=
  match ts with
  | [line] =>
    match Sexp.parseLine line with
    | some [.atom "mode", .atom "fixed"] => ({ st with fixed := true }, "ok")
    | some [.atom "mode", .atom "current"] => ({ st with fixed := false }, "ok")
    | some [.atom "e", m, r] => (st, stepE st m r)
    | some [.atom "e", .atom "fixed", m, r] => (st, stepE { st with fixed := true } m r)     -- per-line mode, no state
    | some [.atom "e", .atom "current", m, r] => (st, stepE { st with fixed := false } m r)
    | some [.atom "e", .atom md, m, r, a, rk] =>
      (st, stepEP { st with fixed := md == "fixed" || md == "fix7" || md == "fix8", pm := (if md == "fix7" then .fix7 else if md == "fix8" then .guarded else .live) } m r a rk)
    | some [.atom "e", .atom md, m, r, a, rk, qm, qr, qa] =>
      let st' := { st with fixed := md == "fixed" || md == "fix7" || md == "fix8", pm := (if md == "fix7" then .fix7 else if md == "fix8" then .guarded else .live) }
      (st, stepEP st' m r a rk ++ (if st'.fixed then answerQ st'.pm qm qr qa else ""))
    | some [.atom "o", o] =>
      match readOperand o with
      | .ok o' =>
        let ts := emitO st.fixed o'
        (st, "toks " ++ toksStr ts ++ "\tparse " ++ (match parseOperand ts with | some x => operandStr x | none => "none") ++
          "\tok " ++ (if o'.ok then "1" else "0"))
      | .unmodelled t => (st, "unmodelled(" ++ t ++ ")")
      | .bad w => (st, "bad-op " ++ w)
    | some [.atom "s", .str s] =>
      let q := quote s.toList
      (st, "quoted " ++ jq (String.ofList q) ++ "\tdecoded " ++
        (match lexStr (q ++ " x".toList) with
         | some (d, rest) => jq (String.ofList d) ++ "\trest " ++ jq (String.ofList rest)
         | none => "none"))
    | _ => (st, "bad-op")
  | _ => (st, "bad-op")

def suite : Suite := { σ := St, init := {}, step := step, raw := true }
end Driver.C10

def Driver.C10.suites : List (String × Driver.Suite) := [("c10", Driver.C10.suite)]
