import Driver.Proto
import Dawgs.Model.C18
import Dawgs.Model.C19
import Dawgs.Model.C18Json
/-! Model driver for C18: the same op lines as harness/c18.go, answered by the Lean model
(fragment boundaries and counts, loaded graph in creation order mapped back to source ids, verify
outcome). Property values are opaque canonical JSON text. -/
namespace Driver.C18
open Dawgs.C18

abbrev P := String
abbrev B := Content P

/-- the identity codec: bytes are the content itself, the digest is the content -/
def idCodec : Codec P B B :=
  { enc := fun c => c, dec := fun b => some b, digest := fun b => b, size := fun b => b.count,
    dec_enc := fun _ => rfl }

structure LoadedGraph where
  dst : Dst P
  idmap : IdMap

structure St where
  graphs : List (Graph P) := []                      -- declaration order
  codec : String := ""
  dumps : Option (List (GraphDump P B B)) := none
  loaded : Option (List LoadedGraph) := none         -- parallel to dumps

def hexDigit (n : Nat) : Char := if n < 10 then Char.ofNat (48 + n) else Char.ofNat (55 + n)

/-- Go's `url.PathEscape` -/
def pathEscape (s : String) : String :=
  s.toUTF8.toList.foldl (fun acc b =>
    let c := Char.ofNat b.toNat
    if c.isAlphanum || "-_.~$&+=:@".contains c then acc.push c
    else (acc.push '%').push (hexDigit (b.toNat / 16)) |>.push (hexDigit (b.toNat % 16))) ""

def pad6 (n : Nat) : String :=
  let s := toString n
  String.ofList (List.replicate (6 - s.length) '0') ++ s

def ext (codec : String) : String :=
  if codec == "gzip" then ".gz" else if codec == "zstd" then ".zst" else ""

def renderPath (codec : String) (p : Path) : String :=
  let dir := if pathEscape p.graph == "" then "default" else pathEscape p.graph
  let pre := match p.phase with | .nodes => "nodes" | .edges => "edges"
  s!"graphs/{dir}/{pre}-{pad6 p.shard}.jsonl{ext codec}"

def kindsTok (ks : List String) : String := if ks.isEmpty then "-" else ",".intercalate ks

def parseKinds (t : String) : List String := if t == "-" || t == "" then [] else t.splitOn ","

def contentIds : Content P → String
  | .nodes rs => "+".intercalate (rs.map (fun r => toString r.id))
  | .edges rs => "+".intercalate (rs.map (fun r => s!"{r.src}>{r.dst}"))

def updGraph (gs : List (Graph P)) (name : String) (f : Graph P → Graph P) : Option (List (Graph P)) :=
  if gs.any (·.name == name) then some (gs.map (fun g => if g.name == name then f g else g)) else none

def normProps (t : String) : String := if t == "-" then "{}" else t
def normKind (t : String) : String := if t == "-" then "" else t
def kindTok (k : String) : String := if k == "" then "-" else k

/-- the model's `Dump` loop over the declared graphs -/
def dumpAll (st : St) (batch shard : Nat) : Except DumpErr (List (GraphDump P B B)) :=
  Dawgs.C18.dumpAll idCodec batch shard st.graphs

def dumpErrStr : DumpErr → String
  | .scan .shortRead => "scan-short"
  | .scan .notIncreasing => "scan-order"
  | .scan .fuel => "model-fuel"
  | .dangling => "dangling-endpoint"
  | .countMismatch => "count-mismatch"

def loadErrStr : LoadErr → String
  | .missingFile => "fragment-missing"
  | .checksum => "checksum"
  | .byteCount => "byte-count"
  | .undecodable => "undecodable"
  | .wrongPhase => "wrong-phase"
  | .countMismatch => "count-mismatch"
  | .duplicateId => "duplicate-id"
  | .missingEndpoint => "missing-endpoint"
  | .notEmpty => "not-empty"

def alloc (k : Nat) : Nat := 1000 + 3 * k
def allocE (k : Nat) : Nat := 5000 + 2 * k

/-- the model's `Load`: verify every graph against the whole directory, then load graph by graph with the
creation counters running on and one id map per graph -/
def loadAll (ds : List (GraphDump P B B)) (batch : Nat) : Except LoadErr (List LoadedGraph) :=
  match Dawgs.C18.loadAll idCodec (allFiles ds) (ds.map (fun d => d.manifest)) batch alloc allocE 0 0 with
  | .error e => .error e
  -- the loader decodes the property values (`decodeVal`; on the typed text: `loadText`)
  | .ok rs => .ok (rs.map (fun r => { dst := { r.1 with nodes := r.1.nodes.map (fun n => { n with props := loadText n.props }),
                                                          edges := r.1.edges.map (fun e => { e with props := loadText e.props }) }, idmap := r.2 }))

def backName (m : IdMap) (newId : Nat) : String :=
  match m.find? (fun p => p.2 == newId) with
  | some p => toString p.1
  | none => "?"

def showLoaded (ds : List (GraphDump P B B)) (ls : List LoadedGraph) : String :=
  let parts := (ds.zip ls).map (fun (d, l) =>
    let ns := l.dst.nodes.map (fun n => s!" N {backName l.idmap n.id} {kindsTok n.kinds} {n.props}")
    let es := l.dst.edges.map (fun e => s!" E {backName l.idmap e.src} {backName l.idmap e.dst} {kindTok e.kind} {e.props}")
    s!" G {d.manifest.name}" ++ String.join ns ++ String.join es)
  "ok" ++ String.join parts

def removeAt {α : Type} (xs : List α) (k : Nat) : List α := xs.take k ++ xs.drop (k + 1)
def setAt {α : Type} (xs : List α) (k : Nat) (f : α → α) : List α :=
  xs.zipIdx.map (fun (x, i) => if i == k then f x else x)

def mutate (d : Dst P) : List String → Option (Dst P)
  | ["addnode", ks] => some { d with nodes := d.nodes ++ [⟨900000 + d.nodes.length, parseKinds ks, "{}"⟩] }
  | ["deledge", k] => do
    let k ← k.toNat?
    if k < d.edges.length then some { d with edges := removeAt d.edges k } else none
  | ["setkinds", k, ks] => do
    let k ← k.toNat?
    if k < d.nodes.length then some { d with nodes := setAt d.nodes k (fun n => { n with kinds := parseKinds ks }) } else none
  | ["rewire", k, i, j] => do
    let k ← k.toNat?
    let i ← i.toNat?
    let j ← j.toNat?
    let a ← d.nodes[i]?
    let b ← d.nodes[j]?
    if k < d.edges.length then some { d with edges := setAt d.edges k (fun e => { e with src := a.id, dst := b.id }) } else none
  | ["setprop", k, p] => do
    let k ← k.toNat?
    if k < d.nodes.length then some { d with nodes := setAt d.nodes k (fun n => { n with props := normProps p }) } else none
  | _ => none

/-! ### scale boundary ops (see harness/c18.go: `scale`, `scaledump`, `scaleverify`, `scalemutate`) -/

def scaleKinds (i : Nat) : List String :=
  (List.range 17).filterMap (fun j => if (i >>> j) % 2 == 1 then some s!"K{j}" else none)

def scaleGraph (n : Nat) : Graph P :=
  { name := "default"
    nodes := (List.range n).map (fun i => ⟨i, scaleKinds i, "{}"⟩)
    edges := [⟨1, n - 2, 0, "R", "{}"⟩, ⟨2, n - 1, 1, "R", "{}"⟩, ⟨3, n - 3, n - 1, "R", "{}"⟩] }

/-- `metricKeyPart` / `metricKindSetKey` / `metricEndpointKindKey` of metrics.go -/
def keyPart (v : String) : String := s!"{v.utf8ByteSize}:{v}"
def kindSetKeyStr (key : List String) : String := if key.isEmpty then "0:" else "+".intercalate (key.map keyPart)
def endpointKeyStr (e : List String × String × List String) : String :=
  "|".intercalate [keyPart (kindSetKeyStr e.1), keyPart (keyPart e.2.1), keyPart (kindSetKeyStr e.2.2)]

def sortStrings (xs : List String) : List String := xs.mergeSort (fun a b => decide (a ≤ b))

/-- number of distinct values of a sorted list -/
def distinctSorted : List String → Nat
  | [] => 0
  | [_] => 1
  | a :: b :: t => (if a == b then 0 else 1) + distinctSorted (b :: t)

def countRuns : List String → List (String × Nat)
  | [] => []
  | a :: t =>
    match countRuns t with
    | (b, n) :: rest => if a == b then (b, n + 1) :: rest else (a, 1) :: (b, n) :: rest
    | [] => [(a, 1)]

/-- multiset equality by sorting (the model's `histEq` is quadratic; this is the same relation on rendered keys) -/
def sameMultiset (a b : List String) : Bool := sortStrings a == sortStrings b

def fastAgree (a b : Metrics) : Bool :=
  a.nodeCount == b.nodeCount && a.edgeCount == b.edgeCount &&
  sameMultiset (a.nodeKinds.map kindSetKeyStr) (b.nodeKinds.map kindSetKeyStr) &&
  sameMultiset a.edgeKinds b.edgeKinds &&
  sameMultiset (a.inDeg.map toString) (b.inDeg.map toString) && sameMultiset (a.outDeg.map toString) (b.outDeg.map toString) &&
  sameMultiset (a.totDeg.map toString) (b.totDeg.map toString) &&
  sameMultiset (a.endpoints.map endpointKeyStr) (b.endpoints.map endpointKeyStr)

def dumpAnswer (st : St) (codec : String) (batch shard : Nat) : St × String :=
  match dumpAll st batch shard with
  | .error e => ({ st with dumps := none, loaded := none }, "err " ++ dumpErrStr e)
  | .ok ds =>
    let parts := ds.map (fun d =>
      let m := d.manifest
      let files := (m.files.zip d.files).map (fun (e, f) => s!" {renderPath codec e.path}#{e.count}#{contentIds f.2}")
      s!" {m.name} n={m.nodeCount} e={m.edgeCount} nk={kindsTok m.nodeKinds} ek={kindsTok m.edgeKinds}" ++ String.join files)
    ({ st with codec := codec, dumps := some ds, loaded := none }, "ok" ++ String.join parts)

def refusalStr : Dawgs.C19.Refusal → String
  | .manifestPresent => "manifest-present"
  | .noCheckpoint => "no-checkpoint"
  | .badCheckpoint => "bad-checkpoint"
  | .identityChanged => "identity-changed"
  | .checkpointInvalid => "checkpoint-invalid"
  | .fragmentMissing => "fragment-missing"
  | .checksum => "checksum"
  | .unexpectedFile => "unexpected-file"
  | .sourceChanged => "source-changed"

/-- the dump crashed at point `k` and then resumed (C19 model): `none` = it ends as the complete dump,
`some class` = every resume refuses -/
def interrupted (st : St) (codec : String) (batch shard k : Nat) : Option String :=
  let o : Dawgs.C19.Opts :=
    { driver := "fake", targets := st.graphs.map (·.name), outputDir := "", force := false, resume := false, scrub := false, salt := "",
      scrubConfig := "default", compression := codec, zstdLevel := 3, shardSize := shard, batchSize := batch, progressInterval := 0,
      progressSet := false }
  let ident := Dawgs.C19.identityOf o
  let ops : List (Dawgs.C19.FsOp P) := Dawgs.C19.dumpOps st.graphs ident
  if k == 0 || k > ops.length then none else
  let fs := Dawgs.C19.applyOps (ops.take k) []
  if (Dawgs.C19.FS.get fs .manifest).isSome then none else
  match (Dawgs.C19.resume st.graphs ident fs).outcome with
  | .ok => none
  | .refused c => some (refusalStr c)

def step (st : St) (ts : List String) : St × String :=
  match ts with
  | ["reset"] => ({}, "ok")
  | ["graph", name] =>
    if st.graphs.any (·.name == name) then (st, "bad-op")
    else ({ st with graphs := st.graphs ++ [{ name := name, nodes := [], edges := [] }] }, "ok")
  | ["node", g, id, ks, props] =>
    match id.toNat? with
    | some id =>
      match updGraph st.graphs g (fun gr => { gr with nodes := gr.nodes ++ [⟨id, parseKinds ks, normProps props⟩] }) with
      | some gs => ({ st with graphs := gs }, "ok")
      | none => (st, "bad-op")
    | none => (st, "bad-op")
  | ["edge", g, id, s, t, kind, props] =>
    match id.toNat?, s.toNat?, t.toNat? with
    | some id, some s, some t =>
      match updGraph st.graphs g (fun gr => { gr with edges := gr.edges ++ [⟨id, s, t, normKind kind, normProps props⟩] }) with
      | some gs => ({ st with graphs := gs }, "ok")
      | none => (st, "bad-op")
    | _, _, _ => (st, "bad-op")
  | ["dump", codec, batch, shard] =>
    match batch.toNat?, shard.toNat? with
    | some batch, some shard =>
      if st.graphs.isEmpty || !(["none", "gzip", "zstd"].contains codec) then (st, "bad-op") else dumpAnswer st codec batch shard
    | _, _ => (st, "bad-op")
  | "idump" :: codec :: batch :: shard :: mode :: k :: rest =>
    match batch.toNat?, shard.toNat?, k.toNat? with
    | some batch, some shard, some k =>
      if st.graphs.isEmpty || !(["none", "gzip", "zstd"].contains codec) || batch < 1 || shard < 1 then (st, "bad-op") else
      let wf := st.graphs.all (fun g => g.edges.all (fun e => g.nodes.any (·.id == e.src) && g.nodes.any (·.id == e.dst)))
      if !wf then ({ st with dumps := none, loaded := none }, "bad-db") else
      if mode == "fault" && rest.length == 1 then
        -- a read fault leaves a clean checkpoint state (C19 tie); the resume completes to the uninterrupted dump
        if k < 1 then (st, "bad-op") else dumpAnswer st codec batch shard
      else if mode == "crash" && rest.isEmpty then
        match interrupted st codec batch shard k with
        | none => dumpAnswer st codec batch shard
        | some cls => ({ st with dumps := none, loaded := none }, "stuck " ++ cls)
      else (st, "bad-op")
    | _, _, _ => (st, "bad-op")
  | ["scale", n] =>
    match n.toNat? with
    | some n => if n < 4 || n > 131072 then (st, "bad-op") else ({ graphs := [scaleGraph n] }, "ok")
    | none => (st, "bad-op")
  | ["scaledump", codec] =>
    if st.graphs.isEmpty || !(["none", "gzip", "zstd"].contains codec) then (st, "bad-op") else
    match dumpAll st 10000 1000 with
    | .error e => ({ st with dumps := none, loaded := none }, "err " ++ dumpErrStr e)
    | .ok ds =>
      match ds with
      | [d] =>
        let m := d.manifest.metrics
        let combos := distinctSorted (sortStrings (m.nodeKinds.map kindSetKeyStr))
        let eps := (countRuns (sortStrings (m.endpoints.map endpointKeyStr))).map (fun (k, c) => s!"{k}*{c}")
        ({ st with codec := codec, dumps := some ds, loaded := none }, s!"ok n={m.nodeCount} e={m.edgeCount} combos={combos} ep={",".intercalate eps}")
      | _ => (st, "bad-op")
  -- NaN / ±Inf have no JSON form: encoding/json refuses, the dump fails, no manifest (Model/C18Json.lean)
  | ["nandump", k] => (st, if k == "nan" || k == "inf" || k == "-inf" then "nandump rejected" else "bad-op")
  | ["scaleverify"] =>
    -- Load then Verify of the faithful copy: accepted (Props.verify_accepts_loaded); the 65537-node load is not replayed
    match st.dumps, st.graphs with
    | some [_], [g] => (st, s!"ok n={g.nodes.length} e={g.edges.length}")
    | _, _ => (st, "bad-op")
  | ["scalemutate"] =>
    -- the second relationship (creation order = id order) now starts at the first node: exact metrics comparison
    match st.dumps, st.graphs with
    | some [d], [g] =>
      let es := sortBy (fun e : Edge P => e.id) g.edges
      let ns := sortBy (fun n : Node P => n.id) g.nodes
      match ns.head?, es with
      | some n0, [e1, e2, e3] =>
        let obsN := ns.map (fun n => (n.id, n.kinds))
        let obsE := [e1, { e2 with src := n0.id }, e3].map (fun e => (e.src, e.dst, e.kind))
        match metricsOf obsN obsE with
        | some actual => (st, if fastAgree d.manifest.metrics actual then s!"ok n={g.nodes.length} e={g.edges.length}" else "mismatch")
        | none => (st, "err dangling-endpoint")
      | _, _ => (st, "bad-op")
    | _, _ => (st, "bad-op")
  | ["load", batch] =>
    match batch.toNat?, st.dumps with
    | some batch, some ds =>
      match loadAll ds batch with
      | .error e => ({ st with loaded := none }, "err " ++ loadErrStr e)
      | .ok ls =>
        let n := (ls.map (fun l => l.dst.nodes.length)).foldl (· + ·) 0
        let e := (ls.map (fun l => l.dst.edges.length)).foldl (· + ·) 0
        ({ st with loaded := some ls }, s!"ok g={ls.length} n={n} e={e}")
    | _, _ => (st, "bad-op")
  | ["loaded"] =>
    match st.dumps, st.loaded with
    | some ds, some ls => (st, showLoaded ds ls)
    | _, _ => (st, "none")
  | ["verify", batch] =>
    match batch.toNat?, st.dumps, st.loaded with
    | some _, some ds, some ls =>
      let outs := (ds.zip ls).map (fun (d, l) => verify d.manifest.metrics l.dst.nodes l.dst.edges)
      if outs.contains .error then (st, "err dangling-endpoint")
      else if outs.contains .mismatch then (st, "mismatch")
      else
        let n := (ls.map (fun l => l.dst.nodes.length)).foldl (· + ·) 0
        let e := (ls.map (fun l => l.dst.edges.length)).foldl (· + ·) 0
        (st, s!"ok n={n} e={e}")
    | _, _, _ => (st, "bad-op")
  | "mutate" :: g :: rest =>
    match st.dumps, st.loaded with
    | some ds, some ls =>
      let names := ds.map (·.manifest.name)
      match names.idxOf? g with
      | some gi =>
        match ls[gi]? with
        | some l =>
          match mutate l.dst rest with
          | some d' => ({ st with loaded := some (setAt ls gi (fun l => { l with dst := d' })) }, "ok")
          | none => (st, "bad-op")
        | none => (st, "bad-op")
      | none =>
        -- the harness creates an empty graph on demand; only `addnode` can succeed there
        (st, "bad-op")
    | _, _ => (st, "bad-op")
  | _ => (st, "bad-op")

def suite : Suite := { σ := St, init := {}, step := step }

end Driver.C18

def Driver.C18.suites : List (String × Driver.Suite) := [("c18", Driver.C18.suite)]
