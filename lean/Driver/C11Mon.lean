-- uses-generated
import Driver.Proto
import Driver.Sexp
import Driver.C11
/-! C11 monitor: judges the REAL code's answers (`<op> => <impl answer>` lines) with the spec of Spec/C11:

  * copy: the copy is equal, and mutating either side leaves the other unchanged (facts measured by the harness);
  * every walk log: Enter/Visit/Exit properly nested, Consume followed by the Exit of the same node, no event after
    SetDone/SetError, returned value agrees with the log (`judgeRun`, proved to accept every log of the model);
  * never-acting structural walk: per the SCHEMA (not the branch table) — a value without nil branches is walked to
    the end entering exactly the schema's nodes (+ operator leaves), each once; a value with a nil slice element
    makes it return the constructor's error. A typed-nil pointer inside an interface-typed field is neither
    "optional unset" nor clearly a "nil branch" (some constructors skip it via isNilNode, some report it): the
    monitor accepts both outcomes there (such values are outside the property's quantifier);
  * never-acting semantic walk enters a sub-multiset of what the structural walk enters.
-/
namespace Driver.C11Mon
open Dawgs.C11 Driver Driver.C11

def field (items : List Sexp) (name : String) : Option String :=
  items.findSome? (fun s => match s with
    | .atom a => if a.startsWith (name ++ "=") then some (a.drop (name.length + 1)).toString else none
    | _ => none)

def parseEv (s : String) : Option (Ev String) :=
  if s.startsWith "E:" then some (.enter (s.drop 2).toString)
  else if s.startsWith "V:" then some (.visit (s.drop 2).toString)
  else if s.startsWith "X:" then some (.exit (s.drop 2).toString)
  else none

def parseLog (s : String) : Option (List (Ev String)) :=
  if s == "-" then some [] else (s.splitOn ",").mapM parseEv

def parseRes : String → Option Result
  | "ok" => some .ok
  | "verr" => some .visitorError
  | "cerr" => some .cursorError
  | _ => none

structure Walk where
  sc : Script
  res : String
  log : List (Ev String)
  /-- the second walk of a sequence `A>B` (same visitor object) -/
  resB : String := ""
  logB : List (Ev String) := []

/-- `| W <script> <res> <log>` sections -/
partial def walksOf : List Sexp → Option (List Walk)
  | .atom "|" :: .atom "W" :: .atom sc :: .atom res :: .atom log :: rest => do
    let s ← parseScript sc
    let ws ← walksOf rest
    match res.splitOn ">", log.splitOn ">" with
    | [ra, rb], [la, lb] => do
      let la ← parseLog la
      let lb ← parseLog lb
      pure ({ sc := s, res := ra, log := la, resB := rb, logB := lb } :: ws)
    | _, _ => do
      let l ← parseLog log
      pure ({ sc := s, res := res, log := l } :: ws)
  | .atom "|" :: .atom "sexp=" :: _ => some []
  | .atom "|" :: .atom "tree=" :: _ => some []
  | [] => some []
  | _ => none

def sorted (xs : List String) : List String := (xs.toArray.qsort (· < ·)).toList

/-- multiset inclusion of sorted lists -/
partial def subMulti : List String → List String → Bool
  | [], _ => true
  | _ :: _, [] => false
  | a :: as, b :: bs => if a == b then subMulti as bs else if b < a then subMulti (a :: as) bs else false

/-- multiset difference of sorted lists -/
partial def diffMulti : List String → List String → List String
  | [], _ => []
  | as, [] => as
  | a :: as, b :: bs => if a == b then diffMulti as bs else if a < b then a :: diffMulti as (b :: bs) else diffMulti (a :: as) bs

/-- the schema's table with typed-nil pointers treated as unset optionals -/
def lenientTab : BranchTab :=
  (schemaTab T).map (fun o => o.map (fun es => es.map (fun e => match e.tgt with
    | .field _ => { e with nn := true }
    | _ => e)))

partial def namesOf : Tree Lbl → Tree String
  | .node l ks => .node l.name (ks.map namesOf)
  | .bad => .bad

/-- the log against the branch tree the walker ran on: no branch skipped, none entered twice, no Exit with branches
left unless the visitor consumed in the node's Enter/Visit (`judgeRunT`, proved to accept every log of the model
for every visitor, hence for every Consume schedule) -/
def judgeWalkT (tst tse : Tree String) (w : Walk) : Option String :=
  match parseRes w.res with
  | none => none
  | some r =>
    let vA := schedVisitor id w.sc.sel w.sc.act
    let first :=
      if w.sc.leaf then none    -- the bare leaf root: nesting is judged by `judgeWalk`
      else match judgeRunT vA (if w.sc.structural then tst else tse) w.log r with
        | some msg => some s!"walk-{msg} {w.sc.text}"
        | none => none
    match first, w.sc.next with
    | some m, _ => some m
    | none, none => none
    | none, some b =>
      -- walk B with the SAME visitor object: like a fresh visitor unless walk A was cancelled / failed
      -- (`reused_visitor_walk`, `reused_done_visitor_walks_nothing`)
      let tB := if b.structural then tst else tse
      let cancelled := match replay vA [] w.log Mon.init with
        | some m => m.stopped.isSome
        | none => true
      if cancelled then
        if !w.logB.isEmpty then some s!"walk-reused-done-visitor-got-callbacks {w.sc.text}"
        else if tB.good && w.resB != "ok" then some s!"walk-reused-done-visitor-result {w.sc.text}"
        else none
      else match parseRes w.resB with
        | none => some s!"walk-{w.resB} {w.sc.text}"
        | some rb =>
          let vB := schedVisitor id b.sel b.act
          match judgeRun vB w.logB rb with
          | some msg => some s!"walk-reused-visitor-{msg} {w.sc.text}"
          | none =>
            match judgeRunT vB tB w.logB rb with
            | some msg => some s!"walk-reused-visitor-{msg} {w.sc.text}"
            | none => none

def judgeWalk (w : Walk) : Option String :=
  match parseRes w.res with
  | none => some s!"walk-{w.res} {w.sc.text}"
  | some r =>
    match judgeRun (schedVisitor id w.sc.sel w.sc.act) w.log r with
    | some msg => some s!"walk-{msg} {w.sc.text}"
    | none => none

def judge (items : List Sexp) : String :=
  match items with
  | .atom "ok" :: rest =>
    let eq := (field rest "equal").getD "?"
    let indep := (field rest "indep").getD "?"
    let culprit := (field rest "culprit").getD "?"
    if eq == "0" then s!"reject copy-not-equal {culprit}"
    else if eq == "panic" then s!"reject copy-panic {culprit}"
    else if indep == "0" then s!"reject copy-aliasing {culprit}"
    else
      let tail := rest.dropWhile (fun s => match s with
        | .atom "|" => false
        | _ => true)
      match walksOf tail with
      | none => "reject bad-output walks"
      | some ws =>
        match ws.findSome? judgeWalk with
        | some msg => "reject " ++ msg
        | none =>
          -- schema-level expectations need the value
          let sx := (tail.dropWhile (fun s => match s with
            | .atom "sexp=" => false
            | _ => true)).drop 1
          match sx with
          | [] =>
            -- suite c11pg: the branch tree is given explicitly
            let tx := (tail.dropWhile (fun s => match s with
              | .atom "tree=" => false
              | _ => true)).drop 1
            match tx with
            | [tsx] =>
              match toTree tsx with
              | some t =>
                match ws.findSome? (judgeWalkT (namesOf t) (namesOf t)) with
                | some msg => "reject " ++ msg
                | none => "ok"
              | none => "reject bad-output tree"
            | _ => "ok"
          | [v] =>
            match (toVal v).run 1 with
            | .error e => "reject extractor-schema-mismatch " ++ e
            | .ok (val, _) =>
              match ws.findSome? (judgeWalkT (namesOf (treeOf T T.structural val)) (namesOf (treeOf T T.semantic val))) with
              | some msg => "reject " ++ msg
              | none =>
              let st := treeOf T (schemaTab T) val
              let want := sorted (st.labels.map (·.name))
              let nodesTok := (field rest "nodes").getD "?"
              let full := ws.find? (fun w => w.sc.structural && w.sc.text.endsWith ":0:n")
              let sem := ws.find? (fun w => !w.sc.structural && w.sc.text.endsWith ":0:n")
              match full with
              | none => "ok"
              | some w =>
                let lenient := treeOf T lenientTab val
                if st.good && w.res != "ok" then s!"reject structural-walk-fails-on-clean-value {w.res}"
                else if !lenient.good && w.res == "ok" then "reject nil-branch-skipped"
                else if !st.good then "ok"
                else if toString want.length != nodesTok then
                  s!"reject node-count schema={want.length} reflection={nodesTok}"
                else
                  let got := sorted ((enters w.log).filter (fun n => !T.scalarLeaves.contains n))
                  if got != want then
                    s!"reject structural-misses-node missing={(diffMulti want got).eraseDups} extra={(diffMulti got want).eraseDups} entered={got.length} schema={want.length}"
                  else match sem with
                    | some ws' =>
                      if ws'.res == "ok" && !subMulti (sorted (enters ws'.log)) (sorted (enters w.log)) then
                        "reject semantic-not-subset"
                      else "ok"
                    | none => "ok"
          | _ => "reject bad-output sexp"
  | [.atom "parse-error"] => "ok"
  | [.atom "xlate-error"] => "ok"
  | [.atom "walk0-cerr"] => "ok"      -- pgsql statement with a node type the pgsql cursor constructor does not handle
  | .atom "types" :: _ => "ok"
  | _ => "reject bad-output"

def step (_ : Unit) (ts : List String) : Unit × String :=
  match ts with
  | [line] =>
    match Sexp.parseLine line with
    | some items =>
      let after := (items.dropWhile (fun s => match s with
        | .atom "=>" => false
        | _ => true)).drop 1
      ((), judge after)
    | none => ((), "reject bad-line")
  | _ => ((), "reject bad-line")

def suite : Suite := { σ := Unit, init := (), step := step, raw := true }
end Driver.C11Mon

def Driver.C11Mon.suites : List (String × Driver.Suite) := [("c11mon", Driver.C11Mon.suite)]
