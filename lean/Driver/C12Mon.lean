import Driver.Proto
import Driver.C12
import Dawgs.Spec.C12
/-! Monitor for C12 (suite `c12mon`): judges the state the real implementation dumps after every operation with the
spec of Dawgs/Spec/C12.lean.  Input lines are `<op> => <ret> | <dump 0> | <dump 1>`; answers `ok` or
`reject <call site>:<class> e=<entity> <detail>`.  The monitor never looks at the model `B`: it knows the loaded state
(from the `load` line), the previous observation and the spec.  nil-ness of the Go maps is not part of C12 and is
ignored here (it is compared by the model tie). -/
namespace Driver.C12Mon
open Dawgs.C12 Driver.C12

structure Obs where
  m : KV := []
  mod : List Key := []
  del : List Key := []
  mp : KV := []
  dp : List Key := []
  kinds : List Kind := []
  added : List Kind := []
  removed : List Kind := []
deriving DecidableEq, Inhabited

structure MSt where
  L : KV := []
  LK : List Kind := []
  prev : Option (Obs × Obs) := none
  /-- ghost: is entity 0 / 1 still tracked relative to the loaded map (false after StripAllPropertiesExcept until a
  merge with an attached entity)? -/
  att : Bool × Bool := (true, true)
  /-- are the kind clauses judged? false once the case left the domain the kind theorems are stated for: duplicate
  loaded kinds, one kinds slice shared by both nodes (`shared`), or a foreign Kind implementation (`A!`).  The kind
  behaviour there is still compared with the heap model by the tie; the property clauses are stated under these guards
  (Props/C12Heap.lean proves them exact and shows what breaks without them). -/
  kj : Bool := true

def field (t : String) (name : String) : Option String :=
  if t.startsWith (name ++ "=") then some (t.drop (name.length + 1)).toString else none

def parseSet (s : String) : Option (List Nat) :=
  if s = "nil" ∨ s = "-" then some [] else (s.splitOn ",").mapM keyOf

def parseKindList (s : String) : Option (List Nat) :=
  if s = "-" then some [] else (s.splitOn ",").mapM kindOf

def parseObs (ts : List String) : Option Obs :=
  match ts with
  | [m, mod, del, mp, dp, k, a, r] => do
    let m ← (field m "M").bind parseMap
    let mod ← (field mod "mod").bind parseSet
    let del ← (field del "del").bind parseSet
    let mp ← (field mp "mp").bind parseMap
    let dp ← (field dp "dp").bind parseSet
    let k ← (field k "K").bind parseKindList
    let a ← (field a "add").bind parseKindList
    let r ← (field r "rem").bind parseKindList
    some { m := m.getD [], mod := mod, del := del, mp := mp.getD [], dp := dp, kinds := k, added := a, removed := r }
  | _ => none

def splitOnTok (sep : String) (ts : List String) : List (List String) :=
  let rec go (cur : List String) (acc : List (List String)) : List String → List (List String)
    | [] => (cur.reverse :: acc).reverse
    | t :: ts => if t = sep then go [] (cur.reverse :: acc) ts else go (t :: cur) acc ts
  go [] [] ts

def sameSet (a b : List Nat) : Bool := a.all (fun x => b.contains x) && b.all (fun x => a.contains x)

/-- invariants of one observed entity; `prev` is its previous observation (only used to name the class) -/
def judgeEnt (L : KV) (LK : List Kind) (site ksite : String) (e : Nat) (prev : Option Obs) (o : Obs) : Option String :=
  match propsViolation L o.m o.mod o.del with
  | some (.modifiedAndDeleted k) => some s!"{site}:modified-and-deleted e={e} key={keyStr k}"
  | some (.modifiedKeyAbsent k) => some s!"{site}:modified-key-absent e={e} key={keyStr k}"
  | some (.deletedKeyPresent k) =>
    let resurrected := match prev with
      | some p => p.del.contains k && (lookup p.m k).isNone
      | none => false
    let cls := if resurrected then "deleted-key-resurrected" else "deleted-key-present"
    some s!"{site}:{cls} e={e} key={keyStr k} (in Map and in Deleted: the driver would delete a live property)"
  | some (.untouchedKeyChanged k) => some s!"{site}:untouched-key-changed e={e} key={keyStr k}"
  | none =>
    if !(sameSet (keysOf o.mp) o.mod) || !(o.mp.all (fun p => (lookup o.m p.1).getD 0 == p.2)) then
      some s!"{site}:modified-properties-accessor-mismatch e={e}"
    else if !(sameSet o.dp o.del) then some s!"{site}:deleted-properties-accessor-mismatch e={e}"
    else if !(reproducesB L o.m o.mp o.dp) then some s!"{site}:delta-does-not-reproduce e={e}"
    else match kindsViolation LK o.kinds o.added o.removed with
      | some (.addedAndDeleted k) => some s!"{ksite}:added-and-deleted-kind e={e} kind={kindStr k}"
      | some (.addedKindAbsent k) => some s!"{ksite}:added-kind-absent e={e} kind={kindStr k}"
      | some (.deletedKindPresent k) =>
        let resurrected := match prev with
          | some p => p.removed.contains k && !p.kinds.contains k
          | none => false
        let cls := if resurrected then "deleted-kind-resurrected" else "deleted-kind-present"
        some s!"{ksite}:{cls} e={e} kind={kindStr k} (in Kinds and in DeletedKinds)"
      | some (.untouchedKindChanged k) => some s!"{ksite}:untouched-kind-changed e={e} kind={kindStr k}"
      | none =>
        if !(kReproducesB LK o.kinds o.added o.removed) then some s!"{ksite}:kind-delta-does-not-reproduce e={e}"
        else none

def propsPart (o : Obs) : Obs := { o with kinds := [], added := [], removed := [] }
def kindsPart (o : Obs) : Obs := { kinds := o.kinds, added := o.added, removed := o.removed }

def pick (p : Obs × Obs) (e : Bool) : Obs := if e then p.2 else p.1
def entNo (e : Bool) : Nat := if e then 1 else 0

/-- post-condition of the operation on the observed before/after states; `none` = satisfied -/
def judgeOp (L : KV) (LK : List Kind) (att : Bool × Bool) (kj : Bool) (op : List String) (ret : String) (before after : Obs × Obs) : Option String :=
  let frame (site : String) (e : Bool) : Option String :=
    if pick after (!e) != pick before (!e) then some s!"{site}:other-entity-changed e={entNo (!e)}" else none
  let kindsSame (site : String) (e : Bool) : Option String :=
    if kindsPart (pick after e) != kindsPart (pick before e) then some s!"{site}:kinds-changed-by-property-op e={entNo e}" else none
  let propsSame (site : String) (e : Bool) : Option String :=
    if propsPart (pick after e) != propsPart (pick before e) then some s!"{site}:properties-changed-by-kind-op e={entNo e}" else none
  let first (l : List (Option String)) : Option String := l.findSome? id
  match op with
  | ["set", e, k, v] => match entOf e, keyOf k, valOf v with
      | some e, some k, some v =>
        let b := pick before e; let a := pick after e
        first [ (setPost b.m a.m k v).map (fun k' => s!"Properties.Set:last-edit-lost e={entNo e} key={keyStr k'}"),
                if !(a.mod.contains k) || a.del.contains k then some s!"Properties.Set:set-not-tracked e={entNo e} key={keyStr k}" else none,
                kindsSame "Properties.Set" e, frame "Properties.Set" e ]
      | _, _, _ => some "bad-op"
  | ["setall", e, m] => match entOf e, parseMap m with
      | some e, some kvs =>
        let kvs := kvs.getD []
        let b := pick before e; let a := pick after e
        first [ (setAllPost b.m a.m kvs).map (fun k' => s!"Properties.SetAll:last-edit-lost e={entNo e} key={keyStr k'}"),
                if kvs.any (fun p => !(a.mod.contains p.1) || a.del.contains p.1) then some s!"Properties.SetAll:set-not-tracked e={entNo e}" else none,
                kindsSame "Properties.SetAll" e, frame "Properties.SetAll" e ]
      | _, _ => some "bad-op"
  | ["del", e, k] => match entOf e, keyOf k with
      | some e, some k =>
        let b := pick before e; let a := pick after e
        first [ (deletePost b.m a.m k).map (fun k' => s!"Properties.Delete:last-edit-lost e={entNo e} key={keyStr k'}"),
                if !(a.del.contains k) || a.mod.contains k then some s!"Properties.Delete:delete-not-tracked e={entNo e} key={keyStr k}" else none,
                kindsSame "Properties.Delete" e, frame "Properties.Delete" e ]
      | _, _ => some "bad-op"
  | ["get", e, k] => match entOf e, keyOf k with
      | some e, some k =>
        first [ if after != before then some "Properties.Get:read-changed-state" else none,
                if ret != s!"v{(lookup (pick after e).m k).getD 0}" then some s!"Properties.Get:read-wrong e={entNo e} key={keyStr k} got={ret}" else none ]
      | _, _ => some "bad-op"
  | ["gd", e, k, d] => match entOf e, keyOf k, valOf d with
      | some e, some k, some d =>
        first [ if after != before then some "Properties.GetOrDefault:read-changed-state" else none,
                if ret != s!"v{orDefault (lookup (pick after e).m k) d}" then some s!"Properties.GetOrDefault:read-wrong e={entNo e} key={keyStr k} got={ret}" else none ]
      | _, _, _ => some "bad-op"
  | ["ex", e, k] => match entOf e, keyOf k with
      | some e, some k =>
        first [ if after != before then some "Properties.Exists:read-changed-state" else none,
                if ret != (if (lookup (pick after e).m k).isSome then "t" else "f") then some s!"Properties.Exists:read-wrong e={entNo e} key={keyStr k} got={ret}" else none ]
      | _, _ => some "bad-op"
  | ["len", e] => match entOf e with
      | some e =>
        first [ if after != before then some "Properties.Len:read-changed-state" else none,
                if ret != s!"n{(pick after e).m.length}" then some s!"Properties.Len:read-wrong e={entNo e} got={ret}" else none ]
      | none => some "bad-op"
  | ["gf", e, k, d, fb] => match entOf e, keyOf k, valOf d, (fb.splitOn ",").mapM keyOf with
      | some e, some k, some d, some fb =>
        let m := (pick after e).m
        let want := match lookup m k with
          | some v => if v = 0 then d else v
          | none => (firstFallback m fb).getD d
        first [ if after != before then some "Properties.GetWithFallback:read-changed-state" else none,
                if ret != s!"v{want}" then some s!"Properties.GetWithFallback:read-wrong e={entNo e} key={keyStr k} got={ret}" else none ]
      | _, _, _, _ => some "bad-op"
  | ["keys", e] => match entOf e with
      | some e =>
        first [ if after != before then some "Properties.Keys:read-changed-state" else none,
                if ret != "k" ++ commaOr "-" ((sortNat (keysOf (pick after e).m)).map keyStr) then
                  some s!"Properties.Keys:read-wrong e={entNo e} got={ret}" else none ]
      | none => some "bad-op"
  -- consumers: what the pg batch node-update builders sent for entity e, applied to the loaded state the way the
  -- update statement does (stored kinds/properties united with the sent ones, minus the sent deletions), must give
  -- the entity's current state
  | ["drv", e] => match entOf e with
      | some e =>
        let cur := pick after e
        if after != before then some "pg.NodeUpdateParameters:read-changed-state"
        else match ret.splitOn " " with
          | ["u", k, dk, pr, dp] =>
            match (field k "kinds").bind parseKindList, (field dk "dkinds").bind parseKindList,
                  (field pr "props").bind parseMap, (field dp "dprops").bind parseSet with
            | some k, some dk, some pr, some dp =>
              let attached := if e then att.2 else att.1
              -- a detached entity (after StripAllPropertiesExcept) updates exactly the keys it carries
              let partialOk := (keysOf L ++ keysOf cur.m ++ keysOf (pr.getD []) ++ dp).all (fun k =>
                lookup (applyDelta L (pr.getD []) dp) k ==
                  (if cur.mod.contains k || cur.del.contains k then lookup cur.m k else lookup L k))
              if !(if attached then reproducesB L cur.m (pr.getD []) dp else partialOk) then
                some s!"pg.NodeUpdateParameters:sent-properties-do-not-reproduce e={entNo e}"
              else if kj && !(kReproducesB LK cur.kinds k dk) then
                some s!"pg.NodeUpdateParameters:sent-kinds-do-not-reproduce e={entNo e}"
              else none
            | _, _, _, _ => some ("pg.NodeUpdateParameters:bad-output " ++ ret)
          | "builders-disagree" :: _ => some ("pg.LargeNodeUpdateRows:builders-disagree " ++ ret)
          | _ => some ("pg.NodeUpdateParameters:bad-output " ++ ret)
      | none => some "bad-op"
  -- encoding/json round trip: nothing the tracking reports may change
  | ["json", e] => match entOf e with
      | some _ => if after != before then some "encoding/json:round-trip-changed-state" else none
      | none => some "bad-op"
  | ["hold", e] => match entOf e with
      | some _ => if after != before then some "hold:read-changed-state" else none
      | none => some "bad-op"
  -- concurrent calls of graph.StringKind for one new name must all return the same handle
  | ["internscale", _] =>
      if ret != "interned" then some "graph.StringKind:interning-not-a-function-at-scale (a kind name first seen after many distinct names gets a new handle on every call)"
      else if after != before then some "graph.StringKind:read-changed-state" else none
  | ["intern", _, _] =>
      if ret != "interned" then some "graph.StringKind:interning-not-a-function (two handles for one kind name: Kinds.Remove compares handles, Kinds.Add compares names)"
      else if after != before then some "graph.StringKind:read-changed-state" else none
  -- kind operation outside the guarded domain: only its effect on properties and on the other entity is judged
  | ["kop", e] => match entOf e with
      | some e => first [ propsSame "Node.kinds-op" e, frame "Node.kinds-op" e ]
      | none => some "bad-op"
  -- StripAllPropertiesExcept(ks): kept keys keep value and deletion, every other key is absent and untracked
  | ["strip", e, ks] => match entOf e, (if ks = "-" then some [] else (ks.splitOn ",").mapM keyOf) with
      | some e, some ks =>
        let b := pick before e; let a := pick after e
        let keys := keysOf b.m ++ keysOf a.m ++ b.del ++ a.del ++ a.mod ++ ks
        let bad := keys.find? (fun k =>
          let want : Option Val × Bool × Bool :=
            if ks.contains k then
              (if b.del.contains k then (none, false, true)
               else match lookup b.m k with
                 | some v => (some v, true, false)
                 | none => (none, false, false))
            else (none, false, false)
          (lookup a.m k, a.mod.contains k, a.del.contains k) != want)
        first [ bad.map (fun k' => s!"Node.StripAllPropertiesExcept:strip-result-wrong e={entNo e} key={keyStr k'}"),
                kindsSame "Node.StripAllPropertiesExcept" e, frame "Node.StripAllPropertiesExcept" e ]
      | _, _ => some "bad-op"
  | ["rmerge", e, f] => match entOf e, entOf f with
      | some e, some f =>
        let b := pick before e; let a := pick after e; let o := pick before f
        first [ (mergePost b.m a.m o.m o.del).map (fun k' => s!"Relationship.Merge:merge-result-wrong e={entNo e} key={keyStr k'}"),
                kindsSame "Relationship.Merge" e,
                if e != f then frame "Relationship.Merge" e else none ]
      | _, _ => some "bad-op"
  | ["clone", e, f] => match entOf e, entOf f with
      | some e, some f =>
        first [ if propsPart (pick after f) != propsPart (pick before e) then some s!"Properties.Clone:clone-differs e={entNo f}" else none,
                kindsSame "Properties.Clone" f,
                if e != f then frame "Properties.Clone" f else none ]
      | _, _ => some "bad-op"
  | ["pmerge", e, f] => match entOf e, entOf f with
      | some e, some f =>
        let b := pick before e; let a := pick after e; let o := pick before f
        first [ (mergePost b.m a.m o.m o.del).map (fun k' => s!"Properties.Merge:merge-result-wrong e={entNo e} key={keyStr k'}"),
                kindsSame "Properties.Merge" e,
                if e != f then frame "Properties.Merge" e else none ]
      | _, _ => some "bad-op"
  | ["merge", e, f] => match entOf e, entOf f with
      | some e, some f =>
        let b := pick before e; let a := pick after e; let o := pick before f
        first [ (mergePost b.m a.m o.m o.del).map (fun k' => s!"Properties.Merge:merge-result-wrong e={entNo e} key={keyStr k'}"),
                (kMergePost b.kinds a.kinds o.kinds o.removed).map (fun k' => s!"Node.Merge:merge-result-wrong e={entNo e} kind={kindStr k'}"),
                if e != f then frame "Node.Merge" e else none ]
      | _, _ => some "bad-op"
  | ["addk", e, ks] => match entOf e, parseKinds ks true with
      | some e, some ks =>
        let ks := allSome ks
        let b := pick before e; let a := pick after e
        first [ (addKindsPost b.kinds a.kinds ks).map (fun k' => s!"Node.AddKinds:last-edit-lost e={entNo e} kind={kindStr k'}"),
                if ks.any (fun k => !(a.added.contains k) || a.removed.contains k) then some s!"Node.AddKinds:add-not-tracked e={entNo e}" else none,
                propsSame "Node.AddKinds" e, frame "Node.AddKinds" e ]
      | _, _ => some "bad-op"
  | ["delk", e, ks] => match entOf e, parseKinds ks false with
      | some e, some ks =>
        let ks := allSome ks
        let b := pick before e; let a := pick after e
        first [ (deleteKindsPost b.kinds a.kinds ks).map (fun k' => s!"Node.DeleteKinds:last-edit-lost e={entNo e} kind={kindStr k'}"),
                if ks.any (fun k => !(a.removed.contains k) || a.added.contains k) then some s!"Node.DeleteKinds:delete-not-tracked e={entNo e}" else none,
                propsSame "Node.DeleteKinds" e, frame "Node.DeleteKinds" e ]
      | _, _ => some "bad-op"
  | _ => some "bad-op"

/-- call sites the invariant classes are attributed to: (properties site, kinds site) -/
def sites (verb : String) : String × String :=
  if verb = "set" then ("Properties.Set", "Properties.Set")
  else if verb = "setall" then ("Properties.SetAll", "Properties.SetAll")
  else if verb = "del" then ("Properties.Delete", "Properties.Delete")
  else if verb = "clone" then ("Properties.Clone", "Properties.Clone")
  else if verb = "pmerge" then ("Properties.Merge", "Properties.Merge")
  else if verb = "merge" then ("Properties.Merge", "Node.Merge")
  else if verb = "rmerge" then ("Relationship.Merge", "Relationship.Merge")
  else if verb = "json" then ("encoding/json", "encoding/json")
  else if verb = "strip" then ("Node.StripAllPropertiesExcept", "Node.StripAllPropertiesExcept")
  else if verb = "addk" then ("Node.AddKinds", "Node.AddKinds")
  else if verb = "delk" then ("Node.DeleteKinds", "Node.DeleteKinds")
  else if verb = "load" then ("load", "load")
  else ("Properties.read", "Properties.read")

def judgeBoth (st : MSt) (verb : String) (before : Option (Obs × Obs)) (after : Obs × Obs) : Option String :=
  let (site, ksite) := sites verb
  match judgeEnt (if st.att.1 then st.L else []) st.LK site ksite 0 (before.map (·.1)) after.1 with
  | some m => some m
  | none => judgeEnt (if st.att.2 then st.L else []) st.LK site ksite 1 (before.map (·.2)) after.2

/-- the ghost flags after an operation (Spec: `Ent.attached`) -/
def attAfter (att : Bool × Bool) (op : List String) : Bool × Bool :=
  let get (e : Bool) := if e then att.2 else att.1
  let set (e : Bool) (v : Bool) : Bool × Bool := if e then (att.1, v) else (v, att.2)
  match op with
  | ["strip", e, _] => match entOf e with | some e => set e false | none => att
  | ["clone", e, f] => match entOf e, entOf f with | some e, some f => set f (get e) | _, _ => att
  | [verb, e, f] =>
    if verb = "pmerge" ∨ verb = "merge" ∨ verb = "rmerge" then
      match entOf e, entOf f with | some e, some f => set e (get e || get f) | _, _ => att
    else att
  | _ => att

def step (st : MSt) (ts : List String) : MSt × String :=
  let op := ts.takeWhile (· ≠ "=>")
  let out := (ts.dropWhile (· ≠ "=>")).drop 1
  match op, out with
  | ["mode", _], ["ok"] => (st, "ok")
  | _, ["skipped"] => (st, "ok")
  | _, "panic" :: _ => (st, "ok")       -- panics are reported by the flow itself
  | _, _ =>
    let segs := splitOnTok "|" out
    -- a fourth segment `H=…` (headers a caller kept) is compared by the tie, not judged here
    let segs := if segs.length == 4 then segs.take 3 else segs
    -- foreign Kind implementations leave the guarded domain
    let st := if op.any (fun t => t.contains '!') then { st with kj := false } else st
    match segs with
    | [retToks, d0, d1] =>
      let ret := " ".intercalate retToks
      match parseObs d0, parseObs d1 with
      | some o0', some o1' =>
        let dupLoad := match op with
          | "load" :: _ :: ks :: rest =>
            (match parseKinds ks false with
             | some ks => (allSome ks).eraseDups.length != (allSome ks).length
             | none => false) || rest.getD 1 "node" == "shared"
          | _ => false
        let kj := match op with
          | "load" :: _ => !dupLoad && !(op.any (fun t => t.contains '!'))   -- every case starts with its own load
          | _ => st.kj
        let blank (o : Obs) : Obs := if kj then o else { o with kinds := [], added := [], removed := [] }
        let o0 := blank o0'; let o1 := blank o1'
        let after := (o0, o1)
        let op := match op with
          | ["addlate", e] => ["addk", e, "Z"]
          | ["dellate", e] => ["delk", e, "Z"]
          | _ => op
        let op := if kj then op else match op with
          | ["addk", e, _] => ["kop", e]
          | ["delk", e, _] => ["kop", e]
          | ["merge", e, f] => ["pmerge", e, f]
          | _ => op
        match op with
        | "load" :: m :: ks :: ctor =>
          match parseMap m, parseKinds ks false with
          | some m, some ks =>
            let st' : MSt := { L := m.getD [], LK := if kj then allSome ks else [], prev := some after, kj := kj }
            let want : Obs := { m := m.getD [], kinds := if kj then allSome ks else [] }
            let site := "load." ++ (ctor.headD "as")
            if o0 != want || o1 != want then (st', s!"reject {site}:constructor-state-differs (a constructor must yield the given store and an empty delta)")
            else match judgeBoth st' "load" none after with
              | some msg => (st', "reject " ++ msg)
              | none => (st', "ok")
          | _, _ => (st, "reject bad-op")
        | verb :: _ =>
          match st.prev with
          | none => (st, "reject bad-op no-load")
          | some before =>
            let before := if kj then before else ({ before.1 with kinds := [], added := [], removed := [] },
                                                  { before.2 with kinds := [], added := [], removed := [] })
            let st' := { st with prev := some after, att := attAfter st.att op, kj := kj,
                                 LK := if kj then st.LK else [] }
            match judgeOp st.L st'.LK st.att kj op ret before after with
            | some msg => (st', "reject " ++ msg)
            | none =>
              match judgeBoth st' verb (some before) after with
              | some msg => (st', "reject " ++ msg)
              | none => (st', "ok")
        | [] => (st, "reject bad-op")
      | _, _ => (st, "reject bad-output " ++ " ".intercalate out)
    | _ => (st, "reject bad-output " ++ " ".intercalate out)

def suite : Suite := { σ := MSt, init := {}, step := step }
end Driver.C12Mon

def Driver.C12Mon.suites : List (String × Driver.Suite) := [("c12mon", Driver.C12Mon.suite)]
