import Driver.Proto
import Driver.Sexp
import Dawgs.Model.C05
/-! C05 model driver, suite `walkc05`: runs the Lean model of walk.Generic (Model/C05.lean) on a tree with a scripted
visitor and prints result and callback log in the format of harness/c05walk.go.

Op: `w <tree> <script> <bad>`, tree = `(label_kid_…)` with `_` for spaces. -/
namespace Driver.C05
open Dawgs.C05 Driver

partial def toForestNode : Sexp → Option (Nat × Forest)
  | .list (.atom l :: kids) => do
    let l ← l.toNat?
    let ks ← kids.mapM toForestNode
    pure (l, ks.foldr (fun (p : Nat × Forest) acc => Forest.cons p.1 p.2 acc) Forest.nil)
  | _ => none

/-- script: callback index ↦ actions -/
abbrev Script := List (Nat × String)

def applyAction (h : H) (a : String) : H :=
  if a == "c" then { h with consumed := true }
  else if a == "d" then { h with done := true }
  else if a.startsWith "e" then
    -- SetError: keep the first error (errors.Join keeps both; only the first line is observed), done := true
    { h with err := (match h.err with | some e => some e | none => some (a.drop 1).toString.toNat!), done := true }
  else h

def scripted (sc : Script) : Visitor Nat :=
  let cb := fun (s : Nat × H) (_ : Nat) =>
    (s.1 + 1, (sc.filter (fun p => p.1 == s.1)).foldl (fun h p => applyAction h p.2) s.2)
  { enter := cb, visit := cb, exit := cb }

def evName : Ev → String
  | .enter => "E" | .visit => "V" | .exit => "X"

def parseScript (s : String) : Option Script :=
  if s == "-" then some [] else
  (s.splitOn ",").mapM (fun item => match item.splitOn ":" with
    | [i, a] => i.toNat?.map (fun i => (i, a))
    | _ => none)

def step (_ : Unit) (ts : List String) : Unit × String :=
  match ts with
  | ["w", tree, script, bad] =>
    match Sexp.parse (tree.replace "_" " "), parseScript script with
    | some sx, some sc =>
      match toForestNode sx with
      | some (l, kids) =>
        let badL : List Nat := if bad == "-" then [] else (bad.splitOn ",").filterMap String.toNat?
        let r := generic (scripted sc) (fun x => badL.contains x) l kids 0
        let res := match r.1 with
          | .ok => "ok" | .err e => s!"err{e}" | .consErr => "conserr" | .outOfFuel => "out-of-fuel"
        ((), s!"res={res} log={",".intercalate (r.2.log.reverse.map (fun e => evName e.ev ++ toString e.label))}")
      | none => ((), "bad-op")
    | _, _ => ((), "bad-op")
  | _ => ((), "bad-op")

def suite : Suite := { σ := Unit, init := (), step := step }
end Driver.C05

def Driver.C05.suites : List (String × Driver.Suite) := [("walkc05", Driver.C05.suite)]
