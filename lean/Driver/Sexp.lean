/-
S-expression reader shared by the AST/tree suites (core Lean only).
Syntax: ( ... ) lists, "json-quoted strings", bare atoms (no whitespace, parens or quotes).
-/
namespace Driver

inductive Sexp where
  | atom (s : String)
  | str (s : String)
  | list (xs : List Sexp)
deriving Repr, Inhabited

namespace Sexp

private def hexVal (c : Char) : Nat :=
  if '0' ≤ c && c ≤ '9' then c.toNat - '0'.toNat
  else if 'a' ≤ c && c ≤ 'f' then c.toNat - 'a'.toNat + 10
  else if 'A' ≤ c && c ≤ 'F' then c.toNat - 'A'.toNat + 10
  else 0

/-- reads a JSON string body after the opening quote; returns the decoded string and the rest -/
partial def readStr (cs : List Char) (acc : Array Char) : Option (String × List Char) :=
  match cs with
  | [] => none
  | '"' :: rest => some (String.ofList acc.toList, rest)
  | '\\' :: c :: rest =>
    match c with
    | 'n' => readStr rest (acc.push '\n')
    | 't' => readStr rest (acc.push '\t')
    | 'r' => readStr rest (acc.push '\r')
    | 'b' => readStr rest (acc.push '\x08')
    | 'f' => readStr rest (acc.push '\x0c')
    | 'u' =>
      match rest with
      | a :: b :: c' :: d :: rest' =>
        let v := ((hexVal a * 16 + hexVal b) * 16 + hexVal c') * 16 + hexVal d
        -- surrogate pairs
        if 0xD800 ≤ v && v < 0xDC00 then
          match rest' with
          | '\\' :: 'u' :: e :: f :: g :: h :: rest'' =>
            let w := ((hexVal e * 16 + hexVal f) * 16 + hexVal g) * 16 + hexVal h
            let cp := 0x10000 + (v - 0xD800) * 0x400 + (w - 0xDC00)
            readStr rest'' (acc.push (Char.ofNat cp))
          | _ => readStr rest' (acc.push (Char.ofNat 0xFFFD))
        else readStr rest' (acc.push (Char.ofNat v))
      | _ => none
    | other => readStr rest (acc.push other)
  | c :: rest => readStr rest (acc.push c)

partial def readAtom (cs : List Char) (acc : Array Char) : String × List Char :=
  match cs with
  | [] => (String.ofList acc.toList, [])
  | c :: rest =>
    if c == ' ' || c == '(' || c == ')' || c == '"' || c == '\n' || c == '\t' then (String.ofList acc.toList, cs)
    else readAtom rest (acc.push c)

mutual
partial def readOne (cs : List Char) : Option (Sexp × List Char) :=
  match cs with
  | [] => none
  | ' ' :: rest => readOne rest
  | '\t' :: rest => readOne rest
  | '\n' :: rest => readOne rest
  | '(' :: rest => readList rest #[]
  | ')' :: _ => none
  | '"' :: rest => (readStr rest #[]).map (fun (s, r) => (.str s, r))
  | _ => let (a, r) := readAtom cs #[]; some (.atom a, r)
partial def readList (cs : List Char) (acc : Array Sexp) : Option (Sexp × List Char) :=
  match cs with
  | [] => none
  | ' ' :: rest => readList rest acc
  | '\t' :: rest => readList rest acc
  | '\n' :: rest => readList rest acc
  | ')' :: rest => some (.list acc.toList, rest)
  | _ => match readOne cs with
    | some (x, rest) => readList rest (acc.push x)
    | none => none
end

def parse (s : String) : Option Sexp := (readOne s.toList).map (·.1)

/-- all top-level items of a line, e.g. `tag (..) "str" atom` -/
partial def parseAll (cs : List Char) (acc : Array Sexp) : Option (List Sexp) :=
  match cs with
  | [] => some acc.toList
  | ' ' :: rest => parseAll rest acc
  | '\n' :: rest => parseAll rest acc
  | '\r' :: rest => parseAll rest acc
  | '\t' :: rest => parseAll rest acc
  | _ => match readOne cs with
    | some (x, rest) => parseAll rest (acc.push x)
    | none => none

def parseLine (s : String) : Option (List Sexp) := parseAll s.toList #[]

end Sexp
end Driver
