import Driver.Proto
import Dawgs.Model.C13
import Dawgs.Model.C13Lts
/-! Model driver for C13 (suite `c13`). Op lines — see harness/c13.go for the implementation side.

  reset                              -> ok          (first line of every case: forget all providers, default mode)
  new <x> b32|b64|ts32|ts64          -> ok
  mode fixed|current                 -> ok          (which And/AndNot fallback the model runs)
  mode snapshot|nosnapshot           -> ok          (wrapper protocol: snapshot-then-lock, or lock.go before C13-fix2)
  add <x> v…  | addrange <x> lo n step | remove <x> v | clear <x>     -> ok <card> <rle>
  cadd <x> v                         -> true|false <card> <rle>
  contains <x> v -> true|false      card <x> -> n      slice <x> -> <card> <rle>      each <x> k -> [v,…]
  or|and|andnot|xor <x> <y>          -> ok <card x> <rle x> | <card y> <rle y>
  nd or|and|andnot|xor <x>           -> ok <card> <rle>     (operand: a Provider that is not a Duplex)
  clone <new> <x>                    -> ok <card> <rle>
  abba and|or <a> <b> <iters>        -> deadlock | ok <card a> <rle a> | <card b> <rle b>
                                        (a.op(b) ∥ b.op(a), barrier started, iters times; And/Or: the result does not depend on the schedule)
  pairs <x> <o> <lo> <n>             -> ok torn=<k> <card x> <rle x> | <card o> <rle o>
                                        (one goroutine adds the pairs lo+2k, lo+2k+1 to wrapper o, one Add call per pair, while another
                                         keeps merging x.Or(o); torn = merges after which x held exactly one element of a pair)
  conc <x> t0-ops / t1-ops / …       -> ok <card> <rle> cadd=<n>   (one goroutine per op list; order-independent mixes)
  comm <v> or:<a>,<b> … and:<c>,… …   -> true|false   (commutative.go: CommutativeDuplexes{or…, and…}.Contains(v))
  eachcall <x> <k> remove|cadd|add|contains <y>  -> ok <card x> <rle x> | <card y> <rle y>   (delegate of x.Each calls y.M(v); y ≠ x)
  toids <x>                          -> <card> <rle>          (graph.DuplexToGraphIDs, quiescent)
  toidsrace <x> <lo> <n>             -> ok bad=<k> <card> <rle>   (conversions while a writer slides a window over wrapper x)
  caddrace <x> <lo> <n> <g>          -> ok trues=<k> <card> <rle>  (g goroutines CheckedAdd the same n values)
  kindor <x> <y>                     -> <card> <rle> | <obs x> | <obs y>   (graph.KindBitmaps.AddDuplexToKind / ThreadSafeKindBitmap.Or)
  opprivate <a> <b> <v>              -> true|false <card b> <rle b>   (b.Add(v); is the operand object a's inner provider got for its last
                                        binary operation with wrapper b unaffected, i.e. was it a private snapshot?)
  fillrace <op> <a> <b> <base> <m> <rounds>  -> ok bad=<k> <obs a> | <obs b>   (b empty when a.op(b) starts, filled meanwhile; every round must
                                        yield op(a0, prefix of the fill sequence); a0 and an empty b are restored)
Any call that can never return (blocked in a mutex) answers `deadlock`.
Sets are printed run-length encoded: `[0-4999,65536,70000-70010]`. -/
namespace Driver.C13
open Dawgs.C13

/-- canonical run-length rendering of an ascending list (tail recursive) -/
def rleItems : List Nat → Option (Nat × Nat) → Array String → Array String
  | [], none, acc => acc
  | [], some (lo, hi), acc => acc.push (if lo == hi then toString lo else s!"{lo}-{hi}")
  | x :: t, none, acc => rleItems t (some (x, x)) acc
  | x :: t, some (lo, hi), acc =>
    if x == hi + 1 then rleItems t (some (lo, x)) acc
    else rleItems t (some (x, x)) (acc.push (if lo == hi then toString lo else s!"{lo}-{hi}"))

def rle (s : S) : String := "[" ++ ",".intercalate (rleItems s none #[]).toList ++ "]"

def obs (s : S) : String := s!"{s.length} {rle s}"

structure St where
  fixed : Bool := liveFixed
  snap : Bool := liveSnapshot
  /-- for a receiver: name and content (at that moment) of the wrapper operand of its last binary operation -/
  lastOperand : List (String × String × S) := []
  /-- the implementation panicked in this case: the harness answers `skipped` until the next `reset` -/
  dead : Bool := false
  provs : List (String × Prov) := []

def St.get (st : St) (x : String) : Option Prov := st.provs.lookup x

def St.put (st : St) (x : String) (p : Prov) : St :=
  { st with provs := if (st.provs.lookup x).isSome
      then st.provs.map (fun q => if q.1 == x then (x, p) else q) else st.provs ++ [(x, p)] }

def parseKind : String → Option (Width × Bool)
  | "b32" => some (.w32, false)
  | "b64" => some (.w64, false)
  | "ts32" => some (.w32, true)
  | "ts64" => some (.w64, true)
  -- a thread-safe wrapper around a harness provider that records the operand object it is handed (same model)
  | "spy32" => some (.w32, true)
  | "spy64" => some (.w64, true)
  | _ => none

def parseOp : String → Option BinOp
  | "or" => some .or
  | "and" => some .and
  | "andnot" => some .andNot
  | "xor" => some .xor
  | _ => none

def limit : Width → Nat
  | .w32 => chunk32
  | .w64 => chunk32 * chunk32

def refresh (p : Prov) : Prov := { p with everFull := p.everFull || hasFullChunk p.width p.set }

/-- mutate `x` with `f`, answer `ok <obs>` -/
def mutate (st : St) (x : String) (f : S → S) : St × String :=
  match st.get x with
  | none => (st, "bad-op")
  | some p => match p.update f with
    | (p', .ok) => (st.put x (refresh p'), "ok " ++ obs p'.set)
    | (_, .deadlock) => (st, "deadlock")

/-- `a.op(b) ∥ b.op(a)` on two wrappers in the lock LTS: is a deadlocked state reachable? (bounded DFS over all
schedules; the two bodies have at most 2·(6+2·2) steps) -/
def deadlockReachable (n : Nat) : Nat → Lts.State Unit Unit → Bool
  | 0, _ => false
  | fuel+1, s =>
    Lts.deadlocked n s || (List.range n).any (fun t => match Lts.step s t with
      | some s' => deadlockReachable n fuel s'
      | none => false)

def abbaDeadlocks (snap : Bool) (op : BinOp) (a b : S) : Bool :=
  let rounds (r : S) : Nat := if callsOperand op r then min r.length 2 |>.max 1 else 0
  deadlockReachable 2 40 (Lts.unitInit (Lts.abbaProgs snap (rounds a) (rounds b)))

/-- one thread-op token of `conc`; returns the new set and the number of `true` CheckedAdd answers -/
def concTok (lookup : String → Option Prov) (self : String) (w : Width) (fixed snap : Bool) (s : S) (tok : String) : Option (S × Nat) :=
  match tok.splitOn ":" with
  | ["add", vs] => (vs.splitOn ",").mapM String.toNat? |>.map (fun vs => (addMany s vs, 0))
  | ["cadd", v] => v.toNat?.map (fun v => (ins v s, if has s v then 0 else 1))
  | ["remove", v] => v.toNat?.map (fun v => (del v s, 0))
  | ["has", v] => v.toNat?.map (fun _ => (s, 0))
  | ["card"] => some (s, 0)
  | ["each"] => some (s, 0)
  | ["slice"] => some (s, 0)
  | [o, y] => match parseOp o, lookup y with
    | some op, some q =>
      if q.width != w || y == self || (q.wrapped && q.locked) then none else
      (bitmapBinop fixed w op s (if q.wrapped && !snap then .wrapper q.locked q.set else .bitmap q.set)).map (fun s' => (s', 0))
    | _, _ => none
  | _ => none

def concRun (lookup : String → Option Prov) (self : String) (w : Width) (fixed snap : Bool) (s : S) (toks : List String) : Option (S × Nat) :=
  toks.foldlM (fun (acc : S × Nat) tok =>
    if tok == "/" then some acc else (concTok lookup self w fixed snap acc.1 tok).map (fun r => (r.1, acc.2 + r.2))) (s, 0)

/-- `or:a,b` / `and:c` groups of a `comm` line, resolved to sets -/
def commGroups (lookup : String → Option S) (toks : List String) : Option (List (List S) × List (List S)) :=
  toks.foldlM (fun (acc : List (List S) × List (List S)) tok =>
    match tok.splitOn ":" with
    | [k, names] =>
      match (names.splitOn ",").mapM lookup with
      | some sets => if k == "or" then some (acc.1 ++ [sets], acc.2) else if k == "and" then some (acc.1, acc.2 ++ [sets]) else none
      | none => none
    | _ => none) ([], [])

/-- outside the exactly characterised domain (run containers): iterate-while-remove over a receiver, or the native
in-place Xor, when a chunk has ever been completely full -/
def unmodelled (fixed snap : Bool) (p : Prov) (op : BinOp) (o : Operand) (operandEverFull : Bool) : Bool :=
  (!fixed && p.everFull && (op == .and || op == .andNot) && p.pathFor snap o == .fallback) ||
  (op == .xor && p.pathFor snap o == .native && (p.everFull || operandEverFull))

def step (st : St) (ts : List String) : St × String :=
  if st.dead && ts != ["reset"] then (st, "skipped") else
  match ts with
  | ["reset"] => ({}, "ok")
  | ["mode", "fixed"] => ({ st with fixed := true }, "ok")
  | ["mode", "current"] => ({ st with fixed := false }, "ok")
  | ["mode", "snapshot"] => ({ st with snap := true }, "ok")
  | ["mode", "nosnapshot"] => ({ st with snap := false }, "ok")
  | ["new", x, k] => match parseKind k with
    | some (w, wr) => (st.put x { width := w, wrapped := wr }, "ok")
    | none => (st, "bad-op")
  | "add" :: x :: vs => match parseNats vs, st.get x with
    | some vs, some p => if vs.all (· < limit p.width) then mutate st x (fun s => addMany s vs) else (st, "bad-op")
    | _, _ => (st, "bad-op")
  | ["addrange", x, lo, n, step] => match lo.toNat?, n.toNat?, step.toNat?, st.get x with
    | some lo, some n, some step, some p =>
      if step ≥ 1 && lo + n * step < limit p.width then mutate st x (fun s => union s (rangeList lo step n)) else (st, "bad-op")
    | _, _, _, _ => (st, "bad-op")
  | ["remove", x, v] => match v.toNat? with
    | some v => mutate st x (del v)
    | none => (st, "bad-op")
  | ["clear", x] => mutate st x (fun _ => [])
  | ["cadd", x, v] => match v.toNat?, st.get x with
    | some v, some p =>
      if v < limit p.width then
        match p.checkedAdd v with
        | (p', some b) => (st.put x (refresh p'), s!"{b} " ++ obs p'.set)
        | (_, none) => (st, "deadlock")
      else (st, "bad-op")
    | _, _ => (st, "bad-op")
  | ["contains", x, v] => match v.toNat?, st.get x with
    | some v, some p => match p.guard (fun s => has s v) with
      | some b => (st, toString b)
      | none => (st, "deadlock")
    | _, _ => (st, "bad-op")
  | ["card", x] => match st.get x with
    | some p => match p.guard List.length with
      | some n => (st, toString n)
      | none => (st, "deadlock")
    | none => (st, "bad-op")
  | ["slice", x] => match st.get x with
    | some p => match p.guard obs with
      | some o => (st, o)
      | none => (st, "deadlock")
    | none => (st, "bad-op")
  | ["each", x, k] => match k.toNat?, st.get x with
    | some k, some p => match p.guard (fun s => eachPrefix s k) with
      | some vs => (st, natList vs)
      | none => (st, "deadlock")
    | _, _ => (st, "bad-op")
  | ["clone", y, x] => match st.get x, st.get y with
    | some p, none => match p.clone with
      | some q => (st.put y q, "ok " ++ obs q.set)
      | none => (st, "deadlock")
    | _, _ => (st, "bad-op")
  | ["abba", o, x, y, _] => match parseOp o, st.get x, st.get y with
    | some op, some p, some q =>
      if x == y || p.width != q.width || !p.wrapped || !q.wrapped || p.locked || q.locked || !(op == .and || op == .or) then (st, "bad-op")
      else if abbaDeadlocks st.snap op p.set q.set then
        ((st.put x { p with locked := true }).put y { q with locked := true }, "deadlock")
      else
        let r := nativeOp op p.set q.set
        ((st.put x (refresh { p with set := r })).put y (refresh { q with set := r }), s!"ok {obs r} | {obs r}")
    | _, _, _ => (st, "bad-op")
  | ["pairs", x, y, lo, n] => match st.get x, st.get y, lo.toNat?, n.toNat? with
    | some p, some q, some lo, some n =>
      if x == y || p.width != q.width || !p.wrapped || !q.wrapped || p.locked || q.locked || lo + 2 * n ≥ limit p.width then (st, "bad-op")
      else
        let o' := union q.set (rangeList lo 1 (2 * n))
        let x' := union p.set o'
        ((st.put x (refresh { p with set := x' })).put y (refresh { q with set := o' }), s!"ok torn=0 {obs x'} | {obs o'}")
    | _, _, _, _ => (st, "bad-op")
  | "conc" :: x :: toks => match st.get x with
    | some p =>
      if p.wrapped && p.locked then (st, "deadlock") else
      match concRun st.get x p.width st.fixed st.snap p.set toks with
      | some (s', n) => (st.put x (refresh { p with set := s' }), s!"ok {obs s'} cadd={n}")
      | none => (st, "bad-op")
    | none => (st, "bad-op")
  | ["opprivate", a, b, v] => match st.get a, st.get b, v.toNat?, st.lastOperand.lookup a with
    | some _, some q, some v, some (b', snap) =>
      if b' != b || !q.wrapped || q.locked || v ≥ limit q.width then (st, "bad-op") else
      let q' := refresh { q with set := ins v q.set }
      (st.put b q', s!"{!has snap v} " ++ obs q'.set)
    | _, _, _, _ => (st, "bad-op")
  | ["fillrace", o, a, b, _, m, _] => match parseOp o, st.get a, st.get b, m.toNat? with
    | some _, some p, some q, some m =>
      if a == b || p.width != q.width || !p.wrapped || !q.wrapped || p.locked || q.locked || m < 1 || m > 100000 then (st, "bad-op") else
      (st.put b { q with set := [] }, "ok bad=0 " ++ obs p.set ++ " | " ++ obs [])
    | _, _, _, _ => (st, "bad-op")
  | ["eachcall", x, k, m, y] =>
    let meth : Option NestedM := match m with
      | "remove" => some .remove | "cadd" => some .cadd | "add" => some .add | "contains" => some .contains | _ => none
    match st.get x, st.get y, k.toNat?, meth with
    | some p, some q, some k, some meth =>
      if x == y || p.width != q.width then (st, "bad-op") else
      match eachCall p q k meth with
      | some q' => (st.put y (refresh q'), "ok " ++ obs p.set ++ " | " ++ obs q'.set)
      | none => (st, "deadlock")
    | _, _, _, _ => (st, "bad-op")
  | ["toids", x] => match st.get x with
    | some p => match p.guard (fun s => obs (toGraphIDs s)) with
      | some o => (st, o)
      | none => (st, "deadlock")
    | none => (st, "bad-op")
  | ["toidsrace", x, lo, n] => match st.get x, lo.toNat?, n.toNat? with
    | some p, some lo, some n =>
      if !p.wrapped || p.locked || lo == 0 || lo + n ≥ limit p.width then (st, "bad-op") else
      let s' := slideWindow p.set lo n
      (st.put x (refresh { p with set := s' }), "ok bad=0 " ++ obs s')
    | _, _, _ => (st, "bad-op")
  | ["caddrace", x, lo, n, g] => match st.get x, lo.toNat?, n.toNat?, g.toNat? with
    | some p, some lo, some n, some g =>
      if !p.wrapped || p.locked || g < 1 || g > 64 || lo + n ≥ limit p.width then (st, "bad-op") else
      let r := rangeList lo 1 n
      let s' := union p.set r
      (st.put x (refresh { p with set := s' }), s!"ok trues={(diff r p.set).length} " ++ obs s')
    | _, _, _, _ => (st, "bad-op")
  | ["kindor", x, y] => match st.get x, st.get y with
    | some p, some q =>
      if p.width != .w64 || q.width != .w64 || (p.wrapped && p.locked) || (q.wrapped && q.locked) then (st, "bad-op") else
      (st, obs (union p.set q.set) ++ " | " ++ obs p.set ++ " | " ++ obs q.set)
    | _, _ => (st, "bad-op")
  | "comm" :: v :: toks => match v.toNat?, commGroups (fun n => (st.get n).bind (fun p => if p.wrapped && p.locked then none else some p.set)) toks with
    | some v, some (ors, ands) => (st, toString (commDuplexesContains ors ands v))
    | _, _ => (st, "bad-op")
  | ["nd", o, x] => match parseOp o, st.get x with
    | some op, some p =>
      match p.binop st.fixed st.snap op .nonDuplex with
      | (p', .ok) => (st.put x p', "ok " ++ obs p'.set)
      | (p', .deadlock) => (st.put x p', "deadlock")
    | _, _ => (st, "bad-op")
  | [o, x, y] => match parseOp o, st.get x, st.get y with
    | some op, some p, some q =>
      if p.width != q.width then (st, "bad-op") else
      let operand : Operand :=
        if x == y then (if p.wrapped then .selfWrapper else .bitmap p.set)
        else if q.wrapped then .wrapper q.locked q.set else .bitmap q.set
      if unmodelled st.fixed st.snap p op operand q.everFull then (st, "unmodelled") else
      if x == y && !p.wrapped && op == .xor && selfXorPanics p.width p.set then
        ({ st with dead := true }, "panic index-out-of-range") else
      match p.binop st.fixed st.snap op operand with
      | (p', .ok) =>
        -- `native`: the roaring in-place op ran on the operand OBJECT itself (a wrapper operand is snapshotted first)
        let native := switchPath operand == .native
        let p' := if p.pathFor st.snap operand == .native then { p' with everFull := p'.everFull || q.everFull } else p'
        let p' := refresh p'
        let st' := st.put x p'
        let q' := if x == y then p' else if native then { q with set := operandAfter p.width op p.set q.set } else q
        let st' := if x == y then st' else st'.put y q'
        let st' := if q.wrapped then { st' with lastOperand := (x, y, (if x == y then p.set else q.set)) :: st'.lastOperand.filter (·.1 != x) } else st'
        (st', "ok " ++ obs p'.set ++ " | " ++ (if q'.wrapped && q'.locked then "deadlock" else obs q'.set))
      | (p', .deadlock) => (st.put x p', "deadlock")
    | _, _, _ => (st, "bad-op")
  | _ => (st, "bad-op")

def suite : Suite := { σ := St, init := {}, step := step }

end Driver.C13

def Driver.C13.suites : List (String × Driver.Suite) := [("c13", Driver.C13.suite)]
