import Driver.Proto
import Dawgs.Spec.C16
/-! C16 concurrent monitor: decides whether a recorded concurrent history of a real cache is
linearizable w.r.t. the ideal-map contract (`accepts`: a miss is always allowed).
Input: `conc … => e1;e2;… | size=<n> cap=<c> entries=<k:v,…>` with events `thread:op:k:v:out:inv:ret`
(op ∈ put,get,del; out ∈ ok, miss, hit=<v>). -/
namespace Driver.C16Lin
open Dawgs.C16

structure Ev where
  op : Op
  out : Out
  inv : Nat
  ret : Nat
deriving Inhabited

def parseEv (s : String) : Option Ev :=
  match s.splitOn ":" with
  | [_t, o, k, v, out, inv, ret] => do
    let k ← k.toNat?
    let v ← v.toNat?
    let inv ← inv.toNat?
    let ret ← ret.toNat?
    let op ← match o with
      | "put" => some (Op.put k v) | "get" => some (Op.get k) | "del" => some (Op.del k) | _ => none
    let out ← if out == "ok" then some Out.unit else if out == "miss" then some Out.miss
      else if out.startsWith "hit=" then (out.drop 4).toString.toNat?.map Out.hit else none
    pure { op, out, inv, ret }
  | _ => none

/-- depth-first search over linearizations that respect real-time order -/
partial def search (evs : Array Ev) (fin : List (Nat × Nat)) (done : List Nat) (m : Ideal) (budget : Nat) : Option Bool × Nat :=
  -- the linearization must also explain what is still observable afterwards: every resident entry is the ideal value
  if done.length == evs.size then (some (fin.all (fun kv => m.get kv.1 == some kv.2)), budget) else
  if budget == 0 then (none, 0) else
  let pendingIdx := (List.range evs.size).filter (fun i => !done.contains i)
  -- candidates: pending events not preceded (in real time) by another pending event
  let cands := pendingIdx.filter (fun i => pendingIdx.all (fun j => j == i || !(evs[j]!.ret < evs[i]!.inv)))
  let rec go (cs : List Nat) (budget : Nat) : Option Bool × Nat :=
    match cs with
    | [] => (some false, budget)
    | i :: rest =>
      let e := evs[i]!
      if accepts m e.op e.out then
        match search evs fin (i :: done) (m.step e.op) (budget - 1) with
        | (some true, b) => (some true, b)
        | (none, b) => (none, b)
        | (some false, b) => go rest b
      else go rest budget
  go cands budget

def field (t name : String) : Option String :=
  if t.startsWith (name ++ "=") then some (t.drop (name.length + 1)).toString else none

def parseResident (s : String) : Option (List (Nat × Nat)) :=
  if s == "-" then some [] else
  (s.splitOn ",").mapM (fun kv => match kv.splitOn ":" with
    | [k, v] => do pure ((← k.toNat?), (← v.toNat?))
    | _ => none)

def step (_ : Unit) (ts : List String) : Unit × String :=
  let out := (ts.dropWhile (· ≠ "=>")).drop 1
  match out with
  | evs :: "|" :: sz :: cp :: rest =>
    let fin? : Option (Option (List (Nat × Nat))) := match rest with
      | r :: _ => (field r "resident").map parseResident
      | [] => none
    match ((evs.splitOn ";").filter (· ≠ "")).mapM parseEv, (field sz "size").bind String.toInt?, (field cp "cap").bind String.toInt? with
    | some es, some size, some cap =>
      if size > cap then ((), s!"reject size-over-capacity {size}>{cap}") else
      match fin? with
      | some none => ((), "reject bad-history")
      | _ =>
      let fin := (fin?.bind id).getD []
      -- size statistic exact: it counts exactly the entries a caller can still observe
      if fin?.isSome && size != (fin.length : Int) then ((), s!"reject size-statistic-differs size={size} resident={fin.length}") else
      match search es.toArray fin [] [] 2000000 with
      | (some true, _) => ((), "ok")
      | (some false, _) => ((), "reject not-linearizable")
      | (none, _) => ((), "ok budget-exhausted")
    | _, _, _ => ((), "reject bad-history")
  | ["panic"] => ((), "reject panic")
  | _ => ((), "reject bad-output " ++ " ".intercalate out)

def suite : Suite := { σ := Unit, init := (), step := step }
end Driver.C16Lin

def Driver.C16Lin.suites : List (String × Driver.Suite) := [("c16lin", Driver.C16Lin.suite)]
