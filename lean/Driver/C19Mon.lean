import Driver.Proto
import Dawgs.Spec.C19
import Driver.C18
/-! Monitor for C19 (`c19mon`): judges the observed directory listings (names, sizes, sha256, what the
checkpoint/manifest records) written by the harness suite `obs19` after every crash, read fault and
resume of the real Dump. Input lines are `<op> => <observation>`; answers `ok …` / `reject <class> <detail>`. -/
namespace Driver.C19Mon
open Dawgs.C19.Spec

structure St where
  graphs : List String := []
  opts : List (String × String) := []      -- current settings of the call, field ↦ value
  dumpOpts : List (String × String) := []  -- settings of the fresh dump that created the directory
  listing : Listing := {}
  strayPresent : Bool := false
  damaged : Bool := false            -- a recorded fragment was corrupted or removed behind the dump's back
  delta : List (String × Int × Int) := []  -- per graph: net change of (nodes, relationships) of the source since the fresh dump
  expectSame : Bool := false         -- the directory is a finished dump: `final` must answer `same`

def setField (m : List (String × String)) (k v : String) : List (String × String) := (k, v) :: m.filter (·.1 != k)
def getField (m : List (String × String)) (k : String) (dflt : String) : String := ((m.find? (·.1 == k)).map (·.2)).getD dflt

/-- the fields of a Dump call that bind a resume (properties.jsonl: "a resume never succeeds if the options
differ"); the salt and the scrub rules only when the interrupted dump was scrubbing. Progress interval and
callback, output directory, force/resume are not options of the *dump* but of how it is run. -/
def boundFields (dumpOpts : List (String × String)) : List String :=
  ["codec", "batch", "shard", "zstdlevel", "driver", "targets", "scrub"] ++
  (if getField dumpOpts "scrub" "none" == "full" then ["salt", "rules"] else [])

def defaultOf (k : String) : String :=
  match k with
  | "zstdlevel" => "3" | "driver" => "fake" | "targets" => "-" | "scrub" => "none" | "rules" => "default" | "salt" => ""
  | _ => ""

/-- the first bound field in which the resuming call differs from the interrupted one -/
def changedBound (dumpOpts opts : List (String × String)) : Option String :=
  (boundFields dumpOpts).find? (fun k => getField dumpOpts k (defaultOf k) != getField opts k (defaultOf k))

def splitArrow (ts : List String) : List String × List String :=
  (ts.takeWhile (· ≠ "=>"), (ts.dropWhile (· ≠ "=>")).drop 1)

def parseEntry (t : String) : Option Entry :=
  match t.splitOn "|" with
  | [pd, size, sha] =>
    match pd.splitOn "=" with
    | p :: rest => some { path := p, desc := "=".intercalate rest, size := size.toNat?.getD 0, sha := sha }
    | [] => none
  | _ => none

def parseRecorded (t : String) : Option Recorded :=
  match (t.splitOn "#").reverse with
  | sha :: bytes :: count :: pathRev =>
    some { path := "#".intercalate pathRev.reverse, count := count.toNat?.getD 0, bytes := bytes.toNat?.getD 0, sha := sha }
  | _ => none

/-- `status… | entries… R recorded…` -/
def parseObs (out : List String) : Option (List String × Listing) :=
  let status := out.takeWhile (· ≠ "|")
  let rest := (out.dropWhile (· ≠ "|")).drop 1
  if rest.isEmpty then none else
  let es := rest.takeWhile (· ≠ "R")
  let rs := (rest.dropWhile (· ≠ "R")).drop 1
  if es == ["-"] then some (status, {}) else
  match es.mapM parseEntry, rs.mapM parseRecorded with
  | some es, some rs => some (status, { entries := es, recorded := rs })
  | _, _ => none

def firstSome (xs : List (Option String)) : Option String := xs.foldl (fun acc x => match acc with | some m => some m | none => x) none

/-- is graph `g` already counted by the checkpoint in the listing (completed, or current with a snapshot)? -/
def counted (st : St) (g : String) : Bool :=
  match st.listing.find ".retriever-checkpoint.json", st.graphs.idxOf? g with
  | some e, some gi =>
    match e.desc.splitOn ":" with
    | ["ckpt", done, cur] =>
      let doneCount := if done == "-" then 0 else (done.splitOn "+").length
      let curHit := match cur.splitOn "/" with
        | idx :: _ :: snap :: _ => idx.toNat? == some gi && snap != "-"
        | _ => false
      gi < doneCount || curHit
    | _ => true
  | _, _ => false

def bump (m : List (String × Int × Int)) (g : String) (dn de : Int) : List (String × Int × Int) :=
  match m.find? (·.1 == g) with
  | some (_, a, b) => (g, a + dn, b + de) :: m.filter (·.1 != g)
  | none => (g, dn, de) :: m

/-- a graph the checkpoint already counts (completed, or in progress with a snapshot) whose source changed in
at least ONE of the two dimensions since the interrupted dump -/
def changedCounted (st : St) : Option String :=
  (st.delta.find? (fun (g, dn, de) => (dn != 0 || de != 0) && counted st g)).map (·.1)

/-- the temp file of the fragment the interrupted dump would write next, read off the checkpoint in the listing -/
def nextTmpName (st : St) : Option String :=
  match st.listing.find ".retriever-checkpoint.json" with
  | none => none
  | some e =>
    match e.desc.splitOn ":" with
    | ["ckpt", _, cur] =>
      match cur.splitOn "/" with
      | [idx, phase, _, _, files] =>
        match idx.toNat?.bind (fun i => st.graphs[i]?) with
        | some g =>
          let n := if files == "-" then 0 else ((files.splitOn "+").filter (fun f => f.startsWith phase)).length
          let ph := if phase == "nodes" then Dawgs.C18.Phase.nodes else Dawgs.C18.Phase.edges
          some (Driver.C18.renderPath (getField st.dumpOpts "codec" "none") ⟨g, ph, n + 1⟩ ++ ".tmp")
        | none => none
      | _ => none
    | _ => none

def step (st : St) (ts : List String) : St × String :=
  let (op, out) := splitArrow ts
  match op, out with
  | ["reset"], ["ok"] => ({}, "ok")
  | ["graph", name], ["ok"] => ({ st with graphs := st.graphs ++ [name] }, "ok")
  | "node" :: _, ["ok"] => (st, "ok")
  | "edge" :: _, ["ok"] => (st, "ok")
  | ["opts", c, b, sh], ["ok"] => ({ st with opts := setField (setField (setField st.opts "codec" c) "batch" b) "shard" sh }, "ok")
  | ["set", k, v], ["ok"] => ({ st with opts := setField st.opts k (if k == "salt" && v == "-" then "" else v) }, "ok")
  | ["plan"], "ok" :: _ => (st, "ok")
  | ["torn"], ["ok"] => ({ st with expectSame := false }, "ok")
  | ["stray", name], ["ok"] =>
    -- the three temporaries a resume knows (and removes) are not foreign; a file dropped onto a recorded fragment
    -- damages it; onto the manifest / checkpoint it replaces a control file (any refusal is fine); everything else is
    -- a file the checkpoint does not account for
    let known := name == ".retriever-checkpoint.json.tmp" || name == "manifest.json.tmp" || some name == nextTmpName st
    let control := name == "manifest.json" || name == ".retriever-checkpoint.json"
    let hit := st.listing.recorded.any (fun r => r.path == name)
    let entry : Entry := { path := name, desc := if name.endsWith ".tmp" then "tmp" else "stray", size := 6, sha := "stray" }
    ({ st with expectSame := false, strayPresent := st.strayPresent || !(known || control || hit), damaged := st.damaged || hit || control,
               listing := { st.listing with entries := st.listing.entries.filter (fun e => e.path != name) ++ [entry] } }, "ok")
  | ["straydir", _], ["ok"] => (st, "ok")
  | [verb, _], ["ok", path] =>
    if verb == "corrupt" || verb == "rmfrag" then
      let hit := st.listing.recorded.any (fun r => r.path == path)
      let es := if verb == "rmfrag" then st.listing.entries.filter (fun e => e.path != path)
                else st.listing.entries.map (fun e => if e.path == path then { e with desc := "stray", sha := "tampered" } else e)
      -- removing a file the checkpoint does not record cannot make the directory worse; corrupting one keeps it unexpected
      ({ st with expectSame := false, damaged := st.damaged || hit, strayPresent := st.strayPresent || (!hit && verb == "corrupt"),
                 listing := { st.listing with entries := es } }, "ok")
    else (st, "reject bad-output")
  | [_, _], ["none"] => (st, "ok")
  | ["srcadd", g, _], ["ok"] => ({ st with delta := bump st.delta g 1 0, expectSame := false }, "ok")
  | ["srcaddedge", g, _, _, _], ["ok"] => ({ st with delta := bump st.delta g 0 1, expectSame := false }, "ok")
  | ["srcdelnode", g, _], ["ok"] => ({ st with delta := bump st.delta g (-1) 0, expectSame := false }, "ok")
  | ["srcdeledge", g, _], ["ok"] => ({ st with delta := bump st.delta g 0 (-1), expectSame := false }, "ok")
  | ["final"], ans :: _ =>
    let st' := { st with expectSame := false }
    if ans == "same" then (st', "ok")
    else if st.expectSame then (st', "reject resumed-dump-differs " ++ " ".intercalate out)
    else (st', "ok")
  | verb :: _, _ =>
    let fresh := verb == "crash" || verb == "readfault"
    let resumed := verb == "resume" || verb == "resumefault"
    if !(fresh || resumed) then (st, "reject bad-output " ++ " ".intercalate out) else
    match parseObs out with
    | none => (st, "reject bad-observation")
    | some (status, l) =>
      let completed := status == ["completed"] || status == ["ok"]
      let base : St := if fresh then { st with dumpOpts := st.opts, strayPresent := false, damaged := false, delta := [] } else st
      let st' := { base with listing := l, expectSame := completed }
      let checks : List (Option String) :=
        [ (if resumed && st.damaged then none else manifestMeansComplete l),   -- the harness itself damaged a recorded fragment
          if fresh then recordedIntact l else none,
          if resumed && !st.damaged then committedUntouched st.listing l else none,
          (if resumed && completed then (changedBound st.dumpOpts st.opts).map (fun k => "resume-accepted-changed-options " ++ k) else none),
          (if resumed && status == ["refused", "identity-changed"] && (changedBound st.dumpOpts st.opts).isNone
            then some "resume-refused-although-no-bound-option-changed" else none),
          if resumed && completed && st.strayPresent then some "resume-accepted-unexpected-file" else none,
          if resumed && completed && st.damaged then some "resume-accepted-damaged-fragment" else none,
          (if resumed && completed then (changedCounted st).map (fun g => "resume-accepted-changed-source " ++ g) else none),
          if fresh && status.head? == some "refused" then some "fresh-dump-refused" else none,
          if completed then finishedDump l else none ]
      match firstSome checks with
      | some m => (st', "reject " ++ m)
      | none => (st', "ok")
  | _, _ => (st, "reject bad-output " ++ " ".intercalate out)

def suite : Suite := { σ := St, init := {}, step := step }
end Driver.C19Mon

def Driver.C19Mon.suites : List (String × Driver.Suite) := [("c19mon", Driver.C19Mon.suite)]
