/- Helper lemmas for C10: the parameter map through the driver's query rewrite. Core Lean + Std (Nat.repr injective). -/
import Std.Data.String.ToNat
import Dawgs.Model.C10P
set_option linter.unusedSimpArgs false
set_option linter.unusedVariables false
namespace Dawgs.C10
variable {V : Type}

theorem prefix_inj (pre : String) {a b : Nat} (h : pre ++ toString a = pre ++ toString b) : a = b := by
  have h' := congrArg String.toList h
  simp only [String.toList_append] at h'
  have h2 := List.append_cancel_left h'
  have h3 : toString a = toString b := String.toList_inj.mp h2
  exact Nat.repr_injective h3

theorem append_left_cancel_str (pre : String) {x y : String} (h : pre ++ x = pre ++ y) : x = y := by
  have h' := congrArg String.toList h
  simp only [String.toList_append] at h'
  exact String.toList_inj.mp (List.append_cancel_left h')

theorem fname_inj {a b : Nat} (h : fname a = fname b) : a = b := prefix_inj _ (append_left_cancel_str _ h)

theorem plookup_append (m : PMap V) (x : String × PVal V) (s : String) :
    plookup (m ++ [x]) s = match plookup m s with | some v => some v | none => if x.1 = s then some x.2 else none := by
  induction m with
  | nil => obtain ⟨k, v⟩ := x; simp [plookup]
  | cons e m ih =>
    obtain ⟨k, v⟩ := e
    by_cases h : k = s <;> simp [plookup, h, ih]

theorem plookup_delete (m : PMap V) (p s : String) (h : s ≠ p) : plookup (pdelete m p) s = plookup m s := by
  induction m with
  | nil => rfl
  | cons e m ih =>
    obtain ⟨k, v⟩ := e
    by_cases hk : k = p
    · subst hk
      have : ¬ (k = s) := fun hh => h hh.symm
      simp [pdelete, plookup, this, ih]
    · by_cases hs : k = s
      · subst hs; simp [pdelete, hk, plookup]
      · simp [pdelete, hk, plookup, hs, ih]

theorem nextName_free (m : PMap V) (f n : Nat) (h : pbound m (fname n) = false) : nextName m f n = n := by
  cases f <;> simp [nextName, h]

/-- what the induction carries -/
structure RWInv (params : PMap V) (pats : List String) (fix : Bool) (st : RWState V) : Prop where
  keep : ∀ s, s ∉ pats → (∀ i, s ≠ fname i) → plookup (st.rp.getD params) s = plookup params s
  free : ∀ i, st.next ≤ i → pbound (st.rp.getD params) (fname i) = false
  ent : ∀ e ∈ st.entries, ∃ kvs v j, plookup params e.1 = some (.props kvs) ∧ (e.2.1, v) ∈ kvs ∧
      plookup (st.rp.getD params) e.2.2 = some (.val v) ∧ e.2.2 = fname j
  some_ : fix = true → st.rewritten = true → st.rp.isSome = true
  entNone : st.rp = none → st.entries = []

theorem expand_inv (params : PMap V) (pats : List String) (fix : Bool) (p : String) (hpb : ∀ i, p ≠ fname i) :
    ∀ (kvs all : List (String × V)) (st : RWState V), plookup params p = some (.props all) → (∀ x ∈ kvs, x ∈ all) →
    RWInv params pats fix st → RWInv params pats fix (expand params p kvs st) ∧
      (kvs ≠ [] → (expand params p kvs st).rp.isSome = true)
  | [], all, st, _, _, inv => ⟨by simpa [expand] using inv, by simp⟩
  | (k, v) :: kvs, all, st, hp, hsub, inv => by
    have hfree : pbound (st.rp.getD params) (fname st.next) = false := inv.free st.next (Nat.le_refl _)
    have hn : nextName (st.rp.getD params) ((st.rp.getD params).length + 1) st.next = st.next := nextName_free _ _ _ hfree
    simp only [expand, hn]
    have hfree' : plookup (st.rp.getD params) (fname st.next) = none := by
      simpa [pbound] using hfree
    let st' : RWState V := ⟨st.entries ++ [(p, k, fname st.next)], some (st.rp.getD params ++ [(fname st.next, .val v)]), st.next + 1, st.rewritten⟩
    have inv' : RWInv params pats fix st' := by
      refine ⟨?_, ?_, ?_, fun _ _ => rfl, fun h => by simp [st'] at h⟩
      · intro s hs hsf
        have h1 := inv.keep s hs hsf
        have hne : ¬ (fname st.next = s) := fun hh => hsf st.next hh.symm
        simp only [st', Option.getD_some, plookup_append, h1]
        cases plookup params s <;> simp [hne]
      · intro i hi
        have h1 := inv.free i (by simp [st'] at hi; omega)
        have hne : ¬ (fname st.next = fname i) := fun hh => by
          have := fname_inj hh; simp [st'] at hi; omega
        have h1' : plookup (st.rp.getD params) (fname i) = none := by simpa [pbound] using h1
        simp [st', pbound, plookup_append, h1', hne]
      · intro e he
        simp only [st', List.mem_append, List.mem_singleton] at he
        rcases he with he | he
        · obtain ⟨kvs', v', j, h1, h2, h3, h4⟩ := inv.ent e he
          exact ⟨kvs', v', j, h1, h2, by simp [st', plookup_append, h3], h4⟩
        · subst he
          exact ⟨all, v, st.next, hp, hsub (k, v) (by simp), by simp [st', plookup_append, hfree'], rfl⟩
    have ih := expand_inv params pats fix p hpb kvs all st' hp (fun x hx => hsub x (by simp [hx])) inv'
    refine ⟨ih.1, fun _ => ?_⟩
    cases kvs with
    | nil => simp [expand, st']
    | cons kv kvs' => exact ih.2 (by simp)

theorem rewritePats_inv (params : PMap V) (allPats : List String) (hres : ∀ i, pbound params (fname i) = false) :
    ∀ (pats : List String) (st st' : RWState V), (∀ p ∈ pats, p ∈ allPats) →
    RWInv params allPats true st → rewritePats true params pats st = some st' → RWInv params allPats true st'
  | [], st, st', _, inv, h => by
    simp only [rewritePats, Option.some.injEq] at h; subst h; exact inv
  | p :: ps, st, st', hsub, inv, h => by
    have hpIn : p ∈ allPats := hsub p (by simp)
    simp only [rewritePats] at h
    cases hp : plookup params p with
    | none => simp [hp] at h
    | some pv =>
      have hpb : ∀ i, p ≠ fname i := by
        intro i hh
        have := hres i
        rw [← hh] at this
        simp [pbound, hp] at this
      cases pv with
      | val v => simp [hp] at h
      | props kvs =>
        cases kvs with
        | nil =>
          simp only [hp, if_true] at h
          refine rewritePats_inv params allPats hres ps _ st' (fun q hq => hsub q (by simp [hq])) ?_ h
          refine ⟨?_, ?_, ?_, fun _ _ => rfl, fun hh => by simp at hh⟩
          · intro s hs hsf
            have hne : s ≠ p := fun hh => hs (hh ▸ hpIn)
            simpa [plookup_delete _ _ _ hne] using inv.keep s hs hsf
          · intro i hi
            have h1 := inv.free i hi
            have hne : fname i ≠ p := fun hh => hpb i hh.symm
            simpa [pbound, plookup_delete _ _ _ hne] using h1
          · intro e he
            obtain ⟨kvs', v', j, h1, h2, h3, h4⟩ := inv.ent e he
            have hne : e.2.2 ≠ p := by rw [h4]; exact fun hh => hpb j hh.symm
            exact ⟨kvs', v', j, h1, h2, by simpa [plookup_delete _ _ _ hne] using h3, h4⟩
        | cons kv kvs' =>
          simp only [hp] at h
          have he := expand_inv params allPats true p hpb (kv :: kvs') (kv :: kvs') st hp (fun x hx => hx) inv
          refine rewritePats_inv params allPats hres ps _ st' (fun q hq => hsub q (by simp [hq])) ?_ h
          exact ⟨he.1.keep, he.1.free, he.1.ent, fun _ _ => he.2 (by simp), fun hh => by
            have := he.2 (by simp); simp at hh; rw [hh] at this; simp at this⟩

theorem rwinv_init (params : PMap V) (pats : List String) (hres : ∀ i, pbound params (fname i) = false) :
    RWInv params pats true (⟨[], none, 0, false⟩ : RWState V) :=
  ⟨fun _ _ _ => rfl, fun i _ => by simpa using hres i, fun e he => by simp at he, fun _ h => by simp at h, fun _ => rfl⟩

/-- the repaired rewrite keeps every other parameter and binds every new one to the value of its key -/
theorem rewriteParams_fixed (params : PMap V) (pats : List String)
    (hres : ∀ i, pbound params (fname i) = false)
    (hpats : ∀ p ∈ pats, ∃ kvs, plookup params p = some (.props kvs)) :
    ∃ entries m', rewriteParams true params pats = some (entries, m') ∧
      (∀ s, s ∉ pats → (∀ i, s ≠ fname i) → plookup m' s = plookup params s) ∧
      (∀ e ∈ entries, ∃ kvs v, plookup params e.1 = some (.props kvs) ∧ (e.2.1, v) ∈ kvs ∧ plookup m' e.2.2 = some (.val v)) := by
  -- the pattern loop never fails
  have hsome : ∀ (ps : List String) (st : RWState V), (∀ p ∈ ps, ∃ kvs, plookup params p = some (.props kvs)) →
      ∃ st', rewritePats true params ps st = some st' := by
    intro ps
    induction ps with
    | nil => intro st _; exact ⟨st, rfl⟩
    | cons p ps ih =>
      intro st h
      obtain ⟨kvs, hk⟩ := h p (by simp)
      cases kvs with
      | nil => simpa [rewritePats, hk] using ih _ (fun q hq => h q (by simp [hq]))
      | cons kv kvs => simpa [rewritePats, hk] using ih _ (fun q hq => h q (by simp [hq]))
  obtain ⟨st', hst⟩ := hsome pats ⟨[], none, 0, false⟩ hpats
  have inv := rewritePats_inv params pats hres pats _ st' (fun p hp => hp) (rwinv_init params pats hres) hst
  simp only [rewriteParams, hst]
  by_cases hr : st'.rewritten = true
  · have hsm := inv.some_ rfl hr
    obtain ⟨m, hm⟩ := Option.isSome_iff_exists.mp hsm
    refine ⟨st'.entries, m, by simp [hr, hm], ?_, ?_⟩
    · intro s hs hsf; simpa [hm] using inv.keep s hs hsf
    · intro e he
      obtain ⟨kvs, v, j, h1, h2, h3, _⟩ := inv.ent e he
      exact ⟨kvs, v, h1, h2, by simpa [hm] using h3⟩
  · have hr' : st'.rewritten = false := by simpa using hr
    refine ⟨[], params, by simp [hr'], fun _ _ _ => rfl, fun e he => by simp at he⟩

end Dawgs.C10
