import Dawgs.Proofs.C07RoundExpr4
set_option linter.unusedSimpArgs false
set_option linter.unusedVariables false
set_option linter.unusedSectionVars false
/-! `yield (treeOf e) = emit e` on the expression layer: the canonical tree carries exactly the tokens format.go writes, in order. -/
namespace Dawgs.C07
open Dawgs.Grammar Dawgs.C08

@[simp] theorem yieldT_nd (N : Names) (r : String) (ks : List Tree) : yieldT (N.nd r ks) = yieldL ks := by simp [Names.nd, yieldT]
@[simp] theorem yieldT_lf (N : Names) (a s : String) : yieldT (N.lf a s) = [s] := by simp [Names.lf, yieldT]
@[simp] theorem yieldL_nil : yieldL [] = [] := by simp [yieldL]
@[simp] theorem yieldL_cons (t : Tree) (ts : List Tree) : yieldL (t :: ts) = yieldT t ++ yieldL ts := by simp [yieldL]
@[simp] theorem yieldL_append (xs ys : List Tree) : yieldL (xs ++ ys) = yieldL xs ++ yieldL ys := by
  induction xs with
  | nil => simp
  | cons x xs ih => simp [ih]

theorem yieldL_flatten_map {α} (f : α → List Tree) : ∀ xs : List α, yieldL (xs.map f).flatten = (xs.map (fun x => yieldL (f x))).flatten
  | [] => by simp
  | x :: xs => by simp [yieldL_flatten_map f xs]

theorem sepBy_cons (s : String) (x : List String) (y : List String) (rest : List (List String)) :
    sepBy s (x :: y :: rest) = x ++ s :: sepBy s (y :: rest) := by
  simp [sepBy]

theorem yieldL_interleave (N : Names) (a s : String) : ∀ ts : List Tree,
    yieldL (interleave (N.lf a s) ts) = sepBy s (ts.map yieldT)
  | [] => by simp [interleave, sepBy]
  | [x] => by simp [interleave, sepBy]
  | x :: y :: rest => by
    have ih := yieldL_interleave N a s (y :: rest)
    simp only [interleave, yieldL_cons, yieldT_lf, ih, List.map_cons, sepBy_cons]
    simp

theorem commaSep_eq (xs : List (List String)) : commaSep xs = sepBy "," xs := by cases xs <;> rfl

theorem yieldL_joinGroups (N : Names) (a s : String) : ∀ gs : List (List Tree),
    yieldL (joinGroups (N.lf a s) gs) = sepBy s (gs.map yieldL)
  | [] => by simp [joinGroups, sepBy]
  | [x] => by simp [joinGroups, sepBy]
  | x :: y :: rest => by
    have ih := yieldL_joinGroups N a s (y :: rest)
    simp only [joinGroups, yieldL_append, yieldL_cons, yieldT_lf, ih, List.map_cons, sepBy_cons]
    simp

theorem sizeL_mapEntries_mem (N : Names) (recT : Expr → Tree) : ∀ (kvs : List (String × Expr)) (p : String × Expr), p ∈ kvs →
    size (recT p.2) + 3 ≤ sizeL ((kvs.map (mapEntry N recT)).flatten)
  | [], _, hp => by simp at hp
  | q :: qs, p, hp => by
    rcases List.mem_cons.1 hp with h | h
    · subst h; simp [mapEntry, exprNode, schemaName, symName]; omega
    · have := sizeL_mapEntries_mem N recT qs p h; simp; omega

theorem sizeL_opKids_mem (N : Names) (sub : Expr → Tree) : ∀ (parts : List (String × Expr)) (p : String × Expr), p ∈ parts →
    size (sub p.2) + 1 ≤ sizeL ((parts.map (fun p => [N.lf (opTok p.1) p.1, sub p.2])).flatten)
  | [], _, hp => by cases hp
  | q :: qs, p, hp => by
    rcases List.mem_cons.1 hp with h | h
    · subst h; simp; omega
    · have := sizeL_opKids_mem N sub qs p h; simp; omega

/-- hypothesis on nested full expressions -/
def EmitOK (N : Names) (recT : Expr → Tree) (recW : Expr → Bool) : Prop :=
  ∀ e G, recW e = true → size (recT e) ≤ G → eExpr G e = yieldT (recT e)

theorem toString_int_nonneg (v : Int) (h : 0 ≤ v) : toString v = toString v.toNat := by
  obtain ⟨n, rfl⟩ := Int.eq_ofNat_of_zero_le h
  simp [toString, Int.repr]

@[simp] theorem fnNameTok_nil (d : Bool) (n : String) : fnNameTok d [] n = n := by cases d <;> simp [fnNameTok, String.intercalate, String.join]

theorem escapeKeyTok_simple (k : String) (h : simpleKey k = true) : escapeKeyTok k = k := by simp [escapeKeyTok, h]

section Y
variable {N : Names} (recT : Expr → Tree) (recW : Expr → Bool) (Hrec : EmitOK N recT recW)
include Hrec

theorem yield_exprNodes (es : List Expr) (G : Nat) (hw : es.all recW = true)
    (hG : sizeL (es.map (fun e => exprNode N (recT e))) ≤ G) :
    (es.map (fun e => exprNode N (recT e))).map yieldT = es.map (eExpr G) := by
  simp only [List.map_map]
  apply List.map_congr_left
  intro e he
  have := size_le_sizeL (List.mem_map_of_mem (f := fun e => exprNode N (recT e)) he)
  have h1 : size (exprNode N (recT e)) = 1 + (size (recT e) + 0) := by simp [exprNode]
  simp only [Function.comp, exprNode, yieldT_nd, yieldL_cons, yieldL_nil, List.append_nil]
  exact (Hrec e G ((List.all_eq_true.1 hw) e he) (by omega)).symm

theorem yield_tMap (kvs : List (String × Expr)) (G : Nat) (hw : wMap recW kvs = true) (hG : size (tMap N recT kvs) ≤ G) :
    eExpr G (.map kvs) = yieldT (tMap N recT kvs) := by
  simp only [wMap, Bool.and_eq_true, List.all_eq_true] at hw
  simp only [tMap, size_nd, sizeL_cons', sizeL_append, size_lf, sizeL_nil'] at hG
  obtain ⟨G', rfl⟩ : ∃ G', G = G' + 1 := ⟨G - 1, by omega⟩
  have hsz := sizeL_joinGroups_ge (N.lf "T__6" ",") (kvs.map (mapEntry N recT))
  have hy : kvs.map (fun p => [escapeKeyTok p.1, ":"] ++ eExpr G' p.2) = (kvs.map (mapEntry N recT)).map yieldL := by
    rw [List.map_map]
    apply List.map_congr_left
    intro p hp
    have h1 := sizeL_mapEntries_mem N recT kvs p hp
    have h2 := Hrec p.2 G' (hw.1 p hp).2 (by omega)
    simp [mapEntry, schemaName, symName, exprNode, escapeKeyTok_simple p.1 (hw.1 p hp).1, h2]
  rw [eExpr]
  simp only [hy, tMap, yieldT_nd, yieldL_cons, yieldL_append, yieldL_nil, yieldT_lf, yieldL_joinGroups, commaSep_eq]
  simp

theorem yield_tAtom (e : Expr) (G : Nat) (hw : wAtom recW e = true) (hG : size (tAtom N recT e) ≤ G) :
    eExpr G e = yieldT (tAtom N recT e) := by
  cases e with
  | var s =>
    obtain ⟨G', rfl⟩ : ∃ G', G = G' + 1 := ⟨G - 1, by simp [tAtom, tAtomInner] at hG; omega⟩
    simp [eExpr, tAtom, tAtomInner, symName]
  | param s =>
    obtain ⟨G', rfl⟩ : ∃ G', G = G' + 1 := ⟨G - 1, by simp [tAtom, tAtomInner] at hG; omega⟩
    simp [eExpr, tAtom, tAtomInner, symName]
  | lit v =>
    obtain ⟨G', rfl⟩ : ∃ G', G = G' + 1 := ⟨G - 1, by cases v <;> simp [tAtom, tAtomInner] at hG <;> omega⟩
    cases v with
    | null => simp [eExpr, tAtom, tAtomInner]
    | str q => simp [eExpr, tAtom, tAtomInner]
    | bool b => simp [eExpr, tAtom, tAtomInner]
    | int v =>
      simp [wAtom] at hw
      simp [eExpr, tAtom, tAtomInner, toString_int_nonneg v hw.1]
    | float t =>
      simp [wAtom] at hw
      simp [eExpr, tAtom, tAtomInner, hw]
  | list es =>
    simp only [wAtom] at hw
    simp only [tAtom, tAtomInner, size_nd, sizeL_cons', sizeL_append, size_lf, sizeL_nil'] at hG
    obtain ⟨G', rfl⟩ : ∃ G', G = G' + 1 := ⟨G - 1, by omega⟩
    have hsz := sizeL_le_interleave (N.lf "T__6" ",") (es.map (fun e => exprNode N (recT e)))
    have hy := yield_exprNodes recT recW Hrec es G' hw (by omega)
    simp [eExpr, tAtom, tAtomInner, yieldL_interleave, hy, commaSep, sepBy]
  | map kvs =>
    simp only [wAtom] at hw
    have := yield_tMap recT recW Hrec kvs G hw (by simp only [tAtom, tAtomInner, size_nd, sizeL_cons', sizeL_nil'] at hG; omega)
    simp [this, tAtom, tAtomInner]
  | paren x =>
    simp only [wAtom] at hw
    simp only [tAtom, tAtomInner, exprNode, size_nd, sizeL_cons', size_lf, sizeL_nil'] at hG
    obtain ⟨G', rfl⟩ : ∃ G', G = G' + 1 := ⟨G - 1, by omega⟩
    have := Hrec x G' hw (by omega)
    simp [eExpr, tAtom, tAtomInner, exprNode, this]
  | fn d ns name args =>
    simp only [wAtom, Bool.and_eq_true] at hw
    have hns : ns = [] := by simpa using hw.1
    subst hns
    have hsz := sizeL_le_interleave (N.lf "T__6" ",") (args.map (fun e => exprNode N (recT e)))
    cases d
    · simp only [tAtom, tAtomInner, symName, size_nd, sizeL_cons', sizeL_append, size_lf, sizeL_nil'] at hG
      obtain ⟨G', rfl⟩ : ∃ G', G = G' + 1 := ⟨G - 1, by omega⟩
      have hy := yield_exprNodes recT recW Hrec args G' hw.2 (by simp at hG ⊢; omega)
      simp [eExpr, tAtom, tAtomInner, symName, yieldL_interleave, hy, commaSep, sepBy, String.intercalate]
    · simp only [tAtom, tAtomInner, symName, size_nd, sizeL_cons', sizeL_append, size_lf, sizeL_nil'] at hG
      obtain ⟨G', rfl⟩ : ∃ G', G = G' + 1 := ⟨G - 1, by omega⟩
      have hy := yield_exprNodes recT recW Hrec args G' hw.2 (by simp at hG ⊢; omega)
      simp [eExpr, tAtom, tAtomInner, symName, yieldL_interleave, hy, commaSep, sepBy, String.intercalate]
  | quant ty v c w =>
    simp only [wAtom, Bool.and_eq_true] at hw
    obtain ⟨⟨_, hc⟩, hwh⟩ := hw
    have hsz : 9 + size (recT c) + sizeL (optList w (whereNode N recT)) + 1 ≤ G := by
      simp [tAtom, tAtomInner, varNode, symName, exprNode] at hG ⊢; omega
    obtain ⟨G', rfl⟩ : ∃ G', G = G' + 1 := ⟨G - 1, by omega⟩
    have h1 := Hrec c G' hc (by omega)
    cases w with
    | none => simp [eExpr, tAtom, tAtomInner, optList, varNode, symName, exprNode, h1]
    | some x =>
      have h2 := Hrec x G' hwh (by simp [optList, whereNode, exprNode] at hsz; omega)
      simp [eExpr, tAtom, tAtomInner, optList, whereNode, varNode, symName, exprNode, h1, h2]
  | _ => simp [wAtom] at hw

theorem yield_base (e : Expr) (G : Nat) (hw : (isCountStar e || wAtom recW e) = true)
    (hG : sizeL (if isCountStar e then [countAtom N] else [tAtom N recT e]) ≤ G) :
    eExpr G e = yieldL (if isCountStar e then [countAtom N] else [tAtom N recT e]) := by
  by_cases hc : isCountStar e = true
  · have he := isCountStar_eq e hc
    subst he
    simp only [hc, if_true, countAtom, sizeL_cons', size_nd, size_lf, sizeL_nil'] at hG ⊢
    obtain ⟨G', rfl⟩ : ∃ G', G = G' + 2 := ⟨G - 2, by omega⟩
    simp [eExpr, commaSep, String.intercalate]
  · have hcf : isCountStar e = false := by simpa using hc
    simp only [hcf, Bool.false_or] at hw
    simp only [hcf, Bool.false_eq_true, if_false, sizeL_cons', sizeL_nil'] at hG ⊢
    simp only [yieldL_cons, yieldL_nil, List.append_nil]
    exact yield_tAtom recT recW Hrec e G hw (by omega)

theorem yield_propKids : ∀ (e : Expr) (G : Nat), wProps recW e = true → sizeL (propKids N recT e) ≤ G →
    eExpr G e = yieldL (propKids N recT e)
  | .prop a k, G, hw, hG => by
    simp only [wProps, Bool.and_eq_true] at hw
    simp only [propKids, sizeL_append, sizeL_cons', sizeL_nil', propNode, schemaName, symName, size_nd, size_lf] at hG
    obtain ⟨G', rfl⟩ : ∃ G', G = G' + 1 := ⟨G - 1, by omega⟩
    have ih := yield_propKids a G' hw.2 (by omega)
    simp [eExpr, propKids, ih, propNode, schemaName, symName, escapeKeyTok_simple k hw.1]
  | .var s, G, hw, hG => yield_base recT recW Hrec _ G (by simpa [wProps] using hw) (by simpa [propKids] using hG) |>.trans (by simp [propKids])
  | .param s, G, hw, hG => yield_base recT recW Hrec _ G (by simpa [wProps] using hw) (by simpa [propKids] using hG) |>.trans (by simp [propKids])
  | .lit v, G, hw, hG => yield_base recT recW Hrec _ G (by simpa [wProps] using hw) (by simpa [propKids] using hG) |>.trans (by simp [propKids])
  | .list es, G, hw, hG => yield_base recT recW Hrec _ G (by simpa [wProps] using hw) (by simpa [propKids] using hG) |>.trans (by simp [propKids])
  | .paren x, G, hw, hG => yield_base recT recW Hrec _ G (by simpa [wProps] using hw) (by simpa [propKids] using hG) |>.trans (by simp [propKids])
  | .fn d ns n args, G, hw, hG => yield_base recT recW Hrec _ G (by simpa [wProps] using hw) (by simpa [propKids] using hG) |>.trans (by simp [propKids])
  | .kindMatcher _ _, _, hw, _ => by simp [wProps, isCountStar, wAtom] at hw
  | .star, _, hw, _ => by simp [wProps, isCountStar, wAtom] at hw
  | .neg _, _, hw, _ => by simp [wProps, isCountStar, wAtom] at hw
  | .conj _, _, hw, _ => by simp [wProps, isCountStar, wAtom] at hw
  | .disj _, _, hw, _ => by simp [wProps, isCountStar, wAtom] at hw
  | .xdisj _, _, hw, _ => by simp [wProps, isCountStar, wAtom] at hw
  | .cmp _ _, _, hw, _ => by simp [wProps, isCountStar, wAtom] at hw
  | .arith _ _, _, hw, _ => by simp [wProps, isCountStar, wAtom] at hw
  | .unary _ _, _, hw, _ => by simp [wProps, isCountStar, wAtom] at hw
  | .map kvs, G, hw, hG => yield_base recT recW Hrec _ G (by simpa [wProps] using hw) (by simpa [propKids] using hG) |>.trans (by simp [propKids])
  | .quant ty v c w, G, hw, hG => yield_base recT recW Hrec _ G (by simpa [wProps] using hw) (by simpa [propKids] using hG) |>.trans (by simp [propKids])
  | .patPred _, _, hw, _ => by simp [wProps, isCountStar, wAtom] at hw
  | .nil, _, hw, _ => by simp [wProps, isCountStar, wAtom] at hw

theorem yield_labelsNode (ls : List String) : yieldT (labelsNode N ls) = (ls.map (fun k => [":", k])).flatten := by
  simp only [labelsNode, yieldT_nd]
  induction ls with
  | nil => simp
  | cons l ls ih =>
    simp only [List.map_cons, yieldL_cons, ih]
    simp [schemaName, symName]

def YOK (sub : Expr → Tree) (wsub : Expr → Bool) : Prop :=
  ∀ x G, wsub x = true → size (sub x) ≤ G → eExpr G x = yieldT (sub x)

theorem yok_nonArith : YOK (tNonArith N recT) (wNonArith recW) := by
  intro e G hw hG
  by_cases hkm : ∃ a ls, e = .kindMatcher a ls
  · obtain ⟨a, ls, rfl⟩ := hkm
    simp only [wNonArith, Bool.and_eq_true] at hw
    simp only [tNonArith, size_nd, sizeL_append, sizeL_cons', sizeL_nil'] at hG
    obtain ⟨G', rfl⟩ : ∃ G', G = G' + 1 := ⟨G - 1, by omega⟩
    have ih := yield_propKids recT recW Hrec a G' hw.2 (by omega)
    have hne : ls.isEmpty = false := by simpa using hw.1
    simp [eExpr, tNonArith, hne, ih, yield_labelsNode recT recW Hrec]
  · have ht : tNonArith N recT e = N.nd "oC_NonArithmeticOperatorExpression" (propKids N recT e) := by
      cases e <;> first | rfl | exact absurd ⟨_, _, rfl⟩ hkm
    have hw' : wProps recW e = true := by
      cases e <;> first | exact hw | exact absurd ⟨_, _, rfl⟩ hkm
    rw [ht] at hG ⊢
    simp only [size_nd] at hG
    simp only [yieldT_nd]
    exact yield_propKids recT recW Hrec e G hw' (by omega)

theorem yok_unary : YOK (tUnary N recT) (wUnary recW) := by
  intro e G hw hG
  unfold tUnary at hG ⊢
  unfold wUnary at hw
  split at hG
  · rename_i op x
    simp only [Bool.and_eq_true] at hw
    simp only [size_nd, sizeL_cons', size_lf, sizeL_nil'] at hG
    obtain ⟨G', rfl⟩ : ∃ G', G = G' + 2 := ⟨G - 2, by omega⟩
    have := yok_nonArith recT recW Hrec x G' hw.2 (by omega)
    simp [eExpr, this]
  · rename_i hne
    have hw' : wNonArith recW e = true := by
      split at hw
      · rename_i op x; exact absurd rfl (hne op x)
      · exact hw
    simp only [size_nd, sizeL_cons', sizeL_nil'] at hG
    simp only [yieldT_nd, yieldL_cons, yieldL_nil, List.append_nil]
    exact yok_nonArith recT recW Hrec e G hw' (by omega)

end Y

/-- one level of the arithmetic tower -/
theorem yok_level {N : Names} (rule : String) (own : String → Bool) (sub : Expr → Tree) (wsub : Expr → Bool) (H : YOK sub wsub) :
    YOK (tLevel N rule own sub) (wLevel own wsub) := by
  intro e G hw hG
  unfold tLevel at hG ⊢
  unfold wLevel at hw
  split at hG
  · rename_i l op r ps
    by_cases ho : own op = true
    · simp only [ho, if_true, Bool.and_eq_true, List.all_eq_true] at hw hG ⊢
      simp only [opKids, size_nd, sizeL_cons'] at hG
      obtain ⟨G', rfl⟩ : ∃ G', G = G' + 1 := ⟨G - 1, by omega⟩
      have hl := H l G' hw.2 (by omega)
      have hps : ∀ p ∈ ((op, r) :: ps), eExpr G' p.2 = yieldT (sub p.2) := by
        intro p hp
        have hsz := sizeL_opKids_mem N sub ((op, r) :: ps) p hp
        exact H p.2 G' (hw.1 p hp).2 (by omega)
      have he : eExpr (G' + 1) (.arith l ((op, r) :: ps)) =
          eExpr G' l ++ (((op, r) :: ps).map (fun p => p.1 :: eExpr G' p.2)).flatten := by
        rw [eExpr]
      have hm : ((op, r) :: ps).map (fun p => p.1 :: eExpr G' p.2) =
          ((op, r) :: ps).map (fun x => yieldL [N.lf (opTok x.1) x.1, sub x.2]) := by
        apply List.map_congr_left
        intro p hp
        simp [hps p hp]
      rw [he, hl, hm]
      simp only [opKids, yieldT_nd, yieldL_cons, yieldL_flatten_map]
    · simp only [ho, Bool.false_eq_true, if_false] at hw hG ⊢
      simp only [size_nd, sizeL_cons', sizeL_nil'] at hG
      simp only [yieldT_nd, yieldL_cons, yieldL_nil, List.append_nil]
      exact H _ G hw (by omega)
  · rename_i hne
    have hw' : wsub e = true := by
      split at hw
      · rename_i l op r ps; exact absurd rfl (hne l op r ps)
      · exact hw
    simp only [size_nd, sizeL_cons', sizeL_nil'] at hG
    simp only [yieldT_nd, yieldL_cons, yieldL_nil, List.append_nil]
    exact H e G hw' (by omega)

theorem yok_add {N : Names} (recT : Expr → Tree) (recW : Expr → Bool) (Hrec : EmitOK N recT recW) :
    YOK (tAdd N recT) (wAdd recW) :=
  yok_level _ _ _ _ (yok_level _ _ _ _ (yok_level _ _ _ _ (yok_unary recT recW Hrec)))

end Dawgs.C07
