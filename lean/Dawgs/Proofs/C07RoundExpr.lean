import Dawgs.Proofs.C07Leaf
import Dawgs.Proofs.C08
set_option linter.unusedSimpArgs false
set_option linter.unusedVariables false
set_option linter.unusedSectionVars false
/-! `build ∘ treeOf = id` on the expression layer: atoms. -/
namespace Dawgs.C07
open Dawgs.Grammar Dawgs.C08

/-- the standard simplification set: tree access helpers of `build`, name/token resolution under `hN : N.ok = true` -/
macro "bsimp" "[" ts:Lean.Parser.Tactic.simpLemma,* "]" : tactic =>
  `(tactic| simp (config := { decide := true }) [onlyKid, ruleKids, kidOfRule, kidsOfRule, hasTok, countTok, litTokens, List.filter, List.filterMap,
      List.filter_append, List.any_append, rn $(Lean.mkIdent `hN), isRuleKid_nd $(Lean.mkIdent `hN), isTokLeaf_lf $(Lean.mkIdent `hN), $ts,*])

macro "bsimp_at" h:ident "[" ts:Lean.Parser.Tactic.simpLemma,* "]" : tactic =>
  `(tactic| simp (config := { decide := true }) [onlyKid, ruleKids, kidOfRule, kidsOfRule, hasTok, countTok, litTokens, List.filter, List.filterMap,
      List.filter_append, List.any_append, rn $(Lean.mkIdent `hN), isRuleKid_nd $(Lean.mkIdent `hN), isTokLeaf_lf $(Lean.mkIdent `hN), $ts,*] at $h:ident)

/-! ### sizes -/
@[simp] theorem size_nd (N : Names) (r : String) (ks : List Tree) : size (N.nd r ks) = 1 + sizeL ks := by simp [Names.nd, size]
@[simp] theorem size_lf (N : Names) (t s : String) : size (N.lf t s) = 1 := by simp [Names.lf, size]
@[simp] theorem sizeL_nil' : sizeL [] = 0 := by simp [sizeL]
@[simp] theorem sizeL_cons' (t : Tree) (ts : List Tree) : sizeL (t :: ts) = size t + sizeL ts := by simp [sizeL]
@[simp] theorem sizeL_append (xs ys : List Tree) : sizeL (xs ++ ys) = sizeL xs + sizeL ys := by
  induction xs with
  | nil => simp
  | cons x xs ih => simp [ih]; omega

theorem size_le_sizeL {t : Tree} {ts : List Tree} (h : t ∈ ts) : size t ≤ sizeL ts := by
  induction ts with
  | nil => cases h
  | cons x xs ih =>
    rcases List.mem_cons.1 h with h | h
    · subst h; simp
    · have := ih h; simp; omega

theorem sizeL_le_interleave (sep : Tree) : ∀ xs : List Tree, sizeL xs ≤ sizeL (interleave sep xs)
  | [] => by simp [interleave]
  | [x] => by simp [interleave]
  | x :: y :: rest => by
    have := sizeL_le_interleave sep (y :: rest)
    simp [interleave] at *; omega

theorem any_interleave_false (p : Tree → Bool) (sep : Tree) (hs : p sep = false) :
    ∀ xs : List Tree, (∀ x ∈ xs, p x = false) → (interleave sep xs).any p = false
  | [], _ => by simp [interleave]
  | [x], h => by simp [interleave, h x (by simp)]
  | x :: y :: rest, h => by
    have ih := any_interleave_false p sep hs (y :: rest) (fun z hz => h z (by simp [hz]))
    simp only [interleave, List.any_cons, h x (by simp), hs, ih, Bool.or_self]

theorem any_interleave_true (p : Tree → Bool) (sep : Tree) (hs : p sep = true) :
    ∀ xs : List Tree, 2 ≤ xs.length → (interleave sep xs).any p = true
  | [], h => by simp at h
  | [x], h => by simp at h
  | x :: y :: rest, _ => by simp [interleave, hs]

theorem filterMap_interleave_none (f : Tree → Option String) (sep : Tree) (hs : f sep = none) :
    ∀ xs : List Tree, (∀ x ∈ xs, f x = none) → (interleave sep xs).filterMap f = []
  | [], _ => by simp [interleave]
  | [x], h => by simp [interleave, h x (by simp)]
  | x :: y :: rest, h => by
    have ih := filterMap_interleave_none f sep hs (y :: rest) (fun z hz => h z (by simp [hz]))
    simp [interleave, List.filterMap_cons, h x (by simp), hs, ih]

/-! ### mapM' -/
theorem mapM'_ok {α β} (f : α → R β) (g : α → β) : ∀ (as : List α), (∀ a ∈ as, f a = .ok (g a)) → mapM' f as = .ok (as.map g)
  | [], _ => rfl
  | a :: as, h => by
    simp [mapM', h a (by simp), mapM'_ok f g as (fun x hx => h x (by simp [hx]))]

theorem mapM'_map_id {α} (f : Tree → R α) (t : α → Tree) : ∀ (as : List α), (∀ a ∈ as, f (t a) = .ok a) → mapM' f (as.map t) = .ok as
  | [], _ => rfl
  | a :: as, h => by
    simp [mapM', h a (by simp), mapM'_map_id f t as (fun x hx => h x (by simp [hx]))]

/-! ### text of the small name subtrees -/
section Names
variable {N : Names} (hN : N.ok = true)
include hN

theorem getText_lf (g : Nat) (t s : String) : getText (g + 1) (N.lf t s) = s := by simp [getText, Names.lf]

theorem getText_symName (g : Nat) (s : String) : getText (g + 2) (symName N s) = s := by
  simp [symName, Names.nd, getText, Names.lf, String.join]

theorem getText_schemaName (g : Nat) (r s : String) : getText (g + 4) (schemaName N r s) = s := by
  simp [schemaName, symName, Names.nd, getText, Names.lf, String.join]

/-- kids of one rule among interleaved same-rule nodes separated by a leaf -/
theorem kidsOfRule_interleave {r : String} (hr : r ∈ usedRules) (sep : Tree) (hsep : sep.rootRule = none) :
    ∀ (xs : List Tree), (∀ x ∈ xs, ∃ ks, x = N.nd r ks) →
      (interleave sep xs).filter (isRuleKid N r) = xs
  | [], _ => by simp [interleave]
  | [x], h => by
    obtain ⟨ks, rfl⟩ := h x (by simp)
    simp [interleave, List.filter, isRuleKid, ok_rule hN hr]
  | x :: y :: rest, h => by
    obtain ⟨ks, rfl⟩ := h x (by simp)
    have ih := kidsOfRule_interleave hr sep hsep (y :: rest) (fun z hz => h z (by simp [hz]))
    have h1 : isRuleKid N r (N.nd r ks) = true := by simp [isRuleKid, ok_rule hN hr]
    have h2 : isRuleKid N r sep = false := by simp [isRuleKid, hsep]
    simp only [interleave, List.filter_cons, h1, h2, if_true, Bool.false_eq_true, if_false]
    rw [ih]

end Names
end Dawgs.C07

namespace Dawgs.C07
open Dawgs.Grammar Dawgs.C08

theorem mapInsert_append (acc : List (String × Expr)) (k : String) (v : Expr) (h : ∀ p ∈ acc, p.1 < k) :
    mapInsert acc k v = acc ++ [(k, v)] := by
  unfold mapInsert
  have hf : acc.filter (fun p => p.1 != k) = acc := by
    apply List.filter_eq_self.2
    intro p hp
    have := h p hp
    simp only [bne_iff_ne, ne_eq]
    intro he; rw [he] at this; exact absurd this (String.lt_irrefl k)
  have h1 : acc.filter (fun p => decide (p.1 < k)) = acc := List.filter_eq_self.2 (fun p hp => by simpa using h p hp)
  have h2 : acc.filter (not ∘ fun p => decide (p.1 < k)) = [] := List.filter_eq_nil_iff.2 (fun p hp => by simpa using h p hp)
  rw [hf]
  simp only [List.partition_eq_filter_filter, h1, h2]
  simp

theorem foldl_mapInsert_sorted : ∀ (kvs acc : List (String × Expr)),
    (∀ p ∈ acc, ∀ q ∈ kvs, p.1 < q.1) → pairwiseLt (kvs.map (·.1)) = true →
    kvs.foldl (fun a p => mapInsert a p.1 p.2) acc = acc ++ kvs
  | [], acc, _, _ => by simp
  | q :: qs, acc, hlt, hs => by
    simp only [List.map_cons, pairwiseLt, Bool.and_eq_true, List.all_eq_true, decide_eq_true_eq] at hs
    rw [List.foldl_cons, mapInsert_append acc q.1 q.2 (fun p hp => hlt p hp q (by simp))]
    rw [foldl_mapInsert_sorted qs (acc ++ [(q.1, q.2)]) _ hs.2]
    · simp
    · intro p hp r hr
      rcases List.mem_append.1 hp with h | h
      · exact hlt p h r (by simp [hr])
      · simp at h; subst h
        exact hs.1 r.1 (List.mem_map_of_mem hr)

theorem zip_fst_snd' {α β} : ∀ (ps : List (α × β)), (ps.map (·.1)).zip (ps.map (·.2)) = ps
  | [] => rfl
  | p :: ps => by simp [zip_fst_snd' ps]

theorem unescapeKey_simple' (k : String) (h : simpleKey k = true) : unescapeKey k = k := by
  unfold simpleKey at h
  cases hk : k.toList with
  | nil => simp [hk] at h
  | cons c cs =>
    simp only [hk, Bool.and_eq_true, Bool.or_eq_true] at h
    have hc : c ≠ '`' := by
      intro hc; subst hc
      rcases h.1 with h1 | h1 <;> simp (config := { decide := true }) at h1
    unfold unescapeKey
    simp [hk, hc]

theorem sizeL_joinGroups_ge (sep : Tree) : ∀ gs : List (List Tree), sizeL gs.flatten ≤ sizeL (joinGroups sep gs)
  | [] => by simp [joinGroups]
  | [g] => by simp [joinGroups]
  | g :: h :: rest => by
    have := sizeL_joinGroups_ge sep (h :: rest)
    simp [joinGroups] at *; omega

/-- hypothesis on nested full expressions (smaller nesting depth) -/
def RecOK (N : Names) (recT : Expr → Tree) (recW : Expr → Bool) : Prop :=
  ∀ e g, recW e = true → 2 * size (recT e) + 2 ≤ g → bExpr N g (recT e) = .ok e

section Atoms
variable {N : Names} (hN : N.ok = true) (recT : Expr → Tree) (recW : Expr → Bool) (Hrec : RecOK N recT recW)
include hN Hrec

/-- an embedded `oC_Expression [recT e]` -/
theorem bExpr_exprNode (e : Expr) (g : Nat) (hw : recW e = true) (hg : 2 * size (exprNode N (recT e)) + 2 ≤ g) :
    bExpr N g (exprNode N (recT e)) = .ok e := by
  simp [exprNode] at hg
  obtain ⟨g', rfl⟩ : ∃ g', g = g' + 1 := ⟨g - 1, by omega⟩
  have hk := Hrec e g' hw (by omega)
  cases hr : recT e with
  | node r ks =>
    rw [hr] at hk
    simp (config := { decide := true }) [exprNode, bExpr, rn hN, onlyKid, ruleKids, List.filter, hr, isNode, Tree.rootRule, hk]
  | leaf s => rw [hr] at hk; cases g' <;> simp [bExpr, un, ruleNameOf, Tree.rootRule] at hk
  | err s => rw [hr] at hk; cases g' <;> simp [bExpr, un, ruleNameOf, Tree.rootRule] at hk

theorem mapM_exprNodes (es : List Expr) (g : Nat) (hw : es.all recW = true)
    (hg : 2 * sizeL (es.map (fun e => exprNode N (recT e))) + 2 ≤ g) :
    mapM' (bExpr N g) (es.map (fun e => exprNode N (recT e))) = .ok es := by
  apply mapM'_map_id
  intro e he
  apply bExpr_exprNode hN recT recW Hrec e g ((List.all_eq_true.1 hw) e he)
  have := size_le_sizeL (List.mem_map_of_mem (f := fun e => exprNode N (recT e)) he)
  omega

theorem filter_exprNodes (sep : Tree) (hsep : sep.rootRule = none) (es : List Expr) :
    (interleave sep (es.map (fun e => exprNode N (recT e)))).filter (isRuleKid N "oC_Expression") =
    es.map (fun e => exprNode N (recT e)) := by
  apply kidsOfRule_interleave hN (by decide) sep hsep
  intro x hx
  obtain ⟨e, _, rfl⟩ := List.mem_map.1 hx
  exact ⟨_, rfl⟩

/-- one rule's kids among the `key : value` groups of a map literal -/
theorem filter_mapEntries (sep : Tree) (hsep : sep.rootRule = none) (rule : String) (pick : String × Expr → Tree)
    (hpick : ∀ p, (mapEntry N recT p).filter (isRuleKid N rule) = [pick p]) :
    ∀ kvs : List (String × Expr), (joinGroups sep (kvs.map (mapEntry N recT))).filter (isRuleKid N rule) = kvs.map pick
  | [] => by simp [joinGroups]
  | [p] => by simp [joinGroups, hpick p]
  | p :: q :: rest => by
    have ih := filter_mapEntries sep hsep rule pick hpick (q :: rest)
    have hs : isRuleKid N rule sep = false := by simp [isRuleKid, hsep]
    simp only [List.map_cons, joinGroups, List.filter_append, List.filter_cons, hs, hpick p] at ih ⊢
    simp [ih]

theorem bMap_tMap (kvs : List (String × Expr)) (g : Nat) (hw : wMap recW kvs = true) (hg : 2 * size (tMap N recT kvs) + 2 ≤ g) :
    bMap N g (tMap N recT kvs) = .ok (.map kvs) := by
  simp only [wMap, Bool.and_eq_true, List.all_eq_true] at hw
  simp only [tMap, size_nd, sizeL_append, sizeL_cons', size_lf, sizeL_nil'] at hg
  obtain ⟨g', rfl⟩ : ∃ g', g = g' + 5 := ⟨g - 5, by omega⟩
  have hk := filter_mapEntries hN recT recW Hrec (N.lf "T__6" ",") rfl "oC_PropertyKeyName" (fun p => schemaName N "oC_PropertyKeyName" p.1)
    (by intro p; bsimp [mapEntry, schemaName, exprNode]) kvs
  have he := filter_mapEntries hN recT recW Hrec (N.lf "T__6" ",") rfl "oC_Expression" (fun p => exprNode N (recT p.2))
    (by intro p; bsimp [mapEntry, schemaName, exprNode]) kvs
  have hsz := sizeL_joinGroups_ge (N.lf "T__6" ",") (kvs.map (mapEntry N recT))
  have hszE : sizeL (kvs.map (fun p => exprNode N (recT p.2))) ≤ sizeL ((kvs.map (mapEntry N recT)).flatten) := by
    clear hw hg hk he hsz
    induction kvs with
    | nil => simp
    | cons p ps ih => simp [mapEntry] at ih ⊢; omega
  have hm : mapM' (bExpr N (g' + 4)) (kvs.map (fun p => exprNode N (recT p.2))) = .ok (kvs.map (·.2)) := by
    have := mapM_exprNodes hN recT recW Hrec (kvs.map (·.2)) (g' + 4)
      (by simp only [List.all_map, List.all_eq_true]; intro p hp; exact (hw.1 p hp).2)
      (by rw [List.map_map]; exact (by omega : 2 * sizeL (kvs.map (fun p => exprNode N (recT p.2))) + 2 ≤ g' + 4))
    rw [List.map_map] at this
    exact this
  have hkeys : (kvs.map (fun p => schemaName N "oC_PropertyKeyName" p.1)).map (fun k => unescapeKey (getText (g' + 4 + 1) k)) = kvs.map (·.1) := by
    rw [List.map_map]
    apply List.map_congr_left
    intro p hp
    have hs : simpleKey p.1 = true := (hw.1 p hp).1
    simp [Function.comp, getText_schemaName hN (g' + 1), unescapeKey_simple' p.1 hs]
  rw [show g' + 5 = (g' + 4) + 1 from rfl, bMap]
  simp only [kidsOfRule, tMap, kids_nd, List.filter_append, hk, he]
  bsimp [hm, hkeys, zip_fst_snd']
  exact foldl_mapInsert_sorted kvs [] (by simp) hw.2

theorem bAtom_tAtom (e : Expr) (g : Nat) (hw : wAtom recW e = true) (hg : 2 * size (tAtom N recT e) + 2 ≤ g) :
    bAtom N g (tAtom N recT e) = .ok e := by
  cases e with
  | var s =>
    simp [tAtom, tAtomInner, symName] at hg
    obtain ⟨g', rfl⟩ : ∃ g', g = g' + 4 := ⟨g - 4, by omega⟩
    bsimp [bAtom, tAtom, tAtomInner]
    simp [Names.nd, getText, symName, Names.lf, String.join]
  | param s =>
    simp [tAtom, tAtomInner, symName] at hg
    obtain ⟨g', rfl⟩ : ∃ g', g = g' + 4 := ⟨g - 4, by omega⟩
    bsimp [bAtom, tAtom, tAtomInner, symName]
    simp [Names.nd, getText, String.join, Names.lf]
  | lit v =>
    cases v with
    | null =>
      simp [tAtom, tAtomInner] at hg
      obtain ⟨g', rfl⟩ : ∃ g', g = g' + 4 := ⟨g - 4, by omega⟩
      bsimp [bAtom, bLiteral, tAtom, tAtomInner]
    | str q =>
      simp [tAtom, tAtomInner] at hg
      obtain ⟨g', rfl⟩ : ∃ g', g = g' + 4 := ⟨g - 4, by omega⟩
      bsimp [bAtom, bLiteral, tAtom, tAtomInner]
      simp [Names.nd, getText, String.join, Names.lf]
    | bool b =>
      simp [tAtom, tAtomInner] at hg
      obtain ⟨g', rfl⟩ : ∃ g', g = g' + 5 := ⟨g - 5, by omega⟩
      bsimp [bAtom, bLiteral, tAtom, tAtomInner]
      cases b <;> simp (config := { decide := true }) [Names.nd, Names.lf, getText, String.join, parseBool]
    | int v =>
      simp [wAtom] at hw
      simp [tAtom, tAtomInner] at hg
      obtain ⟨g', rfl⟩ : ∃ g', g = g' + 6 := ⟨g - 6, by omega⟩
      have hp := parseInt64_toString v.toNat (by rw [Int.toNat_of_nonneg hw.1]; exact hw.2)
      rw [Int.toNat_of_nonneg hw.1] at hp
      have hp' : parseInt64 v.toNat.repr = some v := hp
      bsimp [bAtom, bLiteral, tAtom, tAtomInner]
      simp [Names.nd, Names.lf, getText, String.join, hp']
    | float t =>
      simp [tAtom, tAtomInner] at hg
      obtain ⟨g', rfl⟩ : ∃ g', g = g' + 6 := ⟨g - 6, by omega⟩
      bsimp [bAtom, bLiteral, tAtom, tAtomInner]
      simp only [wAtom, Bool.and_eq_true, Bool.not_eq_true'] at hw
      simp [Names.nd, Names.lf, getText, String.join, hw.2]
  | list es =>
    simp only [wAtom] at hw
    simp [tAtom, tAtomInner] at hg
    obtain ⟨g', rfl⟩ : ∃ g', g = g' + 3 := ⟨g - 3, by omega⟩
    have hsz := sizeL_le_interleave (N.lf "T__6" ",") (es.map (fun e => exprNode N (recT e)))
    have hm := mapM_exprNodes hN recT recW Hrec es (g' + 1) hw (by omega)
    have hf := filter_exprNodes hN recT recW Hrec (N.lf "T__6" ",") rfl es
    bsimp [bAtom, bLiteral, tAtom, tAtomInner, hf, hm]
    rfl
  | map kvs =>
    simp only [wAtom] at hw
    simp only [tAtom, tAtomInner, size_nd, sizeL_cons', sizeL_nil'] at hg
    obtain ⟨g', rfl⟩ : ∃ g', g = g' + 2 := ⟨g - 2, by omega⟩
    have hm := bMap_tMap hN recT recW Hrec kvs g' hw (by omega)
    have hmn : ∃ ks, tMap N recT kvs = N.nd "oC_MapLiteral" ks := ⟨_, rfl⟩
    obtain ⟨ks, hks⟩ := hmn
    rw [hks] at hm
    bsimp [bAtom, bLiteral, tAtom, tAtomInner, hks, hm]
  | paren x =>
    simp only [wAtom] at hw
    simp [tAtom, tAtomInner] at hg
    obtain ⟨g', rfl⟩ : ∃ g', g = g' + 2 := ⟨g - 2, by omega⟩
    have hx := bExpr_exprNode hN recT recW Hrec x (g' + 1) hw (by omega)
    bsimp [bAtom, tAtom, tAtomInner, exprNode]
    simp only [exprNode] at hx
    simp [hx, Except.map]
  | fn d ns name args =>
    simp only [wAtom, Bool.and_eq_true] at hw
    have hns : ns = [] := by simpa using hw.1
    subst hns
    have hsz := sizeL_le_interleave (N.lf "T__6" ",") (args.map (fun e => exprNode N (recT e)))
    have hf := filter_exprNodes hN recT recW Hrec (N.lf "T__6" ",") rfl args
    cases d
    · simp [tAtom, tAtomInner, symName] at hg
      obtain ⟨g', rfl⟩ : ∃ g', g = g' + 5 := ⟨g - 5, by omega⟩
      have hm := mapM_exprNodes hN recT recW Hrec args (g' + 4) hw.2 (by omega)
      have hany : (interleave (N.lf "T__6" ",") (args.map (fun e => exprNode N (recT e)))).any (isTokLeaf N "DISTINCT") = false := by
        apply any_interleave_false
        · rw [isTokLeaf_lf hN]; simp (config := { decide := true })
        · intro x hx; obtain ⟨e, _, rfl⟩ := List.mem_map.1 hx; rfl
      bsimp [bAtom, tAtom, tAtomInner, symName, hf, hm, hany]
      simp [Except.map, Names.nd, getText, String.join, Names.lf]
    · simp [tAtom, tAtomInner, symName] at hg
      obtain ⟨g', rfl⟩ : ∃ g', g = g' + 5 := ⟨g - 5, by omega⟩
      have hm := mapM_exprNodes hN recT recW Hrec args (g' + 4) hw.2 (by omega)
      have hany : (interleave (N.lf "T__6" ",") (args.map (fun e => exprNode N (recT e)))).any (isTokLeaf N "DISTINCT") = false := by
        apply any_interleave_false
        · rw [isTokLeaf_lf hN]; simp (config := { decide := true })
        · intro x hx; obtain ⟨e, _, rfl⟩ := List.mem_map.1 hx; rfl
      bsimp [bAtom, tAtom, tAtomInner, symName, hf, hm, hany]
      simp [Except.map, Names.nd, getText, String.join, Names.lf]
  | quant ty v c w =>
    simp only [wAtom, Bool.and_eq_true, Bool.or_eq_true, beq_iff_eq] at hw
    obtain ⟨⟨hty, hc⟩, hwh⟩ := hw
    have hsz : 2 * (9 + size (exprNode N (recT c)) + sizeL (optList w (whereNode N recT))) + 2 ≤ g := by
      simp [tAtom, tAtomInner, varNode, symName] at hg ⊢; omega
    obtain ⟨g', rfl⟩ : ∃ g', g = g' + 5 := ⟨g - 5, by omega⟩
    have hce := bExpr_exprNode hN recT recW Hrec c (g' + 4) hc (by omega)
    simp only [exprNode] at hce
    have hv : getText (g' + 4 + 1) (N.nd "oC_Variable" [symName N v]) = v := by
      simp [symName, Names.nd, getText, Names.lf, String.join]
    cases w with
    | none =>
      rcases hty with ((rfl | rfl) | rfl) | rfl <;>
        (bsimp [bAtom, tAtom, tAtomInner, quantTok, optList, varNode, exprNode, hce]; simp [hv])
    | some x =>
      have hxe := bExpr_exprNode hN recT recW Hrec x (g' + 4) hwh (by simp [optList, whereNode] at hsz ⊢; omega)
      simp only [exprNode] at hxe
      rcases hty with ((rfl | rfl) | rfl) | rfl <;>
        (bsimp [bAtom, tAtom, tAtomInner, quantTok, optList, whereNode, varNode, exprNode, hce, hxe, Except.map]; simp [hv])
  | _ => simp [wAtom] at hw

end Atoms
end Dawgs.C07
