import Dawgs.Proofs.C07Leaf
import Dawgs.Proofs.C08
set_option linter.unusedSimpArgs false
set_option linter.unusedVariables false
set_option linter.unusedSectionVars false
/-! `build ∘ treeOf = id` on the expression layer: atoms. -/
namespace Dawgs.C07
open Dawgs.Grammar Dawgs.C08

/-- the standard simplification set: tree access helpers of `build`, name/token resolution under `hN : N.ok = true` -/
macro "bsimp" "[" ts:Lean.Parser.Tactic.simpLemma,* "]" : tactic =>
  `(tactic| simp (config := { decide := true }) [onlyKid, ruleKids, kidOfRule, kidsOfRule, hasTok, countTok, litTokens, List.filter, List.filterMap,
      List.filter_append, List.any_append, rn $(Lean.mkIdent `hN), isRuleKid_nd $(Lean.mkIdent `hN), isTokLeaf_lf $(Lean.mkIdent `hN), $ts,*])

macro "bsimp_at" h:ident "[" ts:Lean.Parser.Tactic.simpLemma,* "]" : tactic =>
  `(tactic| simp (config := { decide := true }) [onlyKid, ruleKids, kidOfRule, kidsOfRule, hasTok, countTok, litTokens, List.filter, List.filterMap,
      List.filter_append, List.any_append, rn $(Lean.mkIdent `hN), isRuleKid_nd $(Lean.mkIdent `hN), isTokLeaf_lf $(Lean.mkIdent `hN), $ts,*] at $h:ident)

/-! ### sizes -/
@[simp] theorem size_nd (N : Names) (r : String) (ks : List Tree) : size (N.nd r ks) = 1 + sizeL ks := by simp [Names.nd, size]
@[simp] theorem size_lf (N : Names) (t s : String) : size (N.lf t s) = 1 := by simp [Names.lf, size]
@[simp] theorem sizeL_nil' : sizeL [] = 0 := by simp [sizeL]
@[simp] theorem sizeL_cons' (t : Tree) (ts : List Tree) : sizeL (t :: ts) = size t + sizeL ts := by simp [sizeL]
@[simp] theorem sizeL_append (xs ys : List Tree) : sizeL (xs ++ ys) = sizeL xs + sizeL ys := by
  induction xs with
  | nil => simp
  | cons x xs ih => simp [ih]; omega

theorem size_le_sizeL {t : Tree} {ts : List Tree} (h : t ∈ ts) : size t ≤ sizeL ts := by
  induction ts with
  | nil => cases h
  | cons x xs ih =>
    rcases List.mem_cons.1 h with h | h
    · subst h; simp
    · have := ih h; simp; omega

theorem sizeL_le_interleave (sep : Tree) : ∀ xs : List Tree, sizeL xs ≤ sizeL (interleave sep xs)
  | [] => by simp [interleave]
  | [x] => by simp [interleave]
  | x :: y :: rest => by
    have := sizeL_le_interleave sep (y :: rest)
    simp [interleave] at *; omega

theorem any_interleave_false (p : Tree → Bool) (sep : Tree) (hs : p sep = false) :
    ∀ xs : List Tree, (∀ x ∈ xs, p x = false) → (interleave sep xs).any p = false
  | [], _ => by simp [interleave]
  | [x], h => by simp [interleave, h x (by simp)]
  | x :: y :: rest, h => by
    have ih := any_interleave_false p sep hs (y :: rest) (fun z hz => h z (by simp [hz]))
    simp only [interleave, List.any_cons, h x (by simp), hs, ih, Bool.or_self]

theorem any_interleave_true (p : Tree → Bool) (sep : Tree) (hs : p sep = true) :
    ∀ xs : List Tree, 2 ≤ xs.length → (interleave sep xs).any p = true
  | [], h => by simp at h
  | [x], h => by simp at h
  | x :: y :: rest, _ => by simp [interleave, hs]

theorem filterMap_interleave_none (f : Tree → Option String) (sep : Tree) (hs : f sep = none) :
    ∀ xs : List Tree, (∀ x ∈ xs, f x = none) → (interleave sep xs).filterMap f = []
  | [], _ => by simp [interleave]
  | [x], h => by simp [interleave, h x (by simp)]
  | x :: y :: rest, h => by
    have ih := filterMap_interleave_none f sep hs (y :: rest) (fun z hz => h z (by simp [hz]))
    simp [interleave, List.filterMap_cons, h x (by simp), hs, ih]

/-! ### mapM' -/
theorem mapM'_ok {α β} (f : α → R β) (g : α → β) : ∀ (as : List α), (∀ a ∈ as, f a = .ok (g a)) → mapM' f as = .ok (as.map g)
  | [], _ => rfl
  | a :: as, h => by
    simp [mapM', h a (by simp), mapM'_ok f g as (fun x hx => h x (by simp [hx]))]

theorem mapM'_map_id {α} (f : Tree → R α) (t : α → Tree) : ∀ (as : List α), (∀ a ∈ as, f (t a) = .ok a) → mapM' f (as.map t) = .ok as
  | [], _ => rfl
  | a :: as, h => by
    simp [mapM', h a (by simp), mapM'_map_id f t as (fun x hx => h x (by simp [hx]))]

/-! ### text of the small name subtrees -/
section Names
variable {N : Names} (hN : N.ok = true)
include hN

theorem getText_lf (g : Nat) (t s : String) : getText (g + 1) (N.lf t s) = s := by simp [getText, Names.lf]

theorem getText_symName (g : Nat) (s : String) : getText (g + 2) (symName N s) = s := by
  simp [symName, Names.nd, getText, Names.lf, String.join]

theorem getText_schemaName (g : Nat) (r s : String) : getText (g + 4) (schemaName N r s) = s := by
  simp [schemaName, symName, Names.nd, getText, Names.lf, String.join]

/-- kids of one rule among interleaved same-rule nodes separated by a leaf -/
theorem kidsOfRule_interleave {r : String} (hr : r ∈ usedRules) (sep : Tree) (hsep : sep.rootRule = none) :
    ∀ (xs : List Tree), (∀ x ∈ xs, ∃ ks, x = N.nd r ks) →
      (interleave sep xs).filter (isRuleKid N r) = xs
  | [], _ => by simp [interleave]
  | [x], h => by
    obtain ⟨ks, rfl⟩ := h x (by simp)
    simp [interleave, List.filter, isRuleKid, ok_rule hN hr]
  | x :: y :: rest, h => by
    obtain ⟨ks, rfl⟩ := h x (by simp)
    have ih := kidsOfRule_interleave hr sep hsep (y :: rest) (fun z hz => h z (by simp [hz]))
    have h1 : isRuleKid N r (N.nd r ks) = true := by simp [isRuleKid, ok_rule hN hr]
    have h2 : isRuleKid N r sep = false := by simp [isRuleKid, hsep]
    simp only [interleave, List.filter_cons, h1, h2, if_true, Bool.false_eq_true, if_false]
    rw [ih]

end Names
end Dawgs.C07

namespace Dawgs.C07
open Dawgs.Grammar Dawgs.C08

/-- hypothesis on nested full expressions (smaller nesting depth) -/
def RecOK (N : Names) (recT : Expr → Tree) (recW : Expr → Bool) : Prop :=
  ∀ e g, recW e = true → 2 * size (recT e) + 2 ≤ g → bExpr N g (recT e) = .ok e

section Atoms
variable {N : Names} (hN : N.ok = true) (recT : Expr → Tree) (recW : Expr → Bool) (Hrec : RecOK N recT recW)
include hN Hrec

/-- an embedded `oC_Expression [recT e]` -/
theorem bExpr_exprNode (e : Expr) (g : Nat) (hw : recW e = true) (hg : 2 * size (exprNode N (recT e)) + 2 ≤ g) :
    bExpr N g (exprNode N (recT e)) = .ok e := by
  simp [exprNode] at hg
  obtain ⟨g', rfl⟩ : ∃ g', g = g' + 1 := ⟨g - 1, by omega⟩
  have hk := Hrec e g' hw (by omega)
  cases hr : recT e with
  | node r ks =>
    rw [hr] at hk
    simp (config := { decide := true }) [exprNode, bExpr, rn hN, onlyKid, ruleKids, List.filter, hr, isNode, Tree.rootRule, hk]
  | leaf s => rw [hr] at hk; cases g' <;> simp [bExpr, un, ruleNameOf, Tree.rootRule] at hk
  | err s => rw [hr] at hk; cases g' <;> simp [bExpr, un, ruleNameOf, Tree.rootRule] at hk

theorem mapM_exprNodes (es : List Expr) (g : Nat) (hw : es.all recW = true)
    (hg : 2 * sizeL (es.map (fun e => exprNode N (recT e))) + 2 ≤ g) :
    mapM' (bExpr N g) (es.map (fun e => exprNode N (recT e))) = .ok es := by
  apply mapM'_map_id
  intro e he
  apply bExpr_exprNode hN recT recW Hrec e g ((List.all_eq_true.1 hw) e he)
  have := size_le_sizeL (List.mem_map_of_mem (f := fun e => exprNode N (recT e)) he)
  omega

theorem filter_exprNodes (sep : Tree) (hsep : sep.rootRule = none) (es : List Expr) :
    (interleave sep (es.map (fun e => exprNode N (recT e)))).filter (isRuleKid N "oC_Expression") =
    es.map (fun e => exprNode N (recT e)) := by
  apply kidsOfRule_interleave hN (by decide) sep hsep
  intro x hx
  obtain ⟨e, _, rfl⟩ := List.mem_map.1 hx
  exact ⟨_, rfl⟩

theorem bAtom_tAtom (e : Expr) (g : Nat) (hw : wAtom recW e = true) (hg : 2 * size (tAtom N recT e) + 2 ≤ g) :
    bAtom N g (tAtom N recT e) = .ok e := by
  cases e with
  | var s =>
    simp [tAtom, tAtomInner, symName] at hg
    obtain ⟨g', rfl⟩ : ∃ g', g = g' + 4 := ⟨g - 4, by omega⟩
    bsimp [bAtom, tAtom, tAtomInner]
    simp [Names.nd, getText, symName, Names.lf, String.join]
  | param s =>
    simp [tAtom, tAtomInner, symName] at hg
    obtain ⟨g', rfl⟩ : ∃ g', g = g' + 4 := ⟨g - 4, by omega⟩
    bsimp [bAtom, tAtom, tAtomInner, symName]
    simp [Names.nd, getText, String.join, Names.lf]
  | lit v =>
    cases v with
    | null =>
      simp [tAtom, tAtomInner] at hg
      obtain ⟨g', rfl⟩ : ∃ g', g = g' + 4 := ⟨g - 4, by omega⟩
      bsimp [bAtom, bLiteral, tAtom, tAtomInner]
    | str q =>
      simp [tAtom, tAtomInner] at hg
      obtain ⟨g', rfl⟩ : ∃ g', g = g' + 4 := ⟨g - 4, by omega⟩
      bsimp [bAtom, bLiteral, tAtom, tAtomInner]
      simp [Names.nd, getText, String.join, Names.lf]
    | bool b =>
      simp [tAtom, tAtomInner] at hg
      obtain ⟨g', rfl⟩ : ∃ g', g = g' + 5 := ⟨g - 5, by omega⟩
      bsimp [bAtom, bLiteral, tAtom, tAtomInner]
      cases b <;> simp (config := { decide := true }) [Names.nd, Names.lf, getText, String.join, parseBool]
    | int v =>
      simp [wAtom] at hw
      simp [tAtom, tAtomInner] at hg
      obtain ⟨g', rfl⟩ : ∃ g', g = g' + 6 := ⟨g - 6, by omega⟩
      have hp := parseInt64_toString v.toNat (by rw [Int.toNat_of_nonneg hw.1]; exact hw.2)
      rw [Int.toNat_of_nonneg hw.1] at hp
      have hp' : parseInt64 v.toNat.repr = some v := hp
      bsimp [bAtom, bLiteral, tAtom, tAtomInner]
      simp [Names.nd, Names.lf, getText, String.join, hp']
    | float t =>
      simp [tAtom, tAtomInner] at hg
      obtain ⟨g', rfl⟩ : ∃ g', g = g' + 6 := ⟨g - 6, by omega⟩
      bsimp [bAtom, bLiteral, tAtom, tAtomInner]
      simp [Names.nd, Names.lf, getText, String.join]
  | list es =>
    simp only [wAtom] at hw
    simp [tAtom, tAtomInner] at hg
    obtain ⟨g', rfl⟩ : ∃ g', g = g' + 3 := ⟨g - 3, by omega⟩
    have hsz := sizeL_le_interleave (N.lf "T__6" ",") (es.map (fun e => exprNode N (recT e)))
    have hm := mapM_exprNodes hN recT recW Hrec es (g' + 1) hw (by omega)
    have hf := filter_exprNodes hN recT recW Hrec (N.lf "T__6" ",") rfl es
    bsimp [bAtom, bLiteral, tAtom, tAtomInner, hf, hm]
    rfl
  | paren x =>
    simp only [wAtom] at hw
    simp [tAtom, tAtomInner] at hg
    obtain ⟨g', rfl⟩ : ∃ g', g = g' + 2 := ⟨g - 2, by omega⟩
    have hx := bExpr_exprNode hN recT recW Hrec x (g' + 1) hw (by omega)
    bsimp [bAtom, tAtom, tAtomInner, exprNode]
    simp only [exprNode] at hx
    simp [hx, Except.map]
  | fn d ns name args =>
    simp only [wAtom, Bool.and_eq_true] at hw
    have hns : ns = [] := by simpa using hw.1
    subst hns
    have hsz := sizeL_le_interleave (N.lf "T__6" ",") (args.map (fun e => exprNode N (recT e)))
    have hf := filter_exprNodes hN recT recW Hrec (N.lf "T__6" ",") rfl args
    cases d
    · simp [tAtom, tAtomInner, symName] at hg
      obtain ⟨g', rfl⟩ : ∃ g', g = g' + 5 := ⟨g - 5, by omega⟩
      have hm := mapM_exprNodes hN recT recW Hrec args (g' + 4) hw.2 (by omega)
      have hany : (interleave (N.lf "T__6" ",") (args.map (fun e => exprNode N (recT e)))).any (isTokLeaf N "DISTINCT") = false := by
        apply any_interleave_false
        · rw [isTokLeaf_lf hN]; simp (config := { decide := true })
        · intro x hx; obtain ⟨e, _, rfl⟩ := List.mem_map.1 hx; rfl
      bsimp [bAtom, tAtom, tAtomInner, symName, hf, hm, hany]
      simp [Except.map, Names.nd, getText, String.join, Names.lf]
    · simp [tAtom, tAtomInner, symName] at hg
      obtain ⟨g', rfl⟩ : ∃ g', g = g' + 5 := ⟨g - 5, by omega⟩
      have hm := mapM_exprNodes hN recT recW Hrec args (g' + 4) hw.2 (by omega)
      have hany : (interleave (N.lf "T__6" ",") (args.map (fun e => exprNode N (recT e)))).any (isTokLeaf N "DISTINCT") = false := by
        apply any_interleave_false
        · rw [isTokLeaf_lf hN]; simp (config := { decide := true })
        · intro x hx; obtain ⟨e, _, rfl⟩ := List.mem_map.1 hx; rfl
      bsimp [bAtom, tAtom, tAtomInner, symName, hf, hm, hany]
      simp [Except.map, Names.nd, getText, String.join, Names.lf]
  | _ => simp [wAtom] at hw

end Atoms
end Dawgs.C07
