/- Helper lemmas for C19 (property statements live in Props/C19.lean). -/
import Dawgs.Model.C19
import Dawgs.Proofs.C18
set_option linter.unusedSimpArgs false
set_option linter.unusedVariables false
set_option linter.unusedSectionVars false
namespace Dawgs.C19
open Dawgs.C18

/-! ## File-system algebra (pointwise) -/

section FSSec
variable {P : Type}

theorem get_nil (q : FPath) : FS.get ([] : FS P) q = none := rfl

theorem get_cons (e : FPath × FData P) (fs : FS P) (q : FPath) :
    FS.get (e :: fs) q = if e.1 = q then some e.2 else FS.get fs q := by
  unfold FS.get
  rw [List.find?_cons]
  by_cases h : e.1 = q
  · simp [h]
  · have : (e.1 == q) = false := by simpa using h
    simp [this, h]

theorem get_remove (fs : FS P) (p q : FPath) : (fs.remove p).get q = if q = p then none else fs.get q := by
  induction fs with
  | nil => simp [FS.remove, FS.get]
  | cons e fs ih =>
    by_cases hp : e.1 = p
    · have : FS.remove (e :: fs) p = FS.remove fs p := by simp [FS.remove, hp]
      rw [this, ih, get_cons]
      by_cases hq : q = p
      · simp [hq]
      · have : e.1 ≠ q := by rw [hp]; exact fun h => hq h.symm
        simp [hq, this]
    · have : FS.remove (e :: fs) p = e :: FS.remove fs p := by simp [FS.remove, hp]
      rw [this, get_cons, get_cons, ih]
      by_cases hq : q = p
      · have : e.1 ≠ q := by rw [hq]; exact hp
        simp [hq, this, hp]
      · simp [hq]

theorem get_set (fs : FS P) (p q : FPath) (d : FData P) : (fs.set p d).get q = if q = p then some d else fs.get q := by
  unfold FS.set
  rw [get_cons, get_remove]
  by_cases h : q = p
  · simp [h]
  · have : p ≠ q := fun e => h e.symm
    simp [h, this]

theorem get_isSome_iff_mem (fs : FS P) (q : FPath) : fs.get q ≠ none ↔ ∃ d, (q, d) ∈ fs := by
  induction fs with
  | nil => simp [FS.get]
  | cons e fs ih =>
    rw [get_cons]
    by_cases h : e.1 = q
    · simp only [h, if_true, ne_eq, reduceCtorEq, not_false_eq_true, true_iff]
      exact ⟨e.2, by rw [← h]; exact List.mem_cons_self⟩
    · simp only [h, if_false]
      rw [ih]
      constructor
      · rintro ⟨d, hd⟩; exact ⟨d, List.mem_cons_of_mem _ hd⟩
      · rintro ⟨d, hd⟩
        rcases List.mem_cons.mp hd with h' | h'
        · exact absurd (by rw [← h']) h
        · exact ⟨d, h'⟩

/-- two directories with the same content at every path -/
def Equiv (a b : FS P) : Prop := ∀ q, a.get q = b.get q

theorem Equiv.refl (a : FS P) : Equiv a a := fun _ => rfl
theorem Equiv.symm {a b : FS P} (h : Equiv a b) : Equiv b a := fun q => (h q).symm
theorem Equiv.trans {a b c : FS P} (h1 : Equiv a b) (h2 : Equiv b c) : Equiv a c := fun q => (h1 q).trans (h2 q)

theorem applyOp_equiv {a b : FS P} (h : Equiv a b) (op : FsOp P) : Equiv (applyOp a op) (applyOp b op) := by
  intro q
  cases op with
  | mkdir => exact h q
  | touch => exact h q
  | close => exact h q
  | writeTmp p => simp only [applyOp, get_set, h q]
  | rename x y d => simp only [applyOp, get_set, get_remove, h q]
  | remove p => simp only [applyOp, get_remove, h q]

theorem applyOps_nil (fs : FS P) : applyOps [] fs = fs := rfl
theorem applyOps_cons (op : FsOp P) (ops : List (FsOp P)) (fs : FS P) :
    applyOps (op :: ops) fs = applyOps ops (applyOp fs op) := rfl
theorem applyOps_append (a b : List (FsOp P)) (fs : FS P) : applyOps (a ++ b) fs = applyOps b (applyOps a fs) := by
  unfold applyOps; rw [List.foldl_append]

theorem applyOps_equiv {a b : FS P} (h : Equiv a b) (ops : List (FsOp P)) : Equiv (applyOps ops a) (applyOps ops b) := by
  induction ops generalizing a b with
  | nil => exact h
  | cons op ops ih => exact ih (applyOp_equiv h op)

end FSSec

/-! ## Fuel: the measure decreases with every checkpoint version -/

section FuelSec
variable {P : Type}

theorem filter_length_lt {α : Type} (p p' : α → Bool) (l : List α) (x : α) (himp : ∀ y, p' y = true → p y = true)
    (hx : x ∈ l) (hpx : p x = true) (hpx' : p' x = false) : (l.filter p').length < (l.filter p).length := by
  induction l with
  | nil => simp at hx
  | cons a t ih =>
    have hle : (t.filter p').length ≤ (t.filter p).length := by
      clear ih hx
      induction t with
      | nil => simp
      | cons b u ihu =>
        simp only [List.filter_cons]
        by_cases hb' : p' b = true
        · simp [hb', himp b hb']; exact ihu
        · have : p' b = false := by simpa using hb'
          simp only [this]
          by_cases hb : p b = true
          · simp [hb]; omega
          · have : p b = false := by simpa using hb
            simp [this]; exact ihu
    simp only [List.filter_cons]
    rcases List.mem_cons.mp hx with h | h
    · subst h
      simp [hpx, hpx']; omega
    · have := ih h
      by_cases ha' : p' a = true
      · simp [ha', himp a ha']; exact this
      · have e : p' a = false := by simpa using ha'
        simp only [e]
        by_cases ha : p a = true
        · simp [ha]; omega
        · have : p a = false := by simpa using ha
          simp [this]; assumption

theorem lastKey_mem {α : Type} (key : α → Nat) (l : List α) (hne : l ≠ []) :
    ∃ x ∈ l, lastKey key l = some (key x) := by
  unfold lastKey
  cases hl : l.getLast? with
  | none => exact absurd (List.getLast?_eq_none_iff.mp hl) hne
  | some x => exact ⟨x, List.mem_of_getLast? hl, rfl⟩

/-- continuing the keyset scan after the last id of a non-empty chunk of the remaining entities leaves
strictly fewer remaining entities -/
theorem remaining_shrinks {α : Type} (key : α → Nat) (S : List α) (last : Option Nat) (n : Nat) (hn : 1 ≤ n)
    (hne : S.filter (afterP key last) ≠ []) :
    (S.filter (afterP key (lastKey key ((S.filter (afterP key last)).take n)))).length <
      (S.filter (afterP key last)).length := by
  have hchunk : (S.filter (afterP key last)).take n ≠ [] := by
    cases h : S.filter (afterP key last) with
    | nil => exact absurd h hne
    | cons a t => cases n with
      | zero => omega
      | succ n => simp
  obtain ⟨x, hx, hlast⟩ := lastKey_mem key _ hchunk
  rw [hlast]
  have hxrem : x ∈ S.filter (afterP key last) := List.mem_of_mem_take hx
  have hxS : x ∈ S := (List.mem_filter.mp hxrem).1
  have hpx : afterP key last x = true := (List.mem_filter.mp hxrem).2
  apply filter_length_lt (afterP key last) (afterP key (some (key x))) S x
  · intro y hy
    simp only [afterP, decide_eq_true_eq] at hy
    cases last with
    | none => rfl
    | some l =>
      simp only [afterP, decide_eq_true_eq] at hpx ⊢
      omega
  · exact hxS
  · exact hpx
  · simp [afterP]

theorem drop_of_getElem? {α : Type} (l : List α) (i : Nat) (x : α) (h : l[i]? = some x) : l.drop i = x :: l.drop (i + 1) := by
  have hi : i < l.length := by
    rcases Nat.lt_or_ge i l.length with h' | h'
    · exact h'
    · rw [List.getElem?_eq_none h'] at h; cases h
  rw [List.drop_eq_getElem_cons hi]
  congr 1
  rw [List.getElem?_eq_getElem hi] at h
  exact Option.some.inj h

theorem afterP_none_filter {α : Type} (key : α → Nat) (l : List α) : l.filter (afterP key none) = l := by
  rw [List.filter_eq_self]; intro a _; rfl

theorem next_measure (db : List (Graph P)) (v : Ckpt P) (hs : 1 ≤ v.identity.shard)
    (s : Option (Frag P) × Ckpt P) (h : next db v = some s) : measure db s.2 < measure db v := by
  unfold next at h
  cases hg : db[v.done.length]? with
  | none => rw [hg] at h; simp at h
  | some g =>
    rw [hg] at h
    have hdrop := drop_of_getElem? db _ g hg
    simp only at h
    cases hsnap : (curOf v).snapshot with
    | none =>
      rw [hsnap] at h
      simp only [Option.some.injEq] at h
      subst h
      unfold measure
      simp only [hdrop]
      simp only [curOf, Option.getD_some, curWeight, hsnap, Option.isNone_none, if_true, Option.isNone_some]
      have : (v.current.getD (freshCur v.done.length)).snapshot = none := hsnap
      simp only [this, Option.isNone_none, if_true, Bool.false_eq_true, if_false]
      omega
    | some snap =>
      rw [hsnap] at h
      simp only at h
      cases hph : (curOf v).phase with
      | nodes =>
        rw [hph] at h
        simp only at h
        by_cases hemp : (remainingNodes g (curOf v).last).isEmpty = true
        · rw [if_pos hemp] at h
          simp only [Option.some.injEq] at h
          subst h
          unfold measure
          simp only [hdrop]
          simp only [curOf, Option.getD_some, curWeight, hsnap, Option.isNone_some, Bool.false_eq_true, if_false]
          have h1 : (v.current.getD (freshCur v.done.length)).snapshot = some snap := hsnap
          have h2 : (v.current.getD (freshCur v.done.length)).phase = .nodes := hph
          simp only [h1, h2, Option.isNone_some, Bool.false_eq_true, if_false]
          have : (remainingEdges g none).length = g.edges.length := by
            unfold remainingEdges; rw [afterP_none_filter, sortBy_length]
          rw [this]; omega
        · rw [if_neg hemp] at h
          simp only [Option.some.injEq] at h
          subst h
          unfold measure
          simp only [hdrop]
          simp only [curOf, Option.getD_some, curWeight, hsnap, Option.isNone_some, Bool.false_eq_true, if_false]
          have h1 : (v.current.getD (freshCur v.done.length)).snapshot = some snap := hsnap
          have h2 : (v.current.getD (freshCur v.done.length)).phase = .nodes := hph
          simp only [h1, h2, Option.isNone_some, Bool.false_eq_true, if_false]
          have hne : (sortBy nodeKey g.nodes).filter (afterP nodeKey (v.current.getD (freshCur v.done.length)).last) ≠ [] := by
            intro he; apply hemp; unfold remainingNodes curOf; rw [he]; rfl
          have := remaining_shrinks nodeKey (sortBy nodeKey g.nodes) (v.current.getD (freshCur v.done.length)).last v.identity.shard hs hne
          unfold remainingNodes
          omega
      | edges =>
        rw [hph] at h
        simp only at h
        by_cases hemp : (remainingEdges g (curOf v).last).isEmpty = true
        · rw [if_pos hemp] at h
          simp only [Option.some.injEq] at h
          subst h
          have hrem0 : (remainingEdges g (v.current.getD (freshCur v.done.length)).last).length = 0 := by
            have := hemp; unfold curOf at this
            exact List.length_eq_zero_iff.mpr (List.isEmpty_iff.mp this)
          unfold measure
          simp only [List.length_append, List.length_cons, List.length_nil, hdrop]
          have h1 : (v.current.getD (freshCur v.done.length)).snapshot = some snap := hsnap
          have h2 : (v.current.getD (freshCur v.done.length)).phase = .edges := hph
          simp only [curOf, curWeight, h1, h2, Option.isNone_some, Bool.false_eq_true, if_false, hrem0]
          cases hrest : db.drop (v.done.length + 1) with
          | nil => simp [Nat.zero_add, restWeight]
          | cons g' rest' =>
            simp only [Nat.zero_add]
            simp only [Option.getD_none, freshCur, Option.isNone_none, if_true, restWeight, graphWeight]
            have : (remainingNodes g' none).length = g'.nodes.length := by
              unfold remainingNodes; rw [afterP_none_filter, sortBy_length]
            rw [this]; omega
        · rw [if_neg hemp] at h
          simp only [Option.some.injEq] at h
          subst h
          unfold measure
          simp only [hdrop]
          simp only [curOf, Option.getD_some, curWeight, hsnap, Option.isNone_some, Bool.false_eq_true, if_false]
          have h1 : (v.current.getD (freshCur v.done.length)).snapshot = some snap := hsnap
          have h2 : (v.current.getD (freshCur v.done.length)).phase = .edges := hph
          simp only [h1, h2, Option.isNone_some, Bool.false_eq_true, if_false]
          have hne : (sortBy edgeKey g.edges).filter (afterP edgeKey (v.current.getD (freshCur v.done.length)).last) ≠ [] := by
            intro he; apply hemp; unfold remainingEdges curOf; rw [he]; rfl
          have := remaining_shrinks edgeKey (sortBy edgeKey g.edges) (v.current.getD (freshCur v.done.length)).last v.identity.shard hs hne
          unfold remainingEdges
          omega


theorem next_identity (db : List (Graph P)) (v : Ckpt P) (s : Option (Frag P) × Ckpt P) (h : next db v = some s) :
    s.2.identity = v.identity := by
  unfold next at h
  cases hg : db[v.done.length]? with
  | none => rw [hg] at h; simp at h
  | some g =>
    rw [hg] at h
    simp only at h
    cases hsnap : (curOf v).snapshot with
    | none => rw [hsnap] at h; simp only [Option.some.injEq] at h; subst h; rfl
    | some snap =>
      rw [hsnap] at h
      simp only at h
      cases hph : (curOf v).phase with
      | nodes =>
        rw [hph] at h; simp only at h
        split at h <;> (simp only [Option.some.injEq] at h; subst h; rfl)
      | edges =>
        rw [hph] at h; simp only at h
        split at h <;> (simp only [Option.some.injEq] at h; subst h; rfl)

theorem contOps_of_none (db : List (Graph P)) (v : Ckpt P) (h : next db v = none) (n : Nat) : contOps db n v = finalOps v := by
  cases n with
  | zero => rfl
  | succ n => simp [contOps, h]

theorem contOps_fuel (db : List (Graph P)) : ∀ (n m : Nat) (v : Ckpt P), 1 ≤ v.identity.shard →
    measure db v ≤ n → measure db v ≤ m → contOps db n v = contOps db m v := by
  intro n
  induction n with
  | zero =>
    intro m v hs hn hm
    cases hnx : next db v with
    | none => rw [contOps_of_none db v hnx, contOps_of_none db v hnx]
    | some s => have := next_measure db v hs s hnx; omega
  | succ n ih =>
    intro m v hs hn hm
    cases hnx : next db v with
    | none => rw [contOps_of_none db v hnx, contOps_of_none db v hnx]
    | some s =>
      have hlt := next_measure db v hs s hnx
      cases m with
      | zero => omega
      | succ m =>
        simp only [contOps, hnx]
        rw [ih m s.2 (by rw [next_identity db v s hnx]; exact hs) (by omega) (by omega)]

theorem contOps_unfold (db : List (Graph P)) (v : Ckpt P) (hs : 1 ≤ v.identity.shard) (s : Option (Frag P) × Ckpt P)
    (h : next db v = some s) :
    contOps db (measure db v) v = stepOps s ++ contOps db (measure db s.2) s.2 := by
  have hlt := next_measure db v hs s h
  cases hm : measure db v with
  | zero => omega
  | succ k =>
    simp only [contOps, h]
    rw [contOps_fuel db k (measure db s.2) s.2 (by rw [next_identity db v s h]; exact hs) (by omega) (Nat.le_refl _)]

/-! ### nothing touches `manifest.json` before the final steps -/

def touchesManifest : FsOp P → Bool
  | .writeTmp .manifest => true
  | .rename _ .manifest _ => true
  | .rename .manifest _ _ => true
  | .remove .manifest => true
  | _ => false

theorem get_manifest_applyOp (fs : FS P) (op : FsOp P) (h : touchesManifest op = false) :
    (applyOp fs op).get .manifest = fs.get .manifest := by
  cases op with
  | mkdir => rfl
  | touch => rfl
  | close => rfl
  | writeTmp p =>
    simp only [applyOp, get_set]
    have : FPath.manifest ≠ p := by intro e; subst e; simp [touchesManifest] at h
    simp [this]
  | rename a b d =>
    simp only [applyOp, get_set, get_remove]
    have hb : FPath.manifest ≠ b := by intro e; subst e; simp [touchesManifest] at h
    have ha : FPath.manifest ≠ a := by
      intro e; subst e
      cases b <;> simp [touchesManifest] at h
    simp [hb, ha]
  | remove p =>
    simp only [applyOp, get_remove]
    have : FPath.manifest ≠ p := by intro e; subst e; simp [touchesManifest] at h
    simp [this]

theorem get_manifest_applyOps (ops : List (FsOp P)) (fs : FS P) (h : ∀ op ∈ ops, touchesManifest op = false) :
    (applyOps ops fs).get .manifest = fs.get .manifest := by
  induction ops generalizing fs with
  | nil => rfl
  | cons op ops ih =>
    rw [applyOps_cons, ih _ (fun o ho => h o (List.mem_cons_of_mem _ ho)), get_manifest_applyOp fs op (h op List.mem_cons_self)]

theorem stepOps_noManifest (s : Option (Frag P) × Ckpt P) : ∀ op ∈ stepOps s, touchesManifest op = false := by
  intro op hop
  unfold stepOps at hop
  rcases List.mem_append.mp hop with h | h
  · cases hs : s.1 with
    | none => rw [hs] at h; simp at h
    | some f =>
      rw [hs] at h
      simp only [fragOps, List.mem_append, List.mem_cons, List.mem_replicate, List.not_mem_nil, or_false] at h
      rcases h with (h | h) | h | h
      · subst h; rfl
      · rw [h.2]; rfl
      · subst h; rfl
      · subst h; rfl
  · simp only [ckOps, List.mem_cons, List.not_mem_nil, or_false] at h
    rcases h with h | h <;> (subst h; rfl)

/-- the continuation is a manifest-free prefix followed by the final steps of some version -/
theorem contOps_shape (db : List (Graph P)) : ∀ (n : Nat) (v : Ckpt P),
    ∃ pre v', contOps db n v = pre ++ finalOps v' ∧ ∀ op ∈ pre, touchesManifest op = false := by
  intro n
  induction n with
  | zero => intro v; exact ⟨[], v, rfl, by simp⟩
  | succ n ih =>
    intro v
    cases hnx : next db v with
    | none => exact ⟨[], v, by simp [contOps, hnx], by simp⟩
    | some s =>
      obtain ⟨pre, v', he, hp⟩ := ih s.2
      refine ⟨stepOps s ++ pre, v', by simp [contOps, hnx, he, List.append_assoc], ?_⟩
      intro op hop
      rcases List.mem_append.mp hop with h | h
      · exact stepOps_noManifest s op h
      · exact hp op h

end FuelSec

/-! ## Shape of genuine checkpoint versions -/

section ShapeSec
variable {P : Type}

theorem phaseFiles_cons (ph : Phase) (f : Frag P) (t : List (Frag P)) :
    phaseFiles ph (f :: t) = if f.path.phase = ph then f :: phaseFiles ph t else phaseFiles ph t := by
  unfold phaseFiles
  rw [List.filter_cons]
  by_cases h : f.path.phase = ph <;> simp [h]

theorem phaseFiles_append (ph : Phase) (a b : List (Frag P)) : phaseFiles ph (a ++ b) = phaseFiles ph a ++ phaseFiles ph b := by
  unfold phaseFiles; rw [List.filter_append]

theorem pathsOk_bounds (g : String) : ∀ (fs : List (Frag P)) (kn ke : Nat), pathsOk g fs kn ke = true →
    ∀ f ∈ fs, f.path.graph = g ∧
      (f.path.phase = .nodes → kn < f.path.shard ∧ f.path.shard ≤ kn + (phaseFiles .nodes fs).length) ∧
      (f.path.phase = .edges → ke < f.path.shard ∧ f.path.shard ≤ ke + (phaseFiles .edges fs).length) := by
  intro fs
  induction fs with
  | nil => intro kn ke _ f hf; simp at hf
  | cons a t ih =>
    intro kn ke h f hf
    unfold pathsOk at h
    cases hph : a.path.phase with
    | nodes =>
      rw [hph] at h
      simp only [Bool.and_eq_true, beq_iff_eq] at h
      obtain ⟨hpa, ht⟩ := h
      have hn : phaseFiles .nodes (a :: t) = a :: phaseFiles .nodes t := by rw [phaseFiles_cons]; simp [hph]
      have he : phaseFiles .edges (a :: t) = phaseFiles .edges t := by rw [phaseFiles_cons]; simp [hph]
      rcases List.mem_cons.mp hf with hfa | hft
      · subst hfa
        refine ⟨by rw [hpa], ?_, ?_⟩
        · intro _; rw [hn, hpa]; simp <;> omega
        · intro h'; rw [hph] at h'; cases h'
      · obtain ⟨h1, h2, h3⟩ := ih (kn + 1) ke ht f hft
        refine ⟨h1, ?_, ?_⟩
        · intro h'; have := h2 h'; rw [hn]; simp; omega
        · intro h'; have := h3 h'; rw [he]; exact this
    | edges =>
      rw [hph] at h
      simp only [Bool.and_eq_true, beq_iff_eq] at h
      obtain ⟨hpa, ht⟩ := h
      have hn : phaseFiles .nodes (a :: t) = phaseFiles .nodes t := by rw [phaseFiles_cons]; simp [hph]
      have he : phaseFiles .edges (a :: t) = a :: phaseFiles .edges t := by rw [phaseFiles_cons]; simp [hph]
      rcases List.mem_cons.mp hf with hfa | hft
      · subst hfa
        refine ⟨by rw [hpa], ?_, ?_⟩
        · intro h'; rw [hph] at h'; cases h'
        · intro _; rw [he, hpa]; simp <;> omega
      · obtain ⟨h1, h2, h3⟩ := ih kn (ke + 1) ht f hft
        refine ⟨h1, ?_, ?_⟩
        · intro h'; have := h2 h'; rw [hn]; exact this
        · intro h'; have := h3 h'; rw [he]; simp; omega

theorem pathsOk_nodup (g : String) : ∀ (fs : List (Frag P)) (kn ke : Nat), pathsOk g fs kn ke = true →
    (fs.map (fun f => f.path)).Nodup := by
  intro fs
  induction fs with
  | nil => intro _ _ _; simp
  | cons a t ih =>
    intro kn ke h
    have hb := pathsOk_bounds g (a :: t) kn ke h
    unfold pathsOk at h
    simp only [List.map_cons, List.nodup_cons]
    cases hph : a.path.phase with
    | nodes =>
      rw [hph] at h
      simp only [Bool.and_eq_true, beq_iff_eq] at h
      refine ⟨?_, ih (kn + 1) ke h.2⟩
      intro hmem
      obtain ⟨f, hf, hfe⟩ := List.mem_map.mp hmem
      have hb' := pathsOk_bounds g t (kn + 1) ke h.2 f hf
      have hfp : f.path.phase = .nodes := by rw [hfe]; exact hph
      have := (hb'.2.1 hfp).1
      rw [hfe, h.1] at this
      simp at this
    | edges =>
      rw [hph] at h
      simp only [Bool.and_eq_true, beq_iff_eq] at h
      refine ⟨?_, ih kn (ke + 1) h.2⟩
      intro hmem
      obtain ⟨f, hf, hfe⟩ := List.mem_map.mp hmem
      have hb' := pathsOk_bounds g t kn (ke + 1) h.2 f hf
      have hfp : f.path.phase = .edges := by rw [hfe]; exact hph
      have := (hb'.2.2 hfp).1
      rw [hfe, h.1] at this
      simp at this

theorem pathsOk_append (g : String) (f : Frag P) : ∀ (fs : List (Frag P)) (kn ke : Nat), pathsOk g fs kn ke = true →
    f.path = ⟨g, f.path.phase, (match f.path.phase with | .nodes => kn | .edges => ke) + (phaseFiles f.path.phase fs).length + 1⟩ →
    pathsOk g (fs ++ [f]) kn ke = true := by
  intro fs
  induction fs with
  | nil =>
    intro kn ke _ hp
    simp only [List.nil_append, pathsOk]
    cases hph : f.path.phase with
    | nodes => rw [hph] at hp; simp [phaseFiles] at hp; simp [hp, pathsOk]
    | edges => rw [hph] at hp; simp [phaseFiles] at hp; simp [hp, pathsOk]
  | cons a t ih =>
    intro kn ke h hp
    unfold pathsOk at h
    simp only [List.cons_append]
    unfold pathsOk
    cases hpa : a.path.phase with
    | nodes =>
      rw [hpa] at h
      simp only [Bool.and_eq_true, beq_iff_eq] at h ⊢
      refine ⟨h.1, ih (kn + 1) ke h.2 ?_⟩
      rw [hp]
      cases hph : f.path.phase with
      | nodes =>
        have : (phaseFiles .nodes (a :: t)).length = (phaseFiles .nodes t).length + 1 := by rw [phaseFiles_cons]; simp [hpa]
        simp only [this]; first | done | (congr 1; omega)
      | edges =>
        have : (phaseFiles .edges (a :: t)).length = (phaseFiles .edges t).length := by rw [phaseFiles_cons]; simp [hpa]
        simp only [this]
    | edges =>
      rw [hpa] at h
      simp only [Bool.and_eq_true, beq_iff_eq] at h ⊢
      refine ⟨h.1, ih kn (ke + 1) h.2 ?_⟩
      rw [hp]
      cases hph : f.path.phase with
      | nodes =>
        have : (phaseFiles .nodes (a :: t)).length = (phaseFiles .nodes t).length := by rw [phaseFiles_cons]; simp [hpa]
        simp only [this]
      | edges =>
        have : (phaseFiles .edges (a :: t)).length = (phaseFiles .edges t).length + 1 := by rw [phaseFiles_cons]; simp [hpa]
        simp only [this]; first | done | (congr 1; omega)


/-- the run's setting: the requested targets are the database's graphs, with distinct names -/
structure Setting (db : List (Graph P)) (ident : Identity) : Prop where
  names : ident.graphs = db.map (fun g => g.name)
  nodup : (db.map (fun g => g.name)).Nodup
  shard : 1 ≤ ident.shard

/-- completed entries describe the first graphs of the database, in order -/
def DoneOk : List (Done P) → List (Graph P) → Prop
  | [], _ => True
  | d :: ds, g :: gs => d.name = g.name ∧ (d.nodeCount, d.edgeCount) = counts g ∧ pathsOk d.name d.files 0 0 = true ∧ DoneOk ds gs
  | _ :: _, [] => False

structure CurOk (db : List (Graph P)) (v : Ckpt P) (c : Cur P) : Prop where
  index : c.index = v.done.length
  graph : ∃ g, db[c.index]? = some g ∧ c.snapshot = some (counts g) ∧ pathsOk g.name c.files 0 0 = true
  cursor : (phaseFiles c.phase c.files).isEmpty = c.last.isNone
  phase : c.phase = .edges ∨ (phaseFiles .edges c.files).isEmpty = true

structure Shape (db : List (Graph P)) (ident : Identity) (v : Ckpt P) : Prop where
  identity : v.identity = ident
  done : DoneOk v.done db
  cur : ∀ c, v.current = some c → CurOk db v c

theorem DoneOk.length_le : ∀ (ds : List (Done P)) (gs : List (Graph P)), DoneOk ds gs → ds.length ≤ gs.length := by
  intro ds
  induction ds with
  | nil => intro gs _; simp
  | cons d ds ih =>
    intro gs h
    cases gs with
    | nil => exact absurd h (by simp [DoneOk])
    | cons g gs => simp only [DoneOk] at h; simp; exact ih gs h.2.2.2

theorem DoneOk.snoc : ∀ (ds : List (Done P)) (gs : List (Graph P)) (d : Done P) (g : Graph P), DoneOk ds gs →
    gs[ds.length]? = some g → d.name = g.name → (d.nodeCount, d.edgeCount) = counts g → pathsOk d.name d.files 0 0 = true →
    DoneOk (ds ++ [d]) gs := by
  intro ds
  induction ds with
  | nil =>
    intro gs d g _ hg h1 h2 h3
    cases gs with
    | nil => simp at hg
    | cons g' gs => simp at hg; subst hg; simp only [List.nil_append, DoneOk]; exact ⟨h1, h2, h3, trivial⟩
  | cons d0 ds ih =>
    intro gs d g h hg h1 h2 h3
    cases gs with
    | nil => exact absurd h (by simp [DoneOk])
    | cons g' gs =>
      simp only [DoneOk] at h
      simp only [List.cons_append, DoneOk]
      refine ⟨h.1, h.2.1, h.2.2.1, ih gs d g h.2.2.2 (by simpa using hg) h1 h2 h3⟩

theorem shape_V0 (db : List (Graph P)) (ident : Identity) : Shape db ident (V0 ident) :=
  ⟨rfl, by simp [V0, DoneOk], by intro c h; simp [V0] at h⟩

theorem lastKey_isSome {α : Type} (key : α → Nat) (l : List α) (h : l ≠ []) : (lastKey key l).isNone = false := by
  obtain ⟨x, _, hx⟩ := lastKey_mem key l h
  rw [hx]; rfl

theorem take_ne_nil {α : Type} (l : List α) (n : Nat) (hn : 1 ≤ n) (h : l ≠ []) : l.take n ≠ [] := by
  cases l with
  | nil => exact absurd rfl h
  | cons a t => cases n with
    | zero => omega
    | succ n => simp

/-- every step of the dump keeps the checkpoint well shaped -/
theorem shape_next (db : List (Graph P)) (ident : Identity) (hset : Setting db ident) (v : Ckpt P) (hv : Shape db ident v)
    (s : Option (Frag P) × Ckpt P) (h : next db v = some s) : Shape db ident s.2 := by
  have hshard : 1 ≤ v.identity.shard := by rw [hv.identity]; exact hset.shard
  unfold next at h
  cases hg : db[v.done.length]? with
  | none => rw [hg] at h; simp at h
  | some g =>
    rw [hg] at h
    simp only at h
    -- facts about the working state `curOf v`
    have hcur : (curOf v).index = v.done.length ∧ pathsOk g.name (curOf v).files 0 0 = true ∧
        ((phaseFiles (curOf v).phase (curOf v).files).isEmpty = (curOf v).last.isNone) ∧
        ((curOf v).phase = .edges ∨ (phaseFiles .edges (curOf v).files).isEmpty = true) ∧
        ((curOf v).snapshot = none ∨ (curOf v).snapshot = some (counts g)) := by
      cases hc : v.current with
      | none => simp [curOf, hc, freshCur, pathsOk, phaseFiles]
      | some c =>
        have hok := hv.cur c hc
        obtain ⟨g', hg', hs', hp'⟩ := hok.graph
        rw [hok.index, hg] at hg'
        have : g' = g := (Option.some.inj hg').symm
        subst this
        simp only [curOf, hc, Option.getD_some]
        exact ⟨hok.index, hp', hok.cursor, hok.phase, Or.inr hs'⟩
    obtain ⟨hidx, hpaths, hcursor, hphase, hsnapg⟩ := hcur
    cases hsnap : (curOf v).snapshot with
    | none =>
      rw [hsnap] at h
      simp only [Option.some.injEq] at h
      subst h
      refine ⟨hv.identity, hv.done, ?_⟩
      intro c hc
      simp only [Option.some.injEq] at hc
      subst hc
      exact ⟨hidx, ⟨g, by rw [hidx]; exact hg, rfl, hpaths⟩, hcursor, hphase⟩
    | some snap =>
      rw [hsnap] at h
      have hsnapc : snap = counts g := by
        rcases hsnapg with h' | h'
        · rw [hsnap] at h'; cases h'
        · rw [hsnap] at h'; exact Option.some.inj h'
      simp only at h
      cases hph : (curOf v).phase with
      | nodes =>
        rw [hph] at h
        simp only at h
        have hedgeEmpty : (phaseFiles .edges (curOf v).files).isEmpty = true := by
          rcases hphase with h' | h'
          · rw [hph] at h'; cases h'
          · exact h'
        by_cases hemp : (remainingNodes g (curOf v).last).isEmpty = true
        · rw [if_pos hemp] at h
          simp only [Option.some.injEq] at h
          subst h
          refine ⟨hv.identity, hv.done, ?_⟩
          intro c hc
          simp only [Option.some.injEq] at hc
          subst hc
          exact ⟨hidx, ⟨g, by rw [hidx]; exact hg, by show some snap = some (counts g); rw [hsnapc], hpaths⟩, by simp [hedgeEmpty], Or.inl rfl⟩
        · rw [if_neg hemp] at h
          simp only [Option.some.injEq] at h
          subst h
          refine ⟨hv.identity, hv.done, ?_⟩
          intro c hc
          simp only [Option.some.injEq] at hc
          subst hc
          have hne : remainingNodes g (curOf v).last ≠ [] := by
            intro he; apply hemp; rw [he]; rfl
          refine ⟨hidx, ⟨g, by rw [hidx]; exact hg, by show some snap = some (counts g); rw [hsnapc], ?_⟩, ?_, ?_⟩
          · apply pathsOk_append g.name _ _ 0 0 hpaths
            simp [hph]
          · simp only [hph]
            rw [phaseFiles_append, lastKey_isSome nodeKey _ (take_ne_nil _ _ hshard hne)]
            simp [phaseFiles]
          · right
            rw [phaseFiles_append]
            simp only [phaseFiles, List.filter_cons, List.filter_nil] at hedgeEmpty ⊢
            simp [hedgeEmpty]
      | edges =>
        rw [hph] at h
        simp only at h
        by_cases hemp : (remainingEdges g (curOf v).last).isEmpty = true
        · rw [if_pos hemp] at h
          simp only [Option.some.injEq] at h
          subst h
          refine ⟨hv.identity, ?_, by intro c hc; simp at hc⟩
          exact DoneOk.snoc v.done db _ g hv.done hg rfl (by simp [hsnapc]) hpaths
        · rw [if_neg hemp] at h
          simp only [Option.some.injEq] at h
          subst h
          refine ⟨hv.identity, hv.done, ?_⟩
          intro c hc
          simp only [Option.some.injEq] at hc
          subst hc
          have hne : remainingEdges g (curOf v).last ≠ [] := by
            intro he; apply hemp; rw [he]; rfl
          refine ⟨hidx, ⟨g, by rw [hidx]; exact hg, by show some snap = some (counts g); rw [hsnapc], ?_⟩, ?_, Or.inl rfl⟩
          · apply pathsOk_append g.name _ _ 0 0 hpaths
            simp [hph]
          · simp only [hph]
            rw [phaseFiles_append, lastKey_isSome edgeKey _ (take_ne_nil _ _ hshard hne)]
            simp [phaseFiles]


/-! ### consequences of the shape -/

theorem doneValid_of : ∀ (ds : List (Done P)) (gs : List (Graph P)), DoneOk ds gs → doneValid ds (gs.map (fun g => g.name)) = true := by
  intro ds
  induction ds with
  | nil => intro gs _; rfl
  | cons d ds ih =>
    intro gs h
    cases gs with
    | nil => exact absurd h (by simp [DoneOk])
    | cons g gs =>
      simp only [DoneOk] at h
      simp only [List.map_cons, doneValid, Bool.and_eq_true, beq_iff_eq]
      exact ⟨⟨h.1.symm, h.2.2.1⟩, ih gs h.2.2.2⟩

theorem doneSourceOk_of : ∀ (ds : List (Done P)) (gs : List (Graph P)), DoneOk ds gs → doneSourceOk ds gs = true := by
  intro ds
  induction ds with
  | nil => intro gs _; rfl
  | cons d ds ih =>
    intro gs h
    cases gs with
    | nil => exact absurd h (by simp [DoneOk])
    | cons g gs =>
      simp only [DoneOk] at h
      simp only [doneSourceOk, Bool.and_eq_true, beq_iff_eq]
      exact ⟨h.2.1.symm, ih gs h.2.2.2⟩

theorem validCkpt_of_shape (db : List (Graph P)) (ident : Identity) (hset : Setting db ident) (v : Ckpt P)
    (hv : Shape db ident v) : validCkpt ident v = true := by
  unfold validCkpt
  rw [hset.names, doneValid_of v.done db hv.done]
  cases hc : v.current with
  | none => rfl
  | some c =>
    have hok := hv.cur c hc
    obtain ⟨g, hg, hs, hp⟩ := hok.graph
    have hlt : c.index < db.length := by
      rcases Nat.lt_or_ge c.index db.length with h | h
      · exact h
      · rw [List.getElem?_eq_none h] at hg; cases hg
    have hname : (db.map (fun g => g.name))[c.index]? = some g.name := by rw [List.getElem?_map, hg]; rfl
    simp only [Bool.true_and, hok.index, beq_self_eq_true, List.length_map, hs, Option.isSome_some, Bool.and_eq_true,
      decide_eq_true_eq, beq_iff_eq, Bool.or_eq_true]
    rw [← hok.index, hname]
    refine ⟨⟨⟨?_, hp⟩, hok.cursor⟩, ?_⟩
    · exact ⟨hlt, trivial⟩
    rcases hok.phase with h | h
    · left; exact h
    · right; exact h

theorem sourceOk_of_shape (db : List (Graph P)) (ident : Identity) (v : Ckpt P) (hv : Shape db ident v) :
    sourceOk db v = true := by
  unfold sourceOk
  rw [doneSourceOk_of v.done db hv.done]
  cases hc : v.current with
  | none => rfl
  | some c =>
    obtain ⟨g, hg, hs, _⟩ := (hv.cur c hc).graph
    simp [hg, hs]

theorem not_mem_take_of_nodup {α : Type} (l : List α) (hnd : l.Nodup) (i : Nat) (x : α) (h : l[i]? = some x) : x ∉ l.take i := by
  have hd := drop_of_getElem? l i x h
  have hsplit : l = l.take i ++ x :: l.drop (i + 1) := by rw [← hd, List.take_append_drop]
  rw [hsplit] at hnd
  have := (List.nodup_append.mp hnd).2.2
  intro hx
  exact this x hx x List.mem_cons_self rfl

theorem doneOk_paths : ∀ (ds : List (Done P)) (gs : List (Graph P)), DoneOk ds gs → (gs.map (fun g => g.name)).Nodup →
    (((ds.map (fun d => d.files)).flatten).map (fun f => f.path)).Nodup ∧
    ∀ f ∈ (ds.map (fun d => d.files)).flatten, f.path.graph ∈ (gs.take ds.length).map (fun g => g.name) := by
  intro ds
  induction ds with
  | nil => intro gs _ _; simp
  | cons d ds ih =>
    intro gs h hnd
    cases gs with
    | nil => exact absurd h (by simp [DoneOk])
    | cons g gs =>
      simp only [DoneOk] at h
      simp only [List.map_cons, List.nodup_cons] at hnd
      obtain ⟨ihn, ihg⟩ := ih gs h.2.2.2 hnd.2
      have hb := pathsOk_bounds d.name d.files 0 0 h.2.2.1
      constructor
      · simp only [List.map_cons, List.flatten_cons, List.map_append]
        rw [List.nodup_append]
        refine ⟨pathsOk_nodup d.name d.files 0 0 h.2.2.1, ihn, ?_⟩
        intro a ha b hb' hab
        obtain ⟨f1, hf1, rfl⟩ := List.mem_map.mp ha
        obtain ⟨f2, hf2, rfl⟩ := List.mem_map.mp hb'
        have g1 : f1.path.graph = g.name := by rw [(hb f1 hf1).1, h.1]
        have g2 := ihg f2 hf2
        rw [← hab, g1] at g2
        exact hnd.1 (by
          obtain ⟨g', hg', he⟩ := List.mem_map.mp g2
          exact List.mem_map.mpr ⟨g', List.mem_of_mem_take hg', he⟩)
      · intro f hf
        simp only [List.map_cons, List.flatten_cons, List.mem_append] at hf
        simp only [List.length_cons, List.take_succ_cons, List.map_cons, List.mem_cons]
        rcases hf with hf | hf
        · left; rw [(hb f hf).1, h.1]
        · right; exact ihg f hf

theorem committed_nodup (db : List (Graph P)) (ident : Identity) (hset : Setting db ident) (v : Ckpt P)
    (hv : Shape db ident v) : ((committed v).map (fun f => f.path)).Nodup := by
  obtain ⟨hdn, hdg⟩ := doneOk_paths v.done db hv.done hset.nodup
  unfold committed
  cases hc : v.current with
  | none => simpa using hdn
  | some c =>
    obtain ⟨g, hg, _, hp⟩ := (hv.cur c hc).graph
    simp only [List.map_append]
    rw [List.nodup_append]
    refine ⟨hdn, pathsOk_nodup g.name c.files 0 0 hp, ?_⟩
    intro a ha b hb hab
    obtain ⟨f1, hf1, rfl⟩ := List.mem_map.mp ha
    obtain ⟨f2, hf2, rfl⟩ := List.mem_map.mp hb
    have g2 : f2.path.graph = g.name := (pathsOk_bounds g.name c.files 0 0 hp f2 hf2).1
    have g1 := hdg f1 hf1
    rw [hab, g2] at g1
    have hname : (db.map (fun g => g.name))[v.done.length]? = some g.name := by
      rw [List.getElem?_map, ← (hv.cur c hc).index, hg]; rfl
    have := not_mem_take_of_nodup _ hset.nodup _ _ hname
    rw [← List.map_take] at this
    exact this g1


theorem committed_eq (v : Ckpt P) : committed v = (v.done.map (fun d => d.files)).flatten ++ (curOf v).files := by
  unfold committed curOf
  cases v.current <;> simp [freshCur]

/-- what one step changes: the identity never, the committed fragments by at most the one it publishes,
and that fragment's temp file is one resume knows -/
theorem next_spec (db : List (Graph P)) (ident : Identity) (hset : Setting db ident) (v : Ckpt P) (hv : Shape db ident v)
    (s : Option (Frag P) × Ckpt P) (h : next db v = some s) :
    committed s.2 = committed v ++ s.1.toList ∧ (∀ f, s.1 = some f → FPath.fragTmp f.path ∈ knownTemps ident v) := by
  unfold next at h
  cases hg : db[v.done.length]? with
  | none => rw [hg] at h; simp at h
  | some g =>
    rw [hg] at h
    simp only at h
    have hname : ident.graphs[v.done.length]? = some g.name := by rw [hset.names, List.getElem?_map, hg]; rfl
    cases hsnap : (curOf v).snapshot with
    | none =>
      rw [hsnap] at h; simp only [Option.some.injEq] at h; subst h
      refine ⟨?_, by intro f hf; cases hf⟩
      rw [committed_eq, committed_eq v]; simp [curOf]
    | some snap =>
      rw [hsnap] at h
      simp only at h
      -- with a snapshot the working state is the recorded current graph
      have hcur : ∃ c, v.current = some c ∧ curOf v = c := by
        cases hc : v.current with
        | none => simp [curOf, hc, freshCur] at hsnap
        | some c => exact ⟨c, rfl, by simp [curOf, hc]⟩
      obtain ⟨c, hc, hcc⟩ := hcur
      have hidx : c.index = v.done.length := (hv.cur c hc).index
      cases hph : (curOf v).phase with
      | nodes =>
        rw [hph] at h; simp only at h
        split at h
        · simp only [Option.some.injEq] at h; subst h
          refine ⟨?_, by intro f hf; cases hf⟩
          rw [committed_eq, committed_eq v]; simp [curOf]
        · simp only [Option.some.injEq] at h; subst h
          refine ⟨?_, ?_⟩
          · rw [committed_eq, committed_eq v]; simp [curOf, List.append_assoc]
          · intro f hf
            simp only [Option.some.injEq] at hf
            subst hf
            unfold knownTemps
            rw [hc]
            simp only [hidx, hname]
            rw [hcc] at hph
            simp [hph, hcc]
      | edges =>
        rw [hph] at h; simp only at h
        split at h
        · simp only [Option.some.injEq] at h; subst h
          refine ⟨?_, by intro f hf; cases hf⟩
          rw [committed_eq, committed_eq v]; simp [curOf, freshCur]
        · simp only [Option.some.injEq] at h; subst h
          refine ⟨?_, ?_⟩
          · rw [committed_eq, committed_eq v]; simp [curOf, List.append_assoc]
          · intro f hf
            simp only [Option.some.injEq] at hf
            subst hf
            unfold knownTemps
            rw [hc]
            simp only [hidx, hname]
            rw [hcc] at hph
            simp [hph, hcc]

end ShapeSec

/-! ## Directory states around a checkpoint version -/

section StateSec
variable {P : Type} [DecidableEq P]

/-- the committed fragment at path `p`, as the checkpoint records it -/
def fragGet (v : Ckpt P) (p : Path) : Option (FData P) :=
  ((committed v).find? (fun f => f.path == p)).map (fun f => FData.frag f.content)

/-- the directory right after version `v` was recorded, with no temp file around -/
def stateGet (v : Ckpt P) : FPath → Option (FData P)
  | .ckpt => some (.ckpt v)
  | .frag p => fragGet v p
  | _ => none

def Exact (v : Ckpt P) (fs : FS P) : Prop := ∀ q, fs.get q = stateGet v q

/-- version `v` recorded, its fragments in place, nothing else but temp files resume knows -/
structure Near (ident : Identity) (v : Ckpt P) (fs : FS P) : Prop where
  ckpt : fs.get .ckpt = some (.ckpt v)
  manifest : fs.get .manifest = none
  frags : ∀ p, fs.get (.frag p) = fragGet v p
  stray : ∀ n, fs.get (.stray n) = none
  tmps : ∀ p, fs.get (.fragTmp p) ≠ none → FPath.fragTmp p ∈ knownTemps ident v

/-- the window: fragment `f` is published but version `v` does not record it yet -/
structure Pub (v : Ckpt P) (f : Frag P) (fs : FS P) : Prop where
  ckpt : fs.get .ckpt = some (.ckpt v)
  manifest : fs.get .manifest = none
  frags : ∀ p, fs.get (.frag p) = if p = f.path then some (.frag f.content) else fragGet v p
  fresh : f.path ∉ (committed v).map (fun f => f.path)

theorem Exact.near (ident : Identity) (v : Ckpt P) (fs : FS P) (h : Exact v fs) : Near ident v fs :=
  ⟨h .ckpt, h .manifest, fun p => h (.frag p), fun n => h (.stray n), fun p hp => absurd (h (.fragTmp p)) hp⟩

theorem get_removeAll (ps : List FPath) (fs : FS P) (q : FPath) :
    (applyOps (ps.map FsOp.remove) fs).get q = if q ∈ ps then none else fs.get q := by
  induction ps generalizing fs with
  | nil => simp [applyOps_nil]
  | cons p ps ih =>
    simp only [List.map_cons, applyOps_cons, applyOp, ih, get_remove, List.mem_cons]
    by_cases h1 : q ∈ ps
    · simp [h1]
    · by_cases h2 : q = p <;> simp [h1, h2]

theorem knownTemps_kinds (ident : Identity) (v : Ckpt P) (q : FPath) (h : q ∈ knownTemps ident v) :
    q = .ckptTmp ∨ q = .manifestTmp ∨ ∃ p, q = .fragTmp p := by
  unfold knownTemps at h
  simp only [List.mem_append, List.mem_cons, List.not_mem_nil, or_false] at h
  rcases h with (h | h) | h
  · exact Or.inl h
  · exact Or.inr (Or.inl h)
  · right; right
    cases hc : v.current with
    | none => rw [hc] at h; simp at h
    | some c =>
      rw [hc] at h
      simp only at h
      cases hn : ident.graphs[c.index]? with
      | none => rw [hn] at h; simp at h
      | some n => rw [hn] at h; simp at h; exact ⟨_, h⟩

theorem ckptTmp_known (ident : Identity) (v : Ckpt P) : FPath.ckptTmp ∈ knownTemps ident v := by simp [knownTemps]
theorem manifestTmp_known (ident : Identity) (v : Ckpt P) : FPath.manifestTmp ∈ knownTemps ident v := by simp [knownTemps]

/-- removing any of the known temps keeps a `Near` directory `Near` -/
theorem Near.removeSome (ident : Identity) (v : Ckpt P) (fs : FS P) (h : Near ident v fs) (ps : List FPath)
    (hps : ∀ q ∈ ps, q ∈ knownTemps ident v) : Near ident v (applyOps (ps.map FsOp.remove) fs) := by
  have nk : ∀ q, (q = FPath.ckpt ∨ q = FPath.manifest ∨ (∃ p, q = FPath.frag p) ∨ ∃ n, q = FPath.stray n) → q ∉ ps := by
    intro q hq hmem
    rcases knownTemps_kinds ident v q (hps q hmem) with h1 | h1 | ⟨p, h1⟩ <;>
      rcases hq with h2 | h2 | ⟨p', h2⟩ | ⟨n, h2⟩ <;> (rw [h1] at h2; cases h2)
  refine ⟨?_, ?_, ?_, ?_, ?_⟩
  · rw [get_removeAll, if_neg (nk _ (Or.inl rfl))]; exact h.ckpt
  · rw [get_removeAll, if_neg (nk _ (Or.inr (Or.inl rfl)))]; exact h.manifest
  · intro p; rw [get_removeAll, if_neg (nk _ (Or.inr (Or.inr (Or.inl ⟨p, rfl⟩))))]; exact h.frags p
  · intro n; rw [get_removeAll, if_neg (nk _ (Or.inr (Or.inr (Or.inr ⟨n, rfl⟩))))]; exact h.stray n
  · intro p hp
    rw [get_removeAll] at hp
    by_cases hm : FPath.fragTmp p ∈ ps
    · exact hps _ hm
    · rw [if_neg hm] at hp; exact h.tmps p hp

/-- removing all known temps of a `Near` directory leaves exactly the recorded state -/
theorem Near.removeAll (ident : Identity) (v : Ckpt P) (fs : FS P) (h : Near ident v fs) :
    Exact v (applyOps ((knownTemps ident v).map FsOp.remove) fs) := by
  intro q
  rw [get_removeAll]
  by_cases hm : q ∈ knownTemps ident v
  · rw [if_pos hm]
    rcases knownTemps_kinds ident v q hm with h1 | h1 | ⟨p, h1⟩ <;> (subst h1; rfl)
  · rw [if_neg hm]
    cases q with
    | ckpt => exact h.ckpt
    | ckptTmp => exact absurd (ckptTmp_known ident v) hm
    | manifest => exact h.manifest
    | manifestTmp => exact absurd (manifestTmp_known ident v) hm
    | frag p => exact h.frags p
    | fragTmp p =>
      show fs.get (.fragTmp p) = none
      cases hg : fs.get (.fragTmp p) with
      | none => rfl
      | some d => exact absurd (h.tmps p (by rw [hg]; simp)) hm
    | stray n => exact h.stray n

theorem Pub.removeSome (v : Ckpt P) (f : Frag P) (fs : FS P) (h : Pub v f fs) (ident : Identity) (ps : List FPath)
    (hps : ∀ q ∈ ps, q ∈ knownTemps ident v) : Pub v f (applyOps (ps.map FsOp.remove) fs) := by
  have nk : ∀ q, (q = FPath.ckpt ∨ q = FPath.manifest ∨ (∃ p, q = FPath.frag p)) → q ∉ ps := by
    intro q hq hmem
    rcases knownTemps_kinds ident v q (hps q hmem) with h1 | h1 | ⟨p, h1⟩ <;>
      rcases hq with h2 | h2 | ⟨p', h2⟩ <;> (rw [h1] at h2; cases h2)
  refine ⟨?_, ?_, ?_, h.fresh⟩
  · rw [get_removeAll, if_neg (nk _ (Or.inl rfl))]; exact h.ckpt
  · rw [get_removeAll, if_neg (nk _ (Or.inr (Or.inl rfl)))]; exact h.manifest
  · intro p; rw [get_removeAll, if_neg (nk _ (Or.inr (Or.inr ⟨p, rfl⟩)))]; exact h.frags p

theorem find_of_nodup {α β : Type} [DecidableEq β] (key : α → β) : ∀ (l : List α), (l.map key).Nodup → ∀ x ∈ l,
    l.find? (fun y => key y == key x) = some x := by
  intro l
  induction l with
  | nil => intro _ x hx; simp at hx
  | cons a t ih =>
    intro hnd x hx
    simp only [List.map_cons, List.nodup_cons] at hnd
    rw [List.find?_cons]
    rcases List.mem_cons.mp hx with h | h
    · subst h; simp
    · have : key a ≠ key x := by
        intro he; apply hnd.1; rw [he]; exact List.mem_map.mpr ⟨x, h, rfl⟩
      have : (key a == key x) = false := by simpa using this
      rw [this]
      exact ih hnd.2 x h

theorem fragGet_of_mem (v : Ckpt P) (hnd : ((committed v).map (fun f => f.path)).Nodup) (f : Frag P) (hf : f ∈ committed v) :
    fragGet v f.path = some (.frag f.content) := by
  unfold fragGet
  rw [find_of_nodup (fun f : Frag P => f.path) (committed v) hnd f hf]
  rfl

theorem fragGet_none_of_fresh (v : Ckpt P) (p : Path) (h : p ∉ (committed v).map (fun f => f.path)) : fragGet v p = none := by
  unfold fragGet
  rw [Option.map_eq_none_iff, List.find?_eq_none]
  intro f hf
  have : f.path ≠ p := by intro he; apply h; rw [← he]; exact List.mem_map.mpr ⟨f, hf, rfl⟩
  simpa using this

theorem fragGet_some_mem (v : Ckpt P) (p : Path) (d : FData P) (h : fragGet v p = some d) : ∃ f ∈ committed v, f.path = p := by
  unfold fragGet at h
  cases hf : (committed v).find? (fun f => f.path == p) with
  | none => rw [hf] at h; simp at h
  | some f =>
    refine ⟨f, List.mem_of_find?_eq_some hf, ?_⟩
    have := List.find?_some hf
    simpa using this

theorem fragmentsOk_of (fs : FS P) : ∀ (l : List (Frag P)), (∀ f ∈ l, fs.get (.frag f.path) = some (.frag f.content)) →
    fragmentsOk fs l = none := by
  intro l
  induction l with
  | nil => intro _; rfl
  | cons f t ih =>
    intro h
    simp only [fragmentsOk, h f List.mem_cons_self, if_true]
    exact ih (fun f' hf' => h f' (List.mem_cons_of_mem _ hf'))


/-! ### what resume does in each kind of directory -/

theorem resume_pre (db : List (Graph P)) (ident : Identity) (fs : FS P) (hm : fs.get .manifest = none) (hc : fs.get .ckpt = none) :
    resume db ident fs = ⟨[], .refused .noCheckpoint⟩ := by
  unfold resume; simp [hm, hc]

theorem resume_manifest (db : List (Graph P)) (ident : Identity) (fs : FS P) (hm : fs.get .manifest ≠ none) :
    resume db ident fs = ⟨[], .refused .manifestPresent⟩ := by
  unfold resume
  have : (fs.get .manifest).isSome = true := by
    cases h : fs.get .manifest with
    | none => exact absurd h hm
    | some _ => rfl
  simp [this]

/-- from a `Near` directory of a well-shaped version resume removes the known temps and continues the dump -/
theorem resume_near (db : List (Graph P)) (ident : Identity) (hset : Setting db ident) (v : Ckpt P) (hv : Shape db ident v)
    (fs : FS P) (h : Near ident v fs) :
    resume db ident fs = ⟨(knownTemps ident v).map FsOp.remove ++ contOps db (measure db v) v, .ok⟩ := by
  have hex := h.removeAll
  have hnd := committed_nodup db ident hset v hv
  unfold resume
  simp only [h.manifest, Option.isSome_none, Bool.false_eq_true, if_false, h.ckpt]
  rw [if_neg (by rw [hv.identity]; simp)]
  rw [validCkpt_of_shape db ident hset v hv]
  simp only [Bool.not_true, Bool.false_eq_true, if_false]
  have hfr : fragmentsOk (applyOps ((knownTemps ident v).map FsOp.remove) fs) (committed v) = none := by
    apply fragmentsOk_of
    intro f hf
    rw [hex (.frag f.path)]
    exact fragGet_of_mem v hnd f hf
  rw [hfr]
  have hun : noUnexpected (applyOps ((knownTemps ident v).map FsOp.remove) fs) v = true := by
    unfold noUnexpected
    rw [List.all_eq_true]
    intro e he
    have hne : (applyOps ((knownTemps ident v).map FsOp.remove) fs).get e.1 ≠ none :=
      (get_isSome_iff_mem _ _).mpr ⟨e.2, he⟩
    rw [hex e.1] at hne
    cases hq : e.1 with
    | ckpt => simp
    | frag p =>
      rw [hq] at hne
      cases hfg : fragGet v p with
      | none => exact absurd hfg hne
      | some d =>
        obtain ⟨f, hf, hfp⟩ := fragGet_some_mem v p d hfg
        simp only [Bool.or_eq_true, beq_iff_eq, List.any_eq_true]
        right; exact ⟨f, hf, by rw [hfp]⟩
    | ckptTmp => rw [hq] at hne; exact absurd rfl hne
    | manifest => rw [hq] at hne; exact absurd rfl hne
    | manifestTmp => rw [hq] at hne; exact absurd rfl hne
    | fragTmp p => rw [hq] at hne; exact absurd rfl hne
    | stray n => rw [hq] at hne; exact absurd rfl hne
  rw [hun, sourceOk_of_shape db ident v hv]
  simp

/-- the publish-before-record window: resume refuses, touching only known temps -/
theorem resume_pub (db : List (Graph P)) (ident : Identity) (hset : Setting db ident) (v : Ckpt P) (hv : Shape db ident v)
    (f : Frag P) (fs : FS P) (h : Pub v f fs) :
    resume db ident fs = ⟨(knownTemps ident v).map FsOp.remove, .refused .unexpectedFile⟩ := by
  have hp := h.removeSome v f fs ident (knownTemps ident v) (fun q hq => hq)
  have hnd := committed_nodup db ident hset v hv
  unfold resume
  simp only [h.manifest, Option.isSome_none, Bool.false_eq_true, if_false, h.ckpt]
  rw [if_neg (by rw [hv.identity]; simp)]
  rw [validCkpt_of_shape db ident hset v hv]
  simp only [Bool.not_true, Bool.false_eq_true, if_false]
  have hfr : fragmentsOk (applyOps ((knownTemps ident v).map FsOp.remove) fs) (committed v) = none := by
    apply fragmentsOk_of
    intro f' hf'
    rw [hp.frags f'.path]
    have : f'.path ≠ f.path := by
      intro he; apply h.fresh; rw [← he]; exact List.mem_map.mpr ⟨f', hf', rfl⟩
    rw [if_neg this]
    exact fragGet_of_mem v hnd f' hf'
  rw [hfr]
  have hun : noUnexpected (applyOps ((knownTemps ident v).map FsOp.remove) fs) v = false := by
    unfold noUnexpected
    have hget := hp.frags f.path
    rw [if_pos rfl] at hget
    obtain ⟨d, hd⟩ := (get_isSome_iff_mem _ _).mp (by rw [hget]; simp)
    rw [Bool.eq_false_iff]
    intro hall
    rw [List.all_eq_true] at hall
    have := hall _ hd
    simp only [Bool.or_eq_true, beq_iff_eq, List.any_eq_true, reduceCtorEq, false_or] at this
    obtain ⟨f', hf', he⟩ := this
    apply h.fresh
    have : f'.path = f.path := by injection he
    rw [← this]
    exact List.mem_map.mpr ⟨f', hf', rfl⟩
  rw [hun]
  simp

end StateSec

/-! ## Versions reachable by the dump, prefixes of operation lists -/

section ReachSec
variable {P : Type} [DecidableEq P]

inductive Reaches (db : List (Graph P)) : Ckpt P → Ckpt P → Prop
  | refl (v : Ckpt P) : Reaches db v v
  | step (v : Ckpt P) (s : Option (Frag P) × Ckpt P) (w : Ckpt P) : next db v = some s → Reaches db s.2 w → Reaches db v w

theorem Reaches.trans {db : List (Graph P)} {a b c : Ckpt P} (h1 : Reaches db a b) (h2 : Reaches db b c) : Reaches db a c := by
  induction h1 with
  | refl v => exact h2
  | step v s w hn _ ih => exact Reaches.step v s c hn (ih h2)

theorem Reaches.snoc {db : List (Graph P)} {a b : Ckpt P} (h1 : Reaches db a b) (s : Option (Frag P) × Ckpt P)
    (h : next db b = some s) : Reaches db a s.2 :=
  h1.trans (Reaches.step b s s.2 h (Reaches.refl _))

/-- the dump is deterministic: the terminal version is unique -/
theorem Reaches.terminal_unique {db : List (Graph P)} {v t t' : Ckpt P} (h : Reaches db v t) (ht : next db t = none)
    (h' : Reaches db v t') (ht' : next db t' = none) : t = t' := by
  induction h with
  | refl v =>
    cases h' with
    | refl _ => rfl
    | step _ s _ hn _ => rw [ht] at hn; cases hn
  | step v s w hn _ ih =>
    cases h' with
    | refl _ => rw [ht'] at hn; cases hn
    | step _ s' _ hn' hr' =>
      rw [hn] at hn'
      have : s = s' := Option.some.inj hn'
      subst this
      exact ih ht hr'

/-- a checkpoint version the uninterrupted dump writes -/
def Genuine (db : List (Graph P)) (ident : Identity) (v : Ckpt P) : Prop := Reaches db (V0 ident) v

theorem Reaches.shape {db : List (Graph P)} {ident : Identity} (hset : Setting db ident) {a b : Ckpt P}
    (h : Reaches db a b) (ha : Shape db ident a) : Shape db ident b := by
  induction h with
  | refl v => exact ha
  | step v s w hn _ ih => exact ih (shape_next db ident hset v ha s hn)

theorem Genuine.shape {db : List (Graph P)} {ident : Identity} (hset : Setting db ident) {v : Ckpt P}
    (h : Genuine db ident v) : Shape db ident v :=
  Reaches.shape hset h (shape_V0 db ident)

/-- `C` holds for the directory after every prefix of `ops` -/
def AllPrefixes (C : FS P → Prop) (ops : List (FsOp P)) (fs : FS P) : Prop := ∀ k, C (applyOps (ops.take k) fs)

theorem AllPrefixes.nil {C : FS P → Prop} {fs : FS P} (h : C fs) : AllPrefixes C [] fs := by
  intro k; simpa [applyOps_nil] using h

theorem AllPrefixes.cons {C : FS P → Prop} {fs : FS P} {op : FsOp P} {ops : List (FsOp P)} (h : C fs)
    (ht : AllPrefixes C ops (applyOp fs op)) : AllPrefixes C (op :: ops) fs := by
  intro k
  cases k with
  | zero => simpa [applyOps_nil] using h
  | succ k => simpa [List.take_succ_cons, applyOps_cons] using ht k

theorem AllPrefixes.append {C : FS P → Prop} {fs : FS P} {a b : List (FsOp P)} (ha : AllPrefixes C a fs)
    (hb : AllPrefixes C b (applyOps a fs)) : AllPrefixes C (a ++ b) fs := by
  intro k
  rw [List.take_append]
  rw [applyOps_append]
  by_cases hk : k ≤ a.length
  · have : k - a.length = 0 := by omega
    rw [this]
    simpa [applyOps_nil] using ha k
  · have : a.take k = a := List.take_of_length_le (by omega)
    rw [this]
    exact hb (k - a.length)

def isNoop : FsOp P → Bool
  | .mkdir => true
  | .touch => true
  | .close => true
  | _ => false

theorem applyOps_noops (ops : List (FsOp P)) (fs : FS P) (h : ∀ op ∈ ops, isNoop op = true) : applyOps ops fs = fs := by
  induction ops generalizing fs with
  | nil => rfl
  | cons op ops ih =>
    rw [applyOps_cons]
    have : applyOp fs op = fs := by
      have := h op List.mem_cons_self
      cases op <;> simp [isNoop] at this <;> rfl
    rw [this]
    exact ih fs (fun o ho => h o (List.mem_cons_of_mem _ ho))

theorem AllPrefixes.noops {C : FS P → Prop} {fs : FS P} (ops : List (FsOp P)) (h : ∀ op ∈ ops, isNoop op = true) (hc : C fs) :
    AllPrefixes C ops fs := by
  intro k
  rw [applyOps_noops _ _ (fun o ho => h o (List.mem_of_mem_take ho))]
  exact hc

theorem AllPrefixes.full {C : FS P → Prop} {fs : FS P} {ops : List (FsOp P)} (h : AllPrefixes C ops fs) : C (applyOps ops fs) := by
  have := h ops.length
  rwa [List.take_length] at this

end ReachSec

/-! ## Every crash prefix lands in one of four kinds of directory -/

section ClsSec
variable {P : Type} [DecidableEq P]

/-- the finished dump of terminal version `v`: manifest and fragments, nothing else -/
def finalGet (v : Ckpt P) : FPath → Option (FData P)
  | .manifest => some (.manifest v.done)
  | .frag p => fragGet v p
  | _ => none

/-- manifest published: the dump is complete; at most the checkpoint is still there -/
structure Complete (v : Ckpt P) (fs : FS P) : Prop where
  rest : ∀ q, q ≠ FPath.ckpt → fs.get q = finalGet v q
  ckpt : fs.get .ckpt = some (.ckpt v) ∨ fs.get .ckpt = none

inductive Cls (db : List (Graph P)) (ident : Identity) (fs : FS P) : Prop
  | pre : fs.get .ckpt = none → fs.get .manifest = none → (∀ p, fs.get (.frag p) = none) → Cls db ident fs
  | near (v : Ckpt P) : Genuine db ident v → Near ident v fs → Cls db ident fs
  | pub (v : Ckpt P) (f : Frag P) : Genuine db ident v → Pub v f fs → Cls db ident fs
  | complete (v : Ckpt P) : Genuine db ident v → next db v = none → Complete v fs → Cls db ident fs

theorem fragGet_snoc (v v' : Ckpt P) (f : Frag P) (hc : committed v' = committed v ++ [f])
    (hfresh : f.path ∉ (committed v).map (fun f => f.path)) (p : Path) :
    fragGet v' p = if p = f.path then some (.frag f.content) else fragGet v p := by
  unfold fragGet
  rw [hc, List.find?_append]
  by_cases hp : p = f.path
  · subst hp
    have : (committed v).find? (fun f' => f'.path == f.path) = none := by
      rw [List.find?_eq_none]; intro f' hf'
      have : f'.path ≠ f.path := by intro he; apply hfresh; rw [← he]; exact List.mem_map.mpr ⟨f', hf', rfl⟩
      simpa using this
    simp [this]
  · have hne : (f.path == p) = false := by simpa using (fun e : f.path = p => hp e.symm)
    simp only [hp, if_false, List.find?_cons, hne, List.find?_nil]
    cases (committed v).find? (fun f' => f'.path == p) <;> rfl

theorem fragGet_congr (v v' : Ckpt P) (hc : committed v' = committed v) (p : Path) : fragGet v' p = fragGet v p := by
  unfold fragGet; rw [hc]

theorem Pub.writeCkptTmp (v : Ckpt P) (f : Frag P) (fs : FS P) (h : Pub v f fs) : Pub v f (applyOp fs (.writeTmp .ckptTmp)) := by
  refine ⟨?_, ?_, ?_, h.fresh⟩
  · simp only [applyOp, get_set]; simp; exact h.ckpt
  · simp only [applyOp, get_set]; simp; exact h.manifest
  · intro p; simp only [applyOp, get_set]; simp; exact h.frags p

/-- one step of the dump from the exact state of version `v`: every prefix is `Near v`, or — after the
fragment rename — the publish-before-record window of `v`, and the whole step ends in the exact state of
the next version -/
theorem step_states (db : List (Graph P)) (ident : Identity) (hset : Setting db ident) (v : Ckpt P) (hg : Genuine db ident v)
    (s : Option (Frag P) × Ckpt P) (hn : next db v = some s) (fs0 : FS P) (hex : Exact v fs0) :
    AllPrefixes (Cls db ident) (stepOps s) fs0 ∧ Exact s.2 (applyOps (stepOps s) fs0) := by
  have hv := hg.shape hset
  have hg' : Genuine db ident s.2 := Reaches.snoc hg s hn
  have hv' := hg'.shape hset
  obtain ⟨hcomm, hknown⟩ := next_spec db ident hset v hv s hn
  have hnear0 : Near ident v fs0 := hex.near ident v fs0
  -- recording the next version on top of a directory `fs` that holds `v`'s fragments plus what `s.1` published
  have ckStep : ∀ (fs : FS P), (∀ q, q ≠ FPath.ckpt → q ≠ FPath.ckptTmp → fs.get q = stateGet s.2 q) →
      Cls db ident fs → Cls db ident (applyOp fs (.writeTmp .ckptTmp)) →
      AllPrefixes (Cls db ident) (ckOps s.2) fs ∧ Exact s.2 (applyOps (ckOps s.2) fs) := by
    intro fs hrest hc0 hc1
    have hfull : Exact s.2 (applyOps (ckOps s.2) fs) := by
      intro q
      simp only [ckOps, applyOps_cons, applyOps_nil, applyOp, get_set, get_remove]
      by_cases h1 : q = FPath.ckpt
      · subst h1; rfl
      · by_cases h2 : q = FPath.ckptTmp
        · subst h2; simp [stateGet]
        · simp only [h1, h2, if_false]; exact hrest q h1 h2
    refine ⟨?_, hfull⟩
    unfold ckOps
    apply AllPrefixes.cons hc0
    apply AllPrefixes.cons hc1
    apply AllPrefixes.nil
    have := hfull
    simp only [ckOps, applyOps_cons, applyOps_nil] at this
    exact Cls.near s.2 hg' (this.near ident s.2 _)
  cases hs1 : s.1 with
  | none =>
    rw [hs1] at hcomm
    simp only [Option.toList_none, List.append_nil] at hcomm
    have hops : stepOps s = ckOps s.2 := by simp [stepOps, hs1]
    rw [hops]
    apply ckStep fs0
    · intro q h1 h2
      rw [hex q]
      cases q with
      | ckpt => exact absurd rfl h1
      | frag p => exact (fragGet_congr v s.2 hcomm p).symm
      | _ => rfl
    · exact Cls.near v hg hnear0
    · refine Cls.near v hg ⟨?_, ?_, ?_, ?_, ?_⟩
      · simp only [applyOp, get_set]; simp; exact hex .ckpt
      · simp only [applyOp, get_set]; simp; exact hex .manifest
      · intro p; simp only [applyOp, get_set]; simp; exact hex (.frag p)
      · intro n; simp only [applyOp, get_set]; simp; exact hex (.stray n)
      · intro p hp; simp only [applyOp, get_set] at hp; simp at hp; exact absurd (hex (.fragTmp p)) hp
  | some f =>
    rw [hs1] at hcomm
    simp only [Option.toList_some] at hcomm
    have hknownf := hknown f hs1
    have hfresh : f.path ∉ (committed v).map (fun f => f.path) := by
      have hnd := committed_nodup db ident hset s.2 hv'
      rw [hcomm, List.map_append, List.nodup_append] at hnd
      intro hm
      exact hnd.2.2 _ hm f.path (by simp) rfl
    have hops : stepOps s = [FsOp.writeTmp (.fragTmp f.path)] ++ ((List.replicate f.content.count FsOp.touch ++ [FsOp.close]) ++
        ([FsOp.rename (.fragTmp f.path) (.frag f.path) (.frag f.content)] ++ ckOps s.2)) := by
      simp [stepOps, hs1, fragOps, List.append_assoc]
    rw [hops]
    -- state after creating the temp
    have hS1 : ∀ q, (applyOp fs0 (.writeTmp (.fragTmp f.path))).get q = if q = FPath.fragTmp f.path then some .tmp else stateGet v q := by
      intro q; simp only [applyOp, get_set, hex q]
    have hnear1 : Near ident v (applyOp fs0 (.writeTmp (.fragTmp f.path))) := by
      refine ⟨?_, ?_, ?_, ?_, ?_⟩
      · rw [hS1]; simp [stateGet]
      · rw [hS1]; simp [stateGet]
      · intro p; rw [hS1]; simp [stateGet]
      · intro n; rw [hS1]; simp [stateGet]
      · intro p hp
        rw [hS1] at hp
        by_cases he : FPath.fragTmp p = FPath.fragTmp f.path
        · rw [he]; exact hknownf
        · rw [if_neg he] at hp; exact absurd rfl hp
    have hnoop : ∀ op ∈ (List.replicate f.content.count (FsOp.touch (P := P)) ++ [FsOp.close]), isNoop op = true := by
      intro op hop
      rcases List.mem_append.mp hop with h | h
      · rw [(List.mem_replicate.mp h).2]; rfl
      · simp at h; subst h; rfl
    -- state after the fragment rename
    have hS2 : ∀ q, (applyOp (applyOp fs0 (.writeTmp (.fragTmp f.path))) (.rename (.fragTmp f.path) (.frag f.path) (.frag f.content))).get q =
        if q = FPath.frag f.path then some (.frag f.content) else if q = FPath.fragTmp f.path then none else stateGet v q := by
      intro q
      simp only [applyOp, get_set, get_remove, hex q]
      by_cases h1 : q = FPath.frag f.path
      · simp [h1]
      · by_cases h2 : q = FPath.fragTmp f.path <;> simp [h1, h2]
    have hpub2 : Pub v f (applyOp (applyOp fs0 (.writeTmp (.fragTmp f.path))) (.rename (.fragTmp f.path) (.frag f.path) (.frag f.content))) := by
      refine ⟨?_, ?_, ?_, hfresh⟩
      · rw [hS2]; simp [stateGet]
      · rw [hS2]; simp [stateGet]
      · intro p; rw [hS2]
        by_cases hp : p = f.path
        · subst hp; simp
        · have : FPath.frag p ≠ FPath.frag f.path := by intro he; injection he with he; exact hp he
          simp [this, hp, stateGet]
    have hrest2 : ∀ q, q ≠ FPath.ckpt → q ≠ FPath.ckptTmp →
        (applyOp (applyOp fs0 (.writeTmp (.fragTmp f.path))) (.rename (.fragTmp f.path) (.frag f.path) (.frag f.content))).get q = stateGet s.2 q := by
      intro q h1 h2
      rw [hS2]
      cases q with
      | ckpt => exact absurd rfl h1
      | ckptTmp => exact absurd rfl h2
      | frag p =>
        simp only [stateGet]
        rw [fragGet_snoc v s.2 f hcomm hfresh p]
        by_cases hp : p = f.path
        · subst hp; simp
        · have : FPath.frag p ≠ FPath.frag f.path := by intro he; injection he with he; exact hp he
          simp [this, hp]
      | fragTmp p =>
        by_cases hp : FPath.fragTmp p = FPath.fragTmp f.path <;> simp [hp, stateGet]
      | manifest => simp [stateGet]
      | manifestTmp => simp [stateGet]
      | stray n => simp [stateGet]
    have hpub3 := Pub.writeCkptTmp v f _ hpub2
    obtain ⟨hck, hckfull⟩ := ckStep _ hrest2 (Cls.pub v f hg hpub2) (Cls.pub v f hg hpub3)
    have happ : applyOps ([FsOp.writeTmp (.fragTmp f.path)] ++ ((List.replicate f.content.count FsOp.touch ++ [FsOp.close]) ++
        ([FsOp.rename (.fragTmp f.path) (.frag f.path) (.frag f.content)] ++ ckOps s.2))) fs0 =
        applyOps (ckOps s.2) (applyOp (applyOp fs0 (.writeTmp (.fragTmp f.path))) (.rename (.fragTmp f.path) (.frag f.path) (.frag f.content))) := by
      rw [applyOps_append, applyOps_append, applyOps_append]
      simp only [applyOps_cons, applyOps_nil]
      rw [applyOps_noops _ _ hnoop]
    refine ⟨?_, by rw [happ]; exact hckfull⟩
    apply AllPrefixes.append
    · exact AllPrefixes.cons (Cls.near v hg hnear0) (AllPrefixes.nil (Cls.near v hg hnear1))
    · simp only [applyOps_cons, applyOps_nil]
      apply AllPrefixes.append
      · exact AllPrefixes.noops _ hnoop (Cls.near v hg hnear1)
      · rw [applyOps_noops _ _ hnoop]
        apply AllPrefixes.append
        · exact AllPrefixes.cons (Cls.near v hg hnear1) (AllPrefixes.nil (Cls.pub v f hg hpub2))
        · simp only [applyOps_cons, applyOps_nil]
          exact hck


/-- the final steps from the exact state of a terminal version -/
theorem final_states (db : List (Graph P)) (ident : Identity) (v : Ckpt P) (hg : Genuine db ident v) (hn : next db v = none)
    (fs0 : FS P) (hex : Exact v fs0) :
    AllPrefixes (Cls db ident) (finalOps v) fs0 ∧ (∀ q, (applyOps (finalOps v) fs0).get q = finalGet v q) := by
  have hnear0 : Near ident v fs0 := hex.near ident v fs0
  have h1 : Near ident v (applyOp fs0 (.writeTmp .manifestTmp)) := by
    refine ⟨?_, ?_, ?_, ?_, ?_⟩
    · simp only [applyOp, get_set]; simp; exact hex .ckpt
    · simp only [applyOp, get_set]; simp; exact hex .manifest
    · intro p; simp only [applyOp, get_set]; simp; exact hex (.frag p)
    · intro n; simp only [applyOp, get_set]; simp; exact hex (.stray n)
    · intro p hp; simp only [applyOp, get_set] at hp; simp at hp; exact absurd (hex (.fragTmp p)) hp
  have hS2 : ∀ q, (applyOp (applyOp fs0 (.writeTmp .manifestTmp)) (.rename .manifestTmp .manifest (.manifest v.done))).get q =
      if q = FPath.manifest then some (.manifest v.done) else if q = FPath.manifestTmp then none else stateGet v q := by
    intro q
    simp only [applyOp, get_set, get_remove, hex q]
    by_cases a : q = FPath.manifest
    · simp [a]
    · by_cases b : q = FPath.manifestTmp <;> simp [a, b]
  have h2 : Complete v (applyOp (applyOp fs0 (.writeTmp .manifestTmp)) (.rename .manifestTmp .manifest (.manifest v.done))) := by
    refine ⟨?_, Or.inl (by rw [hS2]; simp [stateGet])⟩
    intro q hq
    rw [hS2]
    cases q <;> simp [finalGet, stateGet] at hq ⊢
  have hS3 : ∀ q, (applyOps (finalOps v) fs0).get q = finalGet v q := by
    intro q
    simp only [finalOps, applyOps_cons, applyOps_nil]
    show (applyOp _ (.remove .ckpt)).get q = _
    simp only [applyOp, get_remove]
    by_cases a : q = FPath.ckpt
    · subst a; simp [finalGet]
    · rw [if_neg a]; exact h2.rest q a
  refine ⟨?_, hS3⟩
  unfold finalOps
  apply AllPrefixes.cons (Cls.near v hg hnear0)
  apply AllPrefixes.cons (Cls.near v hg h1)
  apply AllPrefixes.cons (Cls.complete v hg hn h2)
  apply AllPrefixes.nil
  refine Cls.complete v hg hn ⟨fun q hq => ?_, Or.inr ?_⟩
  · have := hS3 q
    simp only [finalOps, applyOps_cons, applyOps_nil] at this
    exact this
  · have := hS3 .ckpt
    simp only [finalOps, applyOps_cons, applyOps_nil] at this
    rw [this]; rfl

/-- the dump continued from the exact state of a genuine version: every crash prefix is classified, and the
run ends in the finished dump of the (unique) terminal version -/
theorem cont_states (db : List (Graph P)) (ident : Identity) (hset : Setting db ident) :
    ∀ (n : Nat) (v : Ckpt P), measure db v = n → Genuine db ident v → ∀ (fs0 : FS P), Exact v fs0 →
      AllPrefixes (Cls db ident) (contOps db (measure db v) v) fs0 ∧
      ∃ t, Reaches db v t ∧ next db t = none ∧ ∀ q, (applyOps (contOps db (measure db v) v) fs0).get q = finalGet t q := by
  intro n
  induction n using Nat.strongRecOn with
  | _ n ih =>
    intro v hm hg fs0 hex
    have hshard : 1 ≤ v.identity.shard := by rw [(hg.shape hset).identity]; exact hset.shard
    cases hn : next db v with
    | none =>
      rw [contOps_of_none db v hn]
      obtain ⟨h1, h2⟩ := final_states db ident v hg hn fs0 hex
      exact ⟨h1, v, Reaches.refl v, hn, h2⟩
    | some s =>
      rw [contOps_unfold db v hshard s hn]
      obtain ⟨hs1, hs2⟩ := step_states db ident hset v hg s hn fs0 hex
      have hlt := next_measure db v hshard s hn
      obtain ⟨hc1, t, hr, ht, hfin⟩ := ih (measure db s.2) (by omega) s.2 rfl (Reaches.snoc hg s hn) _ hs2
      refine ⟨AllPrefixes.append hs1 hc1, t, Reaches.step v s t hn hr, ht, ?_⟩
      intro q
      rw [applyOps_append]
      exact hfin q

/-- the uninterrupted dump into an empty directory -/
theorem dump_states (db : List (Graph P)) (ident : Identity) (hset : Setting db ident) :
    AllPrefixes (Cls db ident) (dumpOps db ident) [] ∧
    ∃ t, Genuine db ident t ∧ next db t = none ∧ ∀ q, (applyOps (dumpOps db ident) ([] : FS P)).get q = finalGet t q := by
  have hpre0 : Cls db ident ([] : FS P) := Cls.pre rfl rfl (fun _ => rfl)
  have hpre1 : Cls db ident (applyOp ([] : FS P) (.writeTmp .ckptTmp)) :=
    Cls.pre (by simp [applyOp, get_set, get_nil]) (by simp [applyOp, get_set, get_nil]) (by intro p; simp [applyOp, get_set, get_nil])
  have hex : Exact (V0 ident) (applyOps ([FsOp.mkdir] ++ ckOps (V0 ident)) ([] : FS P)) := by
    intro q
    simp only [ckOps, List.cons_append, List.nil_append, applyOps_cons, applyOps_nil, applyOp, get_set, get_remove, get_nil]
    cases q <;> simp [stateGet, fragGet, committed, V0]
  obtain ⟨hc, t, hr, ht, hfin⟩ := cont_states db ident hset _ (V0 ident) rfl (Reaches.refl _) _ hex
  unfold dumpOps
  refine ⟨?_, t, hr, ht, ?_⟩
  · apply AllPrefixes.append
    · show AllPrefixes (Cls db ident) (FsOp.mkdir :: ckOps (V0 ident)) []
      apply AllPrefixes.cons hpre0
      unfold ckOps
      apply AllPrefixes.cons hpre0
      apply AllPrefixes.cons hpre1
      apply AllPrefixes.nil
      have := hex
      simp only [ckOps, List.cons_append, List.nil_append, applyOps_cons, applyOps_nil] at this
      exact Cls.near (V0 ident) (Reaches.refl _) (this.near ident _ _)
    · exact hc
  · intro q
    rw [applyOps_append]
    exact hfin q


/-! ## Directories reachable by crashing the dump and any number of resumes -/

/-- `Reach fs`: `fs` is the directory after a crash of the dump at some step, or after a crash at some
step of a resume started in a reachable directory (a resume that runs to its end — completed or refused —
is the prefix of all its steps). -/
inductive Reach (db : List (Graph P)) (ident : Identity) : FS P → Prop
  | crashDump (k : Nat) : Reach db ident (applyOps ((dumpOps db ident).take k) [])
  | crashResume (fs : FS P) (k : Nat) : Reach db ident fs → Reach db ident (applyOps ((resume db ident fs).ops.take k) fs)

theorem take_map_remove (ps : List FPath) (k : Nat) : (ps.map (FsOp.remove (P := P))).take k = (ps.take k).map FsOp.remove := by
  rw [List.map_take]

theorem resume_prefixes (db : List (Graph P)) (ident : Identity) (hset : Setting db ident) (fs : FS P) (h : Cls db ident fs) :
    AllPrefixes (Cls db ident) (resume db ident fs).ops fs := by
  cases h with
  | pre hc hm _ => rw [resume_pre db ident fs hm hc]; exact AllPrefixes.nil (Cls.pre hc hm (by assumption))
  | near v hg hn =>
    rw [resume_near db ident hset v (hg.shape hset) fs hn]
    apply AllPrefixes.append
    · intro k
      rw [take_map_remove]
      exact Cls.near v hg (hn.removeSome ident v fs _ (fun q hq => List.mem_of_mem_take hq))
    · exact (cont_states db ident hset _ v rfl hg _ hn.removeAll).1
  | pub v f hg hp =>
    rw [resume_pub db ident hset v (hg.shape hset) f fs hp]
    intro k
    rw [take_map_remove]
    exact Cls.pub v f hg (hp.removeSome v f fs ident _ (fun q hq => List.mem_of_mem_take hq))
  | complete v hg hn hc =>
    have : fs.get .manifest ≠ none := by rw [hc.rest .manifest (by simp)]; simp [finalGet]
    rw [resume_manifest db ident fs this]
    exact AllPrefixes.nil (Cls.complete v hg hn hc)

theorem reach_cls (db : List (Graph P)) (ident : Identity) (hset : Setting db ident) (fs : FS P) (h : Reach db ident fs) :
    Cls db ident fs := by
  induction h with
  | crashDump k => exact (dump_states db ident hset).1 k
  | crashResume fs k _ ih => exact resume_prefixes db ident hset fs ih k

end ClsSec
end Dawgs.C19
