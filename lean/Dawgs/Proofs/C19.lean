/- Helper lemmas for C19 (property statements live in Props/C19.lean). -/
import Dawgs.Model.C19
import Dawgs.Proofs.C18
set_option linter.unusedSimpArgs false
set_option linter.unusedVariables false
namespace Dawgs.C19
open Dawgs.C18

/-! ## File-system algebra (pointwise) -/

section FSSec
variable {P : Type}

theorem get_nil (q : FPath) : FS.get ([] : FS P) q = none := rfl

theorem get_cons (e : FPath × FData P) (fs : FS P) (q : FPath) :
    FS.get (e :: fs) q = if e.1 = q then some e.2 else FS.get fs q := by
  unfold FS.get
  rw [List.find?_cons]
  by_cases h : e.1 = q
  · simp [h]
  · have : (e.1 == q) = false := by simpa using h
    simp [this, h]

theorem get_remove (fs : FS P) (p q : FPath) : (fs.remove p).get q = if q = p then none else fs.get q := by
  induction fs with
  | nil => simp [FS.remove, FS.get]
  | cons e fs ih =>
    by_cases hp : e.1 = p
    · have : FS.remove (e :: fs) p = FS.remove fs p := by simp [FS.remove, hp]
      rw [this, ih, get_cons]
      by_cases hq : q = p
      · simp [hq]
      · have : e.1 ≠ q := by rw [hp]; exact fun h => hq h.symm
        simp [hq, this]
    · have : FS.remove (e :: fs) p = e :: FS.remove fs p := by simp [FS.remove, hp]
      rw [this, get_cons, get_cons, ih]
      by_cases hq : q = p
      · have : e.1 ≠ q := by rw [hq]; exact hp
        simp [hq, this, hp]
      · simp [hq]

theorem get_set (fs : FS P) (p q : FPath) (d : FData P) : (fs.set p d).get q = if q = p then some d else fs.get q := by
  unfold FS.set
  rw [get_cons, get_remove]
  by_cases h : q = p
  · simp [h]
  · have : p ≠ q := fun e => h e.symm
    simp [h, this]

theorem get_isSome_iff_mem (fs : FS P) (q : FPath) : fs.get q ≠ none ↔ ∃ d, (q, d) ∈ fs := by
  induction fs with
  | nil => simp [FS.get]
  | cons e fs ih =>
    rw [get_cons]
    by_cases h : e.1 = q
    · simp only [h, if_true, ne_eq, reduceCtorEq, not_false_eq_true, true_iff]
      exact ⟨e.2, by rw [← h]; exact List.mem_cons_self⟩
    · simp only [h, if_false]
      rw [ih]
      constructor
      · rintro ⟨d, hd⟩; exact ⟨d, List.mem_cons_of_mem _ hd⟩
      · rintro ⟨d, hd⟩
        rcases List.mem_cons.mp hd with h' | h'
        · exact absurd (by rw [← h']) h
        · exact ⟨d, h'⟩

/-- two directories with the same content at every path -/
def Equiv (a b : FS P) : Prop := ∀ q, a.get q = b.get q

theorem Equiv.refl (a : FS P) : Equiv a a := fun _ => rfl
theorem Equiv.symm {a b : FS P} (h : Equiv a b) : Equiv b a := fun q => (h q).symm
theorem Equiv.trans {a b c : FS P} (h1 : Equiv a b) (h2 : Equiv b c) : Equiv a c := fun q => (h1 q).trans (h2 q)

theorem applyOp_equiv {a b : FS P} (h : Equiv a b) (op : FsOp P) : Equiv (applyOp a op) (applyOp b op) := by
  intro q
  cases op with
  | mkdir => exact h q
  | touch => exact h q
  | close => exact h q
  | writeTmp p => simp only [applyOp, get_set, h q]
  | rename x y d => simp only [applyOp, get_set, get_remove, h q]
  | remove p => simp only [applyOp, get_remove, h q]

theorem applyOps_nil (fs : FS P) : applyOps [] fs = fs := rfl
theorem applyOps_cons (op : FsOp P) (ops : List (FsOp P)) (fs : FS P) :
    applyOps (op :: ops) fs = applyOps ops (applyOp fs op) := rfl
theorem applyOps_append (a b : List (FsOp P)) (fs : FS P) : applyOps (a ++ b) fs = applyOps b (applyOps a fs) := by
  unfold applyOps; rw [List.foldl_append]

theorem applyOps_equiv {a b : FS P} (h : Equiv a b) (ops : List (FsOp P)) : Equiv (applyOps ops a) (applyOps ops b) := by
  induction ops generalizing a b with
  | nil => exact h
  | cons op ops ih => exact ih (applyOp_equiv h op)

end FSSec

/-! ## Fuel: the measure decreases with every checkpoint version -/

section FuelSec
variable {P : Type}

theorem filter_length_lt {α : Type} (p p' : α → Bool) (l : List α) (x : α) (himp : ∀ y, p' y = true → p y = true)
    (hx : x ∈ l) (hpx : p x = true) (hpx' : p' x = false) : (l.filter p').length < (l.filter p).length := by
  induction l with
  | nil => simp at hx
  | cons a t ih =>
    have hle : (t.filter p').length ≤ (t.filter p).length := by
      clear ih hx
      induction t with
      | nil => simp
      | cons b u ihu =>
        simp only [List.filter_cons]
        by_cases hb' : p' b = true
        · simp [hb', himp b hb']; exact ihu
        · have : p' b = false := by simpa using hb'
          simp only [this]
          by_cases hb : p b = true
          · simp [hb]; omega
          · have : p b = false := by simpa using hb
            simp [this]; exact ihu
    simp only [List.filter_cons]
    rcases List.mem_cons.mp hx with h | h
    · subst h
      simp [hpx, hpx']; omega
    · have := ih h
      by_cases ha' : p' a = true
      · simp [ha', himp a ha']; exact this
      · have e : p' a = false := by simpa using ha'
        simp only [e]
        by_cases ha : p a = true
        · simp [ha]; omega
        · have : p a = false := by simpa using ha
          simp [this]; assumption

theorem lastKey_mem {α : Type} (key : α → Nat) (l : List α) (hne : l ≠ []) :
    ∃ x ∈ l, lastKey key l = some (key x) := by
  unfold lastKey
  cases hl : l.getLast? with
  | none => exact absurd (List.getLast?_eq_none_iff.mp hl) hne
  | some x => exact ⟨x, List.mem_of_getLast? hl, rfl⟩

/-- continuing the keyset scan after the last id of a non-empty chunk of the remaining entities leaves
strictly fewer remaining entities -/
theorem remaining_shrinks {α : Type} (key : α → Nat) (S : List α) (last : Option Nat) (n : Nat) (hn : 1 ≤ n)
    (hne : S.filter (afterP key last) ≠ []) :
    (S.filter (afterP key (lastKey key ((S.filter (afterP key last)).take n)))).length <
      (S.filter (afterP key last)).length := by
  have hchunk : (S.filter (afterP key last)).take n ≠ [] := by
    cases h : S.filter (afterP key last) with
    | nil => exact absurd h hne
    | cons a t => cases n with
      | zero => omega
      | succ n => simp
  obtain ⟨x, hx, hlast⟩ := lastKey_mem key _ hchunk
  rw [hlast]
  have hxrem : x ∈ S.filter (afterP key last) := List.mem_of_mem_take hx
  have hxS : x ∈ S := (List.mem_filter.mp hxrem).1
  have hpx : afterP key last x = true := (List.mem_filter.mp hxrem).2
  apply filter_length_lt (afterP key last) (afterP key (some (key x))) S x
  · intro y hy
    simp only [afterP, decide_eq_true_eq] at hy
    cases last with
    | none => rfl
    | some l =>
      simp only [afterP, decide_eq_true_eq] at hpx ⊢
      omega
  · exact hxS
  · exact hpx
  · simp [afterP]

theorem drop_of_getElem? {α : Type} (l : List α) (i : Nat) (x : α) (h : l[i]? = some x) : l.drop i = x :: l.drop (i + 1) := by
  have hi : i < l.length := by
    rcases Nat.lt_or_ge i l.length with h' | h'
    · exact h'
    · rw [List.getElem?_eq_none h'] at h; cases h
  rw [List.drop_eq_getElem_cons hi]
  congr 1
  rw [List.getElem?_eq_getElem hi] at h
  exact Option.some.inj h

theorem afterP_none_filter {α : Type} (key : α → Nat) (l : List α) : l.filter (afterP key none) = l := by
  rw [List.filter_eq_self]; intro a _; rfl

theorem next_measure (db : List (Graph P)) (v : Ckpt P) (hs : 1 ≤ v.identity.shard)
    (s : Option (Frag P) × Ckpt P) (h : next db v = some s) : measure db s.2 < measure db v := by
  unfold next at h
  cases hg : db[v.done.length]? with
  | none => rw [hg] at h; simp at h
  | some g =>
    rw [hg] at h
    have hdrop := drop_of_getElem? db _ g hg
    simp only at h
    cases hsnap : (curOf v).snapshot with
    | none =>
      rw [hsnap] at h
      simp only [Option.some.injEq] at h
      subst h
      unfold measure
      simp only [hdrop]
      simp only [curOf, Option.getD_some, curWeight, hsnap, Option.isNone_none, if_true, Option.isNone_some]
      have : (v.current.getD (freshCur v.done.length)).snapshot = none := hsnap
      simp only [this, Option.isNone_none, if_true, Bool.false_eq_true, if_false]
      omega
    | some snap =>
      rw [hsnap] at h
      simp only at h
      cases hph : (curOf v).phase with
      | nodes =>
        rw [hph] at h
        simp only at h
        by_cases hemp : (remainingNodes g (curOf v).last).isEmpty = true
        · rw [if_pos hemp] at h
          simp only [Option.some.injEq] at h
          subst h
          unfold measure
          simp only [hdrop]
          simp only [curOf, Option.getD_some, curWeight, hsnap, Option.isNone_some, Bool.false_eq_true, if_false]
          have h1 : (v.current.getD (freshCur v.done.length)).snapshot = some snap := hsnap
          have h2 : (v.current.getD (freshCur v.done.length)).phase = .nodes := hph
          simp only [h1, h2, Option.isNone_some, Bool.false_eq_true, if_false]
          have : (remainingEdges g none).length = g.edges.length := by
            unfold remainingEdges; rw [afterP_none_filter, sortBy_length]
          rw [this]; omega
        · rw [if_neg hemp] at h
          simp only [Option.some.injEq] at h
          subst h
          unfold measure
          simp only [hdrop]
          simp only [curOf, Option.getD_some, curWeight, hsnap, Option.isNone_some, Bool.false_eq_true, if_false]
          have h1 : (v.current.getD (freshCur v.done.length)).snapshot = some snap := hsnap
          have h2 : (v.current.getD (freshCur v.done.length)).phase = .nodes := hph
          simp only [h1, h2, Option.isNone_some, Bool.false_eq_true, if_false]
          have hne : (sortBy nodeKey g.nodes).filter (afterP nodeKey (v.current.getD (freshCur v.done.length)).last) ≠ [] := by
            intro he; apply hemp; unfold remainingNodes curOf; rw [he]; rfl
          have := remaining_shrinks nodeKey (sortBy nodeKey g.nodes) (v.current.getD (freshCur v.done.length)).last v.identity.shard hs hne
          unfold remainingNodes
          omega
      | edges =>
        rw [hph] at h
        simp only at h
        by_cases hemp : (remainingEdges g (curOf v).last).isEmpty = true
        · rw [if_pos hemp] at h
          simp only [Option.some.injEq] at h
          subst h
          have hrem0 : (remainingEdges g (v.current.getD (freshCur v.done.length)).last).length = 0 := by
            have := hemp; unfold curOf at this
            exact List.length_eq_zero_iff.mpr (List.isEmpty_iff.mp this)
          unfold measure
          simp only [List.length_append, List.length_cons, List.length_nil, hdrop]
          have h1 : (v.current.getD (freshCur v.done.length)).snapshot = some snap := hsnap
          have h2 : (v.current.getD (freshCur v.done.length)).phase = .edges := hph
          simp only [curOf, curWeight, h1, h2, Option.isNone_some, Bool.false_eq_true, if_false, hrem0]
          cases hrest : db.drop (v.done.length + 1) with
          | nil => simp [Nat.zero_add, restWeight]
          | cons g' rest' =>
            simp only [Nat.zero_add]
            simp only [Option.getD_none, freshCur, Option.isNone_none, if_true, restWeight, graphWeight]
            have : (remainingNodes g' none).length = g'.nodes.length := by
              unfold remainingNodes; rw [afterP_none_filter, sortBy_length]
            rw [this]; omega
        · rw [if_neg hemp] at h
          simp only [Option.some.injEq] at h
          subst h
          unfold measure
          simp only [hdrop]
          simp only [curOf, Option.getD_some, curWeight, hsnap, Option.isNone_some, Bool.false_eq_true, if_false]
          have h1 : (v.current.getD (freshCur v.done.length)).snapshot = some snap := hsnap
          have h2 : (v.current.getD (freshCur v.done.length)).phase = .edges := hph
          simp only [h1, h2, Option.isNone_some, Bool.false_eq_true, if_false]
          have hne : (sortBy edgeKey g.edges).filter (afterP edgeKey (v.current.getD (freshCur v.done.length)).last) ≠ [] := by
            intro he; apply hemp; unfold remainingEdges curOf; rw [he]; rfl
          have := remaining_shrinks edgeKey (sortBy edgeKey g.edges) (v.current.getD (freshCur v.done.length)).last v.identity.shard hs hne
          unfold remainingEdges
          omega


theorem next_identity (db : List (Graph P)) (v : Ckpt P) (s : Option (Frag P) × Ckpt P) (h : next db v = some s) :
    s.2.identity = v.identity := by
  unfold next at h
  cases hg : db[v.done.length]? with
  | none => rw [hg] at h; simp at h
  | some g =>
    rw [hg] at h
    simp only at h
    cases hsnap : (curOf v).snapshot with
    | none => rw [hsnap] at h; simp only [Option.some.injEq] at h; subst h; rfl
    | some snap =>
      rw [hsnap] at h
      simp only at h
      cases hph : (curOf v).phase with
      | nodes =>
        rw [hph] at h; simp only at h
        split at h <;> (simp only [Option.some.injEq] at h; subst h; rfl)
      | edges =>
        rw [hph] at h; simp only at h
        split at h <;> (simp only [Option.some.injEq] at h; subst h; rfl)

theorem contOps_of_none (db : List (Graph P)) (v : Ckpt P) (h : next db v = none) (n : Nat) : contOps db n v = finalOps v := by
  cases n with
  | zero => rfl
  | succ n => simp [contOps, h]

theorem contOps_fuel (db : List (Graph P)) : ∀ (n m : Nat) (v : Ckpt P), 1 ≤ v.identity.shard →
    measure db v ≤ n → measure db v ≤ m → contOps db n v = contOps db m v := by
  intro n
  induction n with
  | zero =>
    intro m v hs hn hm
    cases hnx : next db v with
    | none => rw [contOps_of_none db v hnx, contOps_of_none db v hnx]
    | some s => have := next_measure db v hs s hnx; omega
  | succ n ih =>
    intro m v hs hn hm
    cases hnx : next db v with
    | none => rw [contOps_of_none db v hnx, contOps_of_none db v hnx]
    | some s =>
      have hlt := next_measure db v hs s hnx
      cases m with
      | zero => omega
      | succ m =>
        simp only [contOps, hnx]
        rw [ih m s.2 (by rw [next_identity db v s hnx]; exact hs) (by omega) (by omega)]

theorem contOps_unfold (db : List (Graph P)) (v : Ckpt P) (hs : 1 ≤ v.identity.shard) (s : Option (Frag P) × Ckpt P)
    (h : next db v = some s) :
    contOps db (measure db v) v = stepOps s ++ contOps db (measure db s.2) s.2 := by
  have hlt := next_measure db v hs s h
  cases hm : measure db v with
  | zero => omega
  | succ k =>
    simp only [contOps, h]
    rw [contOps_fuel db k (measure db s.2) s.2 (by rw [next_identity db v s h]; exact hs) (by omega) (Nat.le_refl _)]

/-! ### nothing touches `manifest.json` before the final steps -/

def touchesManifest : FsOp P → Bool
  | .writeTmp .manifest => true
  | .rename _ .manifest _ => true
  | .rename .manifest _ _ => true
  | .remove .manifest => true
  | _ => false

theorem get_manifest_applyOp (fs : FS P) (op : FsOp P) (h : touchesManifest op = false) :
    (applyOp fs op).get .manifest = fs.get .manifest := by
  cases op with
  | mkdir => rfl
  | touch => rfl
  | close => rfl
  | writeTmp p =>
    simp only [applyOp, get_set]
    have : FPath.manifest ≠ p := by intro e; subst e; simp [touchesManifest] at h
    simp [this]
  | rename a b d =>
    simp only [applyOp, get_set, get_remove]
    have hb : FPath.manifest ≠ b := by intro e; subst e; simp [touchesManifest] at h
    have ha : FPath.manifest ≠ a := by
      intro e; subst e
      cases b <;> simp [touchesManifest] at h
    simp [hb, ha]
  | remove p =>
    simp only [applyOp, get_remove]
    have : FPath.manifest ≠ p := by intro e; subst e; simp [touchesManifest] at h
    simp [this]

theorem get_manifest_applyOps (ops : List (FsOp P)) (fs : FS P) (h : ∀ op ∈ ops, touchesManifest op = false) :
    (applyOps ops fs).get .manifest = fs.get .manifest := by
  induction ops generalizing fs with
  | nil => rfl
  | cons op ops ih =>
    rw [applyOps_cons, ih _ (fun o ho => h o (List.mem_cons_of_mem _ ho)), get_manifest_applyOp fs op (h op List.mem_cons_self)]

theorem stepOps_noManifest (s : Option (Frag P) × Ckpt P) : ∀ op ∈ stepOps s, touchesManifest op = false := by
  intro op hop
  unfold stepOps at hop
  rcases List.mem_append.mp hop with h | h
  · cases hs : s.1 with
    | none => rw [hs] at h; simp at h
    | some f =>
      rw [hs] at h
      simp only [fragOps, List.mem_append, List.mem_cons, List.mem_replicate, List.not_mem_nil, or_false] at h
      rcases h with (h | h) | h | h
      · subst h; rfl
      · rw [h.2]; rfl
      · subst h; rfl
      · subst h; rfl
  · simp only [ckOps, List.mem_cons, List.not_mem_nil, or_false] at h
    rcases h with h | h <;> (subst h; rfl)

/-- the continuation is a manifest-free prefix followed by the final steps of some version -/
theorem contOps_shape (db : List (Graph P)) : ∀ (n : Nat) (v : Ckpt P),
    ∃ pre v', contOps db n v = pre ++ finalOps v' ∧ ∀ op ∈ pre, touchesManifest op = false := by
  intro n
  induction n with
  | zero => intro v; exact ⟨[], v, rfl, by simp⟩
  | succ n ih =>
    intro v
    cases hnx : next db v with
    | none => exact ⟨[], v, by simp [contOps, hnx], by simp⟩
    | some s =>
      obtain ⟨pre, v', he, hp⟩ := ih s.2
      refine ⟨stepOps s ++ pre, v', by simp [contOps, hnx, he, List.append_assoc], ?_⟩
      intro op hop
      rcases List.mem_append.mp hop with h | h
      · exact stepOps_noManifest s op h
      · exact hp op h

end FuelSec

/-! ## Shape of genuine checkpoint versions -/

section ShapeSec
variable {P : Type}

theorem phaseFiles_cons (ph : Phase) (f : Frag P) (t : List (Frag P)) :
    phaseFiles ph (f :: t) = if f.path.phase = ph then f :: phaseFiles ph t else phaseFiles ph t := by
  unfold phaseFiles
  rw [List.filter_cons]
  by_cases h : f.path.phase = ph <;> simp [h]

theorem phaseFiles_append (ph : Phase) (a b : List (Frag P)) : phaseFiles ph (a ++ b) = phaseFiles ph a ++ phaseFiles ph b := by
  unfold phaseFiles; rw [List.filter_append]

theorem pathsOk_bounds (g : String) : ∀ (fs : List (Frag P)) (kn ke : Nat), pathsOk g fs kn ke = true →
    ∀ f ∈ fs, f.path.graph = g ∧
      (f.path.phase = .nodes → kn < f.path.shard ∧ f.path.shard ≤ kn + (phaseFiles .nodes fs).length) ∧
      (f.path.phase = .edges → ke < f.path.shard ∧ f.path.shard ≤ ke + (phaseFiles .edges fs).length) := by
  intro fs
  induction fs with
  | nil => intro kn ke _ f hf; simp at hf
  | cons a t ih =>
    intro kn ke h f hf
    unfold pathsOk at h
    cases hph : a.path.phase with
    | nodes =>
      rw [hph] at h
      simp only [Bool.and_eq_true, beq_iff_eq] at h
      obtain ⟨hpa, ht⟩ := h
      have hn : phaseFiles .nodes (a :: t) = a :: phaseFiles .nodes t := by rw [phaseFiles_cons]; simp [hph]
      have he : phaseFiles .edges (a :: t) = phaseFiles .edges t := by rw [phaseFiles_cons]; simp [hph]
      rcases List.mem_cons.mp hf with hfa | hft
      · subst hfa
        refine ⟨by rw [hpa], ?_, ?_⟩
        · intro _; rw [hn, hpa]; simp <;> omega
        · intro h'; rw [hph] at h'; cases h'
      · obtain ⟨h1, h2, h3⟩ := ih (kn + 1) ke ht f hft
        refine ⟨h1, ?_, ?_⟩
        · intro h'; have := h2 h'; rw [hn]; simp; omega
        · intro h'; have := h3 h'; rw [he]; exact this
    | edges =>
      rw [hph] at h
      simp only [Bool.and_eq_true, beq_iff_eq] at h
      obtain ⟨hpa, ht⟩ := h
      have hn : phaseFiles .nodes (a :: t) = phaseFiles .nodes t := by rw [phaseFiles_cons]; simp [hph]
      have he : phaseFiles .edges (a :: t) = a :: phaseFiles .edges t := by rw [phaseFiles_cons]; simp [hph]
      rcases List.mem_cons.mp hf with hfa | hft
      · subst hfa
        refine ⟨by rw [hpa], ?_, ?_⟩
        · intro h'; rw [hph] at h'; cases h'
        · intro _; rw [he, hpa]; simp <;> omega
      · obtain ⟨h1, h2, h3⟩ := ih kn (ke + 1) ht f hft
        refine ⟨h1, ?_, ?_⟩
        · intro h'; have := h2 h'; rw [hn]; exact this
        · intro h'; have := h3 h'; rw [he]; simp; omega

theorem pathsOk_nodup (g : String) : ∀ (fs : List (Frag P)) (kn ke : Nat), pathsOk g fs kn ke = true →
    (fs.map (fun f => f.path)).Nodup := by
  intro fs
  induction fs with
  | nil => intro _ _ _; simp
  | cons a t ih =>
    intro kn ke h
    have hb := pathsOk_bounds g (a :: t) kn ke h
    unfold pathsOk at h
    simp only [List.map_cons, List.nodup_cons]
    cases hph : a.path.phase with
    | nodes =>
      rw [hph] at h
      simp only [Bool.and_eq_true, beq_iff_eq] at h
      refine ⟨?_, ih (kn + 1) ke h.2⟩
      intro hmem
      obtain ⟨f, hf, hfe⟩ := List.mem_map.mp hmem
      have hb' := pathsOk_bounds g t (kn + 1) ke h.2 f hf
      have hfp : f.path.phase = .nodes := by rw [hfe]; exact hph
      have := (hb'.2.1 hfp).1
      rw [hfe, h.1] at this
      simp at this
    | edges =>
      rw [hph] at h
      simp only [Bool.and_eq_true, beq_iff_eq] at h
      refine ⟨?_, ih kn (ke + 1) h.2⟩
      intro hmem
      obtain ⟨f, hf, hfe⟩ := List.mem_map.mp hmem
      have hb' := pathsOk_bounds g t kn (ke + 1) h.2 f hf
      have hfp : f.path.phase = .edges := by rw [hfe]; exact hph
      have := (hb'.2.2 hfp).1
      rw [hfe, h.1] at this
      simp at this

theorem pathsOk_append (g : String) (f : Frag P) : ∀ (fs : List (Frag P)) (kn ke : Nat), pathsOk g fs kn ke = true →
    f.path = ⟨g, f.path.phase, (match f.path.phase with | .nodes => kn | .edges => ke) + (phaseFiles f.path.phase fs).length + 1⟩ →
    pathsOk g (fs ++ [f]) kn ke = true := by
  intro fs
  induction fs with
  | nil =>
    intro kn ke _ hp
    simp only [List.nil_append, pathsOk]
    cases hph : f.path.phase with
    | nodes => rw [hph] at hp; simp [phaseFiles] at hp; simp [hp, pathsOk]
    | edges => rw [hph] at hp; simp [phaseFiles] at hp; simp [hp, pathsOk]
  | cons a t ih =>
    intro kn ke h hp
    unfold pathsOk at h
    simp only [List.cons_append]
    unfold pathsOk
    cases hpa : a.path.phase with
    | nodes =>
      rw [hpa] at h
      simp only [Bool.and_eq_true, beq_iff_eq] at h ⊢
      refine ⟨h.1, ih (kn + 1) ke h.2 ?_⟩
      rw [hp]
      cases hph : f.path.phase with
      | nodes =>
        have : (phaseFiles .nodes (a :: t)).length = (phaseFiles .nodes t).length + 1 := by rw [phaseFiles_cons]; simp [hpa]
        simp only [this]; first | done | (congr 1; omega)
      | edges =>
        have : (phaseFiles .edges (a :: t)).length = (phaseFiles .edges t).length := by rw [phaseFiles_cons]; simp [hpa]
        simp only [this]
    | edges =>
      rw [hpa] at h
      simp only [Bool.and_eq_true, beq_iff_eq] at h ⊢
      refine ⟨h.1, ih kn (ke + 1) h.2 ?_⟩
      rw [hp]
      cases hph : f.path.phase with
      | nodes =>
        have : (phaseFiles .nodes (a :: t)).length = (phaseFiles .nodes t).length := by rw [phaseFiles_cons]; simp [hpa]
        simp only [this]
      | edges =>
        have : (phaseFiles .edges (a :: t)).length = (phaseFiles .edges t).length + 1 := by rw [phaseFiles_cons]; simp [hpa]
        simp only [this]; first | done | (congr 1; omega)


/-- the run's setting: the requested targets are the database's graphs, with distinct names -/
structure Setting (db : List (Graph P)) (ident : Identity) : Prop where
  names : ident.graphs = db.map (fun g => g.name)
  nodup : (db.map (fun g => g.name)).Nodup
  shard : 1 ≤ ident.shard

/-- completed entries describe the first graphs of the database, in order -/
def DoneOk : List (Done P) → List (Graph P) → Prop
  | [], _ => True
  | d :: ds, g :: gs => d.name = g.name ∧ (d.nodeCount, d.edgeCount) = counts g ∧ pathsOk d.name d.files 0 0 = true ∧ DoneOk ds gs
  | _ :: _, [] => False

structure CurOk (db : List (Graph P)) (v : Ckpt P) (c : Cur P) : Prop where
  index : c.index = v.done.length
  graph : ∃ g, db[c.index]? = some g ∧ c.snapshot = some (counts g) ∧ pathsOk g.name c.files 0 0 = true
  cursor : (phaseFiles c.phase c.files).isEmpty = c.last.isNone
  phase : c.phase = .edges ∨ (phaseFiles .edges c.files).isEmpty = true

structure Shape (db : List (Graph P)) (ident : Identity) (v : Ckpt P) : Prop where
  identity : v.identity = ident
  done : DoneOk v.done db
  cur : ∀ c, v.current = some c → CurOk db v c

theorem DoneOk.length_le : ∀ (ds : List (Done P)) (gs : List (Graph P)), DoneOk ds gs → ds.length ≤ gs.length := by
  intro ds
  induction ds with
  | nil => intro gs _; simp
  | cons d ds ih =>
    intro gs h
    cases gs with
    | nil => exact absurd h (by simp [DoneOk])
    | cons g gs => simp only [DoneOk] at h; simp; exact ih gs h.2.2.2

theorem DoneOk.snoc : ∀ (ds : List (Done P)) (gs : List (Graph P)) (d : Done P) (g : Graph P), DoneOk ds gs →
    gs[ds.length]? = some g → d.name = g.name → (d.nodeCount, d.edgeCount) = counts g → pathsOk d.name d.files 0 0 = true →
    DoneOk (ds ++ [d]) gs := by
  intro ds
  induction ds with
  | nil =>
    intro gs d g _ hg h1 h2 h3
    cases gs with
    | nil => simp at hg
    | cons g' gs => simp at hg; subst hg; simp only [List.nil_append, DoneOk]; exact ⟨h1, h2, h3, trivial⟩
  | cons d0 ds ih =>
    intro gs d g h hg h1 h2 h3
    cases gs with
    | nil => exact absurd h (by simp [DoneOk])
    | cons g' gs =>
      simp only [DoneOk] at h
      simp only [List.cons_append, DoneOk]
      refine ⟨h.1, h.2.1, h.2.2.1, ih gs d g h.2.2.2 (by simpa using hg) h1 h2 h3⟩

theorem shape_V0 (db : List (Graph P)) (ident : Identity) : Shape db ident (V0 ident) :=
  ⟨rfl, by simp [V0, DoneOk], by intro c h; simp [V0] at h⟩

theorem lastKey_isSome {α : Type} (key : α → Nat) (l : List α) (h : l ≠ []) : (lastKey key l).isNone = false := by
  obtain ⟨x, _, hx⟩ := lastKey_mem key l h
  rw [hx]; rfl

theorem take_ne_nil {α : Type} (l : List α) (n : Nat) (hn : 1 ≤ n) (h : l ≠ []) : l.take n ≠ [] := by
  cases l with
  | nil => exact absurd rfl h
  | cons a t => cases n with
    | zero => omega
    | succ n => simp

/-- every step of the dump keeps the checkpoint well shaped -/
theorem shape_next (db : List (Graph P)) (ident : Identity) (hset : Setting db ident) (v : Ckpt P) (hv : Shape db ident v)
    (s : Option (Frag P) × Ckpt P) (h : next db v = some s) : Shape db ident s.2 := by
  have hshard : 1 ≤ v.identity.shard := by rw [hv.identity]; exact hset.shard
  unfold next at h
  cases hg : db[v.done.length]? with
  | none => rw [hg] at h; simp at h
  | some g =>
    rw [hg] at h
    simp only at h
    -- facts about the working state `curOf v`
    have hcur : (curOf v).index = v.done.length ∧ pathsOk g.name (curOf v).files 0 0 = true ∧
        ((phaseFiles (curOf v).phase (curOf v).files).isEmpty = (curOf v).last.isNone) ∧
        ((curOf v).phase = .edges ∨ (phaseFiles .edges (curOf v).files).isEmpty = true) ∧
        ((curOf v).snapshot = none ∨ (curOf v).snapshot = some (counts g)) := by
      cases hc : v.current with
      | none => simp [curOf, hc, freshCur, pathsOk, phaseFiles]
      | some c =>
        have hok := hv.cur c hc
        obtain ⟨g', hg', hs', hp'⟩ := hok.graph
        rw [hok.index, hg] at hg'
        have : g' = g := (Option.some.inj hg').symm
        subst this
        simp only [curOf, hc, Option.getD_some]
        exact ⟨hok.index, hp', hok.cursor, hok.phase, Or.inr hs'⟩
    obtain ⟨hidx, hpaths, hcursor, hphase, hsnapg⟩ := hcur
    cases hsnap : (curOf v).snapshot with
    | none =>
      rw [hsnap] at h
      simp only [Option.some.injEq] at h
      subst h
      refine ⟨hv.identity, hv.done, ?_⟩
      intro c hc
      simp only [Option.some.injEq] at hc
      subst hc
      exact ⟨hidx, ⟨g, by rw [hidx]; exact hg, rfl, hpaths⟩, hcursor, hphase⟩
    | some snap =>
      rw [hsnap] at h
      have hsnapc : snap = counts g := by
        rcases hsnapg with h' | h'
        · rw [hsnap] at h'; cases h'
        · rw [hsnap] at h'; exact Option.some.inj h'
      simp only at h
      cases hph : (curOf v).phase with
      | nodes =>
        rw [hph] at h
        simp only at h
        have hedgeEmpty : (phaseFiles .edges (curOf v).files).isEmpty = true := by
          rcases hphase with h' | h'
          · rw [hph] at h'; cases h'
          · exact h'
        by_cases hemp : (remainingNodes g (curOf v).last).isEmpty = true
        · rw [if_pos hemp] at h
          simp only [Option.some.injEq] at h
          subst h
          refine ⟨hv.identity, hv.done, ?_⟩
          intro c hc
          simp only [Option.some.injEq] at hc
          subst hc
          exact ⟨hidx, ⟨g, by rw [hidx]; exact hg, by show some snap = some (counts g); rw [hsnapc], hpaths⟩, by simp [hedgeEmpty], Or.inl rfl⟩
        · rw [if_neg hemp] at h
          simp only [Option.some.injEq] at h
          subst h
          refine ⟨hv.identity, hv.done, ?_⟩
          intro c hc
          simp only [Option.some.injEq] at hc
          subst hc
          have hne : remainingNodes g (curOf v).last ≠ [] := by
            intro he; apply hemp; rw [he]; rfl
          refine ⟨hidx, ⟨g, by rw [hidx]; exact hg, by show some snap = some (counts g); rw [hsnapc], ?_⟩, ?_, ?_⟩
          · apply pathsOk_append g.name _ _ 0 0 hpaths
            simp [hph]
          · simp only [hph]
            rw [phaseFiles_append, lastKey_isSome nodeKey _ (take_ne_nil _ _ hshard hne)]
            simp [phaseFiles]
          · right
            rw [phaseFiles_append]
            simp only [phaseFiles, List.filter_cons, List.filter_nil] at hedgeEmpty ⊢
            simp [hedgeEmpty]
      | edges =>
        rw [hph] at h
        simp only at h
        by_cases hemp : (remainingEdges g (curOf v).last).isEmpty = true
        · rw [if_pos hemp] at h
          simp only [Option.some.injEq] at h
          subst h
          refine ⟨hv.identity, ?_, by intro c hc; simp at hc⟩
          exact DoneOk.snoc v.done db _ g hv.done hg rfl (by simp [hsnapc]) hpaths
        · rw [if_neg hemp] at h
          simp only [Option.some.injEq] at h
          subst h
          refine ⟨hv.identity, hv.done, ?_⟩
          intro c hc
          simp only [Option.some.injEq] at hc
          subst hc
          have hne : remainingEdges g (curOf v).last ≠ [] := by
            intro he; apply hemp; rw [he]; rfl
          refine ⟨hidx, ⟨g, by rw [hidx]; exact hg, by show some snap = some (counts g); rw [hsnapc], ?_⟩, ?_, Or.inl rfl⟩
          · apply pathsOk_append g.name _ _ 0 0 hpaths
            simp [hph]
          · simp only [hph]
            rw [phaseFiles_append, lastKey_isSome edgeKey _ (take_ne_nil _ _ hshard hne)]
            simp [phaseFiles]

end ShapeSec
end Dawgs.C19
