import Dawgs.Proofs.C01ChainSql
/-
C01 / S2c — Cypher side of chains: the reference matcher enumerates, step by step, the extensions of a partial match by an outgoing
relationship that is not used yet (openCypher's relationship uniqueness within one MATCH) — for a chain of ANY length.
-/
namespace Dawgs.C01.Proofs
open Dawgs Dawgs.Cy

/-- the (relationship, far node) pairs that extend a partial match by one directed hop -/
def extPairs (g : Graph) (rk nk : List String) (c : Chain) : List (EdgeRec × NodeRec) :=
  match c.ns.getLast? with
  | none => []
  | some l =>
    (g.edges.filter (fun e => e.start == l.id && kindAnyOf e.kind rk && !(c.es.map (·.id)).contains e.id)).flatMap (fun e =>
      (farK g nk e).map (fun n => (e, n)))

theorem ext_eq_pairs (g : Graph) (rk nk : List String) (c : Chain) :
    ext g rk nk c = (extPairs g rk nk c).map (fun eb => ⟨c.es ++ [eb.1], c.ns ++ [eb.2]⟩) := by
  unfold ext extPairs
  cases c.ns.getLast? with
  | none => rfl
  | some l => simp only [List.map_flatMap, List.map_map, Function.comp_def]

theorem flatten_pairs {α β γ : Type} (f : α → List β) (K : α → β → List γ) : ∀ (L : List α),
    (L.map (fun e => ((f e).map (fun b => K e b)).flatten)).flatten =
      (((L.map (fun e => (f e).map (fun n => (e, n)))).flatten).map (fun eb => K eb.1 eb.2)).flatten
  | [] => rfl
  | x :: L => by
    simp only [List.map_cons, List.flatten_cons, List.map_append, List.flatten_append, List.map_map, Function.comp_def, flatten_pairs f K L]

def stepOf (h : Ch.Hop) : RelPat × NodePat := (.mk (some h.r) h.rkinds .out none [], .mk (some h.n) h.nkinds [])

/-- binding the far node pattern `(n:K…)` with a fresh variable -/
theorem matchNode_farK (g : Graph) (env : Env) (used : List Int) (n : String) (nk : List String) (e : EdgeRec) (hn : env.lookup n = none) :
    matchNode .none g ⟨env, used⟩ e.stop (.mk (some n) nk []) =
      .ok (match farK g nk e with | [b] => some ⟨(n, .node b.id) :: env, used⟩ | _ => none) := by
  rw [matchNode]
  unfold farK
  cases hnode : g.node? e.stop with
  | none => rfl
  | some b =>
    have hid := node?_id g e.stop b hnode
    simp only [propsMatch_nil, ebind_ok]
    cases hk : kindsAllOf b.kinds nk with
    | false => rfl
    | true => simp only [Bool.not_true, Bool.false_eq_true, if_false, if_true, hn, epure_ok, hid]

/-- one fixed outgoing step with fresh relationship and node variables, the rest of the pattern being defined on every extension -/
theorem matchSteps_step (g : Graph) (env : Env) (c : Chain) (l : NodeRec) (hl : c.ns.getLast? = some l)
    (pn pr : List Int) (nb : Bool) (nv : Option String) (fs : Bool) (h : Ch.Hop) (rest : List (RelPat × NodePat))
    (hr : env.lookup h.r = none) (hn : env.lookup h.n = none) (hrn : h.n ≠ h.r)
    (K : EdgeRec → NodeRec → List (MState × List Int × List Int))
    (hrest : ∀ eb ∈ extPairs g h.rkinds h.nkinds c,
      matchSteps .none g ⟨(h.n, .node eb.2.id) :: (h.r, .rel eb.1.id) :: env, eb.1.id :: (c.es.map (·.id)).reverse⟩ eb.2.id (pn ++ [eb.2.id]) (pr ++ [eb.1.id])
        true (some h.n) false rest = .ok (K eb.1 eb.2)) :
    matchSteps .none g ⟨env, (c.es.map (·.id)).reverse⟩ l.id pn pr nb nv fs (stepOf h :: rest) =
      .ok ((extPairs g h.rkinds h.nkinds c).flatMap (fun eb => K eb.1 eb.2)) := by
  unfold stepOf
  rw [matchSteps]
  have hd : (Dir.out == Dir.both) = false := by decide
  simp only [Quirks.none, hd, Bool.false_and, Bool.and_false, Bool.false_eq_true, if_false, Bool.not_false, Bool.and_true,
    hopsFrom_out, propsMatch_nil, ebind_ok, Bool.not_true, NodePat.var, hr]
  have hcands : List.filter (fun (p : EdgeRec × Int) => kindAnyOf p.1.kind h.rkinds && !(c.es.map (·.id)).reverse.contains p.1.id)
      ((g.edges.filter (fun e => e.start == l.id)).map (fun e => (e, e.stop))) =
      (g.edges.filter (fun e => e.start == l.id && kindAnyOf e.kind h.rkinds && !(c.es.map (·.id)).contains e.id)).map (fun e => (e, e.stop)) := by
    rw [List.filter_map, List.filter_filter]
    congr 1
    apply List.filter_congr
    intro e _
    simp only [Function.comp_def, List.contains_reverse]
    cases (e.start == l.id) <;> cases kindAnyOf e.kind h.rkinds <;> cases (c.es.map (·.id)).contains e.id <;> rfl
  rw [hcands]
  rw [mapE_map_ok (fun e => (e, e.stop)) _ (fun e => (farK g h.nkinds e).flatMap (fun b => K e b))]
  · simp only [ebind_ok, epure_ok]
    unfold extPairs
    rw [hl]
    simp only [List.flatMap_def]
    rw [flatten_pairs]
  · intro e he
    have hpm : ∀ (env : Env) (props : List (String × Json)), propsMatch {} g env props [] = .ok true := fun env props => propsMatch_nil g env props
    have hn' : (List.lookup h.n ((h.r, CVal.rel e.id) :: env)) = none := by
      have : (h.n == h.r) = false := by simpa using hrn
      simp only [List.lookup, this, hn]
    have hmn := matchNode_farK g ((h.r, .rel e.id) :: env) (e.id :: (c.es.map (·.id)).reverse) h.n h.nkinds e hn'
    simp only [Quirks.none] at hmn
    simp only [hpm, hmn, ebind_ok, Bool.not_true, Bool.false_eq_true, if_false]
    cases hf : farK g h.nkinds e with
    | nil => rfl
    | cons b bs =>
      have hbs : bs = [] := by
        unfold farK at hf
        cases hnode : g.node? e.stop with
        | none => rw [hnode] at hf; cases hf
        | some b' =>
          rw [hnode] at hf
          cases hk : kindsAllOf b'.kinds h.nkinds <;> simp [hk] at hf
          exact hf.2
      subst hbs
      have hb : b.id = e.stop := by
        unfold farK at hf
        cases hnode : g.node? e.stop with
        | none => rw [hnode] at hf; cases hf
        | some b' =>
          rw [hnode] at hf
          cases hk : kindsAllOf b'.kinds h.nkinds <;> simp [hk] at hf
          subst hf
          exact node?_id g e.stop b' hnode
      have hmem : (e, b) ∈ extPairs g h.rkinds h.nkinds c := by
        unfold extPairs
        rw [hl]
        exact List.mem_flatMap.mpr ⟨e, he, List.mem_map.mpr ⟨b, by rw [hf]; exact List.mem_cons_self .., rfl⟩⟩
      have := hrest (e, b) hmem
      simp only [Quirks.none] at this
      rw [← hb]
      simp only [this, List.flatMap_cons, List.flatMap_nil, List.append_nil]

/-- Cypher's enumeration of the completions of a partial match along the remaining hops (states, path nodes, path relationships) -/
def cyChain (g : Graph) : List Ch.Hop → Env → Chain → List Int → List Int → List (MState × List Int × List Int)
  | [], env, c, pn, pr => [(⟨env, (c.es.map (·.id)).reverse⟩, pn, pr)]
  | h :: hs, env, c, pn, pr =>
    (extPairs g h.rkinds h.nkinds c).flatMap (fun eb =>
      cyChain g hs ((h.n, .node eb.2.id) :: (h.r, .rel eb.1.id) :: env) ⟨c.es ++ [eb.1], c.ns ++ [eb.2]⟩ (pn ++ [eb.2.id]) (pr ++ [eb.1.id]))

def hopNames (hs : List Ch.Hop) : List String := hs.flatMap (fun h => [h.r, h.n])

/-- THE CHAIN THEOREM (Cypher side): from a partial match whose bindings are `env`, a pattern of fixed outgoing steps with fresh, pairwise
distinct variables is matched by exactly the extensions that never reuse a relationship -/
theorem matchSteps_chain (g : Graph) : ∀ (hops : List Ch.Hop) (env : Env) (c : Chain) (l : NodeRec) (pn pr : List Int) (nb : Bool) (nv : Option String) (fs : Bool),
    c.ns.getLast? = some l → (∀ v ∈ hopNames hops, env.lookup v = none) → (hopNames hops).Nodup →
    matchSteps .none g ⟨env, (c.es.map (·.id)).reverse⟩ l.id pn pr nb nv fs (hops.map stepOf) = .ok (cyChain g hops env c pn pr)
  | [], env, c, l, pn, pr, nb, nv, fs, _, _, _ => by rw [List.map_nil, matchSteps_nil]; rfl
  | h :: hs, env, c, l, pn, pr, nb, nv, fs, hl, hfresh, hnd => by
    rw [List.map_cons]
    have hnames : hopNames (h :: hs) = h.r :: h.n :: hopNames hs := by simp [hopNames]
    rw [hnames] at hfresh hnd
    have hrn : h.n ≠ h.r := by
      intro hh
      have := (List.nodup_cons.mp hnd).1
      exact this (by rw [hh]; exact List.mem_cons_self ..)
    have hnd2 := (List.nodup_cons.mp (List.nodup_cons.mp hnd).2)
    rw [matchSteps_step g env c l hl pn pr nb nv fs h (hs.map stepOf) (hfresh h.r (List.mem_cons_self ..))
      (hfresh h.n (List.mem_cons_of_mem _ (List.mem_cons_self ..))) hrn
      (fun e b => cyChain g hs ((h.n, .node b.id) :: (h.r, .rel e.id) :: env) ⟨c.es ++ [e], c.ns ++ [b]⟩ (pn ++ [b.id]) (pr ++ [e.id]))]
    · rfl
    · intro eb _
      have hused : eb.1.id :: (c.es.map (·.id)).reverse = ((c.es ++ [eb.1]).map (·.id)).reverse := by simp
      rw [hused]
      apply matchSteps_chain g hs _ ⟨c.es ++ [eb.1], c.ns ++ [eb.2]⟩ eb.2
      · simp
      · intro v hv
        have hv1 : v ≠ h.r := by
          intro hh; subst hh
          exact (List.nodup_cons.mp hnd).1 (List.mem_cons_of_mem _ hv)
        have hv2 : v ≠ h.n := by
          intro hh; subst hh
          exact hnd2.1 hv
        have h1 : (v == h.n) = false := by simpa using hv2
        have h2 : (v == h.r) = false := by simpa using hv1
        simp only [List.lookup, h1, h2]
        exact hfresh v (List.mem_cons_of_mem _ (List.mem_cons_of_mem _ hv))
      · exact hnd2.2

/-- the completions as chains -/
def chainExt (g : Graph) : List Ch.Hop → Chain → List Chain
  | [], c => [c]
  | h :: hs, c => (ext g h.rkinds h.nkinds c).flatMap (chainExt g hs)

/-- the completions with their binding environments -/
def cyChainEC (g : Graph) : List Ch.Hop → Env → Chain → List (Env × Chain)
  | [], env, c => [(env, c)]
  | h :: hs, env, c =>
    (extPairs g h.rkinds h.nkinds c).flatMap (fun eb =>
      cyChainEC g hs ((h.n, .node eb.2.id) :: (h.r, .rel eb.1.id) :: env) ⟨c.es ++ [eb.1], c.ns ++ [eb.2]⟩)

theorem cyChain_states (g : Graph) : ∀ (hops : List Ch.Hop) (env : Env) (c : Chain) (pn pr : List Int),
    (cyChain g hops env c pn pr).map (·.1) = (cyChainEC g hops env c).map (fun ec => (⟨ec.1, (ec.2.es.map (·.id)).reverse⟩ : MState))
  | [], env, c, pn, pr => rfl
  | h :: hs, env, c, pn, pr => by
    simp only [cyChain, cyChainEC, List.map_flatMap]
    congr 1
    funext eb
    exact cyChain_states g hs _ _ _ _

theorem cyChainEC_chains (g : Graph) : ∀ (hops : List Ch.Hop) (env : Env) (c : Chain),
    (cyChainEC g hops env c).map (·.2) = chainExt g hops c
  | [], env, c => rfl
  | h :: hs, env, c => by
    simp only [cyChainEC, chainExt, List.map_flatMap, ext_eq_pairs, List.flatMap_map]
    congr 1
    funext eb
    exact cyChainEC_chains g hs _ _

/-- the bindings of a partial match: variable i of the pattern is bound to the i-th node / relationship -/
structure EnvOK (nn rn : List String) (c : Chain) (env : Env) : Prop where
  node : ∀ (i : Nat) (v : String) (y : NodeRec), nn[i]? = some v → c.ns[i]? = some y → env.lookup v = some (.node y.id)
  rel : ∀ (i : Nat) (v : String) (x : EdgeRec), rn[i]? = some v → c.es[i]? = some x → env.lookup v = some (.rel x.id)

/-- every entity of the partial match is the graph's entity of that id -/
structure InGraph (g : Graph) (c : Chain) : Prop where
  node : ∀ y ∈ c.ns, g.node? y.id = some y
  rel : ∀ x ∈ c.es, g.edge? x.id = some x

theorem farK_mem (g : Graph) (nk : List String) (e : EdgeRec) (b : NodeRec) (h : b ∈ farK g nk e) : g.node? b.id = some b := by
  unfold farK at h
  cases hn : g.node? e.stop with
  | none => rw [hn] at h; cases h
  | some b' =>
    rw [hn] at h
    cases hk : Cy.kindsAllOf b'.kinds nk <;> simp [hk] at h
    rw [h, node?_id g e.stop b' hn]; exact hn

theorem extPairs_mem (g : Graph) (rk nk : List String) (c : Chain) (eb : EdgeRec × NodeRec) (h : eb ∈ extPairs g rk nk c) :
    eb.1 ∈ g.edges ∧ g.node? eb.2.id = some eb.2 := by
  unfold extPairs at h
  cases hl : c.ns.getLast? with
  | none => rw [hl] at h; cases h
  | some l =>
    rw [hl] at h
    obtain ⟨e, he, h⟩ := List.mem_flatMap.mp h
    obtain ⟨b, hb, rfl⟩ := List.mem_map.mp h
    exact ⟨(List.mem_filter.mp he).1, farK_mem g nk e b hb⟩

/-- the invariants along the enumeration: bindings follow the chain, entities are the graph's -/
theorem cyChainEC_inv (g : Graph) (hedge : ∀ e ∈ g.edges, g.edge? e.id = some e) : ∀ (hops : List Ch.Hop) (nn rn : List String) (env : Env) (c : Chain),
    EnvOK nn rn c env → InGraph g c → nn.length = c.ns.length → rn.length = c.es.length →
    (∀ v ∈ hopNames hops, env.lookup v = none) → (hopNames hops).Nodup →
    ∀ ec ∈ cyChainEC g hops env c, EnvOK (nn ++ hops.map (·.n)) (rn ++ hops.map (·.r)) ec.2 ec.1 ∧ InGraph g ec.2 ∧
      ec.2.ns.length = nn.length + hops.length ∧ ec.2.es.length = rn.length + hops.length
  | [], nn, rn, env, c, hok, hin, hln, hlr, _, _ => by
    intro ec hec
    simp only [cyChainEC, List.mem_singleton] at hec
    subst hec
    simp only [List.map_nil, List.append_nil, List.length_nil, Nat.add_zero]
    exact ⟨hok, hin, hln.symm, hlr.symm⟩
  | h :: hs, nn, rn, env, c, hok, hin, hln, hlr, hfresh, hnd => by
    intro ec hec
    simp only [cyChainEC] at hec
    obtain ⟨eb, heb, hec⟩ := List.mem_flatMap.mp hec
    obtain ⟨hem, hbm⟩ := extPairs_mem g h.rkinds h.nkinds c eb heb
    have hnames : hopNames (h :: hs) = h.r :: h.n :: hopNames hs := by simp [hopNames]
    rw [hnames] at hfresh hnd
    have hnd1 := List.nodup_cons.mp hnd
    have hnd2 := List.nodup_cons.mp hnd1.2
    have hrn : (h.r == h.n) = false := by
      cases hh : h.r == h.n with
      | false => rfl
      | true => exact absurd (by rw [eq_of_beq hh]; exact List.mem_cons_self ..) hnd1.1
    have hfr := hfresh h.r (List.mem_cons_self ..)
    have hfn := hfresh h.n (List.mem_cons_of_mem _ (List.mem_cons_self ..))
    -- the extended partial match satisfies the invariants for the extended name lists
    have hok' : EnvOK (nn ++ [h.n]) (rn ++ [h.r]) ⟨c.es ++ [eb.1], c.ns ++ [eb.2]⟩ ((h.n, .node eb.2.id) :: (h.r, .rel eb.1.id) :: env) := by
      constructor
      · intro i v y hv hy
        by_cases hi : i < nn.length
        · rw [List.getElem?_append_left hi] at hv
          rw [List.getElem?_append_left (by rw [← hln]; exact hi)] at hy
          have hlook := hok.node i v y hv hy
          have h1 : (v == h.n) = false := by
            cases hh : v == h.n with
            | false => rfl
            | true => rw [eq_of_beq hh, hfn] at hlook; cases hlook
          have h2 : (v == h.r) = false := by
            cases hh : v == h.r with
            | false => rfl
            | true => rw [eq_of_beq hh, hfr] at hlook; cases hlook
          simp only [List.lookup, h1, h2]; exact hlook
        · have hi' : nn.length ≤ i := Nat.le_of_not_lt hi
          rw [List.getElem?_append_right hi'] at hv
          rw [List.getElem?_append_right (by rw [← hln]; exact hi')] at hy
          cases hk : i - nn.length with
          | zero =>
            rw [hk] at hv
            rw [← hln, hk] at hy
            simp only [List.getElem?_cons_zero, Option.some.injEq] at hv hy
            subst hv hy
            simp [List.lookup]
          | succ k => rw [hk] at hv; simp at hv
      · intro i v x hv hx
        by_cases hi : i < rn.length
        · rw [List.getElem?_append_left hi] at hv
          rw [List.getElem?_append_left (by rw [← hlr]; exact hi)] at hx
          have hlook := hok.rel i v x hv hx
          have h1 : (v == h.n) = false := by
            cases hh : v == h.n with
            | false => rfl
            | true => rw [eq_of_beq hh, hfn] at hlook; cases hlook
          have h2 : (v == h.r) = false := by
            cases hh : v == h.r with
            | false => rfl
            | true => rw [eq_of_beq hh, hfr] at hlook; cases hlook
          simp only [List.lookup, h1, h2]; exact hlook
        · have hi' : rn.length ≤ i := Nat.le_of_not_lt hi
          rw [List.getElem?_append_right hi'] at hv
          rw [List.getElem?_append_right (by rw [← hlr]; exact hi')] at hx
          cases hk : i - rn.length with
          | zero =>
            rw [hk] at hv
            rw [← hlr, hk] at hx
            simp only [List.getElem?_cons_zero, Option.some.injEq] at hv hx
            subst hv hx
            simp [List.lookup, hrn]
          | succ k => rw [hk] at hv; simp at hv
    have hin' : InGraph g ⟨c.es ++ [eb.1], c.ns ++ [eb.2]⟩ := by
      constructor
      · intro y hy
        rcases List.mem_append.mp hy with hy | hy
        · exact hin.node y hy
        · simp only [List.mem_singleton] at hy; subst hy; exact hbm
      · intro x hx
        rcases List.mem_append.mp hx with hx | hx
        · exact hin.rel x hx
        · simp only [List.mem_singleton] at hx; subst hx; exact hedge _ hem
    have hfresh' : ∀ v ∈ hopNames hs, List.lookup v ((h.n, CVal.node eb.2.id) :: (h.r, CVal.rel eb.1.id) :: env) = none := by
      intro v hv
      have hv1 : (v == h.r) = false := by
        cases hh : v == h.r with
        | false => rfl
        | true => exact absurd (by rw [← eq_of_beq hh]; exact List.mem_cons_of_mem _ hv) hnd1.1
      have hv2 : (v == h.n) = false := by
        cases hh : v == h.n with
        | false => rfl
        | true => exact absurd (by rw [← eq_of_beq hh]; exact hv) hnd2.1
      simp only [List.lookup, hv1, hv2]
      exact hfresh v (List.mem_cons_of_mem _ (List.mem_cons_of_mem _ hv))
    have := cyChainEC_inv g hedge hs (nn ++ [h.n]) (rn ++ [h.r]) _ _ hok' hin' (by simp [hln]) (by simp [hlr]) hfresh' hnd2.2 ec hec
    simpa [List.append_assoc, Nat.add_assoc, Nat.add_comm 1] using this

-- ------------------------------------------------------------------ the whole query under the reference semantics

theorem hopNames_perm : ∀ (hs : List Ch.Hop), (hopNames hs).Perm (hs.map (·.n) ++ hs.map (·.r))
  | [] => List.Perm.refl _
  | h :: hs => by
    have ih := hopNames_perm hs
    have : hopNames (h :: hs) = h.r :: h.n :: hopNames hs := by simp [hopNames]
    rw [this, List.map_cons, List.map_cons, List.cons_append]
    refine (List.Perm.swap h.n h.r _).trans (List.Perm.cons h.n ?_)
    refine (List.Perm.cons h.r ih).trans ?_
    exact (List.perm_middle).symm

theorem names_fresh (q : Ch.Query) (hnd : (q.nodeNames ++ q.relNames).Nodup) : (hopNames q.hops).Nodup ∧ ¬ q.a ∈ hopNames q.hops := by
  unfold Ch.Query.nodeNames Ch.Query.relNames at hnd
  rw [List.cons_append] at hnd
  have h1 := List.nodup_cons.mp hnd
  exact ⟨(hopNames_perm q.hops).nodup_iff.mpr h1.2, fun hh => h1.1 ((hopNames_perm q.hops).mem_iff.mp hh)⟩

/-- the matches of the chain pattern in the order the reference semantics enumerates them, with their binding environments -/
def chainECs (g : Graph) (q : Ch.Query) : List (Env × Chain) :=
  (g.nodes.filter (fun a => kindsAllOf a.kinds q.akinds)).flatMap (fun a => cyChainEC g q.hops [(q.a, .node a.id)] ⟨[], [a]⟩)

def chainMatchesCy (g : Graph) (q : Ch.Query) : List Chain :=
  (g.nodes.filter (fun a => kindsAllOf a.kinds q.akinds)).flatMap (fun a => chainExt g q.hops ⟨[], [a]⟩)

theorem chainECs_chains (g : Graph) (q : Ch.Query) : (chainECs g q).map (·.2) = chainMatchesCy g q := by
  unfold chainECs chainMatchesCy
  rw [List.map_flatMap]
  congr 1
  funext a
  exact cyChainEC_chains g q.hops _ _

theorem matchPart_chain (g : Graph) (q : Ch.Query) (hnd : (q.nodeNames ++ q.relNames).Nodup) (hn : ∀ n ∈ g.nodes, g.node? n.id = some n) :
    matchPart .none g ⟨[], []⟩ (.mk none false false (.mk (some q.a) q.akinds []) (q.hops.map stepOf)) =
      .ok ((chainECs g q).map (fun ec => (⟨ec.1, (ec.2.es.map (·.id)).reverse⟩ : MState))) := by
  obtain ⟨hnd', hfa⟩ := names_fresh q hnd
  rw [matchPart]
  simp only [Bool.or_self, Bool.false_eq_true, if_false, NodePat.var, Option.bind_some, List.lookup, Option.isSome_none,
    Quirks.none, Bool.and_false, Bool.false_and, flatMap_replicate_one]
  rw [mapE_map_ok (fun (n : NodeRec) => n.id) _ (fun a => if kindsAllOf a.kinds q.akinds then
    (cyChainEC g q.hops [(q.a, .node a.id)] ⟨[], [a]⟩).map (fun ec => (⟨ec.1, (ec.2.es.map (·.id)).reverse⟩ : MState)) else [])]
  · simp only [ebind_ok, epure_ok]
    unfold chainECs
    rw [List.map_flatMap, filter_flatMap_ite, List.flatMap_def]
  · intro a ha
    have h1 := matchNode_fresh g a q.a q.akinds (hn a ha)
    simp only [Quirks.none] at h1
    simp only [h1, ebind_ok]
    cases hk : kindsAllOf a.kinds q.akinds
    · rfl
    · have h2 := matchSteps_chain g q.hops [(q.a, .node a.id)] ⟨[], [a]⟩ a [a.id] [] false (some q.a) true rfl
        (by
          intro v hv
          have : (v == q.a) = false := by
            cases hh : v == q.a with
            | false => rfl
            | true => exact absurd (by rw [← eq_of_beq hh]; exact hv) hfa
          simp only [List.lookup, this])
        hnd'
      simp only [Quirks.none, List.map_nil, List.reverse_nil] at h2
      simp only [if_true, h2, ebind_ok, epure_ok, cyChain_states]

/-- the Cypher value of a RETURN item on a chain match -/
def itemCCh (c : Chain) : Ch.Item → CVal
  | .ent x _ => match refGet c x with | some (.n y) => .node y.id | some (.e x) => .rel x.id | none => .null
  | .idOf x _ => match refGet c x with | some r => .int r.id | none => .null
  | .prop x k _ => match refGet c x with | some r => ((Json.lookup k r.props).map jsonToC).getD .null | none => .null

theorem getElem?_names (q : Ch.Query) : q.nodeNames = [q.a] ++ q.hops.map (·.n) ∧ q.relNames = [] ++ q.hops.map (·.r) := ⟨rfl, rfl⟩

/-- a RETURN item on the bindings of a chain match -/
theorem eval_itemCCh (g : Graph) (q : Ch.Query) (env : Env) (c : Chain) (hok : EnvOK q.nodeNames q.relNames c env) (hin : InGraph g c)
    (it : Ch.Item) (r : RefE) (hr : refGet c it.ref = some r) (hname : ∀ i, it.ref = .node i → (q.nodeNames[i]?).isSome) (hname' : ∀ i, it.ref = .rel i → (q.relNames[i]?).isSome) :
    Cy.evalExpr .none g env false (it.toCy q).e = .ok (itemCCh c it) := by
  -- the variable's binding
  have hvar : ∃ cv, env.lookup (q.name it.ref) = some cv ∧
      (∀ y, r = .n y → cv = .node y.id ∧ g.node? y.id = some y) ∧ (∀ x, r = .e x → cv = .rel x.id ∧ g.edge? x.id = some x) := by
    cases hx : it.ref with
    | node i =>
      rw [hx] at hr
      simp only [refGet, Option.map_eq_some_iff] at hr
      obtain ⟨y, hy, rfl⟩ := hr
      obtain ⟨v, hv⟩ := Option.isSome_iff_exists.mp (hname i hx)
      refine ⟨.node y.id, ?_, fun y' hy' => (by cases hy'; exact ⟨rfl, hin.node y (List.mem_of_getElem? hy)⟩), fun x' hx' => (by cases hx')⟩
      simp only [Ch.Query.name, hv, Option.getD_some]
      exact hok.node i v y hv hy
    | rel i =>
      rw [hx] at hr
      simp only [refGet, Option.map_eq_some_iff] at hr
      obtain ⟨x, hxx, rfl⟩ := hr
      obtain ⟨v, hv⟩ := Option.isSome_iff_exists.mp (hname' i hx)
      refine ⟨.rel x.id, ?_, fun y' hy' => (by cases hy'), fun x' hx' => (by cases hx'; exact ⟨rfl, hin.rel x (List.mem_of_getElem? hxx)⟩)⟩
      simp only [Ch.Query.name, hv, Option.getD_some]
      exact hok.rel i v x hv hxx
  obtain ⟨cv, hl, hcvn, hcve⟩ := hvar
  have hc : (["count", "collect", "sum", "avg", "min", "max"].contains "id") = false := by decide
  cases it with
  | ent x al =>
    simp only [Ch.Item.ref] at hr hl
    simp only [Ch.Item.toCy, itemCCh, hr]
    rw [Cy.evalExpr]
    simp only [lookupVar, hl]
    cases r with
    | n y => rw [(hcvn y rfl).1]
    | e x' => rw [(hcve x' rfl).1]
  | idOf x al =>
    simp only [Ch.Item.ref] at hr hl
    simp only [Ch.Item.toCy, itemCCh, hr]
    rw [Cy.evalExpr]
    cases r with
    | n y =>
      simp only [isAggregate, Cy.evalExprs, Cy.evalExpr, lookupVar, hl, ebind_ok, epure_ok, hc, Bool.false_eq_true, if_false, (hcvn y rfl).1, evalFn, RefE.id]
    | e x' =>
      simp only [isAggregate, Cy.evalExprs, Cy.evalExpr, lookupVar, hl, ebind_ok, epure_ok, hc, Bool.false_eq_true, if_false, (hcve x' rfl).1, evalFn, RefE.id]
  | prop x k al =>
    simp only [Ch.Item.ref] at hr hl
    simp only [Ch.Item.toCy, itemCCh, hr]
    rw [Cy.evalExpr, Cy.evalExpr]
    cases r with
    | n y => simp [lookupVar, hl, (hcvn y rfl).1, propOf, nodeProps, (hcvn y rfl).2, RefE.props]
    | e x' => simp [lookupVar, hl, (hcve x' rfl).1, propOf, edgeProps, (hcve x' rfl).2, RefE.props]

theorem hasAggregate_itemCh (q : Ch.Query) (it : Ch.Item) : hasAggregate (it.toCy q).e = false := by
  cases it <;> simp [Ch.Item.toCy, hasAggregate, hasAggregateL, isAggregate]

theorem anyAgg_itemsCh (q : Ch.Query) : ∀ (items : List Ch.Item), (items.map (Ch.Item.toCy q)).any (fun it => hasAggregate it.e) = false
  | [] => rfl
  | it :: items => by rw [List.map_cons, List.any_cons, hasAggregate_itemCh, anyAgg_itemsCh q items]; rfl

theorem refs_mem (q : Ch.Query) (x : Ch.Ref) (h : q.refs.contains x = true) :
    (∀ i, x = .node i → i < q.hops.length + 1) ∧ (∀ i, x = .rel i → i < q.hops.length) := by
  unfold Ch.Query.refs at h
  simp only [List.contains_eq_mem, List.mem_append, List.mem_map, List.mem_range, decide_eq_true_eq] at h
  constructor
  · intro i hi; subst hi
    rcases h with ⟨j, hj, hh⟩ | ⟨j, _, hh⟩
    · cases hh; exact hj
    · cases hh
  · intro i hi; subst hi
    rcases h with ⟨j, _, hh⟩ | ⟨j, hj, hh⟩
    · cases hh
    · cases hh; exact hj

/-- every match enumerated for the chain carries the invariants: bindings, graph membership, lengths -/
theorem chainECs_inv (g : Graph) (q : Ch.Query) (hnd : (q.nodeNames ++ q.relNames).Nodup) (hn : ∀ n ∈ g.nodes, g.node? n.id = some n)
    (hedge : ∀ e ∈ g.edges, g.edge? e.id = some e) (ec : Env × Chain) (hec : ec ∈ chainECs g q) :
    EnvOK q.nodeNames q.relNames ec.2 ec.1 ∧ InGraph g ec.2 ∧ ec.2.ns.length = q.hops.length + 1 ∧ ec.2.es.length = q.hops.length := by
  obtain ⟨hnd', hfa⟩ := names_fresh q hnd
  unfold chainECs at hec
  obtain ⟨a, ha, hec⟩ := List.mem_flatMap.mp hec
  have ham := (List.mem_filter.mp ha).1
  have h0 : EnvOK [q.a] [] ⟨[], [a]⟩ [(q.a, .node a.id)] := by
    constructor
    · intro i v y hv hy
      cases i with
      | zero => simp only [List.getElem?_cons_zero, Option.some.injEq] at hv hy; subst hv hy; simp [List.lookup]
      | succ k => simp at hv
    · intro i v x hv _; simp at hv
  have hin0 : InGraph g ⟨[], [a]⟩ := by
    constructor
    · intro y hy; simp only [List.mem_singleton] at hy; subst hy; exact hn _ ham
    · intro x hx; cases hx
  have := cyChainEC_inv g hedge q.hops [q.a] [] _ _ h0 hin0 rfl rfl
    (by
      intro v hv
      have : (v == q.a) = false := by
        cases hh : v == q.a with
        | false => rfl
        | true => exact absurd (by rw [← eq_of_beq hh]; exact hv) hfa
      simp only [List.lookup, this])
    hnd' ec hec
  obtain ⟨h1, h2, h3, h4⟩ := this
  refine ⟨h1, h2, ?_, ?_⟩
  · rw [h3]; simp [Nat.add_comm]
  · rw [h4]; simp

-- ------------------------------------------------------------------ WHERE over the chain

def RefE.ent : RefE → Ent
  | .n y => nodeEnt y
  | .e x => edgeEnt x

/-- the entity a WHERE conjunct over `x` reads on a chain match -/
def entOfCh (c : Chain) (x : Ch.Ref) : Ent := ((refGet c x).map RefE.ent).getD (nodeEnt default)

/-- every WHERE conjunct holds on the chain match -/
def okWhereCh (q : Ch.Query) (c : Chain) : Bool := q.wh.all (fun cj => semE (entOfCh c cj.1) cj.2 == some true)

/-- the matches that pass WHERE, in Cypher's enumeration order, with their binding environments -/
def whereECs (g : Graph) (q : Ch.Query) : List (Env × Chain) := (chainECs g q).filter (fun ec => okWhereCh q ec.2)

theorem whereECs_mem (g : Graph) (q : Ch.Query) (ec : Env × Chain) (h : ec ∈ whereECs g q) : ec ∈ chainECs g q := (List.mem_filter.mp h).1

/-- a pattern variable of a complete match is bound, names an existing pattern position, and shows its entity to the Cypher evaluator -/
theorem ref_ok (q : Ch.Query) (c : Chain) (hl1 : c.ns.length = q.hops.length + 1) (hl2 : c.es.length = q.hops.length) (x : Ch.Ref)
    (hx : q.refs.contains x = true) :
    (∃ r, refGet c x = some r) ∧ (∀ i, x = .node i → (q.nodeNames[i]?).isSome) ∧ (∀ i, x = .rel i → (q.relNames[i]?).isSome) := by
  obtain ⟨hr1, hr2⟩ := refs_mem q x hx
  have hnl : q.nodeNames.length = q.hops.length + 1 := by simp [Ch.Query.nodeNames]
  have hrl : q.relNames.length = q.hops.length := by simp [Ch.Query.relNames]
  refine ⟨?_, ?_, ?_⟩
  · cases x with
    | node i =>
      have : i < c.ns.length := by rw [hl1]; exact hr1 i rfl
      exact ⟨.n (c.ns[i]), by simp [refGet, List.getElem?_eq_getElem this]⟩
    | rel i =>
      have : i < c.es.length := by rw [hl2]; exact hr2 i rfl
      exact ⟨.e (c.es[i]), by simp [refGet, List.getElem?_eq_getElem this]⟩
  · intro i hx'
    have : i < q.nodeNames.length := by rw [hnl]; exact hr1 i hx'
    simp [List.getElem?_eq_getElem this]
  · intro i hx'
    have : i < q.relNames.length := by rw [hrl]; exact hr2 i hx'
    simp [List.getElem?_eq_getElem this]

theorem ref_cyEnt (g : Graph) (q : Ch.Query) (env : Env) (c : Chain) (hok : EnvOK q.nodeNames q.relNames c env) (hin : InGraph g c)
    (x : Ch.Ref) (r : RefE) (hr : refGet c x = some r)
    (hname : ∀ i, x = .node i → (q.nodeNames[i]?).isSome) (hname' : ∀ i, x = .rel i → (q.relNames[i]?).isSome) :
    ∃ cv, env.lookup (q.name x) = some cv ∧ CyEnt g cv r.ent := by
  cases x with
  | node i =>
    simp only [refGet, Option.map_eq_some_iff] at hr
    obtain ⟨y, hy, rfl⟩ := hr
    obtain ⟨v, hv⟩ := Option.isSome_iff_exists.mp (hname i rfl)
    refine ⟨.node y.id, ?_, cyEnt_node g y (hin.node y (List.mem_of_getElem? hy))⟩
    simp only [Ch.Query.name, hv, Option.getD_some]
    exact hok.node i v y hv hy
  | rel i =>
    simp only [refGet, Option.map_eq_some_iff] at hr
    obtain ⟨e, he, rfl⟩ := hr
    obtain ⟨v, hv⟩ := Option.isSome_iff_exists.mp (hname' i rfl)
    refine ⟨.rel e.id, ?_, cyEnt_edge g e (hin.rel e (List.mem_of_getElem? he))⟩
    simp only [Ch.Query.name, hv, Option.getD_some]
    exact hok.rel i v e hv he

theorem conjunct_chain (g : Graph) (q : Ch.Query) (env : Env) (c : Chain) (hok : EnvOK q.nodeNames q.relNames c env) (hin : InGraph g c)
    (hl1 : c.ns.length = q.hops.length + 1) (hl2 : c.es.length = q.hops.length) (cj : Ch.Ref × S1.Pred) (hx : q.refs.contains cj.1 = true) (fl : Bool) :
    Cy.evalExpr .none g env fl (S1.Pred.toCy (q.name cj.1) cj.2) = .ok (triToC (semE (entOfCh c cj.1) cj.2)) := by
  obtain ⟨⟨r, hr⟩, hn1, hn2⟩ := ref_ok q c hl1 hl2 cj.1 hx
  obtain ⟨cv, hl, hce⟩ := ref_cyEnt g q env c hok hin cj.1 r hr hn1 hn2
  have : entOfCh c cj.1 = r.ent := by simp [entOfCh, hr]
  rw [this]
  exact (cy_predAt g _ _ _ _ hce hl cj.2).1 fl

theorem evalConj_chain (g : Graph) (q : Ch.Query) (env : Env) (c : Chain) (hok : EnvOK q.nodeNames q.relNames c env) (hin : InGraph g c)
    (hl1 : c.ns.length = q.hops.length + 1) (hl2 : c.es.length = q.hops.length) : ∀ (cs : List (Ch.Ref × S1.Pred)),
    (∀ cj ∈ cs, q.refs.contains cj.1 = true) →
    Cy.evalConj .none g env (cs.map (fun cj => S1.Pred.toCy (q.name cj.1) cj.2)) =
      .ok ((cs.map (fun cj => semE (entOfCh c cj.1) cj.2)).foldr triAnd (some true))
  | [], _ => by rw [List.map_nil, Cy.evalConj]; rfl
  | cj :: cs, h => by
    rw [List.map_cons, Cy.evalConj, conjunct_chain g q env c hok hin hl1 hl2 cj (h cj (List.mem_cons_self ..)) false,
      evalConj_chain g q env c hok hin hl1 hl2 cs (fun x hx => h x (List.mem_cons_of_mem _ hx))]
    simp only [ebind_ok, triOfC_triToC, epure_ok, List.map_cons, List.foldr_cons]

/-- the WHERE test of the MATCH clause on a complete chain match -/
theorem where_chain (g : Graph) (q : Ch.Query) (env : Env) (c : Chain) (hok : EnvOK q.nodeNames q.relNames c env) (hin : InGraph g c)
    (hl1 : c.ns.length = q.hops.length + 1) (hl2 : c.es.length = q.hops.length) (hwh : ∀ cj ∈ q.wh, q.refs.contains cj.1 = true) :
    (q.whereCy = none → okWhereCh q c = true) ∧
    (∀ w, q.whereCy = some w → (do let v ← Cy.evalExpr .none g env false w; truthy v) = .ok (okWhereCh q c)) := by
  unfold Ch.Query.whereCy okWhereCh
  cases hw : q.wh with
  | nil => exact ⟨fun _ => rfl, fun w h => by cases h⟩
  | cons cj cs =>
    rw [hw] at hwh
    cases cs with
    | nil =>
      refine ⟨fun h => (by cases h), fun w h => ?_⟩
      simp only [Option.some.injEq] at h
      subst h
      simp only [conjunct_chain g q env c hok hin hl1 hl2 cj (hwh cj (List.mem_cons_self ..)) false, ebind_ok, truthy_tri, List.all_cons, List.all_nil,
        Bool.and_true]
    | cons cj' cs' =>
      refine ⟨fun h => (by cases h), fun w h => ?_⟩
      simp only [Option.some.injEq] at h
      subst h
      rw [Cy.evalExpr, evalConj_chain g q env c hok hin hl1 hl2 (cj :: cj' :: cs') hwh]
      simp only [ebind_ok, epure_ok, truthy_tri, foldr_triAnd_true, List.all_map]
      rfl

theorem clause_chain (g : Graph) (q : Ch.Query) (hnd : (q.nodeNames ++ q.relNames).Nodup) (hn : ∀ n ∈ g.nodes, g.node? n.id = some n)
    (hedge : ∀ e ∈ g.edges, g.edge? e.id = some e) (hwh : ∀ cj ∈ q.wh, q.refs.contains cj.1 = true) :
    evalClauses .none g true [[]] q.toCy.clauses = .ok ((whereECs g q).map (·.1)) := by
  unfold Ch.Query.toCy
  have hmp := matchPart_chain g q hnd hn
  have hsteps : q.hops.map (fun h => ((.mk (some h.r) h.rkinds .out none [], .mk (some h.n) h.nkinds []) : RelPat × NodePat)) = q.hops.map stepOf := rfl
  simp only [evalClauses, evalClause, mapE_singleton, matchParts, ite_self, hsteps, hmp, ebind_ok, epure_ok, List.flatten_cons, List.flatten_nil,
    List.append_nil]
  rw [filterE_map_ok (fun (ec : Env × Chain) => (⟨ec.1, (ec.2.es.map (·.id)).reverse⟩ : MState)) _ (fun ec => okWhereCh q ec.2) (chainECs g q)]
  · simp only [ebind_ok, Bool.false_and, Bool.and_false, Bool.false_eq_true, if_false, List.map_map, Function.comp_def,
      List.flatten_cons, List.flatten_nil, List.append_nil]
    rfl
  · intro ec hec
    obtain ⟨hok, hin, hl1, hl2⟩ := chainECs_inv g q hnd hn hedge ec hec
    obtain ⟨w1, w2⟩ := where_chain g q ec.1 ec.2 hok hin hl1 hl2 hwh
    cases hw : q.whereCy with
    | none => simp only [w1 hw]
    | some w => exact w2 w hw

/-- CYPHER SIDE of S2c: the reference semantics returns one row per chain match, in the order a-nodes / outgoing relationships, step by step -/
theorem cy_side_chain (g : Graph) (q : Ch.Query) (hwf : q.wf = true) (hn : ∀ n ∈ g.nodes, g.node? n.id = some n)
    (hedge : ∀ e ∈ g.edges, g.edge? e.id = some e) :
    Cy.eval .none g q.toCy = .ok (Cy.projNames (q.items.map (Ch.Item.toCy q)), (whereECs g q).map (fun ec => q.items.map (itemCCh ec.2))) := by
  unfold Ch.Query.wf at hwf
  simp only [Bool.and_eq_true, decide_eq_true_eq, List.all_eq_true] at hwf
  obtain ⟨⟨⟨⟨_, hnd⟩, hitems⟩, _⟩, hwh⟩ := hwf
  have hwh' : ∀ cj ∈ q.wh, q.refs.contains cj.1 = true := fun cj hcj => (hwh cj hcj).1
  have hc := clause_chain g q hnd hn hedge hwh'
  unfold Cy.eval
  have hparts : q.toCy.parts = [] := rfl
  simp only [hparts, evalParts, ebind_ok, List.isEmpty_nil, hc]
  unfold evalProjection
  have hall : q.toCy.ret.all = false := rfl
  have hdist : q.toCy.ret.distinct = false := rfl
  have hitems' : q.toCy.ret.items = q.items.map (Ch.Item.toCy q) := rfl
  have hob : q.toCy.ret.orderBy = [] := rfl
  have hskip : q.toCy.ret.skip = none := rfl
  have hlim : q.toCy.ret.limit = none := rfl
  simp only [hall, hdist, hitems', hob, hskip, hlim, Bool.false_eq_true, if_false, anyAgg_itemsCh, Bool.or_self]
  have hpr : plainRows .none g (Cy.projNames (q.items.map (Ch.Item.toCy q))) (q.items.map (Ch.Item.toCy q)) ((whereECs g q).map (·.1)) =
      .ok ((whereECs g q).map (fun ec => (q.items.map (itemCCh ec.2),
        (Cy.projNames (q.items.map (Ch.Item.toCy q))).zip (q.items.map (itemCCh ec.2)) ++ ec.1))) := by
    unfold plainRows
    apply mapE_map_ok
    intro ec hec
    obtain ⟨hok, hin, hl1, hl2⟩ := chainECs_inv g q hnd hn hedge ec (whereECs_mem g q ec hec)
    have : (q.items.map (Ch.Item.toCy q)).mapE (fun it => Cy.evalExpr .none g ec.1 false it.e) = .ok (q.items.map (itemCCh ec.2)) := by
      apply mapE_map_ok
      intro it hit
      obtain ⟨hr1, hr2⟩ := refs_mem q it.ref (hitems it hit)
      have hnl : q.nodeNames.length = q.hops.length + 1 := by simp [Ch.Query.nodeNames]
      have hrl : q.relNames.length = q.hops.length := by simp [Ch.Query.relNames]
      have hget : ∃ r, refGet ec.2 it.ref = some r := by
        cases hx : it.ref with
        | node i =>
          have hi := hr1 i hx
          have : i < ec.2.ns.length := by rw [hl1]; exact hi
          exact ⟨.n (ec.2.ns[i]), by simp [refGet, List.getElem?_eq_getElem this]⟩
        | rel i =>
          have hi := hr2 i hx
          have : i < ec.2.es.length := by rw [hl2]; exact hi
          exact ⟨.e (ec.2.es[i]), by simp [refGet, List.getElem?_eq_getElem this]⟩
      obtain ⟨r, hr⟩ := hget
      exact eval_itemCCh g q ec.1 ec.2 hok hin it r hr
        (fun i hx => by
          have : i < q.nodeNames.length := by rw [hnl]; exact hr1 i hx
          simp [List.getElem?_eq_getElem this])
        (fun i hx => by
          have : i < q.relNames.length := by rw [hrl]; exact hr2 i hx
          simp [List.getElem?_eq_getElem this])
    simp only [this, ebind_ok, epure_ok]
  rw [hpr]
  simp only [ebind_ok, keyRows_none, intOf, cutKeyed, epure_ok, List.map_map, Function.comp_def, Bool.false_eq_true, if_false]

end Dawgs.C01.Proofs
