/- Helper lemmas for C14: triple store, tombstones, projections. -/
import Dawgs.Proofs.C14
set_option linter.unusedSimpArgs false
set_option linter.unusedVariables false
namespace Dawgs.C14

/-! ### incidence and far ends -/

def Incident (e : Edge) (v : Nat) : Dir → Prop
  | .out => e.start = v
  | .inn => e.stop = v
  | .both => e.start = v ∨ e.stop = v

/-- the correct neighbour reported for an edge incident to `v` in direction `d` -/
def farEnd (e : Edge) (v : Nat) : Dir → Nat
  | .out => e.stop
  | .inn => e.start
  | .both => e.other v

theorem hasEdge_filter {es : List Edge} {q : Edge → Bool} {s t : Nat} :
    HasEdge (es.filter q) s t ↔ ∃ e ∈ es, q e = true ∧ e.start = s ∧ e.stop = t := by
  unfold HasEdge
  constructor
  · rintro ⟨e, he, h⟩
    rw [List.mem_filter] at he
    exact ⟨e, he.1, he.2, h⟩
  · rintro ⟨e, he, hq, h⟩
    exact ⟨e, List.mem_filter.mpr ⟨he, hq⟩, h⟩

/-- the spec adjacency of a filtered edge list, edge by edge -/
theorem adjRel_filter {es : List Edge} {q : Edge → Bool} {v y : Nat} {d : Dir} :
    AdjRel (es.filter q) v y d ↔ ∃ e ∈ es, q e = true ∧ Incident e v d ∧ farEnd e v d = y := by
  cases d with
  | out =>
    simp only [AdjRel, Incident, farEnd, hasEdge_filter]
  | inn =>
    simp only [AdjRel, Incident, farEnd, hasEdge_filter]
    constructor
    · rintro ⟨e, he, hq, h1, h2⟩; exact ⟨e, he, hq, h2, h1⟩
    · rintro ⟨e, he, hq, h1, h2⟩; exact ⟨e, he, hq, h2, h1⟩
  | both =>
    simp only [AdjRel, Incident, farEnd, hasEdge_filter, Edge.other]
    constructor
    · rintro (⟨e, he, hq, h1, h2⟩ | ⟨e, he, hq, h1, h2⟩)
      · exact ⟨e, he, hq, Or.inl h1, by simp [h1, h2]⟩
      · refine ⟨e, he, hq, Or.inr h2, ?_⟩
        by_cases hs : e.start = v
        · rw [if_pos hs, h2, ← h1, hs]
        · rw [if_neg hs, h1]
    · rintro ⟨e, he, hq, hinc, hy⟩
      by_cases hs : e.start = v
      · rw [if_pos hs] at hy
        exact Or.inl ⟨e, he, hq, hs, hy⟩
      · rw [if_neg hs] at hy
        rcases hinc with h | h
        · exact absurd h hs
        · exact Or.inr ⟨e, he, hq, hy, h⟩

theorem farEnd_other {e : Edge} {v : Nat} {d : Dir} (h : Incident e v d) : e.other v = farEnd e v d := by
  cases d with
  | out => simp only [Incident] at h; simp [Edge.other, farEnd, h]
  | inn =>
    simp only [Incident] at h
    simp only [Edge.other, farEnd]
    by_cases hs : e.start = v
    · rw [if_pos hs, h, hs]
    · rw [if_neg hs]
  | both => rfl

/-! ### triple store -/

structure TS.Rel (t : TS) (g : G) : Prop where
  edges : t.edges = g.edges
  start : ∀ v i, i ∈ mget t.startIndex v ↔ ∃ e, t.edges[i]? = some e ∧ e.start = v
  stop : ∀ v i, i ∈ mget t.endIndex v ↔ ∃ e, t.edges[i]? = some e ∧ e.stop = v
  nodes : ∀ n, n ∈ t.nodes ↔ n ∈ g.nodes
  asc : Asc t.nodes

theorem TS.rel_empty : TS.Rel {} {} where
  edges := rfl
  start := by intro v i; simp [mget_nil]
  stop := by intro v i; simp [mget_nil]
  nodes := by intro n; simp
  asc := asc_nil

theorem getElem?_append_single {α : Type} (l : List α) (a b : α) (i : Nat) :
    (l ++ [a])[i]? = some b ↔ l[i]? = some b ∨ (i = l.length ∧ a = b) := by
  by_cases h : i < l.length
  · rw [List.getElem?_append_left h]
    constructor
    · intro h'; exact Or.inl h'
    · rintro (h' | ⟨h', _⟩)
      · exact h'
      · omega
  · have hge : l.length ≤ i := Nat.le_of_not_lt h
    rw [List.getElem?_append_right hge]
    have hnone : l[i]? = none := List.getElem?_eq_none hge
    rw [hnone]
    by_cases h0 : i = l.length
    · subst h0; simp
    · have : i - l.length ≠ 0 := by omega
      obtain ⟨k, hk⟩ := Nat.exists_eq_succ_of_ne_zero this
      rw [hk]; simp [h0]

theorem TS.rel_step {t : TS} {g : G} (r : t.Rel g) (o : Op) : (t.step o).Rel (g.step o) := by
  cases o with
  | node n =>
    show (t.addNode n).Rel _
    rw [G.step_node]
    unfold TS.addNode
    exact { edges := r.edges, start := r.start, stop := r.stop,
            nodes := by intro x; simp [mem_sinsert, r.nodes x]; constructor <;> (rintro (h | h) <;> simp [h]),
            asc := asc_sinsert r.asc }
  | edge id s e =>
    show (t.addTriple id s e).Rel _
    rw [G.step_edge]
    unfold TS.addTriple
    refine { edges := by simp [r.edges], start := ?_, stop := ?_, nodes := ?_, asc := asc_sinsert (asc_sinsert r.asc) }
    · intro v i
      simp only [mem_mget_madd, r.start v i, getElem?_append_single]
      constructor
      · rintro (⟨hv, hi⟩ | ⟨e', he', hs⟩)
        · exact ⟨⟨id, s, e⟩, Or.inr ⟨hi, rfl⟩, hv.symm⟩
        · exact ⟨e', Or.inl he', hs⟩
      · rintro ⟨e', he' | ⟨hi, he'⟩, hs⟩
        · exact Or.inr ⟨e', he', hs⟩
        · subst he'; exact Or.inl ⟨hs.symm, hi⟩
    · intro v i
      simp only [mem_mget_madd, r.stop v i, getElem?_append_single]
      constructor
      · rintro (⟨hv, hi⟩ | ⟨e', he', hs⟩)
        · exact ⟨⟨id, s, e⟩, Or.inr ⟨hi, rfl⟩, hv.symm⟩
        · exact ⟨e', Or.inl he', hs⟩
      · rintro ⟨e', he' | ⟨hi, he'⟩, hs⟩
        · exact Or.inr ⟨e', he', hs⟩
        · subst he'; exact Or.inl ⟨hs.symm, hi⟩
    · intro x
      simp only [mem_sinsert, r.nodes x, List.mem_append, List.mem_cons, List.not_mem_nil, or_false]
      constructor
      · rintro (h | h | h) <;> simp [h]
      · rintro (h | h | h) <;> simp [h]

theorem TS.rel_build (ops : List Op) : (TS.build ops).Rel (G.ofOps ops) :=
  foldl_rel TS.Rel TS.step G.step (fun _ _ s r => TS.rel_step r s) ops {} {} TS.rel_empty

/-- `DeleteEdge` touches only the tombstone set -/
def TS.deleteAll (t : TS) (ids : List Nat) : TS := ids.foldl TS.deleteEdge t

theorem TS.deleteAll_rel {t : TS} {g : G} (r : t.Rel g) (ids : List Nat) : (t.deleteAll ids).Rel g := by
  unfold TS.deleteAll
  induction ids generalizing t with
  | nil => exact r
  | cons i ids ih =>
    exact ih (t := t.deleteEdge i) { edges := r.edges, start := r.start, stop := r.stop, nodes := r.nodes, asc := r.asc }

theorem TS.deleteAll_deleted (t : TS) (ids : List Nat) (x : Nat) :
    x ∈ (t.deleteAll ids).deleted ↔ x ∈ t.deleted ∨ x ∈ ids := by
  unfold TS.deleteAll
  induction ids generalizing t with
  | nil => simp
  | cons i ids ih =>
    rw [List.foldl_cons, ih]
    simp only [TS.deleteEdge, mem_sinsert, List.mem_cons]
    constructor
    · rintro ((h | h) | h) <;> simp [h]
    · rintro (h | h | h) <;> simp [h]

theorem TS.mem_indices {t : TS} {g : G} (r : t.Rel g) (v i : Nat) (d : Dir) :
    i ∈ t.adjacentEdgeIndices v d ↔ ∃ e, t.edges[i]? = some e ∧ Incident e v d := by
  cases d with
  | out => simp only [TS.adjacentEdgeIndices, mem_sunion, List.not_mem_nil, false_or, r.start v i, Incident]
  | inn => simp only [TS.adjacentEdgeIndices, mem_sunion, List.not_mem_nil, false_or, r.stop v i, Incident]
  | both =>
    simp only [TS.adjacentEdgeIndices, mem_sunion, List.not_mem_nil, false_or, r.start v i, r.stop v i, Incident]
    constructor
    · rintro (⟨e, he, h⟩ | ⟨e, he, h⟩)
      · exact ⟨e, he, Or.inl h⟩
      · exact ⟨e, he, Or.inr h⟩
    · rintro ⟨e, he, h | h⟩
      · exact Or.inl ⟨e, he, h⟩
      · exact Or.inr ⟨e, he, h⟩

/-- the neighbours `triplestore.adjacent` adds for one live incident edge -/
def tsEnds (fixed : Bool) (n : Nat) (d : Dir) (e : Edge) : List Nat :=
  match d with
  | .out => [e.stop]
  | .inn => [e.start]
  | .both => if fixed then [e.other n] else [e.start, e.stop]

theorem mem_tsAddEnds (fixed : Bool) (n : Nat) (d : Dir) (acc : List Nat) (e : Edge) (y : Nat) :
    y ∈ tsAddEnds fixed n d acc e ↔ y ∈ acc ∨ y ∈ tsEnds fixed n d e := by
  cases d with
  | out => simp only [tsAddEnds, tsEnds, mem_sinsert, List.mem_singleton]; constructor <;> (rintro (h | h) <;> simp [h])
  | inn => simp only [tsAddEnds, tsEnds, mem_sinsert, List.mem_singleton]; constructor <;> (rintro (h | h) <;> simp [h])
  | both =>
    cases fixed with
    | true => simp only [tsAddEnds, tsEnds, if_true, mem_sinsert, List.mem_singleton]; constructor <;> (rintro (h | h) <;> simp [h])
    | false =>
      simp only [tsAddEnds, tsEnds, mem_sinsert, List.mem_cons, List.not_mem_nil, or_false, Bool.false_eq_true, if_false]
      constructor
      · rintro (h | h | h) <;> simp [h]
      · rintro (h | h | h) <;> simp [h]

theorem mem_foldl_tsAdjStep (fixed : Bool) (t : TS) (n : Nat) (d : Dir) (idxs : List Nat) (acc : List Nat) (y : Nat) :
    y ∈ idxs.foldl (tsAdjStep fixed t n d) acc ↔
      y ∈ acc ∨ ∃ i ∈ idxs, ∃ e, t.edges[i]? = some e ∧ e.id ∉ t.deleted ∧ y ∈ tsEnds fixed n d e := by
  induction idxs generalizing acc with
  | nil => simp
  | cons i idxs ih =>
    rw [List.foldl_cons, ih]
    have hstep : y ∈ tsAdjStep fixed t n d acc i ↔
        y ∈ acc ∨ ∃ e, t.edges[i]? = some e ∧ e.id ∉ t.deleted ∧ y ∈ tsEnds fixed n d e := by
      unfold tsAdjStep
      cases he : t.edges[i]? with
      | none => simp
      | some e =>
        simp only [Option.some.injEq]
        by_cases hd : e.id ∈ t.deleted
        · rw [if_pos hd]
          constructor
          · intro h; exact Or.inl h
          · rintro (h | ⟨e', rfl, hnd, _⟩)
            · exact h
            · exact absurd hd hnd
        · rw [if_neg hd, mem_tsAddEnds]
          constructor
          · rintro (h | h)
            · exact Or.inl h
            · exact Or.inr ⟨e, rfl, hd, h⟩
          · rintro (h | ⟨e', rfl, _, h⟩)
            · exact Or.inl h
            · exact Or.inr h
    rw [hstep]
    simp only [List.mem_cons]
    constructor
    · rintro ((h | ⟨e, he, hd, hy⟩) | ⟨j, hj, e, he, hd, hy⟩)
      · exact Or.inl h
      · exact Or.inr ⟨i, Or.inl rfl, e, he, hd, hy⟩
      · exact Or.inr ⟨j, Or.inr hj, e, he, hd, hy⟩
    · rintro (h | ⟨j, rfl | hj, e, he, hd, hy⟩)
      · exact Or.inl (Or.inl h)
      · exact Or.inl (Or.inr ⟨e, he, hd, hy⟩)
      · exact Or.inr ⟨j, hj, e, he, hd, hy⟩

/-- `triplestore.adjacent`, edge by edge -/
theorem TS.mem_adjacent {t : TS} {g : G} (r : t.Rel g) (fixed : Bool) (v y : Nat) (d : Dir) :
    y ∈ t.adjacent fixed v d ↔ ∃ e ∈ g.edges, e.id ∉ t.deleted ∧ Incident e v d ∧ y ∈ tsEnds fixed v d e := by
  unfold TS.adjacent
  rw [mem_foldl_tsAdjStep]
  simp only [List.not_mem_nil, false_or]
  constructor
  · rintro ⟨i, hi, e, he, hd, hy⟩
    obtain ⟨e', he', hinc⟩ := (TS.mem_indices r v i d).mp hi
    rw [he] at he'; cases he'
    refine ⟨e, ?_, hd, hinc, hy⟩
    rw [← r.edges]; exact List.mem_of_getElem? he
  · rintro ⟨e, he, hd, hinc, hy⟩
    rw [← r.edges] at he
    obtain ⟨i, hi⟩ := List.getElem?_of_mem he
    exact ⟨i, (TS.mem_indices r v i d).mpr ⟨e, hi, hinc⟩, e, hi, hd, hy⟩

theorem tsEnds_good {fixed : Bool} {v y : Nat} {d : Dir} {e : Edge} (hgood : d ≠ .both ∨ fixed = true) :
    y ∈ tsEnds fixed v d e ↔ farEnd e v d = y := by
  cases d with
  | out => simp [tsEnds, farEnd, eq_comm]
  | inn => simp [tsEnds, farEnd, eq_comm]
  | both =>
    rcases hgood with h | h
    · exact absurd rfl h
    · subst h; simp [tsEnds, farEnd, eq_comm]

/-- out/in for the code as it is, all three directions for the repaired `adjacent`:
the store presents exactly the edge list minus the tombstoned ids. -/
theorem TS.adjacent_spec {t : TS} {g : G} (r : t.Rel g) (fixed : Bool) (v y : Nat) (d : Dir)
    (hgood : d ≠ .both ∨ fixed = true) :
    y ∈ t.adjacent fixed v d ↔ y ∈ (g.dropEdges t.deleted).adj v d := by
  rw [TS.mem_adjacent r, mem_adj]
  show _ ↔ AdjRel (g.edges.filter _) v y d
  rw [adjRel_filter]
  constructor
  · rintro ⟨e, he, hd, hinc, hy⟩
    exact ⟨e, he, by simpa using hd, hinc, (tsEnds_good hgood).mp hy⟩
  · rintro ⟨e, he, hd, hinc, hy⟩
    exact ⟨e, he, by simpa using hd, hinc, (tsEnds_good hgood).mpr hy⟩

/-! ### projection -/

theorem TS.mem_adjacentEdges {t : TS} {g : G} (r : t.Rel g) (v : Nat) (d : Dir) (e : Edge) :
    e ∈ t.adjacentEdges v d ↔ e ∈ g.edges ∧ Incident e v d := by
  unfold TS.adjacentEdges
  rw [List.mem_filterMap]
  constructor
  · rintro ⟨i, hi, he⟩
    obtain ⟨e', he', hinc⟩ := (TS.mem_indices r v i d).mp hi
    rw [he] at he'; cases he'
    exact ⟨by rw [← r.edges]; exact List.mem_of_getElem? he, hinc⟩
  · rintro ⟨he, hinc⟩
    rw [← r.edges] at he
    obtain ⟨i, hi⟩ := List.getElem?_of_mem he
    exact ⟨i, (TS.mem_indices r v i d).mpr ⟨e, hi, hinc⟩, hi⟩

theorem mem_project_edges {g : G} {dn de : List Nat} {e : Edge} :
    e ∈ (g.project dn de).edges ↔ e ∈ g.edges ∧ (Proj.alive ⟨{}, dn, de⟩ e) = true := by
  simp only [G.project, G.dropNodes, G.dropEdges, List.mem_filter, Proj.alive, Bool.and_eq_true]
  constructor
  · rintro ⟨⟨h1, h2⟩, h3, h4⟩; exact ⟨h1, ⟨h2, h3⟩, h4⟩
  · rintro ⟨h1, ⟨h2, h3⟩, h4⟩; exact ⟨⟨h1, h2⟩, h3, h4⟩

theorem project_edges_eq (g : G) (dn de : List Nat) :
    (g.project dn de).edges = g.edges.filter (Proj.alive ⟨{}, dn, de⟩) := by
  simp only [G.project, G.dropNodes, G.dropEdges, List.filter_filter]
  congr 1
  funext e
  simp only [Proj.alive]
  cases (de.contains e.id) <;> cases (dn.contains e.start) <;> cases (dn.contains e.stop) <;> rfl

theorem Proj.alive_origin (t t' : TS) (dn de : List Nat) (e : Edge) :
    Proj.alive ⟨t, dn, de⟩ e = Proj.alive ⟨t', dn, de⟩ e := rfl

theorem Proj.mem_adjacent {t : TS} {g : G} (r : t.Rel g) (fixed : Bool) (dn de : List Nat) (v y : Nat) (d : Dir) :
    y ∈ (Proj.adjacent fixed ⟨t, dn, de⟩ v d) ↔
      ∃ e ∈ g.edges, Proj.alive ⟨{}, dn, de⟩ e = true ∧ Incident e v d ∧ pickOr fixed v d e = y := by
  unfold Proj.adjacent Proj.adjacentEdges
  simp only [List.mem_map, List.mem_filter, TS.mem_adjacentEdges r]
  constructor
  · rintro ⟨e, ⟨⟨he, hinc⟩, ha⟩, hy⟩; exact ⟨e, he, ha, hinc, hy⟩
  · rintro ⟨e, he, ha, hinc, hy⟩; exact ⟨e, ⟨⟨he, hinc⟩, ha⟩, hy⟩

theorem pickOr_good {fixed : Bool} {v : Nat} {d : Dir} {e : Edge} (hinc : Incident e v d)
    (hgood : d ≠ .both ∨ fixed = true) : pickOr fixed v d e = farEnd e v d := by
  unfold pickOr
  cases fixed with
  | true => simp only [if_true]; exact farEnd_other hinc
  | false =>
    simp only [Bool.false_eq_true, if_false]
    cases d with
    | out => rfl
    | inn => rfl
    | both => rcases hgood with h | h
              · exact absurd rfl h
              · cases h

/-- out/in for the code as it is, all three directions with the repaired pick: every projection of a
store built without `DeleteEdge` presents the edge list minus deleted edges and deleted nodes. -/
theorem Proj.adjacent_spec {t : TS} {g : G} (r : t.Rel g) (fixed : Bool) (dn de : List Nat) (v y : Nat) (d : Dir)
    (hgood : d ≠ .both ∨ fixed = true) :
    y ∈ (Proj.adjacent fixed ⟨t, dn, de⟩ v d) ↔ y ∈ (g.project dn de).adj v d := by
  rw [Proj.mem_adjacent r, mem_adj, project_edges_eq, adjRel_filter]
  constructor
  · rintro ⟨e, he, ha, hinc, hy⟩; exact ⟨e, he, ha, hinc, by rw [← pickOr_good hinc hgood]; exact hy⟩
  · rintro ⟨e, he, ha, hinc, hy⟩; exact ⟨e, he, ha, hinc, by rw [pickOr_good hinc hgood]; exact hy⟩

/-! ### node sets -/

theorem Proj.mem_nodes {t : TS} {g : G} (r : t.Rel g) (dn de : List Nat) (n : Nat) :
    n ∈ (Proj.nodes ⟨t, dn, de⟩) ↔ n ∈ (g.project dn de).nodes := by
  simp only [Proj.nodes, G.project, G.dropNodes, G.dropEdges, List.mem_filter, r.nodes n]

theorem Proj.nodes_nodup {t : TS} {g : G} (r : t.Rel g) (dn de : List Nat) : (Proj.nodes ⟨t, dn, de⟩).Nodup := by
  unfold Proj.nodes
  exact (Asc.nodup r.asc).filter _

end Dawgs.C14
