import Dawgs.Model.RWLock
namespace Dawgs.RW
variable {o : Obj}

theorem appAll_nil (s : o.σ) : o.appAll s [] = s := rfl
theorem appAll_cons (s : o.σ) (e es) : o.appAll s (e :: es) = o.appAll (o.app s e) es := rfl
theorem appAll_append (s : o.σ) (a b : List o.Eff) : o.appAll s (a ++ b) = o.appAll (o.appAll s a) b := by
  unfold Obj.appAll; rw [List.foldl_append]

theorem appAll_perm (h : Lawful o) {l1 l2 : List o.Eff} (p : l1.Perm l2) (s : o.σ) :
    o.appAll s l1 = o.appAll s l2 := by
  induction p generalizing s with
  | nil => rfl
  | cons x _ ih => rw [appAll_cons, appAll_cons, ih]
  | swap x y l => rw [appAll_cons, appAll_cons, appAll_cons, appAll_cons, h.comm]
  | trans _ _ ih1 ih2 => rw [ih1, ih2]

theorem stable_all (h : Lawful o) (s : o.σ) (es : List o.Eff) (x : o.R) :
    o.rread (o.appAll s es) x = o.rread s x := by
  induction es generalizing s with
  | nil => rfl
  | cons e es ih => rw [appAll_cons, ih, h.stable]

theorem split_at {α} {l : List α} {t : Nat} {a : α} (h : l[t]? = some a) :
    l = l.take t ++ a :: l.drop (t + 1) ∧ ∀ b, l.set t b = l.take t ++ b :: l.drop (t + 1) := by
  induction l generalizing t with
  | nil => simp at h
  | cons x xs ih =>
    cases t with
    | zero => simp at h; subst h; simp
    | succ t =>
      simp at h
      have := ih h
      constructor
      · simp; exact this.1
      · intro b; simp; exact this.2 b

theorem pending_append (a b : List (Thread o)) : pending o (a ++ b) = pending o a ++ pending o b := by
  unfold pending; rw [List.flatMap_append]
theorem pending_cons (th : Thread o) (l) : pending o (th :: l) = th.loc.pend ++ pending o l := by
  unfold pending; rw [List.flatMap_cons]

/-- pending effects before and after replacing thread `t` -/
theorem pending_set {ths : List (Thread o)} {t : Nat} {th : Thread o} (h : ths[t]? = some th) (th' : Thread o) :
    pending o ths = pending o (ths.take t) ++ (th.loc.pend ++ pending o (ths.drop (t + 1))) ∧
    pending o (ths.set t th') = pending o (ths.take t) ++ (th'.loc.pend ++ pending o (ths.drop (t + 1))) := by
  have sp := split_at h
  constructor
  · conv => lhs; rw [sp.1]
    rw [pending_append, pending_cons]
  · rw [sp.2 th', pending_append, pending_cons]

theorem pending_set_same {ths : List (Thread o)} {t : Nat} {th : Thread o} (h : ths[t]? = some th)
    (th' : Thread o) (hp : th'.loc.pend = th.loc.pend) : pending o (ths.set t th') = pending o ths := by
  have := pending_set h th'
  rw [this.1, this.2, hp]

/-- mutual exclusion of the RW lock: a thread holding the write lock is alone inside -/
def Excl (ths : List (Thread o)) : Prop :=
  ∀ (t : Nat) (th : Thread o), ths[t]? = some th → th.loc.isWriter = true →
    ∀ (u : Nat) (th' : Thread o), ths[u]? = some th' → u ≠ t → th'.loc.isIdle = true

theorem getElem?_set' {α} (l : List α) (t u : Nat) (a : α) (x : α) (h : (l.set t a)[u]? = some x) :
    (u = t ∧ x = a) ∨ (u ≠ t ∧ l[u]? = some x) := by
  by_cases hu : u = t
  · subst hu
    rw [List.getElem?_set_self'] at h
    cases hl : l[u]? with
    | none => simp [hl] at h
    | some y => simp [hl] at h; exact Or.inl ⟨rfl, h.symm⟩
  · rw [List.getElem?_set_ne (fun h' => hu h'.symm)] at h
    exact Or.inr ⟨hu, h⟩

theorem pend_nil_of_idle {l : Local o} (h : l.isIdle = true) : l.pend = [] := by
  cases l <;> simp_all [Local.isIdle, Local.pend]

/-- when thread `t` holds the write lock nothing is pending -/
theorem pending_nil_of_writer {ths : List (Thread o)} (hx : Excl ths) {t : Nat} {th : Thread o} (ht : ths[t]? = some th)
    (hw : th.loc.isWriter = true) : pending o ths = [] := by
  unfold pending
  rw [List.flatMap_eq_nil_iff]
  intro th' hmem
  obtain ⟨u, hu⟩ := List.getElem?_of_mem hmem
  by_cases hut : u = t
  · subst hut; rw [ht] at hu; cases hu
    cases hl : th.loc <;> simp_all [Local.isWriter, Local.pend]
  · exact pend_nil_of_idle (hx t th ht hw u th' hu hut)

theorem excl_step {a b : St o} (hs : Step o a b) (hx : Excl a.ths) : Excl b.ths := by
  have noW : ∀ (t : Nat) (th : Thread o), a.ths[t]? = some th → th.loc.isIdle = false →
      ∀ (w : Nat) (thw : Thread o), w ≠ t → a.ths[w]? = some thw → thw.loc.isWriter = true → False := by
    intro t th ht hni w thw hwt hw hww
    have := hx w thw hw hww t th ht (fun h => hwt h.symm)
    rw [this] at hni; cases hni
  -- generic: after `set t th'` where th' is not a writer and no OTHER thread was a writer before
  have keepNoW : ∀ (t : Nat) (th' : Thread o), th'.loc.isWriter = false →
      (∀ (w : Nat) (thw : Thread o), w ≠ t → a.ths[w]? = some thw → thw.loc.isWriter = true → False) →
      Excl (a.ths.set t th') := by
    intro t th' hnw hno w thw hw hww
    rcases getElem?_set' _ _ _ _ _ hw with ⟨_, h2⟩ | ⟨h1, h2⟩
    · subst h2; rw [hww] at hnw; cases hnw
    · exact (hno w thw h1 h2 hww).elim
  cases hs with
  | acqW t x rest ht hall =>
    intro w thw hw hww u thu hu huw
    simp only at hw hu
    rcases getElem?_set' _ _ _ _ _ hw with ⟨h1, _⟩ | ⟨_, h2⟩
    · rcases getElem?_set' _ _ _ _ _ hu with ⟨h3, _⟩ | ⟨_, h4⟩
      · exact (huw (h3.trans h1.symm)).elim
      · exact (List.all_eq_true.1 hall) thu (List.mem_of_getElem? h4)
    · have := (List.all_eq_true.1 hall) thw (List.mem_of_getElem? h2)
      cases hl : thw.loc <;> simp_all [Local.isWriter, Local.isIdle]
  | runW t x prog ht =>
    intro w thw hw hww u thu hu huw
    simp only at hw hu
    have hwr : (⟨prog, .wHold x⟩ : Thread o).loc.isWriter = true := rfl
    rcases getElem?_set' _ _ _ _ _ hw with ⟨h1, _⟩ | ⟨h1, h2⟩
    · rcases getElem?_set' _ _ _ _ _ hu with ⟨h3, _⟩ | ⟨h3, h4⟩
      · exact (huw (h3.trans h1.symm)).elim
      · exact hx t _ ht hwr u thu h4 h3
    · have := hx t _ ht hwr w thw h2 h1
      cases hl : thw.loc <;> simp_all [Local.isWriter, Local.isIdle]
  | relW t res prog ht =>
    have hwr : (⟨prog, .wRel res⟩ : Thread o).loc.isWriter = true := rfl
    exact keepNoW t _ rfl (noW t _ ht rfl)
  | acqR t x rest ht hno =>
    apply keepNoW t _ rfl
    intro w thw _ hw hww
    have := (List.all_eq_true.1 hno) thw (List.mem_of_getElem? hw)
    simp [hww] at this
  | look t x prog ht => exact keepNoW t _ rfl (noW t _ ht rfl)
  | eff t res e es prog ht => exact keepNoW t _ rfl (noW t _ ht rfl)
  | relR t res prog ht => exact keepNoW t _ rfl (noW t _ ht rfl)

theorem excl_reach {init st : St o} (h : Reach o init st) (h0 : Excl init.ths) : Excl st.ths := by
  induction h with
  | refl => exact h0
  | step _ hs ih => exact excl_step hs ih

theorem seqRun_snoc (s : o.σ) (l : List (Op o)) (op : Op o) :
    o.seqRun s (l ++ [op]) =
      ((o.seqStep (o.seqRun s l).1 op).1, (o.seqRun s l).2 ++ [(o.seqStep (o.seqRun s l).1 op).2]) := by
  induction l generalizing s with
  | nil => simp [Obj.seqRun]
  | cons a l ih => simp [Obj.seqRun, ih]

/-- the refinement invariant: the abstract state (all readers inside finished) is the state of the
sequential run of the operations in linearization order, with the same results -/
def Refines (init : St o) (st : St o) : Prop :=
  st.abs = (o.seqRun init.s st.lin).1 ∧ st.linRes = (o.seqRun init.s st.lin).2

theorem refines_step (hl : Lawful o) {init a b : St o} (hs : Step o a b) (hx : Excl a.ths)
    (hr : Refines init a) : Refines init b := by
  unfold Refines St.abs at *
  cases hs with
  | acqW t x rest ht hall =>
    simp only; rw [pending_set_same ht ⟨rest, .wHold x⟩ rfl]; exact hr
  | relW t res prog ht =>
    simp only; rw [pending_set_same ht ⟨prog, .idle⟩ rfl]; exact hr
  | acqR t x rest ht hno =>
    simp only; rw [pending_set_same ht ⟨rest, .rAcq x⟩ rfl]; exact hr
  | relR t res prog ht =>
    simp only; rw [pending_set_same ht ⟨prog, .idle⟩ rfl]; exact hr
  | runW t x prog ht =>
    simp only
    have hp : pending o a.ths = [] := pending_nil_of_writer hx ht rfl
    rw [pending_set_same ht ⟨prog, .wRel (o.wstep a.s x).2⟩ rfl, hp, appAll_nil]
    rw [hp, appAll_nil] at hr
    rw [seqRun_snoc, ← hr.1, ← hr.2]
    exact ⟨rfl, rfl⟩
  | look t x prog ht =>
    simp only
    have ps := pending_set ht ⟨prog, .rHold (o.rread a.s x).1 (o.rread a.s x).2⟩
    have hpend : ((⟨prog, .rAcq x⟩ : Thread o).loc.pend) = [] := rfl
    rw [seqRun_snoc, ← hr.1, ← hr.2]
    have hst : o.rread (o.appAll a.s (pending o a.ths)) x = o.rread a.s x := stable_all hl _ _ _
    refine ⟨?_, ?_⟩
    · show o.appAll a.s _ = o.appAll (o.appAll a.s (pending o a.ths)) (o.rread (o.appAll a.s (pending o a.ths)) x).2
      rw [hst, ← appAll_append, ps.2, ps.1, hpend]
      apply appAll_perm hl
      simp only [Local.pend, List.nil_append]
      -- P1 ++ (es ++ P2)  ~  (P1 ++ P2) ++ es
      have : (pending o (a.ths.take t) ++ (pending o (a.ths.drop (t + 1)))) ++ (o.rread a.s x).2 =
          pending o (a.ths.take t) ++ (pending o (a.ths.drop (t + 1)) ++ (o.rread a.s x).2) := by
        rw [List.append_assoc]
      rw [this]
      exact List.Perm.append_left _ List.perm_append_comm
    · show a.linRes ++ [(o.rread a.s x).1] = a.linRes ++ [(o.rread (o.appAll a.s (pending o a.ths)) x).1]
      rw [hst]
  | eff t res e es prog ht =>
    simp only
    have ps := pending_set ht ⟨prog, .rHold res es⟩
    refine ⟨?_, hr.2⟩
    rw [← hr.1, ps.2, ps.1]
    simp only [Local.pend]
    rw [← appAll_cons]
    apply appAll_perm hl
    -- e :: (P1 ++ (es ++ P2))  ~  P1 ++ ((e :: es) ++ P2)
    have : pending o (a.ths.take t) ++ ((e :: es) ++ pending o (a.ths.drop (t + 1))) =
        pending o (a.ths.take t) ++ e :: (es ++ pending o (a.ths.drop (t + 1))) := rfl
    rw [this]
    exact (List.perm_middle).symm

/-- **Linearizability (reduction theorem).** From an initial state in which every thread is idle, every
reachable state of the concurrent system — under every interleaving — refines the sequential run of the
operations taken in the order of their linearization points (writer: its body; reader: its lookup), and
every operation returns the sequential result. Each linearization point lies between the operation's lock
acquisition and release, so the order is consistent with real time. -/
theorem linearizable (hl : Lawful o) {init st : St o} (h : Reach o init st)
    (hidle : allIdle o init.ths = true) (hlin : init.lin = []) (hres : init.linRes = []) :
    Refines init st := by
  have hx0 : Excl init.ths := by
    intro t th ht hw
    have := (List.all_eq_true.1 hidle) th (List.mem_of_getElem? ht)
    cases hl' : th.loc <;> simp_all [Local.isWriter, Local.isIdle]
  induction h with
  | refl =>
    unfold Refines St.abs
    have : pending o init.ths = [] := by
      unfold pending; rw [List.flatMap_eq_nil_iff]
      intro th hm
      exact pend_nil_of_idle ((List.all_eq_true.1 hidle) th hm)
    rw [this, hlin, hres]; exact ⟨rfl, rfl⟩
  | step hab hs ih => exact refines_step hl hs (excl_reach hab hx0) ih

/-- **No deadlock.** In every state that satisfies the lock's mutual exclusion, a thread that is inside
an operation, or a thread that still has work while the lock admits it, can take a step; if any thread is
not finished, some step is enabled. -/
theorem progress {st : St o} (_hx : Excl st.ths)
    (hwork : ∃ (t : Nat) (th : Thread o), st.ths[t]? = some th ∧ (th.loc.isIdle = false ∨ th.prog ≠ [])) :
    ∃ st', Step o st st' := by
  -- 1. somebody is inside an operation: that thread can always move
  by_cases hin : ∃ (t : Nat) (th : Thread o), st.ths[t]? = some th ∧ th.loc.isIdle = false
  · obtain ⟨t, th, ht, hni⟩ := hin
    rcases th with ⟨prog, loc⟩
    cases loc with
    | idle => simp [Local.isIdle] at hni
    | rAcq x => exact ⟨_, Step.look st t x prog ht⟩
    | rHold res pend =>
      cases pend with
      | nil => exact ⟨_, Step.relR st t res prog ht⟩
      | cons e es => exact ⟨_, Step.eff st t res e es prog ht⟩
    | wHold x => exact ⟨_, Step.runW st t x prog ht⟩
    | wRel res => exact ⟨_, Step.relW st t res prog ht⟩
  · -- 2. everybody is idle: the lock is free, any thread with work can acquire it
    have hall : allIdle o st.ths = true := by
      apply List.all_eq_true.2
      intro th hm
      obtain ⟨u, hu⟩ := List.getElem?_of_mem hm
      cases hi : th.loc.isIdle with
      | true => rfl
      | false => exact (hin ⟨u, th, hu, hi⟩).elim
    have hnow : noWriter o st.ths = true := by
      apply List.all_eq_true.2
      intro th hm
      have := (List.all_eq_true.1 hall) th hm
      cases hl' : th.loc <;> simp_all [Local.isWriter, Local.isIdle]
    obtain ⟨t, th, ht, hw⟩ := hwork
    have hidle : th.loc.isIdle = true := (List.all_eq_true.1 hall) th (List.mem_of_getElem? ht)
    rcases hw with hw | hw
    · rw [hidle] at hw; cases hw
    · rcases th with ⟨prog, loc⟩
      cases loc with
      | idle =>
        cases prog with
        | nil => exact (hw rfl).elim
        | cons op rest =>
          cases op with
          | w x => exact ⟨_, Step.acqW st t x rest ht hall⟩
          | r x => exact ⟨_, Step.acqR st t x rest ht hnow⟩
      | _ => simp [Local.isIdle] at hidle

end Dawgs.RW
