/- Lemmas about the lock-level LTS of the mutex wrappers (Model/C13Lts). Property statements are in Props/C13. -/
import Dawgs.Model.C13Lts
set_option linter.unusedSimpArgs false
set_option linter.unusedVariables false
namespace Dawgs.C13.Lts

variable {D R : Type}

@[simp] theorem upd_same (f : Nat → α) (k : Nat) (v : α) : upd f k v k = v := by simp [upd]
theorem upd_other (f : Nat → α) {k i : Nat} (v : α) (h : i ≠ k) : upd f k v i = f i := by simp [upd, h]

/-- sequential meaning of a log: starting from `d`, every entry returned what its delegate returns on the data
produced by the entries before it, and the data at the end is `dEnd` -/
def Lin (d : D) : List (Entry D R) → D → Prop
  | [], dEnd => d = dEnd
  | e :: es, dEnd => e.r = (e.call.f d e.op).2 ∧ Lin (e.call.f d e.op).1 es dEnd

theorem lin_snoc {d : D} : ∀ {log : List (Entry D R)} {dEnd : D} (e : Entry D R),
    Lin d log dEnd → e.r = (e.call.f dEnd e.op).2 → Lin d (log ++ [e]) (e.call.f dEnd e.op).1
  | [], dEnd, e, h, hr => by
    simp only [Lin] at h; subst h
    exact ⟨hr, rfl⟩
  | x :: xs, dEnd, e, h, hr => by
    exact ⟨h.1, lin_snoc e h.2 hr⟩

/-- calls of thread `t` that have not been linearised yet -/
def pending (s : State D R) (t : Nat) : List (Call D R) :=
  match (s.th t).pc with
  | .written => (s.th t).todo.tail
  | _ => (s.th t).todo

def mine (t : Nat) (log : List (Entry D R)) : List (Entry D R) := log.filter (fun e => e.tid == t)

theorem mine_snoc_same (t : Nat) (log : List (Entry D R)) (e : Entry D R) (h : e.tid = t) :
    mine t (log ++ [e]) = mine t log ++ [e] := by simp [mine, List.filter_append, h]

theorem mine_snoc_other (t : Nat) (log : List (Entry D R)) (e : Entry D R) (h : e.tid ≠ t) :
    mine t (log ++ [e]) = mine t log := by simp [mine, List.filter_append, h]

/-- thread `t` is inside a method body -/
def inCS (s : State D R) (t : Nat) : Prop := (s.th t).pc ≠ .start

/-- callers of ONE wrapper `w`, operands are not wrappers, every method body holds the lock -/
def Single (w : Nat) (c : Call D R) : Prop := c.recv = w ∧ c.operand = none ∧ c.locked = true

structure LinInv (w : Nat) (d0 : D) (progs : Nat → List (Call D R)) (s : State D R) : Prop where
  single : ∀ t, ∀ c ∈ (s.th t).todo, Single w c
  pcs : ∀ t, (s.th t).pc = .start ∨ (s.th t).pc = .held 0 ∨ (s.th t).pc = .readDone ∨ (s.th t).pc = .written
  holds : ∀ t, inCS s t → s.holder w = some t
  fresh : ∀ t, (s.th t).pc = .readDone → (s.th t).loc = s.data w
  lin : Lin d0 s.log (s.data w)
  order : ∀ t, (mine t s.log).map (·.call) ++ pending s t = progs t
  res : ∀ t, (s.th t).res = (mine t s.log).map (·.r)

theorem linInv_init (w : Nat) (d0 : Nat → D) (dflt : D) (progs : Nat → List (Call D R))
    (h : ∀ t, ∀ c ∈ progs t, Single w c) : LinInv w (d0 w) progs (init d0 dflt progs) where
  single := h
  pcs := fun _ => Or.inl rfl
  holds := fun t ht => absurd rfl ht
  fresh := fun t ht => by simp [init] at ht
  lin := rfl
  order := fun t => by simp [init, mine, pending]
  res := fun t => by simp [init, mine]

theorem mutex_of_holds {w : Nat} {s : State D R} (h : ∀ t, inCS s t → s.holder w = some t) {t t' : Nat}
    (ht : inCS s t) (ht' : inCS s t') : t = t' := by
  have := h t ht; have := h t' ht'; simp_all

theorem linInv_step {w : Nat} {d0 : D} {progs : Nat → List (Call D R)} {s s' : State D R} {t : Nat}
    (inv : LinInv w d0 progs s) (hs : step s t = some s') : LinInv w d0 progs s' := by
  unfold step at hs
  simp only at hs
  split at hs
  · cases hs
  · rename_i c rest htodo
    have hc : Single w c := inv.single t c (by rw [htodo]; exact List.mem_cons_self)
    obtain ⟨hrecv, hop, hlock⟩ := hc
    have others : ∀ t', t' ≠ t → inCS s t → (s.th t').pc = .start := by
      intro t' hne hin
      rcases Classical.em ((s.th t').pc = .start) with h | h
      · exact h
      · exact absurd (mutex_of_holds inv.holds (t := t') (t' := t) h hin) hne
    split at hs
    · -- start
      rename_i hpc
      rw [hlock] at hs
      simp only [if_true] at hs
      split at hs
      · rename_i hfree
        have hs := Option.some.inj hs
        subst hs
        have hr0 : c.rounds = 0 := by simp [Call.rounds, hop]
        have allStart : ∀ t', (s.th t').pc = .start := by
          intro t'
          rcases Classical.em ((s.th t').pc = .start) with h | h
          · exact h
          · have := inv.holds t' h; rw [hrecv] at hfree; rw [hfree] at this; cases this
        refine ⟨?_, ?_, ?_, ?_, ?_, ?_, ?_⟩
        · intro t' c' hc'
          by_cases e : t' = t
          · subst e; simp only [upd_same] at hc'; rw [htodo] at hc'; exact inv.single t' c' (by rw [htodo]; exact hc')
          · simp only [upd_other _ _ e] at hc'; exact inv.single t' c' hc'
        · intro t'
          by_cases e : t' = t
          · subst e; simp [upd_same, hr0]
          · simp only [upd_other _ _ e]; exact inv.pcs t'
        · intro t' hin
          by_cases e : t' = t
          · subst e; rw [hrecv]; simp
          · simp only [inCS, upd_other _ _ e] at hin; exact absurd (allStart t') hin
        · intro t' hrd
          by_cases e : t' = t
          · subst e; simp only [upd_same, hr0] at hrd; exact Pc.noConfusion hrd
          · simp only [upd_other _ _ e] at hrd; rw [allStart t'] at hrd; exact Pc.noConfusion hrd
        · exact inv.lin
        · intro t'
          by_cases e : t' = t
          · subst e
            have := inv.order t'
            simp only [pending, hpc, htodo] at this
            simp only [pending, upd_same, hr0, htodo]
            exact this
          · have := inv.order t'
            simp only [pending, upd_other _ _ e]
            exact this
        · intro t'
          by_cases e : t' = t
          · subst e; simp only [upd_same]; exact inv.res t'
          · simp only [upd_other _ _ e]; exact inv.res t'
      · cases hs
    · -- held (k+1): excluded
      rename_i k hpc
      rcases inv.pcs t with h | h | h | h <;> rw [hpc] at h <;> first | exact Pc.noConfusion h | (injection h with h; omega)
    · -- inOp: excluded
      rename_i k hpc
      rcases inv.pcs t with h | h | h | h <;> rw [hpc] at h <;> exact Pc.noConfusion h
    · -- held 0: read
      rename_i hpc
      have hs := Option.some.inj hs
      subst hs
      have hin : inCS s t := by simp [inCS, hpc]
      refine ⟨?_, ?_, ?_, ?_, ?_, ?_, ?_⟩
      · intro t' c' hc'
        by_cases e : t' = t
        · subst e; simp only [upd_same] at hc'; exact inv.single t' c' hc'
        · simp only [upd_other _ _ e] at hc'; exact inv.single t' c' hc'
      · intro t'
        by_cases e : t' = t
        · subst e; simp [upd_same]
        · simp only [upd_other _ _ e]; exact inv.pcs t'
      · intro t' hin'
        by_cases e : t' = t
        · subst e; exact inv.holds t' hin
        · simp only [inCS, upd_other _ _ e] at hin'; exact inv.holds t' hin'
      · intro t' hrd
        by_cases e : t' = t
        · subst e; simp only [upd_same, hrecv]
        · simp only [upd_other _ _ e] at hrd; rw [others t' e hin] at hrd; exact Pc.noConfusion hrd
      · exact inv.lin
      · intro t'
        by_cases e : t' = t
        · subst e
          have := inv.order t'
          simp only [pending, hpc] at this
          simp only [pending, upd_same]
          exact this
        · have := inv.order t'
          simp only [pending, upd_other _ _ e]
          exact this
      · intro t'
        by_cases e : t' = t
        · subst e; simp only [upd_same]; exact inv.res t'
        · simp only [upd_other _ _ e]; exact inv.res t'
    · -- readDone: write
      rename_i hpc
      have hs := Option.some.inj hs
      subst hs
      have hin : inCS s t := by simp [inCS, hpc]
      have hfresh := inv.fresh t hpc
      refine ⟨?_, ?_, ?_, ?_, ?_, ?_, ?_⟩
      · intro t' c' hc'
        by_cases e : t' = t
        · subst e; simp only [upd_same] at hc'; exact inv.single t' c' hc'
        · simp only [upd_other _ _ e] at hc'; exact inv.single t' c' hc'
      · intro t'
        by_cases e : t' = t
        · subst e; simp [upd_same]
        · simp only [upd_other _ _ e]; exact inv.pcs t'
      · intro t' hin'
        by_cases e : t' = t
        · subst e; exact inv.holds t' hin
        · simp only [inCS, upd_other _ _ e] at hin'; exact inv.holds t' hin'
      · intro t' hrd
        by_cases e : t' = t
        · subst e; simp only [upd_same] at hrd; exact Pc.noConfusion hrd
        · simp only [upd_other _ _ e] at hrd; rw [others t' e hin] at hrd; exact Pc.noConfusion hrd
      · simp only [hrecv, upd_same]
        have := lin_snoc (d := d0) { tid := t, call := c, op := (s.th t).opLoc, r := (c.f (s.th t).loc (s.th t).opLoc).2 } inv.lin
          (by simp only [hfresh])
        simp only [hfresh] at this ⊢
        exact this
      · intro t'
        by_cases e : t' = t
        · subst e
          have := inv.order t'
          simp only [pending, hpc, htodo] at this
          simp only [pending, upd_same, htodo, List.tail_cons]
          rw [mine_snoc_same t' s.log _ rfl, List.map_append, List.append_assoc]
          exact this
        · have := inv.order t'
          simp only [pending, upd_other _ _ e]
          rw [mine_snoc_other t' s.log _ (fun h => e h.symm)]
          exact this
      · intro t'
        by_cases e : t' = t
        · subst e
          simp only [upd_same]
          rw [mine_snoc_same t' s.log _ rfl, List.map_append, inv.res t']
          rfl
        · simp only [upd_other _ _ e]
          rw [mine_snoc_other t' s.log _ (fun h => e h.symm)]
          exact inv.res t'
    · -- written: release, next call
      rename_i hpc
      have hs := Option.some.inj hs
      subst hs
      have hin : inCS s t := by simp [inCS, hpc]
      refine ⟨?_, ?_, ?_, ?_, ?_, ?_, ?_⟩
      · intro t' c' hc'
        by_cases e : t' = t
        · subst e; simp only [upd_same] at hc'; exact inv.single t' c' (by rw [htodo]; exact List.mem_cons_of_mem _ hc')
        · simp only [upd_other _ _ e] at hc'; exact inv.single t' c' hc'
      · intro t'
        by_cases e : t' = t
        · subst e; simp [upd_same]
        · simp only [upd_other _ _ e]; exact inv.pcs t'
      · intro t' hin'
        by_cases e : t' = t
        · subst e; simp [inCS] at hin'
        · simp only [inCS, upd_other _ _ e] at hin'; exact absurd (others t' e hin) hin'
      · intro t' hrd
        by_cases e : t' = t
        · subst e; simp only [upd_same] at hrd; exact Pc.noConfusion hrd
        · simp only [upd_other _ _ e] at hrd; rw [others t' e hin] at hrd; exact Pc.noConfusion hrd
      · exact inv.lin
      · intro t'
        by_cases e : t' = t
        · subst e
          have := inv.order t'
          simp only [pending, hpc, htodo, List.tail_cons] at this
          simp only [pending, upd_same]
          exact this
        · have := inv.order t'
          simp only [pending, upd_other _ _ e]
          exact this
      · intro t'
        by_cases e : t' = t
        · subst e; simp only [upd_same]; exact inv.res t'
        · simp only [upd_other _ _ e]; exact inv.res t'

theorem linInv_reach {w : Nat} {d0 : Nat → D} {dflt : D} {progs : Nat → List (Call D R)}
    (h : ∀ t, ∀ c ∈ progs t, Single w c) {s : State D R} (hr : Reach (init d0 dflt progs) s) :
    LinInv w (d0 w) progs s := by
  induction hr with
  | refl => exact linInv_init w d0 dflt progs h
  | step t _ hs ih => exact linInv_step ih hs

theorem reach_of_runSched {s0 : State D R} : ∀ (sched : List Nat) {s s' : State D R}, Reach s0 s → runSched s sched = some s' → Reach s0 s'
  | [], s, s', hr, h => by simp only [runSched] at h; exact (Option.some.inj h) ▸ hr
  | t :: ts, s, s', hr, h => by
    simp only [runSched] at h
    split at h
    · rename_i s1 hs1
      exact reach_of_runSched ts (Reach.step t hr hs1) h
    · cases h

/-! ### deadlock freedom when no operand is a wrapper -/

structure DlInv (n : Nat) (s : State D R) : Prop where
  ops : ∀ t, ∀ c ∈ (s.th t).todo, c.operand = none
  idle : ∀ t, n ≤ t → (s.th t).todo = []
  owner : ∀ m t, s.holder m = some t →
    ∃ c rest, (s.th t).todo = c :: rest ∧ c.recv = m ∧ c.locked = true ∧ (s.th t).pc ≠ .start

theorem dlInv_init (n : Nat) (d0 : Nat → D) (dflt : D) (progs : Nat → List (Call D R))
    (hops : ∀ t, ∀ c ∈ progs t, c.operand = none) (hidle : ∀ t, n ≤ t → progs t = []) :
    DlInv n (init d0 dflt progs) where
  ops := hops
  idle := hidle
  owner := fun m t h => by simp [init] at h

/-- a thread inside a method body whose operand is not a wrapper can always move -/
theorem enabled_inCS {s : State D R} {t : Nat} {c : Call D R} {rest : List (Call D R)}
    (htodo : (s.th t).todo = c :: rest) (hop : c.operand = none) (hpc : (s.th t).pc ≠ .start) :
    (step s t).isSome = true := by
  unfold step
  simp only [htodo]
  split
  · rename_i h; exact absurd h hpc
  · simp [hop]
  · simp [hop]
  · rfl
  · rfl
  · rfl

theorem dlInv_step {n : Nat} {s s' : State D R} {t : Nat} (inv : DlInv n s) (hs : step s t = some s') : DlInv n s' := by
  unfold step at hs
  simp only at hs
  split at hs
  · cases hs
  · rename_i c rest htodo
    have hop : c.operand = none := inv.ops t c (by rw [htodo]; exact List.mem_cons_self)
    split at hs
    · -- start
      rename_i hpc
      have notOwner : ∀ m, s.holder m ≠ some t := by
        intro m h
        obtain ⟨_, _, _, _, _, hne⟩ := inv.owner m t h
        exact hne hpc
      split at hs
      · rename_i hlock
        split at hs
        · rename_i hfree
          have hs := Option.some.inj hs
          subst hs
          refine ⟨?_, ?_, ?_⟩
          · intro t' c' hc'
            by_cases e : t' = t
            · subst e; simp only [upd_same] at hc'; exact inv.ops t' c' hc'
            · simp only [upd_other _ _ e] at hc'; exact inv.ops t' c' hc'
          · intro t' hn
            by_cases e : t' = t
            · subst e; simp only [upd_same]; exact inv.idle t' hn
            · simp only [upd_other _ _ e]; exact inv.idle t' hn
          · intro m t' hm
            by_cases em : m = c.recv
            · subst em
              simp only [upd_same] at hm
              have := Option.some.inj hm
              subst this
              exact ⟨c, rest, by simp [upd_same, htodo], rfl, hlock, by simp [upd_same]⟩
            · simp only [upd_other _ _ em] at hm
              have hne : t' ≠ t := fun e => notOwner m (e ▸ hm)
              obtain ⟨c', rest', h1, h2, h3, h4⟩ := inv.owner m t' hm
              exact ⟨c', rest', by simp [upd_other _ _ hne, h1], h2, h3, by simp [upd_other _ _ hne, h4]⟩
        · cases hs
      · have hs := Option.some.inj hs
        subst hs
        refine ⟨?_, ?_, ?_⟩
        · intro t' c' hc'
          by_cases e : t' = t
          · subst e; simp only [upd_same] at hc'; exact inv.ops t' c' hc'
          · simp only [upd_other _ _ e] at hc'; exact inv.ops t' c' hc'
        · intro t' hn
          by_cases e : t' = t
          · subst e; simp only [upd_same]; exact inv.idle t' hn
          · simp only [upd_other _ _ e]; exact inv.idle t' hn
        · intro m t' hm
          have hne : t' ≠ t := fun e => notOwner m (e ▸ hm)
          obtain ⟨c', rest', h1, h2, h3, h4⟩ := inv.owner m t' hm
          exact ⟨c', rest', by simp [upd_other _ _ hne, h1], h2, h3, by simp [upd_other _ _ hne, h4]⟩
    · -- held (k+1) with a non-wrapper operand
      rename_i k hpc
      rw [hop] at hs
      have hs := Option.some.inj hs
      subst hs
      refine ⟨?_, ?_, ?_⟩
      · intro t' c' hc'
        by_cases e : t' = t
        · subst e; simp only [upd_same] at hc'; exact inv.ops t' c' hc'
        · simp only [upd_other _ _ e] at hc'; exact inv.ops t' c' hc'
      · intro t' hn
        by_cases e : t' = t
        · subst e; simp only [upd_same]; exact inv.idle t' hn
        · simp only [upd_other _ _ e]; exact inv.idle t' hn
      · intro m t' hm
        obtain ⟨c', rest', h1, h2, h3, h4⟩ := inv.owner m t' hm
        by_cases e : t' = t
        · subst e; exact ⟨c', rest', by simp [upd_same, h1], h2, h3, by simp [upd_same]⟩
        · exact ⟨c', rest', by simp [upd_other _ _ e, h1], h2, h3, by simp [upd_other _ _ e, h4]⟩
    · -- inOp with a non-wrapper operand
      rename_i k hpc
      rw [hop] at hs
      have hs := Option.some.inj hs
      subst hs
      refine ⟨?_, ?_, ?_⟩
      · intro t' c' hc'
        by_cases e : t' = t
        · subst e; simp only [upd_same] at hc'; exact inv.ops t' c' hc'
        · simp only [upd_other _ _ e] at hc'; exact inv.ops t' c' hc'
      · intro t' hn
        by_cases e : t' = t
        · subst e; simp only [upd_same]; exact inv.idle t' hn
        · simp only [upd_other _ _ e]; exact inv.idle t' hn
      · intro m t' hm
        obtain ⟨c', rest', h1, h2, h3, h4⟩ := inv.owner m t' hm
        by_cases e : t' = t
        · subst e; exact ⟨c', rest', by simp [upd_same, h1], h2, h3, by simp [upd_same]⟩
        · exact ⟨c', rest', by simp [upd_other _ _ e, h1], h2, h3, by simp [upd_other _ _ e, h4]⟩
    · -- held 0
      rename_i hpc
      have hs := Option.some.inj hs
      subst hs
      refine ⟨?_, ?_, ?_⟩
      · intro t' c' hc'
        by_cases e : t' = t
        · subst e; simp only [upd_same] at hc'; exact inv.ops t' c' hc'
        · simp only [upd_other _ _ e] at hc'; exact inv.ops t' c' hc'
      · intro t' hn
        by_cases e : t' = t
        · subst e; simp only [upd_same]; exact inv.idle t' hn
        · simp only [upd_other _ _ e]; exact inv.idle t' hn
      · intro m t' hm
        obtain ⟨c', rest', h1, h2, h3, h4⟩ := inv.owner m t' hm
        by_cases e : t' = t
        · subst e; exact ⟨c', rest', by simp [upd_same, h1], h2, h3, by simp [upd_same]⟩
        · exact ⟨c', rest', by simp [upd_other _ _ e, h1], h2, h3, by simp [upd_other _ _ e, h4]⟩
    · -- readDone
      rename_i hpc
      have hs := Option.some.inj hs
      subst hs
      refine ⟨?_, ?_, ?_⟩
      · intro t' c' hc'
        by_cases e : t' = t
        · subst e; simp only [upd_same] at hc'; exact inv.ops t' c' hc'
        · simp only [upd_other _ _ e] at hc'; exact inv.ops t' c' hc'
      · intro t' hn
        by_cases e : t' = t
        · subst e; simp only [upd_same]; exact inv.idle t' hn
        · simp only [upd_other _ _ e]; exact inv.idle t' hn
      · intro m t' hm
        obtain ⟨c', rest', h1, h2, h3, h4⟩ := inv.owner m t' hm
        by_cases e : t' = t
        · subst e; exact ⟨c', rest', by simp [upd_same, h1], h2, h3, by simp [upd_same]⟩
        · exact ⟨c', rest', by simp [upd_other _ _ e, h1], h2, h3, by simp [upd_other _ _ e, h4]⟩
    · -- written: release
      rename_i hpc
      have hs := Option.some.inj hs
      subst hs
      refine ⟨?_, ?_, ?_⟩
      · intro t' c' hc'
        by_cases e : t' = t
        · subst e; simp only [upd_same] at hc'; exact inv.ops t' c' (by rw [htodo]; exact List.mem_cons_of_mem _ hc')
        · simp only [upd_other _ _ e] at hc'; exact inv.ops t' c' hc'
      · intro t' hn
        by_cases e : t' = t
        · subst e; have := inv.idle t' hn; rw [htodo] at this; cases this
        · simp only [upd_other _ _ e]; exact inv.idle t' hn
      · intro m t' hm
        have hm0 : s.holder m = some t' ∧ (c.locked = true → m ≠ c.recv) := by
          by_cases hl : c.locked = true
          · simp only [hl, if_true] at hm
            by_cases em : m = c.recv
            · subst em; simp [upd_same] at hm
            · simp only [upd_other _ _ em] at hm; exact ⟨hm, fun _ => em⟩
          · simp only [hl] at hm; exact ⟨hm, fun h => absurd h hl⟩
        obtain ⟨c', rest', h1, h2, h3, h4⟩ := inv.owner m t' hm0.1
        by_cases e : t' = t
        · subst e
          rw [htodo] at h1
          injection h1 with hc hr
          subst hc
          exact absurd h2 (fun h => hm0.2 h3 h.symm)
        · exact ⟨c', rest', by simp [upd_other _ _ e, h1], h2, h3, by simp [upd_other _ _ e, h4]⟩

theorem dlInv_reach {n : Nat} {d0 : Nat → D} {dflt : D} {progs : Nat → List (Call D R)}
    (hops : ∀ t, ∀ c ∈ progs t, c.operand = none) (hidle : ∀ t, n ≤ t → progs t = [])
    {s : State D R} (hr : Reach (init d0 dflt progs) s) : DlInv n s := by
  induction hr with
  | refl => exact dlInv_init n d0 dflt progs hops hidle
  | step t _ hs ih => exact dlInv_step ih hs

theorem not_deadlocked_of_inv {n : Nat} {s : State D R} (inv : DlInv n s) : deadlocked n s = false := by
  cases hd : deadlocked n s
  · rfl
  · exfalso
    simp only [deadlocked, Bool.and_eq_true, List.any_eq_true, List.all_eq_true, List.mem_range] at hd
    obtain ⟨⟨t, htn, hunf⟩, hall⟩ := hd
    simp only [unfinished, Bool.not_eq_true', List.isEmpty_eq_false_iff] at hunf
    obtain ⟨c, rest, htodo⟩ := List.exists_cons_of_ne_nil hunf
    have hop : c.operand = none := inv.ops t c (by rw [htodo]; exact List.mem_cons_self)
    have hb := hall t htn
    simp only [blocked, Option.isNone_iff_eq_none] at hb
    by_cases hpc : (s.th t).pc = .start
    · -- blocked at Lock(): the owner is inside its body and can move
      unfold step at hb
      simp only [htodo, hpc] at hb
      split at hb
      · split at hb
        · cases hb
        · rename_i t' hown
          obtain ⟨c', rest', h1, h2, h3, h4⟩ := inv.owner _ t' hown
          have ht'n : t' < n := by
            rcases Nat.lt_or_ge t' n with h | h
            · exact h
            · have := inv.idle t' h; rw [h1] at this; cases this
          have hop' : c'.operand = none := inv.ops t' c' (by rw [h1]; exact List.mem_cons_self)
          have hen := enabled_inCS h1 hop' h4
          have hb' := hall t' ht'n
          simp only [blocked] at hb'
          rw [Option.isNone_iff_eq_none] at hb'
          rw [hb'] at hen
          cases hen
      · cases hb
    · have hen := enabled_inCS htodo hop hpc
      rw [hb] at hen
      cases hen

end Dawgs.C13.Lts
