/- Lemmas about the lock-level LTS of the mutex wrappers (Model/C13Lts). Property statements are in Props/C13. -/
import Dawgs.Model.C13Lts
set_option linter.unusedSimpArgs false
set_option linter.unusedVariables false
namespace Dawgs.C13.Lts

variable {D R : Type}

@[simp] theorem upd_same (f : Nat → α) (k : Nat) (v : α) : upd f k v k = v := by simp [upd]
theorem upd_other (f : Nat → α) {k i : Nat} (v : α) (h : i ≠ k) : upd f k v i = f i := by simp [upd, h]

/-- sequential meaning of a log: starting from `d`, every entry returned what its delegate returns on the data
produced by the entries before it (and on the operand snapshot it recorded), and the data at the end is `dEnd` -/
def Lin (d : D) : List (Entry D R) → D → Prop
  | [], dEnd => d = dEnd
  | e :: es, dEnd => e.r = (e.call.f d e.op).2 ∧ Lin (e.call.f d e.op).1 es dEnd

theorem lin_snoc {d : D} : ∀ {log : List (Entry D R)} {dEnd : D} (e : Entry D R),
    Lin d log dEnd → e.r = (e.call.f dEnd e.op).2 → Lin d (log ++ [e]) (e.call.f dEnd e.op).1
  | [], dEnd, e, h, hr => by
    simp only [Lin] at h; subst h
    exact ⟨hr, rfl⟩
  | x :: xs, dEnd, e, h, hr => by
    exact ⟨h.1, lin_snoc e h.2 hr⟩

/-- calls of thread `t` that have not been linearised yet -/
def pending (s : State D R) (t : Nat) : List (Call D R) :=
  match (s.th t).pc with
  | .written => (s.th t).todo.tail
  | _ => (s.th t).todo

/-- the entries of thread `t` -/
def mine (t : Nat) (log : List (Entry D R)) : List (Entry D R) := log.filter (fun e => e.tid == t)

theorem mine_snoc_same (t : Nat) (log : List (Entry D R)) (e : Entry D R) (h : e.tid = t) :
    mine t (log ++ [e]) = mine t log ++ [e] := by simp [mine, List.filter_append, h]

theorem mine_snoc_other (t : Nat) (log : List (Entry D R)) (e : Entry D R) (h : e.tid ≠ t) :
    mine t (log ++ [e]) = mine t log := by simp [mine, List.filter_append, h]

theorem onRecv_snoc_same (m : Nat) (log : List (Entry D R)) (e : Entry D R) (h : e.call.recv = m) :
    onRecv m (log ++ [e]) = onRecv m log ++ [e] := by simp [onRecv, List.filter_append, h]

theorem onRecv_snoc_other (m : Nat) (log : List (Entry D R)) (e : Entry D R) (h : e.call.recv ≠ m) :
    onRecv m (log ++ [e]) = onRecv m log := by simp [onRecv, List.filter_append, h]

/-- the live protocol: a wrapper operand is always snapshotted before the receiver's lock is taken -/
def Live (c : Call D R) : Prop := c.operand ≠ none → c.snapshot = true

theorem Live.rounds {c : Call D R} (h : Live c) : c.rounds = 0 := by
  unfold Call.rounds
  cases ho : c.operand with
  | none => rfl
  | some o => simp [h (by simp [ho])]

theorem Live.snapTarget {c : Call D R} (h : Live c) : c.snapTarget = c.operand := by
  unfold Call.snapTarget
  cases ho : c.operand with
  | none => simp
  | some o => simp [h (by simp [ho])]

theorem operand_of_snapTarget {c : Call D R} {o : Nat} (h : c.snapTarget = some o) : c.operand = some o := by
  unfold Call.snapTarget at h
  split at h
  · exact h
  · cases h

/-- the program counters of the live protocol -/
def OkPc (pc : Pc) : Prop :=
  pc = .start ∨ pc = .snapHeld ∨ pc = .snapped ∨ pc = .held 0 ∨ pc = .readDone ∨ pc = .written

/-- inside the method body (the receiver's lock is held) -/
def InBody (pc : Pc) : Prop := pc = .held 0 ∨ pc = .readDone ∨ pc = .written

theorem acquireRecv_some {s s' : State D R} {t : Nat} {T : Thread D R} {c : Call D R}
    (h : acquireRecv s t T c = some s') :
    (c.locked = true ∧ s.holder c.recv = none ∧
      s' = { s with holder := upd s.holder c.recv (some t), th := upd s.th t { T with pc := .held c.rounds } }) ∨
    (c.locked = false ∧ s' = { s with th := upd s.th t { T with pc := .held c.rounds } }) := by
  unfold acquireRecv at h
  split at h
  · rename_i hl
    split at h
    · rename_i hf; exact Or.inl ⟨hl, hf, (Option.some.inj h).symm⟩
    · cases h
  · rename_i hl
    exact Or.inr ⟨by simpa using hl, (Option.some.inj h).symm⟩

theorem reach_of_runSched {s0 : State D R} : ∀ (sched : List Nat) {s s' : State D R}, Reach s0 s → runSched s sched = some s' → Reach s0 s'
  | [], s, s', hr, h => by simp only [runSched] at h; exact (Option.some.inj h) ▸ hr
  | t :: ts, s, s', hr, h => by
    simp only [runSched] at h
    split at h
    · rename_i s1 hs1
      exact reach_of_runSched ts (Reach.step t hr hs1) h
    · cases h

/-! ### deadlock freedom of the live protocol, for arbitrary (also wrapper, also self) operands -/

structure DfInv (n : Nat) (s : State D R) : Prop where
  live : ∀ t, ∀ c ∈ (s.th t).todo, Live c
  idle : ∀ t, n ≤ t → (s.th t).todo = []
  pcs : ∀ t, OkPc (s.th t).pc
  /-- whoever holds a mutex is in a section in which it never waits: reading the operand it locked, or inside the
  body of the receiver it locked -/
  owner : ∀ m t, s.holder m = some t → ∃ c rest, (s.th t).todo = c :: rest ∧
    (((s.th t).pc = .snapHeld ∧ c.operand = some m ∧ c.opLocked = true) ∨
     (InBody (s.th t).pc ∧ c.recv = m ∧ c.locked = true))

theorem dfInv_init (n : Nat) (d0 : Nat → D) (dflt : D) (progs : Nat → List (Call D R))
    (hlive : ∀ t, ∀ c ∈ progs t, Live c) (hidle : ∀ t, n ≤ t → progs t = []) :
    DfInv n (init d0 dflt progs) where
  live := hlive
  idle := hidle
  pcs := fun _ => Or.inl rfl
  owner := fun m t h => by simp [init] at h

/-- a thread that holds a lock (or is about to release one) can always move -/
theorem enabled_busy {s : State D R} {t : Nat} {c : Call D R} {rest : List (Call D R)}
    (htodo : (s.th t).todo = c :: rest)
    (hpc : (s.th t).pc = .snapHeld ∨ InBody (s.th t).pc) : (step s t).isSome = true := by
  unfold step
  simp only [htodo]
  rcases hpc with h | h | h | h <;> rw [h] <;> simp only <;> (try split) <;> rfl

/-- rebuild the invariant after thread `t` (whose current call is `c`) moved to record `T'`, the mutex map to `h'` -/
theorem dfInv_frame {n : Nat} {s : State D R} {t : Nat} {c : Call D R} {rest : List (Call D R)}
    (inv : DfInv n s) (htodo : (s.th t).todo = c :: rest)
    (T' : Thread D R) (h' : Nat → Option Nat) (dat : Nat → D) (lg : List (Entry D R))
    (hsub : ∀ c' ∈ T'.todo, c' ∈ (s.th t).todo) (hpc : OkPc T'.pc)
    (hothers : ∀ m t', t' ≠ t → h' m = some t' → s.holder m = some t')
    (hself : ∀ m, h' m = some t → ∃ c1 rest1, T'.todo = c1 :: rest1 ∧
      ((T'.pc = .snapHeld ∧ c1.operand = some m ∧ c1.opLocked = true) ∨ (InBody T'.pc ∧ c1.recv = m ∧ c1.locked = true))) :
    DfInv n { holder := h', data := dat, th := upd s.th t T', log := lg } := by
  refine ⟨?_, ?_, ?_, ?_⟩
  · intro t' c' hc'
    by_cases e : t' = t
    · subst e; simp only [upd_same] at hc'; exact inv.live t' c' (hsub c' hc')
    · simp only [upd_other _ _ e] at hc'; exact inv.live t' c' hc'
  · intro t' hn
    by_cases e : t' = t
    · subst e; have := inv.idle t' hn; rw [htodo] at this; cases this
    · simp only [upd_other _ _ e]; exact inv.idle t' hn
  · intro t'
    by_cases e : t' = t
    · subst e; simp only [upd_same]; exact hpc
    · simp only [upd_other _ _ e]; exact inv.pcs t'
  · intro m t' hm
    by_cases e : t' = t
    · subst e; simp only [upd_same]; exact hself m hm
    · simp only [upd_other _ _ e]; exact inv.owner m t' (hothers m t' e hm)

theorem dfInv_acquire {n : Nat} {s s' : State D R} {t : Nat} {c : Call D R} {rest : List (Call D R)}
    (inv : DfInv n s) (htodo : (s.th t).todo = c :: rest)
    (hpc : (s.th t).pc = .start ∨ (s.th t).pc = .snapped)
    (hs : acquireRecv s t (s.th t) c = some s') : DfInv n s' := by
  have hlive : Live c := inv.live t c (by rw [htodo]; exact List.mem_cons_self)
  have notOwner : ∀ m, s.holder m ≠ some t := by
    intro m h
    obtain ⟨_, _, _, h1 | h1⟩ := inv.owner m t h
    · rcases hpc with h2 | h2 <;> rw [h2] at h1 <;> cases h1.1
    · rcases hpc with h2 | h2 <;> rw [h2] at h1 <;> rcases h1.1 with h3 | h3 | h3 <;> cases h3
  rcases acquireRecv_some hs with ⟨hl, hfree, rfl⟩ | ⟨hl, rfl⟩
  · refine dfInv_frame inv htodo _ _ _ _ (fun c' hc' => hc') (by simp [OkPc, hlive.rounds]) ?_ ?_
    · intro m t' hne hm
      by_cases em : m = c.recv
      · subst em; simp only [upd_same] at hm; exact absurd (Option.some.inj hm).symm hne
      · simpa only [upd_other _ _ em] using hm
    · intro m hm
      by_cases em : m = c.recv
      · subst em
        exact ⟨c, rest, htodo, Or.inr ⟨Or.inl (by simp [hlive.rounds]), rfl, hl⟩⟩
      · simp only [upd_other _ _ em] at hm; exact absurd hm (notOwner m)
  · refine dfInv_frame inv htodo _ _ _ _ (fun c' hc' => hc') (by simp [OkPc, hlive.rounds]) (fun m t' _ hm => hm) ?_
    intro m hm; exact absurd hm (notOwner m)

theorem dfInv_step {n : Nat} {s s' : State D R} {t : Nat} (inv : DfInv n s) (hs : step s t = some s') : DfInv n s' := by
  unfold step at hs
  simp only at hs
  split at hs
  · cases hs
  · rename_i c rest htodo
    have hlive : Live c := inv.live t c (by rw [htodo]; exact List.mem_cons_self)
    split at hs
    · -- start
      rename_i hpc
      have notOwner : ∀ m, s.holder m ≠ some t := by
        intro m h
        obtain ⟨_, _, _, h1 | h1⟩ := inv.owner m t h
        · rw [hpc] at h1; cases h1.1
        · rw [hpc] at h1; rcases h1.1 with h3 | h3 | h3 <;> cases h3
      split at hs
      · rename_i o hsnap
        have hop := operand_of_snapTarget hsnap
        split at hs
        · rename_i hol
          split at hs
          · rename_i hfree
            have hs := Option.some.inj hs
            subst hs
            refine dfInv_frame inv htodo _ _ _ _ (fun c' hc' => hc') (by simp [OkPc]) ?_ ?_
            · intro m t' hne hm
              by_cases em : m = o
              · subst em; simp only [upd_same] at hm; exact absurd (Option.some.inj hm).symm hne
              · simpa only [upd_other _ _ em] using hm
            · intro m hm
              by_cases em : m = o
              · subst em; exact ⟨c, rest, htodo, Or.inl ⟨rfl, hop, hol⟩⟩
              · simp only [upd_other _ _ em] at hm; exact absurd hm (notOwner m)
          · cases hs
        · have hs := Option.some.inj hs
          subst hs
          refine dfInv_frame inv htodo _ _ _ _ (fun c' hc' => hc') (by simp [OkPc]) (fun m t' _ hm => hm) ?_
          intro m hm; exact absurd hm (notOwner m)
      · exact dfInv_acquire inv htodo (Or.inl hpc) hs
    · -- snapHeld: release the operand
      rename_i hpc
      have ownerHere : ∀ m, s.holder m = some t → c.operand = some m ∧ c.opLocked = true := by
        intro m h
        obtain ⟨c1, rest1, h0, h1 | h1⟩ := inv.owner m t h
        · rw [htodo] at h0; injection h0 with hc _; subst hc; exact ⟨h1.2.1, h1.2.2⟩
        · rw [hpc] at h1; rcases h1.1 with h3 | h3 | h3 <;> cases h3
      split at hs
      · rename_i o hsnap
        have hop := operand_of_snapTarget hsnap
        have hs := Option.some.inj hs
        subst hs
        refine dfInv_frame inv htodo _ _ _ _ (fun c' hc' => hc') (by simp [OkPc]) ?_ ?_
        · intro m t' hne hm
          split at hm
          · by_cases em : m = o
            · subst em; simp [upd_same] at hm
            · simpa only [upd_other _ _ em] using hm
          · exact hm
        · intro m hm
          exfalso
          split at hm
          · by_cases em : m = o
            · subst em; simp [upd_same] at hm
            · simp only [upd_other _ _ em] at hm
              have := (ownerHere m hm).1; rw [hop] at this; exact em (Option.some.inj this).symm
          · rename_i hol
            exact hol (ownerHere m hm).2
      · rename_i hsnap
        have hs := Option.some.inj hs
        subst hs
        refine dfInv_frame inv htodo _ _ _ _ (fun c' hc' => hc') (by simp [OkPc]) (fun m t' _ hm => hm) ?_
        intro m hm
        exfalso
        have := (ownerHere m hm).1
        rw [hlive.snapTarget, this] at hsnap
        cases hsnap
    · -- snapped
      rename_i hpc
      exact dfInv_acquire inv htodo (Or.inr hpc) hs
    · -- held (k+1): not a state of the live protocol
      rename_i k hpc
      rcases inv.pcs t with h | h | h | h | h | h <;> rw [hpc] at h <;> first | cases h | (injection h with h; omega)
    · -- inOp
      rename_i k hpc
      rcases inv.pcs t with h | h | h | h | h | h <;> rw [hpc] at h <;> cases h
    · -- held 0: read
      rename_i hpc
      have hs := Option.some.inj hs
      subst hs
      refine dfInv_frame inv htodo _ _ _ _ (fun c' hc' => hc') (by simp [OkPc]) (fun m t' _ hm => hm) ?_
      intro m hm
      obtain ⟨c1, rest1, h0, h1 | h1⟩ := inv.owner m t hm
      · rw [hpc] at h1; cases h1.1
      · exact ⟨c1, rest1, h0, Or.inr ⟨Or.inr (Or.inl rfl), h1.2⟩⟩
    · -- readDone: write
      rename_i hpc
      have hs := Option.some.inj hs
      subst hs
      refine dfInv_frame inv htodo _ _ _ _ (fun c' hc' => hc') (by simp [OkPc]) (fun m t' _ hm => hm) ?_
      intro m hm
      obtain ⟨c1, rest1, h0, h1 | h1⟩ := inv.owner m t hm
      · rw [hpc] at h1; cases h1.1
      · exact ⟨c1, rest1, h0, Or.inr ⟨Or.inr (Or.inr rfl), h1.2⟩⟩
    · -- written: release the receiver
      rename_i hpc
      have hs := Option.some.inj hs
      subst hs
      refine dfInv_frame inv htodo _ _ _ _ (fun c' hc' => by rw [htodo]; exact List.mem_cons_of_mem _ hc') (by simp [OkPc]) ?_ ?_
      · intro m t' hne hm
        split at hm
        · by_cases em : m = c.recv
          · subst em; simp [upd_same] at hm
          · simpa only [upd_other _ _ em] using hm
        · exact hm
      · intro m hm
        exfalso
        have hold : s.holder m = some t ∧ (c.locked = true → m ≠ c.recv) := by
          split at hm
          · by_cases em : m = c.recv
            · subst em; simp [upd_same] at hm
            · simp only [upd_other _ _ em] at hm; exact ⟨hm, fun _ => em⟩
          · rename_i hl; exact ⟨hm, fun h => absurd h hl⟩
        obtain ⟨c1, rest1, h0, h1 | h1⟩ := inv.owner m t hold.1
        · rw [hpc] at h1; cases h1.1
        · rw [htodo] at h0; injection h0 with hc _; subst hc
          exact hold.2 h1.2.2 h1.2.1.symm

theorem dfInv_reach {n : Nat} {d0 : Nat → D} {dflt : D} {progs : Nat → List (Call D R)}
    (hlive : ∀ t, ∀ c ∈ progs t, Live c) (hidle : ∀ t, n ≤ t → progs t = [])
    {s : State D R} (hr : Reach (init d0 dflt progs) s) : DfInv n s := by
  induction hr with
  | refl => exact dfInv_init n d0 dflt progs hlive hidle
  | step t _ hs ih => exact dfInv_step ih hs

/-- no hold-and-wait: whenever some thread still has work, some thread has an enabled step -/
theorem not_deadlocked_of_inv {n : Nat} {s : State D R} (inv : DfInv n s) : deadlocked n s = false := by
  cases hd : deadlocked n s
  · rfl
  · exfalso
    simp only [deadlocked, Bool.and_eq_true, List.any_eq_true, List.all_eq_true, List.mem_range] at hd
    obtain ⟨⟨t, htn, hunf⟩, hall⟩ := hd
    simp only [unfinished, Bool.not_eq_true', List.isEmpty_eq_false_iff] at hunf
    obtain ⟨c, rest, htodo⟩ := List.exists_cons_of_ne_nil hunf
    -- the owner of any mutex can move, so nobody waiting for a mutex proves a deadlock
    have ownerMoves : ∀ m t', s.holder m = some t' → False := by
      intro m t' hown
      obtain ⟨c', rest', h1, h2⟩ := inv.owner m t' hown
      have ht'n : t' < n := by
        rcases Nat.lt_or_ge t' n with h | h
        · exact h
        · have := inv.idle t' h; rw [h1] at this; cases this
      have hen := enabled_busy h1 (h2.elim (fun h => Or.inl h.1) (fun h => Or.inr h.1))
      have hb' := hall t' ht'n
      simp only [blocked, Option.isNone_iff_eq_none] at hb'
      rw [hb'] at hen
      cases hen
    have hb := hall t htn
    simp only [blocked, Option.isNone_iff_eq_none] at hb
    have acq : acquireRecv s t (s.th t) c = none → False := by
      intro h
      unfold acquireRecv at h
      split at h
      · split at h
        · cases h
        · rename_i t' hown; exact ownerMoves _ t' hown
      · cases h
    rcases inv.pcs t with hpc | hpc | hpc | hpc | hpc | hpc
    · unfold step at hb
      simp only [htodo, hpc] at hb
      split at hb
      · split at hb
        · split at hb
          · cases hb
          · rename_i t' hown; exact ownerMoves _ t' hown
        · cases hb
      · exact acq hb
    · have hen := enabled_busy htodo (Or.inl hpc); rw [hb] at hen; cases hen
    · unfold step at hb
      simp only [htodo, hpc] at hb
      exact acq hb
    · have hen := enabled_busy htodo (Or.inr (Or.inl hpc)); rw [hb] at hen; cases hen
    · have hen := enabled_busy htodo (Or.inr (Or.inr (Or.inl hpc))); rw [hb] at hen; cases hen
    · have hen := enabled_busy htodo (Or.inr (Or.inr (Or.inr hpc))); rw [hb] at hen; cases hen

/-! ### delegates that call ANOTHER wrapper while the receiver's lock is held (`x.Each(func(v){ y.M(v) })`)

In the LTS this is the call shape `snapshot = false`, `operand = some y`, `cbs` = number of nested calls: `start → held k`,
then `k` rounds `held (j+1) → inOp j → held j` (acquire and release `y`'s mutex while `x`'s is held). It is hold-and-wait,
so it is deadlock free only under a guard: `y ≠ x` (a delegate calling `x` itself blocks forever) and either one thread
or a global lock order. -/

/-- a nested call on ANOTHER wrapper -/
def Nested (c : Call D R) : Prop := c.snapshot = false ∧ ∃ o, c.operand = some o ∧ o ≠ c.recv

def InBodyN (pc : Pc) : Prop := (∃ k, pc = .held k) ∨ (∃ k, pc = .inOp k) ∨ pc = .readDone ∨ pc = .written

/-- thread with program counter `pc` in call `c` holds mutex `m` -/
def Holds (pc : Pc) (c : Call D R) (m : Nat) : Prop :=
  (pc = .snapHeld ∧ c.snapTarget = some m ∧ c.opLocked = true) ∨
  (InBodyN pc ∧ c.recv = m ∧ c.locked = true) ∨
  ((∃ k, pc = .inOp k) ∧ c.operand = some m ∧ c.opLocked = true)

structure NInv (n : Nat) (s : State D R) : Prop where
  ok : ∀ t, ∀ c ∈ (s.th t).todo, (Live c ∨ Nested c) ∧ (∀ o, c.snapshot = false → c.operand = some o → c.recv < o ∨ n ≤ 1)
  idle : ∀ t, n ≤ t → (s.th t).todo = []
  owner : ∀ m t, s.holder m = some t → ∃ c rest, (s.th t).todo = c :: rest ∧ Holds (s.th t).pc c m
  /-- only nested calls make callback rounds -/
  shape : ∀ t c rest, (s.th t).todo = c :: rest → ((∃ k, (s.th t).pc = .held (k + 1)) ∨ (∃ k, (s.th t).pc = .inOp k)) → Nested c

theorem nInv_init (n : Nat) (d0 : Nat → D) (dflt : D) (progs : Nat → List (Call D R))
    (hok : ∀ t, ∀ c ∈ progs t, (Live c ∨ Nested c) ∧ (∀ o, c.snapshot = false → c.operand = some o → c.recv < o ∨ n ≤ 1))
    (hidle : ∀ t, n ≤ t → progs t = []) :
    NInv n (init d0 dflt progs) where
  ok := hok
  idle := hidle
  owner := fun m t h => by simp [init] at h
  shape := fun t c rest _ h => by rcases h with ⟨k, h⟩ | ⟨k, h⟩ <;> simp [init] at h

theorem rounds_pos_nested {c : Call D R} (hok : Live c ∨ Nested c) {k : Nat} (h : c.rounds = k + 1) : Nested c := by
  rcases hok with hl | hn
  · rw [hl.rounds] at h; cases h
  · exact hn

theorem nInv_frame {n : Nat} {s : State D R} {t : Nat} {c : Call D R} {rest : List (Call D R)}
    (inv : NInv n s) (htodo : (s.th t).todo = c :: rest)
    (T' : Thread D R) (h' : Nat → Option Nat) (dat : Nat → D) (lg : List (Entry D R))
    (hsub : ∀ c' ∈ T'.todo, c' ∈ (s.th t).todo)
    (hothers : ∀ m t', t' ≠ t → h' m = some t' → s.holder m = some t')
    (hself : ∀ m, h' m = some t → ∃ c1 rest1, T'.todo = c1 :: rest1 ∧ Holds T'.pc c1 m)
    (hshape : ∀ c1 rest1, T'.todo = c1 :: rest1 → ((∃ k, T'.pc = .held (k + 1)) ∨ (∃ k, T'.pc = .inOp k)) → Nested c1) :
    NInv n { holder := h', data := dat, th := upd s.th t T', log := lg } := by
  refine ⟨?_, ?_, ?_, ?_⟩
  · intro t' c' hc'
    by_cases e : t' = t
    · subst e; simp only [upd_same] at hc'; exact inv.ok t' c' (hsub c' hc')
    · simp only [upd_other _ _ e] at hc'; exact inv.ok t' c' hc'
  · intro t' hn
    by_cases e : t' = t
    · subst e; have := inv.idle t' hn; rw [htodo] at this; cases this
    · simp only [upd_other _ _ e]; exact inv.idle t' hn
  · intro m t' hm
    by_cases e : t' = t
    · subst e; simp only [upd_same]; exact hself m hm
    · simp only [upd_other _ _ e]; exact inv.owner m t' (hothers m t' e hm)
  · intro t' c1 rest1 h1 h2
    by_cases e : t' = t
    · subst e; simp only [upd_same] at h1 h2; exact hshape c1 rest1 h1 h2
    · simp only [upd_other _ _ e] at h1 h2; exact inv.shape t' c1 rest1 h1 h2

/-- at `start`/`snapped` a thread holds nothing -/
theorem holds_nothing {n : Nat} {s : State D R} (inv : NInv n s) {t : Nat}
    (hpc : (s.th t).pc = .start ∨ (s.th t).pc = .snapped) (m : Nat) : s.holder m ≠ some t := by
  intro h
  obtain ⟨c, rest, _, h1 | h1 | h1⟩ := inv.owner m t h
  · rcases hpc with h2 | h2 <;> rw [h2] at h1 <;> cases h1.1
  · rcases hpc with h2 | h2 <;> rw [h2] at h1 <;>
      rcases h1.1 with ⟨k, h3⟩ | ⟨k, h3⟩ | h3 | h3 <;> cases h3
  · rcases hpc with h2 | h2 <;> rw [h2] at h1 <;> obtain ⟨⟨k, h3⟩, _⟩ := h1 <;> cases h3

theorem nInv_acquire {n : Nat} {s s' : State D R} {t : Nat} {c : Call D R} {rest : List (Call D R)}
    (inv : NInv n s) (htodo : (s.th t).todo = c :: rest)
    (hpc : (s.th t).pc = .start ∨ (s.th t).pc = .snapped)
    (hs : acquireRecv s t (s.th t) c = some s') : NInv n s' := by
  have hok := (inv.ok t c (by rw [htodo]; exact List.mem_cons_self)).1
  have hshape : ∀ c1 rest1, (s.th t).todo = c1 :: rest1 →
      ((∃ k, Pc.held c.rounds = .held (k + 1)) ∨ (∃ k, Pc.held c.rounds = .inOp k)) → Nested c1 := by
    intro c1 rest1 h1 h2
    rw [htodo] at h1; injection h1 with hc _; subst hc
    rcases h2 with ⟨k, h2⟩ | ⟨k, h2⟩
    · injection h2 with h2; exact rounds_pos_nested hok h2
    · cases h2
  rcases acquireRecv_some hs with ⟨hl, hfree, rfl⟩ | ⟨hl, rfl⟩
  · refine nInv_frame inv htodo _ _ _ _ (fun c' hc' => hc') ?_ ?_ hshape
    · intro m t' hne hm
      by_cases em : m = c.recv
      · subst em; simp only [upd_same] at hm; exact absurd (Option.some.inj hm).symm hne
      · simpa only [upd_other _ _ em] using hm
    · intro m hm
      by_cases em : m = c.recv
      · subst em; exact ⟨c, rest, htodo, Or.inr (Or.inl ⟨Or.inl ⟨_, rfl⟩, rfl, hl⟩)⟩
      · simp only [upd_other _ _ em] at hm; exact absurd hm (holds_nothing inv hpc m)
  · refine nInv_frame inv htodo _ _ _ _ (fun c' hc' => hc') (fun m t' _ hm => hm) ?_ hshape
    intro m hm; exact absurd hm (holds_nothing inv hpc m)

theorem nInv_step {n : Nat} {s s' : State D R} {t : Nat} (inv : NInv n s) (hs : step s t = some s') : NInv n s' := by
  unfold step at hs
  simp only at hs
  split at hs
  · cases hs
  · rename_i c rest htodo
    have hok := inv.ok t c (by rw [htodo]; exact List.mem_cons_self)
    -- what `t` holds, in terms of its current call
    have mine : ∀ m, s.holder m = some t → Holds (s.th t).pc c m := by
      intro m h
      obtain ⟨c1, rest1, h0, h1⟩ := inv.owner m t h
      rw [htodo] at h0; injection h0 with hc _; subst hc; exact h1
    split at hs
    · -- start
      rename_i hpc
      split at hs
      · rename_i o hsnap
        split at hs
        · rename_i hol
          split at hs
          · rename_i hfree
            have hs := Option.some.inj hs
            subst hs
            refine nInv_frame inv htodo _ _ _ _ (fun c' hc' => hc') ?_ ?_ ?_
            · intro m t' hne hm
              by_cases em : m = o
              · subst em; simp only [upd_same] at hm; exact absurd (Option.some.inj hm).symm hne
              · simpa only [upd_other _ _ em] using hm
            · intro m hm
              by_cases em : m = o
              · subst em; exact ⟨c, rest, htodo, Or.inl ⟨rfl, hsnap, hol⟩⟩
              · simp only [upd_other _ _ em] at hm; exact absurd hm (holds_nothing inv (Or.inl hpc) m)
            · intro c1 rest1 _ h2; rcases h2 with ⟨k, h2⟩ | ⟨k, h2⟩ <;> cases h2
          · cases hs
        · have hs := Option.some.inj hs
          subst hs
          refine nInv_frame inv htodo _ _ _ _ (fun c' hc' => hc') (fun m t' _ hm => hm) ?_ ?_
          · intro m hm; exact absurd hm (holds_nothing inv (Or.inl hpc) m)
          · intro c1 rest1 _ h2; rcases h2 with ⟨k, h2⟩ | ⟨k, h2⟩ <;> cases h2
      · exact nInv_acquire inv htodo (Or.inl hpc) hs
    · -- snapHeld: release the operand
      rename_i hpc
      have hmine : ∀ m, s.holder m = some t → c.snapTarget = some m ∧ c.opLocked = true := by
        intro m h
        rcases mine m h with h1 | h1 | h1
        · exact h1.2
        · rw [hpc] at h1; rcases h1.1 with ⟨k, h3⟩ | ⟨k, h3⟩ | h3 | h3 <;> cases h3
        · rw [hpc] at h1; obtain ⟨⟨k, h3⟩, _⟩ := h1; cases h3
      split at hs
      · rename_i o hsnap
        have hs := Option.some.inj hs
        subst hs
        refine nInv_frame inv htodo _ _ _ _ (fun c' hc' => hc') ?_ ?_ ?_
        · intro m t' hne hm
          split at hm
          · by_cases em : m = o
            · subst em; simp [upd_same] at hm
            · simpa only [upd_other _ _ em] using hm
          · exact hm
        · intro m hm
          exfalso
          split at hm
          · by_cases em : m = o
            · subst em; simp [upd_same] at hm
            · simp only [upd_other _ _ em] at hm
              have := (hmine m hm).1; rw [hsnap] at this; exact em (Option.some.inj this).symm
          · rename_i hol; exact hol (hmine m hm).2
        · intro c1 rest1 _ h2; rcases h2 with ⟨k, h2⟩ | ⟨k, h2⟩ <;> cases h2
      · rename_i hsnap
        have hs := Option.some.inj hs
        subst hs
        refine nInv_frame inv htodo _ _ _ _ (fun c' hc' => hc') (fun m t' _ hm => hm) ?_ ?_
        · intro m hm
          exfalso
          have := (hmine m hm).1; rw [hsnap] at this; cases this
        · intro c1 rest1 _ h2; rcases h2 with ⟨k, h2⟩ | ⟨k, h2⟩ <;> cases h2
    · -- snapped
      rename_i hpc
      exact nInv_acquire inv htodo (Or.inr hpc) hs
    · -- held (k+1): the delegate calls the other wrapper: acquire its mutex
      rename_i k hpc
      have hn : Nested c := inv.shape t c rest htodo (Or.inl ⟨k, hpc⟩)
      obtain ⟨hsnapF, o, hop, hne⟩ := hn
      have keepRecv : ∀ m, s.holder m = some t → c.recv = m ∧ c.locked = true := by
        intro m h
        rcases mine m h with h1 | h1 | h1
        · rw [hpc] at h1; cases h1.1
        · exact h1.2
        · rw [hpc] at h1; obtain ⟨⟨k', h3⟩, _⟩ := h1; cases h3
      rw [hop] at hs
      simp only at hs
      split at hs
      · rename_i hol
        split at hs
        · rename_i hfree
          have hs := Option.some.inj hs
          subst hs
          refine nInv_frame inv htodo _ _ _ _ (fun c' hc' => hc') ?_ ?_ ?_
          · intro m t' hne' hm
            by_cases em : m = o
            · subst em; simp only [upd_same] at hm; exact absurd (Option.some.inj hm).symm hne'
            · simpa only [upd_other _ _ em] using hm
          · intro m hm
            by_cases em : m = o
            · subst em; exact ⟨c, rest, htodo, Or.inr (Or.inr ⟨⟨k, rfl⟩, hop, hol⟩)⟩
            · simp only [upd_other _ _ em] at hm
              exact ⟨c, rest, htodo, Or.inr (Or.inl ⟨Or.inr (Or.inl ⟨k, rfl⟩), keepRecv m hm⟩)⟩
          · intro c1 rest1 h1 _
            rw [htodo] at h1; injection h1 with hc _; subst hc
            exact ⟨hsnapF, o, hop, hne⟩
        · cases hs
      · have hs := Option.some.inj hs
        subst hs
        refine nInv_frame inv htodo _ _ _ _ (fun c' hc' => hc') (fun m t' _ hm => hm) ?_ ?_
        · intro m hm
          exact ⟨c, rest, htodo, Or.inr (Or.inl ⟨Or.inr (Or.inl ⟨k, rfl⟩), keepRecv m hm⟩)⟩
        · intro c1 rest1 h1 _
          rw [htodo] at h1; injection h1 with hc _; subst hc
          exact ⟨hsnapF, o, hop, hne⟩
    · -- inOp: release the other wrapper's mutex
      rename_i k hpc
      have hn : Nested c := inv.shape t c rest htodo (Or.inr ⟨k, hpc⟩)
      obtain ⟨hsnapF, o, hop, hne⟩ := hn
      rw [hop] at hs
      simp only at hs
      have hs := Option.some.inj hs
      subst hs
      refine nInv_frame inv htodo _ _ _ _ (fun c' hc' => hc') ?_ ?_ ?_
      · intro m t' hne' hm
        split at hm
        · by_cases em : m = o
          · subst em; simp [upd_same] at hm
          · simpa only [upd_other _ _ em] using hm
        · exact hm
      · intro m hm
        have hold : s.holder m = some t ∧ (c.opLocked = true → m ≠ o) := by
          split at hm
          · by_cases em : m = o
            · subst em; simp [upd_same] at hm
            · simp only [upd_other _ _ em] at hm; exact ⟨hm, fun _ => em⟩
          · rename_i hol; exact ⟨hm, fun h => absurd h hol⟩
        rcases mine m hold.1 with h1 | h1 | h1
        · rw [hpc] at h1; cases h1.1
        · exact ⟨c, rest, htodo, Or.inr (Or.inl ⟨Or.inl ⟨k, rfl⟩, h1.2⟩)⟩
        · exfalso
          have : m = o := by have := h1.2.1; rw [hop] at this; exact (Option.some.inj this).symm
          exact hold.2 h1.2.2 this
      · intro c1 rest1 h1 h2
        rw [htodo] at h1; injection h1 with hc _; subst hc
        exact ⟨hsnapF, o, hop, hne⟩
    · -- held 0: read
      rename_i hpc
      have hs := Option.some.inj hs
      subst hs
      refine nInv_frame inv htodo _ _ _ _ (fun c' hc' => hc') (fun m t' _ hm => hm) ?_ ?_
      · intro m hm
        rcases mine m hm with h1 | h1 | h1
        · rw [hpc] at h1; cases h1.1
        · exact ⟨c, rest, htodo, Or.inr (Or.inl ⟨Or.inr (Or.inr (Or.inl rfl)), h1.2⟩)⟩
        · rw [hpc] at h1; obtain ⟨⟨k', h3⟩, _⟩ := h1; cases h3
      · intro c1 rest1 _ h2; rcases h2 with ⟨k, h2⟩ | ⟨k, h2⟩ <;> cases h2
    · -- readDone: write
      rename_i hpc
      have hs := Option.some.inj hs
      subst hs
      refine nInv_frame inv htodo _ _ _ _ (fun c' hc' => hc') (fun m t' _ hm => hm) ?_ ?_
      · intro m hm
        rcases mine m hm with h1 | h1 | h1
        · rw [hpc] at h1; cases h1.1
        · exact ⟨c, rest, htodo, Or.inr (Or.inl ⟨Or.inr (Or.inr (Or.inr rfl)), h1.2⟩)⟩
        · rw [hpc] at h1; obtain ⟨⟨k', h3⟩, _⟩ := h1; cases h3
      · intro c1 rest1 _ h2; rcases h2 with ⟨k, h2⟩ | ⟨k, h2⟩ <;> cases h2
    · -- written: release the receiver
      rename_i hpc
      have hs := Option.some.inj hs
      subst hs
      refine nInv_frame inv htodo _ _ _ _ (fun c' hc' => by rw [htodo]; exact List.mem_cons_of_mem _ hc') ?_ ?_ ?_
      · intro m t' hne hm
        split at hm
        · by_cases em : m = c.recv
          · subst em; simp [upd_same] at hm
          · simpa only [upd_other _ _ em] using hm
        · exact hm
      · intro m hm
        exfalso
        have hold : s.holder m = some t ∧ (c.locked = true → m ≠ c.recv) := by
          split at hm
          · by_cases em : m = c.recv
            · subst em; simp [upd_same] at hm
            · simp only [upd_other _ _ em] at hm; exact ⟨hm, fun _ => em⟩
          · rename_i hl; exact ⟨hm, fun h => absurd h hl⟩
        rcases mine m hold.1 with h1 | h1 | h1
        · rw [hpc] at h1; cases h1.1
        · exact hold.2 h1.2.2 h1.2.1.symm
        · rw [hpc] at h1; obtain ⟨⟨k', h3⟩, _⟩ := h1; cases h3
      · intro c1 rest1 _ h2; rcases h2 with ⟨k, h2⟩ | ⟨k, h2⟩ <;> simp at h2

theorem nInv_reach {n : Nat} {d0 : Nat → D} {dflt : D} {progs : Nat → List (Call D R)}
    (hok : ∀ t, ∀ c ∈ progs t, (Live c ∨ Nested c) ∧ (∀ o, c.snapshot = false → c.operand = some o → c.recv < o ∨ n ≤ 1))
    (hidle : ∀ t, n ≤ t → progs t = [])
    {s : State D R} (hr : Reach (init d0 dflt progs) s) : NInv n s := by
  induction hr with
  | refl => exact nInv_init n d0 dflt progs hok hidle
  | step t _ hs ih => exact nInv_step ih hs

/-- a blocked thread with work waits for a mutex that somebody holds -/
theorem blocked_waits {s : State D R} {t : Nat} {c : Call D R} {rest : List (Call D R)}
    (htodo : (s.th t).todo = c :: rest) (hb : step s t = none) :
    ∃ m h, s.holder m = some h ∧
      ((((s.th t).pc = .start ∨ (s.th t).pc = .snapped) ∧ (m = c.recv ∨ c.snapTarget = some m)) ∨
       ((∃ k, (s.th t).pc = .held (k + 1)) ∧ c.operand = some m)) := by
  have acq : acquireRecv s t (s.th t) c = none → ∃ h, s.holder c.recv = some h := by
    intro h
    unfold acquireRecv at h
    split at h
    · split at h
      · cases h
      · rename_i h' hown; exact ⟨h', hown⟩
    · cases h
  unfold step at hb
  simp only [htodo] at hb
  split at hb
  · rename_i hpc
    split at hb
    · rename_i o hsnap
      split at hb
      · split at hb
        · cases hb
        · rename_i h' hown; exact ⟨o, h', hown, Or.inl ⟨Or.inl hpc, Or.inr hsnap⟩⟩
      · cases hb
    · obtain ⟨h', hown⟩ := acq hb; exact ⟨c.recv, h', hown, Or.inl ⟨Or.inl hpc, Or.inl rfl⟩⟩
  · split at hb <;> cases hb
  · rename_i hpc
    obtain ⟨h', hown⟩ := acq hb; exact ⟨c.recv, h', hown, Or.inl ⟨Or.inr hpc, Or.inl rfl⟩⟩
  · rename_i k hpc
    split at hb
    · cases hb
    · rename_i o hop
      split at hb
      · split at hb
        · cases hb
        · rename_i h' hown; exact ⟨o, h', hown, Or.inr ⟨⟨k, hpc⟩, hop⟩⟩
      · cases hb
  · split at hb <;> cases hb
  · cases hb
  · cases hb
  · cases hb

/-- in a deadlocked state the holder of a wanted mutex is itself stuck in a delegate: it holds the mutex as its RECEIVER
and waits for the OTHER wrapper of its nested call -/
theorem holder_stuck {n : Nat} {s : State D R} (inv : NInv n s) {m h : Nat} (hown : s.holder m = some h)
    (hb : step s h = none) :
    ∃ c rest o h', (s.th h).todo = c :: rest ∧ c.recv = m ∧ Nested c ∧ c.operand = some o ∧ o ≠ m ∧ s.holder o = some h' := by
  obtain ⟨c, rest, htodo, hh⟩ := inv.owner m h hown
  obtain ⟨m', h', hown', hw⟩ := blocked_waits htodo hb
  rcases hw with ⟨hpc, _⟩ | ⟨⟨k, hpc⟩, hop⟩
  · exact absurd hown (holds_nothing inv hpc m)
  · have hn := inv.shape h c rest htodo (Or.inl ⟨k, hpc⟩)
    rcases hh with h1 | h1 | h1
    · rw [hpc] at h1; cases h1.1
    · obtain ⟨_, o, hop', hne⟩ := hn
      rw [hop] at hop'; cases hop'
      exact ⟨c, rest, m', h', htodo, h1.2.1, inv.shape h c rest htodo (Or.inl ⟨k, hpc⟩), hop, by rw [← h1.2.1]; exact hne, hown'⟩
    · rw [hpc] at h1; obtain ⟨⟨k', h3⟩, _⟩ := h1; cases h3

theorem unfinished_lt {n : Nat} {s : State D R} (inv : NInv n s) {t : Nat} {c : Call D R} {rest : List (Call D R)}
    (h : (s.th t).todo = c :: rest) : t < n := by
  rcases Nat.lt_or_ge t n with h' | h'
  · exact h'
  · have := inv.idle t h'; rw [h] at this; cases this

/-- one thread: a delegate may call any OTHER wrapper, in any direction -/
theorem not_deadlocked_single {s : State D R} (inv : NInv 1 s) : deadlocked 1 s = false := by
  cases hd : deadlocked 1 s
  · rfl
  · exfalso
    simp only [deadlocked, Bool.and_eq_true, List.any_eq_true, List.all_eq_true, List.mem_range] at hd
    obtain ⟨⟨t, htn, hunf⟩, hall⟩ := hd
    have ht0 : t = 0 := by omega
    subst ht0
    simp only [unfinished, Bool.not_eq_true', List.isEmpty_eq_false_iff] at hunf
    obtain ⟨c, rest, htodo⟩ := List.exists_cons_of_ne_nil hunf
    have hb := hall 0 htn
    simp only [blocked, Option.isNone_iff_eq_none] at hb
    obtain ⟨m, h, hown, _⟩ := blocked_waits htodo hb
    obtain ⟨c', rest', hh⟩ := inv.owner m h hown
    have hh0 : h = 0 := by have := unfinished_lt inv hh.1; omega
    subst hh0
    obtain ⟨c1, rest1, o, h', h1, hrecv, _, hop, hne, hown'⟩ := holder_stuck inv hown hb
    obtain ⟨c2, rest2, hh2⟩ := inv.owner o h' hown'
    have hh'0 : h' = 0 := by have := unfinished_lt inv hh2.1; omega
    subst hh'0
    -- thread 0 is at `held (k+1)`: it holds only its receiver `m`, not `o`
    obtain ⟨m2, h2, hown2, hw⟩ := blocked_waits h1 hb
    rcases hw with ⟨hpc, _⟩ | ⟨⟨k, hpc⟩, hop2⟩
    · exact absurd hown (holds_nothing inv hpc m)
    · rw [h1] at hh2; obtain ⟨hc, _⟩ := hh2; injection hc with hc _; subst hc
      rename_i hh2'
      rcases hh2' with g | g | g
      · rw [hpc] at g; cases g.1
      · exact hne (hrecv ▸ g.2.1).symm
      · rw [hpc] at g; obtain ⟨⟨k', g3⟩, _⟩ := g; cases g3

theorem exists_max_lt (n : Nat) (f : Nat → Nat) (P : Nat → Prop) :
    (∃ t, t < n ∧ P t) → ∃ t, t < n ∧ P t ∧ ∀ u, u < n → P u → f u ≤ f t := by
  induction n with
  | zero => rintro ⟨t, ht, _⟩; omega
  | succ n ih =>
    rintro ⟨t, ht, hp⟩
    by_cases hex : ∃ t, t < n ∧ P t
    · obtain ⟨m, hm, hpm, hmax⟩ := ih hex
      by_cases hn : P n ∧ f m < f n
      · refine ⟨n, by omega, hn.1, ?_⟩
        intro u hu hpu
        by_cases e : u = n
        · subst e; exact Nat.le_refl _
        · have := hmax u (by omega) hpu; omega
      · refine ⟨m, by omega, hpm, ?_⟩
        intro u hu hpu
        by_cases e : u = n
        · subst e
          rcases Classical.em (f m < f u) with h | h
          · exact absurd ⟨hpu, h⟩ hn
          · omega
        · exact hmax u (by omega) hpu
    · have : t = n := by
        rcases Nat.lt_or_ge t n with h | h
        · exact absurd ⟨t, h, hp⟩ hex
        · omega
      subst this
      refine ⟨t, by omega, hp, ?_⟩
      intro u hu hpu
      by_cases e : u = t
      · subst e; exact Nat.le_refl _
      · exact absurd ⟨u, by omega, hpu⟩ hex

/-- any number of threads: delegates may call other wrappers as long as every nested call goes UP a fixed order of the
wrappers (receiver < other) -/
theorem not_deadlocked_ordered {n : Nat} {s : State D R} (inv : NInv n s) (hn2 : 2 ≤ n) :
    deadlocked n s = false := by
  have hord : ∀ t, ∀ c ∈ (s.th t).todo, ∀ o, c.snapshot = false → c.operand = some o → c.recv < o := by
    intro t c hc o h1 h2
    rcases (inv.ok t c hc).2 o h1 h2 with h | h
    · exact h
    · omega
  cases hd : deadlocked n s
  · rfl
  · exfalso
    simp only [deadlocked, Bool.and_eq_true, List.any_eq_true, List.all_eq_true, List.mem_range] at hd
    obtain ⟨⟨t, htn, hunf⟩, hall⟩ := hd
    simp only [unfinished, Bool.not_eq_true', List.isEmpty_eq_false_iff] at hunf
    obtain ⟨c, rest, htodo⟩ := List.exists_cons_of_ne_nil hunf
    have blockedOf : ∀ u, u < n → step s u = none := by
      intro u hu; have := hall u hu; simpa only [blocked, Option.isNone_iff_eq_none] using this
    obtain ⟨m, h, hown, _⟩ := blocked_waits htodo (blockedOf t htn)
    -- `h` holds `m`, is blocked, hence stuck in a nested call on receiver `m`; among all such holders take the one
    -- with the largest receiver
    have hhn : h < n := by obtain ⟨c', rest', hh⟩ := inv.owner m h hown; exact unfinished_lt inv hh.1
    let recvOf : Nat → Nat := fun u => match (s.th u).todo with | c :: _ => c.recv | [] => 0
    obtain ⟨h0, hh0n, ⟨m0, hown0⟩, hmax⟩ := exists_max_lt n recvOf (fun u => ∃ m, s.holder m = some u ∧
        ∃ c rest, (s.th u).todo = c :: rest ∧ c.recv = m) ⟨h, hhn, m, hown, by
          obtain ⟨c1, rest1, o, h', h1, hrecv, _⟩ := holder_stuck inv hown (blockedOf h hhn)
          exact ⟨c1, rest1, h1, hrecv⟩⟩
    obtain ⟨hown0, c0, rest0, ht0, hr0⟩ := hown0
    obtain ⟨c1, rest1, o, h', h1, hrecv, hnest, hop, hne, hown'⟩ := holder_stuck inv hown0 (blockedOf h0 hh0n)
    have hh'n : h' < n := by obtain ⟨c', rest', hh⟩ := inv.owner o h' hown'; exact unfinished_lt inv hh.1
    obtain ⟨c2, rest2, o2, h2, h21, hrecv2, _⟩ := holder_stuck inv hown' (blockedOf h' hh'n)
    have hle := hmax h' hh'n ⟨o, hown', c2, rest2, h21, hrecv2⟩
    have hlt : c1.recv < o := hord h0 c1 (by rw [h1]; exact List.mem_cons_self) o hnest.1 hop
    simp only [recvOf, h21, h1] at hle
    rw [hrecv2] at hle
    omega

/-! ### linearizability of the live protocol, for arbitrary (also wrapper, also self) operands -/

/-- a call of the live protocol as lock.go with hooks/C13-fix2.patch makes it (T-tie table) -/
def Good (c : Call D R) : Prop := Live c ∧ c.locked = true ∧ c.opLocked = true

/-- the thread carries an operand snapshot it has not used up yet -/
def HasSnap (pc : Pc) : Prop := pc = .snapHeld ∨ pc = .snapped ∨ pc = .held 0 ∨ pc = .readDone

/-- snapshot semantics of the operands in a log: the snapshot used by every linearised call with a wrapper
operand `o` is the data of `o` after a PREFIX of `o`'s own linearised history — the first `opAt` calls on `o`, all of
which precede the call itself in the log -/
inductive SnapOk (d0 : Nat → D) : List (Entry D R) → Prop where
  | nil : SnapOk d0 []
  | snoc (log : List (Entry D R)) (e : Entry D R) : SnapOk d0 log →
      (∀ o, e.call.operand = some o → e.opAt ≤ (onRecv o log).length ∧ Lin (d0 o) ((onRecv o log).take e.opAt) e.op) →
      SnapOk d0 (log ++ [e])

theorem onRecv_append (m : Nat) (a b : List (Entry D R)) : onRecv m (a ++ b) = onRecv m a ++ onRecv m b := by
  simp [onRecv, List.filter_append]

theorem take_onRecv_snoc (m : Nat) (log : List (Entry D R)) (e : Entry D R) {k : Nat} (h : k ≤ (onRecv m log).length) :
    (onRecv m (log ++ [e])).take k = (onRecv m log).take k := by
  rw [onRecv_append, List.take_append_of_le_length h]

structure LinInv (d0 : Nat → D) (progs : Nat → List (Call D R)) (s : State D R) : Prop where
  good : ∀ t, ∀ c ∈ (s.th t).todo, Good c
  pcs : ∀ t, OkPc (s.th t).pc
  /-- inside a body the receiver's mutex is held -/
  holds : ∀ t c rest, (s.th t).todo = c :: rest → InBody (s.th t).pc → s.holder c.recv = some t
  /-- while the operand is being read its mutex is held and the snapshot IS the operand's data -/
  snap : ∀ t c rest, (s.th t).todo = c :: rest → (s.th t).pc = .snapHeld →
    ∃ o, c.operand = some o ∧ s.holder o = some t ∧ (s.th t).opLoc = s.data o
  /-- what the delegate read is still the receiver's data when it writes -/
  fresh : ∀ t c rest, (s.th t).todo = c :: rest → (s.th t).pc = .readDone → (s.th t).loc = s.data c.recv
  /-- per wrapper: its data is the sequential run of the calls on it, in log order -/
  lin : ∀ m, Lin (d0 m) (onRecv m s.log) (s.data m)
  order : ∀ t, (mine t s.log).map (·.call) ++ pending s t = progs t
  res : ∀ t, (s.th t).res = (mine t s.log).map (·.r)
  /-- the snapshot a thread carries is the operand's data after a prefix of the operand's linearised history -/
  tsnap : ∀ t c rest o, (s.th t).todo = c :: rest → HasSnap (s.th t).pc → c.operand = some o →
    (s.th t).opAt ≤ (onRecv o s.log).length ∧ Lin (d0 o) ((onRecv o s.log).take (s.th t).opAt) (s.th t).opLoc
  esnap : SnapOk d0 s.log

theorem linInv_init (d0 : Nat → D) (dflt : D) (progs : Nat → List (Call D R))
    (h : ∀ t, ∀ c ∈ progs t, Good c) : LinInv d0 progs (init d0 dflt progs) where
  good := h
  pcs := fun _ => Or.inl rfl
  holds := fun t c rest _ hb => by simp [init, InBody] at hb
  snap := fun t c rest _ hb => by simp [init] at hb
  fresh := fun t c rest _ hb => by simp [init] at hb
  lin := fun m => rfl
  order := fun t => by simp [init, mine, pending]
  res := fun t => by simp [init, mine]
  tsnap := fun t c rest o _ hb => by simp [init, HasSnap] at hb
  esnap := SnapOk.nil

/-- rebuild the invariant after a step of thread `t` that touches neither data nor log -/
theorem linInv_frame {d0 : Nat → D} {progs : Nat → List (Call D R)} {s : State D R} {t : Nat}
    (inv : LinInv d0 progs s) (T' : Thread D R) (h' : Nat → Option Nat)
    (hsub : ∀ c' ∈ T'.todo, c' ∈ (s.th t).todo) (hpc : OkPc T'.pc)
    (hpend : (match T'.pc with | .written => T'.todo.tail | _ => T'.todo) = pending s t)
    (hres : T'.res = (s.th t).res)
    (hothers : ∀ m t', t' ≠ t → s.holder m = some t' → h' m = some t')
    (hholds : ∀ c1 rest1, T'.todo = c1 :: rest1 → InBody T'.pc → h' c1.recv = some t)
    (hsnap : ∀ c1 rest1, T'.todo = c1 :: rest1 → T'.pc = .snapHeld → ∃ o, c1.operand = some o ∧ h' o = some t ∧ T'.opLoc = s.data o)
    (hfresh : ∀ c1 rest1, T'.todo = c1 :: rest1 → T'.pc = .readDone → T'.loc = s.data c1.recv)
    (htsnap : ∀ c1 rest1 o, T'.todo = c1 :: rest1 → HasSnap T'.pc → c1.operand = some o →
      T'.opAt ≤ (onRecv o s.log).length ∧ Lin (d0 o) ((onRecv o s.log).take T'.opAt) T'.opLoc) :
    LinInv d0 progs { holder := h', data := s.data, th := upd s.th t T', log := s.log } := by
  refine ⟨?_, ?_, ?_, ?_, ?_, inv.lin, ?_, ?_, ?_, inv.esnap⟩
  · intro t' c' hc'
    by_cases e : t' = t
    · subst e; simp only [upd_same] at hc'; exact inv.good t' c' (hsub c' hc')
    · simp only [upd_other _ _ e] at hc'; exact inv.good t' c' hc'
  · intro t'
    by_cases e : t' = t
    · subst e; simp only [upd_same]; exact hpc
    · simp only [upd_other _ _ e]; exact inv.pcs t'
  · intro t' c1 rest1 h1 h2
    by_cases e : t' = t
    · subst e; simp only [upd_same] at h1 h2; exact hholds c1 rest1 h1 h2
    · simp only [upd_other _ _ e] at h1 h2; exact hothers _ t' e (inv.holds t' c1 rest1 h1 h2)
  · intro t' c1 rest1 h1 h2
    by_cases e : t' = t
    · subst e; simp only [upd_same] at h1 h2 ⊢; exact hsnap c1 rest1 h1 h2
    · simp only [upd_other _ _ e] at h1 h2 ⊢
      obtain ⟨o, ho1, ho2, ho3⟩ := inv.snap t' c1 rest1 h1 h2
      exact ⟨o, ho1, hothers o t' e ho2, ho3⟩
  · intro t' c1 rest1 h1 h2
    by_cases e : t' = t
    · subst e; simp only [upd_same] at h1 h2 ⊢; exact hfresh c1 rest1 h1 h2
    · simp only [upd_other _ _ e] at h1 h2 ⊢; exact inv.fresh t' c1 rest1 h1 h2
  · intro t'
    by_cases e : t' = t
    · subst e
      have := inv.order t'
      simp only [pending, upd_same]
      rw [hpend]; exact this
    · have := inv.order t'
      simp only [pending, upd_other _ _ e]
      exact this
  · intro t'
    by_cases e : t' = t
    · subst e; simp only [upd_same]; rw [hres]; exact inv.res t'
    · simp only [upd_other _ _ e]; exact inv.res t'
  · intro t' c1 rest1 o h1 h2 h3
    by_cases e : t' = t
    · subst e; simp only [upd_same] at h1 h2 ⊢; exact htsnap c1 rest1 o h1 h2 h3
    · simp only [upd_other _ _ e] at h1 h2 ⊢; exact inv.tsnap t' c1 rest1 o h1 h2 h3

theorem linInv_acquire {d0 : Nat → D} {progs : Nat → List (Call D R)} {s s' : State D R} {t : Nat}
    {c : Call D R} {rest : List (Call D R)} (inv : LinInv d0 progs s) (htodo : (s.th t).todo = c :: rest)
    (hpc : (s.th t).pc = .start ∨ (s.th t).pc = .snapped)
    (hsnapNone : (s.th t).pc = .start → c.snapTarget = none)
    (hs : acquireRecv s t (s.th t) c = some s') : LinInv d0 progs s' := by
  obtain ⟨hlive, hl, hol⟩ := inv.good t c (by rw [htodo]; exact List.mem_cons_self)
  have hpend : (s.th t).todo = pending s t := by
    rcases hpc with h | h <;> simp [pending, h]
  rcases acquireRecv_some hs with ⟨_, hfree, rfl⟩ | ⟨hl', _⟩
  · refine linInv_frame inv _ _ (fun c' hc' => hc') (by simp [OkPc, hlive.rounds]) ?_ rfl ?_ ?_ ?_ ?_ ?_
    · simp only [hlive.rounds]; exact hpend
    · intro m t' hne hm
      have : m ≠ c.recv := fun e => by rw [e, hfree] at hm; cases hm
      simpa only [upd_other _ _ this] using hm
    · intro c1 rest1 h1 _
      simp only [htodo] at h1; injection h1 with hc _; subst hc; simp
    · intro c1 rest1 _ h2; simp [hlive.rounds] at h2
    · intro c1 rest1 _ h2; simp [hlive.rounds] at h2
    · intro c1 rest1 o h1 _ h3
      simp only [htodo] at h1; injection h1 with hc _; subst hc
      rcases hpc with hp | hp
      · -- from `start` the receiver is only locked directly when there is no wrapper operand
        exfalso
        have hst := hsnapNone hp
        rw [hlive.snapTarget, h3] at hst; cases hst
      · exact inv.tsnap t c rest o htodo (by simp [HasSnap, hp]) h3
  · rw [hl] at hl'; cases hl'

theorem linInv_step {d0 : Nat → D} {progs : Nat → List (Call D R)} {s s' : State D R} {t : Nat}
    (inv : LinInv d0 progs s) (hs : step s t = some s') : LinInv d0 progs s' := by
  unfold step at hs
  simp only at hs
  split at hs
  · cases hs
  · rename_i c rest htodo
    obtain ⟨hlive, hl, hol⟩ := inv.good t c (by rw [htodo]; exact List.mem_cons_self)
    split at hs
    · -- start
      rename_i hpc
      split at hs
      · rename_i o hsnap
        have hop := operand_of_snapTarget hsnap
        rw [hol] at hs
        simp only [if_true] at hs
        split at hs
        · rename_i hfree
          have hs := Option.some.inj hs
          subst hs
          refine linInv_frame inv _ _ (fun c' hc' => hc') (by simp [OkPc]) (by simp [pending, hpc]) rfl ?_ ?_ ?_ ?_ ?_
          · intro m t' hne hm
            have : m ≠ o := fun e => by rw [e, hfree] at hm; cases hm
            simpa only [upd_other _ _ this] using hm
          · intro c1 rest1 _ h2; simp [InBody] at h2
          · intro c1 rest1 h1 _
            simp only [htodo] at h1; injection h1 with hc _; subst hc
            exact ⟨o, hop, by simp, rfl⟩
          · intro c1 rest1 _ h2; simp at h2
          · -- the snapshot point: the operand's data is the result of its whole linearised history so far
            intro c1 rest1 o1 h1 _ h3
            simp only [htodo] at h1; injection h1 with hc _; subst hc
            rw [hop] at h3; cases h3
            exact ⟨Nat.le_refl _, by rw [List.take_length]; exact inv.lin o⟩
        · cases hs
      · rename_i hsn
        exact linInv_acquire inv htodo (Or.inl hpc) (fun _ => hsn) hs
    · -- snapHeld: release the operand
      rename_i hpc
      obtain ⟨o', ho1, ho2, ho3⟩ := inv.snap t c rest htodo hpc
      have hst : c.snapTarget = some o' := by rw [hlive.snapTarget, ho1]
      rw [hst] at hs
      simp only [hol, if_true] at hs
      have hs := Option.some.inj hs
      subst hs
      refine linInv_frame inv _ _ (fun c' hc' => hc') (by simp [OkPc]) (by simp [pending, hpc]) rfl ?_ ?_ ?_ ?_ ?_
      · intro m t' hne hm
        have : m ≠ o' := fun e => by rw [e, ho2] at hm; exact hne (Option.some.inj hm).symm
        simpa only [upd_other _ _ this] using hm
      · intro c1 rest1 _ h2; simp [InBody] at h2
      · intro c1 rest1 _ h2; simp at h2
      · intro c1 rest1 _ h2; simp at h2
      · intro c1 rest1 o1 h1 _ h3
        exact inv.tsnap t c1 rest1 o1 h1 (by simp [HasSnap, hpc]) h3
    · -- snapped
      rename_i hpc
      exact linInv_acquire inv htodo (Or.inr hpc) (fun h => by rw [hpc] at h; cases h) hs
    · -- held (k+1): not a state of the live protocol
      rename_i k hpc
      rcases inv.pcs t with h | h | h | h | h | h <;> rw [hpc] at h <;> first | cases h | (injection h with h; omega)
    · -- inOp
      rename_i k hpc
      rcases inv.pcs t with h | h | h | h | h | h <;> rw [hpc] at h <;> cases h
    · -- held 0: read the receiver
      rename_i hpc
      have hs := Option.some.inj hs
      subst hs
      have hh := inv.holds t c rest htodo (Or.inl hpc)
      refine linInv_frame inv _ _ (fun c' hc' => hc') (by simp [OkPc]) (by simp [pending, hpc]) rfl (fun m t' _ hm => hm) ?_ ?_ ?_ ?_
      · intro c1 rest1 h1 _
        simp only [htodo] at h1; injection h1 with hc _; subst hc; exact hh
      · intro c1 rest1 _ h2; simp at h2
      · intro c1 rest1 h1 _
        simp only [htodo] at h1; injection h1 with hc _; subst hc; rfl
      · intro c1 rest1 o1 h1 _ h3
        exact inv.tsnap t c1 rest1 o1 h1 (by simp [HasSnap, hpc]) h3
    · -- readDone: write the receiver
      rename_i hpc
      have hs := Option.some.inj hs
      subst hs
      have hh := inv.holds t c rest htodo (Or.inr (Or.inl hpc))
      have hfresh := inv.fresh t c rest htodo hpc
      refine ⟨?_, ?_, ?_, ?_, ?_, ?_, ?_, ?_, ?_, ?_⟩
      · intro t' c' hc'
        by_cases e : t' = t
        · subst e; simp only [upd_same] at hc'; exact inv.good t' c' hc'
        · simp only [upd_other _ _ e] at hc'; exact inv.good t' c' hc'
      · intro t'
        by_cases e : t' = t
        · subst e; simp [upd_same, OkPc]
        · simp only [upd_other _ _ e]; exact inv.pcs t'
      · intro t' c1 rest1 h1 h2
        by_cases e : t' = t
        · subst e; simp only [upd_same] at h1
          simp only [htodo] at h1; injection h1 with hc _; subst hc; exact hh
        · simp only [upd_other _ _ e] at h1 h2; exact inv.holds t' c1 rest1 h1 h2
      · intro t' c1 rest1 h1 h2
        by_cases e : t' = t
        · subst e; simp [upd_same] at h2
        · simp only [upd_other _ _ e] at h1 h2 ⊢
          obtain ⟨o, ho1, ho2, ho3⟩ := inv.snap t' c1 rest1 h1 h2
          have : o ≠ c.recv := fun eo => by rw [eo, hh] at ho2; exact e (Option.some.inj ho2).symm
          exact ⟨o, ho1, ho2, by rw [upd_other _ _ this]; exact ho3⟩
      · intro t' c1 rest1 h1 h2
        by_cases e : t' = t
        · subst e; simp [upd_same] at h2
        · simp only [upd_other _ _ e] at h1 h2 ⊢
          have hh' := inv.holds t' c1 rest1 h1 (Or.inr (Or.inl h2))
          have : c1.recv ≠ c.recv := fun eo => by rw [eo, hh] at hh'; exact e (Option.some.inj hh').symm
          rw [upd_other _ _ this]; exact inv.fresh t' c1 rest1 h1 h2
      · intro m
        by_cases em : m = c.recv
        · subst em
          show Lin (d0 c.recv) (onRecv c.recv (s.log ++ [{ tid := t, call := c, op := (s.th t).opLoc, opAt := (s.th t).opAt, r := (c.f (s.th t).loc (s.th t).opLoc).2 }]))
            (upd s.data c.recv (c.f (s.th t).loc (s.th t).opLoc).1 c.recv)
          rw [onRecv_snoc_same c.recv s.log _ rfl]
          simp only [upd_same]
          have := lin_snoc (d := d0 c.recv) { tid := t, call := c, op := (s.th t).opLoc, opAt := (s.th t).opAt, r := (c.f (s.th t).loc (s.th t).opLoc).2 }
            (inv.lin c.recv) (by simp only [hfresh])
          simp only [hfresh] at this ⊢
          exact this
        · show Lin (d0 m) (onRecv m (s.log ++ [{ tid := t, call := c, op := (s.th t).opLoc, opAt := (s.th t).opAt, r := (c.f (s.th t).loc (s.th t).opLoc).2 }]))
            (upd s.data c.recv (c.f (s.th t).loc (s.th t).opLoc).1 m)
          rw [onRecv_snoc_other m s.log _ (fun h => em h.symm)]
          simp only [upd_other _ _ em]
          exact inv.lin m
      · intro t'
        by_cases e : t' = t
        · subst e
          have := inv.order t'
          simp only [pending, hpc, htodo] at this
          simp only [pending, upd_same, htodo, List.tail_cons]
          rw [mine_snoc_same t' s.log _ rfl, List.map_append, List.append_assoc]
          exact this
        · have := inv.order t'
          simp only [pending, upd_other _ _ e]
          rw [mine_snoc_other t' s.log _ (fun h => e h.symm)]
          exact this
      · intro t'
        by_cases e : t' = t
        · subst e
          simp only [upd_same]
          rw [mine_snoc_same t' s.log _ rfl, List.map_append, inv.res t']
          rfl
        · simp only [upd_other _ _ e]
          rw [mine_snoc_other t' s.log _ (fun h => e h.symm)]
          exact inv.res t'
      · -- snapshots carried by other threads: the history of their operand only grew at the end
        intro t' c1 rest1 o1 h1 h2 h3
        by_cases e : t' = t
        · subst e; simp [upd_same, HasSnap] at h2
        · simp only [upd_other _ _ e] at h1 h2 ⊢
          obtain ⟨hle, hlin⟩ := inv.tsnap t' c1 rest1 o1 h1 h2 h3
          refine ⟨Nat.le_trans hle (by rw [onRecv_append]; simp), ?_⟩
          show Lin (d0 o1) ((onRecv o1 (s.log ++ [_])).take (s.th t').opAt) (s.th t').opLoc
          rw [take_onRecv_snoc o1 s.log _ hle]; exact hlin
      · -- the call being linearised used a snapshot taken at a prefix of its operand's history
        refine SnapOk.snoc s.log _ inv.esnap ?_
        intro o1 h3
        exact inv.tsnap t c rest o1 htodo (by simp [HasSnap, hpc]) h3
    · -- written: release the receiver, next call
      rename_i hpc
      simp only [hl, if_true] at hs
      have hs := Option.some.inj hs
      subst hs
      have hh := inv.holds t c rest htodo (Or.inr (Or.inr hpc))
      refine linInv_frame inv _ _ (fun c' hc' => by rw [htodo]; exact List.mem_cons_of_mem _ hc') (by simp [OkPc])
        (by simp [pending, hpc, htodo]) rfl ?_ ?_ ?_ ?_ ?_
      · intro m t' hne hm
        have : m ≠ c.recv := fun e => by rw [e, hh] at hm; exact hne (Option.some.inj hm).symm
        simpa only [upd_other _ _ this] using hm
      · intro c1 rest1 _ h2; simp [InBody] at h2
      · intro c1 rest1 _ h2; simp at h2
      · intro c1 rest1 _ h2; simp at h2
      · intro c1 rest1 o1 _ h2 _; simp [HasSnap] at h2

theorem linInv_reach {d0 : Nat → D} {dflt : D} {progs : Nat → List (Call D R)}
    (h : ∀ t, ∀ c ∈ progs t, Good c) {s : State D R} (hr : Reach (init d0 dflt progs) s) :
    LinInv d0 progs s := by
  induction hr with
  | refl => exact linInv_init d0 dflt progs h
  | step t _ hs ih => exact linInv_step ih hs

/-- thread `t` is using wrapper `m`: inside a body on it, or reading it as an operand -/
def Uses (s : State D R) (t m : Nat) : Prop :=
  ∃ c rest, (s.th t).todo = c :: rest ∧
    ((InBody (s.th t).pc ∧ c.recv = m) ∨ ((s.th t).pc = .snapHeld ∧ c.operand = some m))

theorem uses_holder {d0 : Nat → D} {progs : Nat → List (Call D R)} {s : State D R} (inv : LinInv d0 progs s)
    {t m : Nat} (h : Uses s t m) : s.holder m = some t := by
  obtain ⟨c, rest, h1, ⟨h2, rfl⟩ | ⟨h2, h3⟩⟩ := h
  · exact inv.holds t c rest h1 h2
  · obtain ⟨o, ho1, ho2, _⟩ := inv.snap t c rest h1 h2
    rw [h3] at ho1; cases ho1; exact ho2

end Dawgs.C13.Lts
