import Dawgs.Proofs.C01Query
/-
C01 / S1 — the Cypher evaluator (openCypher reference semantics, no deviation switches) on the Cypher reading of an S1 query
computes the specification `specNodes`.
-/
namespace Dawgs.C01.Proofs
open Dawgs Dawgs.Cy

theorem flatMap_replicate_one {α : Type} (xs : List α) : xs.flatMap (fun x => List.replicate 1 x) = xs := by
  induction xs with
  | nil => rfl
  | cons x xs ih => simp [List.flatMap_cons, ih]

theorem propsMatch_nil (g : Graph) (env : Env) (have_ : List (String × Json)) : propsMatch .none g env have_ [] = .ok true := by
  rw [propsMatch]

/-- binding the pattern `(v:K…)` to node `n` in the empty environment -/
theorem matchNode_fresh (g : Graph) (n : NodeRec) (v : String) (kinds : List String) (hnode : g.node? n.id = some n) :
    matchNode .none g ⟨[], []⟩ n.id (.mk (some v) kinds []) =
      .ok (if kindsAllOf n.kinds kinds then some ⟨[(v, .node n.id)], []⟩ else none) := by
  rw [matchNode]
  simp only [hnode, propsMatch_nil, ebind_ok, List.lookup, epure_ok]
  cases kindsAllOf n.kinds kinds <;> rfl

theorem matchSteps_nil (g : Graph) (st : MState) (cur : Int) (pn pr : List Int) (nb : Bool) (nv : Option String) (fs : Bool) :
    matchSteps .none g st cur pn pr nb nv fs [] = .ok [(st, pn, pr)] := by
  rw [matchSteps]

theorem mapE_map_ok {ε α β γ : Type} (f : α → β) (F : β → Except ε γ) (G : α → γ) : ∀ (xs : List α),
    (∀ x ∈ xs, F (f x) = .ok (G x)) → (xs.map f).mapE F = .ok (xs.map G)
  | [], _ => rfl
  | x :: xs, h => by
    rw [List.map_cons, mapE_cons, h x (List.mem_cons_self ..), mapE_map_ok f F G xs (fun y hy => h y (List.mem_cons_of_mem _ hy))]
    rfl

theorem flatten_ite {α β : Type} (p : α → Bool) (f : α → β) : ∀ (xs : List α),
    (xs.map (fun x => if p x then [f x] else [])).flatten = (xs.filter p).map f
  | [] => rfl
  | x :: xs => by
    rw [List.map_cons, List.flatten_cons, flatten_ite p f xs, List.filter_cons]
    cases p x <;> rfl

/-- MATCH (v:K…) from the empty environment: one state per node carrying the kinds, in node order -/
theorem matchPart_node (g : Graph) (v : String) (kinds : List String) (hn : ∀ n ∈ g.nodes, g.node? n.id = some n) :
    matchPart .none g ⟨[], []⟩ (.mk none false false (.mk (some v) kinds []) []) =
      .ok ((g.nodes.filter (fun n => kindsAllOf n.kinds kinds)).map (fun n => (⟨[(v, .node n.id)], []⟩ : MState))) := by
  rw [matchPart]
  simp only [Bool.or_self, Bool.false_eq_true, if_false, NodePat.var, Option.bind_some, List.lookup, Option.isSome_none,
    Quirks.none, Bool.and_false, Bool.false_and, flatMap_replicate_one]
  rw [mapE_map_ok (fun (n : NodeRec) => n.id) _ (fun n => if kindsAllOf n.kinds kinds then [(⟨[(v, .node n.id)], []⟩ : MState)] else [])]
  · simp only [ebind_ok, epure_ok, flatten_ite]
  · intro n hmem
    have := matchNode_fresh g n v kinds (hn n hmem)
    simp only [Quirks.none] at this
    simp only [this, ebind_ok]
    cases hk : kindsAllOf n.kinds kinds
    · rfl
    · have h2 := matchSteps_nil g ⟨[(v, .node n.id)], []⟩ n.id [n.id] [] false (some v) true
      simp only [Quirks.none] at h2
      simp only [if_true, h2, ebind_ok, epure_ok, List.map_cons, List.map_nil]

theorem filterE_map_ok {ε α β : Type} (f : α → β) (t : β → Except ε Bool) (p : α → Bool) : ∀ (xs : List α),
    (∀ x ∈ xs, t (f x) = .ok (p x)) → (xs.map f).filterE t = .ok ((xs.filter p).map f)
  | [], _ => rfl
  | x :: xs, h => by
    rw [List.map_cons, filterE_cons, h x (List.mem_cons_self ..), filterE_map_ok f t p xs (fun y hy => h y (List.mem_cons_of_mem _ hy)),
      List.filter_cons]
    cases p x <;> rfl

theorem truthy_tri (t : Tri) : truthy (triToC t) = .ok (t == some true) := by
  cases t with
  | none => rfl
  | some b => cases b <;> rfl

/-- the MATCH … WHERE clause of an S1 query: one environment per node that passes kinds and predicate, in node order -/
theorem clause_eval (g : Graph) (s : S1.Query) (hn : ∀ n ∈ g.nodes, g.node? n.id = some n) :
    evalClauses .none g true [[]] s.toCy.clauses = .ok ((g.nodes.filter (keepS s)).map (fun n => [(s.var, CVal.node n.id)])) := by
  unfold S1.Query.toCy
  simp only [evalClauses, evalClause, mapE_singleton, matchParts, Quirks.none, Bool.false_eq_true, if_false]
  have hmp := matchPart_node g s.var s.kinds hn
  simp only [Quirks.none] at hmp
  simp only [hmp, ebind_ok, epure_ok, List.flatten_cons, List.flatten_nil, List.append_nil, Bool.and_false, Bool.false_and]
  rw [filterE_map_ok _ _ (fun n => match s.wh with | none => true | some p => sem n p == some true)]
  · simp only [ebind_ok, epure_ok, List.flatten_cons, List.flatten_nil, List.append_nil, List.map_map, Function.comp_def,
      List.filter_filter, Bool.false_eq_true, if_false]
    have hk : (fun a => (match s.wh with | none => true | some p => sem a p == some true) && kindsAllOf a.kinds s.kinds) = keepS s := by
      funext n
      exact Bool.and_comm _ _
    rw [hk]
  · intro n hmem
    have hmem' := (List.mem_filter.mp hmem).1
    cases hwh : s.wh with
    | none => rfl
    | some p =>
      simp only [Option.map_some]
      have := (cy_pred g n s.var [(s.var, .node n.id)] (hn n hmem') (by simp [List.lookup]) p).1 false
      simp only [Quirks.none] at this
      rw [this]
      simp only [ebind_ok, truthy_tri]

-- ------------------------------------------------------------------ RETURN items

/-- the Cypher value of a RETURN item on node `n` -/
def itemC (n : NodeRec) : S1.Item → CVal
  | .node _ => .node n.id
  | .prop k _ => propC n k
  | .id _ => .int n.id

theorem eval_id_fn (g : Graph) (env : Env) (v : String) (i : Int) (b : Bool) (henv : env.lookup v = some (.node i)) :
    Cy.evalExpr .none g env b (.fn "id" false [.var v]) = .ok (.int i) := by
  rw [Cy.evalExpr]
  simp only [isAggregate, Cy.evalExprs, Cy.evalExpr, lookupVar, henv, ebind_ok, epure_ok, evalFn_id]
  have hc : (["count", "collect", "sum", "avg", "min", "max"].contains "id") = false := by decide
  simp only [hc, Bool.false_eq_true, if_false, ebind_ok]

theorem eval_itemC (g : Graph) (n : NodeRec) (v : String) (env : Env) (hnode : g.node? n.id = some n)
    (henv : env.lookup v = some (.node n.id)) (it : S1.Item) :
    Cy.evalExpr .none g env false (it.toCy v).e = .ok (itemC n it) := by
  cases it with
  | node a => simp only [S1.Item.toCy, itemC]; rw [Cy.evalExpr]; simp only [lookupVar, henv]
  | prop k a =>
    simp only [S1.Item.toCy, itemC]
    rw [Cy.evalExpr, Cy.evalExpr]
    simp only [lookupVar, henv, ebind_ok, propOf_node g n k hnode]
  | id a => simp only [S1.Item.toCy, itemC]; exact eval_id_fn g env v n.id false henv

theorem hasAggregate_item (v : String) (it : S1.Item) : hasAggregate (it.toCy v).e = false := by
  cases it <;> simp [S1.Item.toCy, hasAggregate, hasAggregateL, isAggregate]

theorem anyAgg_items (v : String) : ∀ (items : List S1.Item), (items.map (S1.Item.toCy v)).any (fun it => hasAggregate it.e) = false
  | [] => rfl
  | it :: items => by rw [List.map_cons, List.any_cons, hasAggregate_item, anyAgg_items v items]; rfl

theorem mapE_items (g : Graph) (n : NodeRec) (v : String) (env : Env) (hnode : g.node? n.id = some n)
    (henv : env.lookup v = some (.node n.id)) (items : List S1.Item) :
    (items.map (S1.Item.toCy v)).mapE (fun it => Cy.evalExpr .none g env false it.e) = .ok (items.map (itemC n)) :=
  mapE_map_ok _ _ _ items (fun it _ => eval_itemC g n v env hnode henv it)

/-- the environment after RETURN still resolves the variable to the node (well-formed queries) -/
theorem lookup_after (v : String) (x : CVal) : ∀ (l : List (String × CVal)), (∀ p ∈ l, p.1 = v → p.2 = x) →
    (l ++ [(v, x)]).lookup v = some x
  | [], _ => by simp [List.lookup]
  | (a, b) :: l, h => by
    rw [List.cons_append, List.lookup_cons]
    cases hav : v == a with
    | false => exact lookup_after v x l (fun p hp => h p (List.mem_cons_of_mem _ hp))
    | true =>
      have := eq_of_beq hav
      have hb : b = x := h (a, b) (List.mem_cons_self ..) this.symm
      rw [hb]

theorem wf_lookup (s : S1.Query) (n : NodeRec) (o : S1.Order) (ho : s.order = some o) (hwf : s.wf = true) :
    (((Cy.projNames (s.items.map (S1.Item.toCy s.var))).zip (s.items.map (itemC n))) ++ [(s.var, CVal.node n.id)]).lookup s.var = some (.node n.id) := by
  apply lookup_after
  intro p hp hpv
  unfold S1.Query.wf at hwf
  simp only [ho, Option.isNone_some, Bool.false_or, List.all_eq_true] at hwf
  rw [List.zip_map_right] at hp
  obtain ⟨q, hq, rfl⟩ := List.mem_map.mp hp
  have := hwf q hq
  simp only [Prod.map, id] at hpv ⊢
  rw [hpv] at this
  simp only [bne_self_eq_false, Bool.false_or] at this
  cases hq2 : q.2 with
  | node a => rfl
  | prop k a => rw [hq2] at this; cases this
  | id a => rw [hq2] at this; cases this

-- ------------------------------------------------------------------ ORDER BY id(v), SKIP, LIMIT

theorem insertSorted_eq {α : Type} (le : α → α → Bool) (x : α) : ∀ (xs : List α), insertSorted le x xs = Sql.insertBy le x xs
  | [] => rfl
  | y :: ys => by simp only [insertSorted, Sql.insertBy, insertSorted_eq le x ys]

theorem stableSort_eq {α : Type} (le : α → α → Bool) : ∀ (xs : List α), stableSort le xs = Sql.sortBy le xs
  | [] => rfl
  | x :: xs => by
    show insertSorted le x (stableSort le xs) = Sql.insertBy le x (Sql.sortBy le xs)
    rw [stableSort_eq le xs, insertSorted_eq]

theorem insertBy_perm {α : Type} (le : α → α → Bool) (x : α) : ∀ (xs : List α), (Sql.insertBy le x xs).Perm (x :: xs)
  | [] => List.Perm.refl _
  | y :: ys => by
    simp only [Sql.insertBy]
    cases le x y
    · simp only [Bool.false_eq_true, if_false]
      exact ((insertBy_perm le x ys).cons y).trans (List.Perm.swap x y ys)
    · exact List.Perm.refl _

theorem sortBy_perm {α : Type} (le : α → α → Bool) : ∀ (xs : List α), (Sql.sortBy le xs).Perm xs
  | [] => List.Perm.refl _
  | x :: xs => by
    show (Sql.insertBy le x (Sql.sortBy le xs)).Perm (x :: xs)
    exact (insertBy_perm le x _).trans ((sortBy_perm le xs).cons x)

theorem sortKeysLe_id (asc : Bool) (a b : NodeRec) : sortKeysLe false [(CVal.int a.id, asc)] [(CVal.int b.id, asc)] = idLe asc a b := by
  simp only [sortKeysLe, idLe]
  have : orderCmp false (.int a.id) (.int b.id) = intCmp a.id b.id := by
    rw [orderCmp]
    · simp [orderRank, cCmp]
    all_goals (intros; rename_i hh _; cases hh)
  rw [this]
  cases intCmp a.id b.id <;> rfl

/-- no cut falls between equal sort keys: node ids are unique -/
theorem tieAt_ids (asc : Bool) (row : NodeRec → List CVal × Env) (L : List NodeRec) (hnd : (L.map (·.id)).Nodup) (k : Nat) :
    tieAt (L.map (fun n => ([(CVal.int n.id, asc)], row n))) k = false := by
  unfold tieAt
  cases k with
  | zero => rfl
  | succ j =>
    simp only [Nat.add_sub_cancel, List.getElem?_map]
    cases ha : L[j]? with
    | none => simp
    | some a =>
      cases hb : L[j + 1]? with
      | none => simp
      | some b =>
        have hne : a.id ≠ b.id := by
          intro heq
          have hj : j < (L.map (·.id)).length := by
            rw [List.length_map]
            exact (List.getElem?_eq_some_iff.mp ha).1
          have h1 : (L.map (·.id))[j]? = (L.map (·.id))[j + 1]? := by
            rw [List.getElem?_map, List.getElem?_map, ha, hb]
            simp [heq]
          have := (List.getElem?_inj hj hnd).mp h1
          omega
        have hbeq : (a.id == b.id) = false := by simpa using hne
        simp [cEquiv, cEq, hbeq]

theorem intOf_nat (g : Graph) (k : Option Nat) : intOf .none g (k.map S1.natLit) = .ok k := by
  cases k with
  | none => rfl
  | some k =>
    simp only [Option.map_some, intOf, S1.natLit]
    rw [Cy.evalExpr]
    simp only [litToC, ebind_ok]
    have : ¬ ((k : Int) < 0) := by omega
    simp only [this, if_false, epure_ok, Int.toNat_natCast]

-- ------------------------------------------------------------------ the Cypher side of S1

def cyNames (s : S1.Query) : List String := Cy.projNames (s.items.map (S1.Item.toCy s.var))

/-- environment of a result row -/
def rowC (s : S1.Query) (n : NodeRec) : List CVal × Env :=
  (s.items.map (itemC n), (cyNames s).zip (s.items.map (itemC n)) ++ [(s.var, CVal.node n.id)])

theorem plainRows_eval (g : Graph) (s : S1.Query) (ns : List NodeRec) (hn : ∀ n ∈ ns, g.node? n.id = some n) :
    plainRows .none g (cyNames s) (s.items.map (S1.Item.toCy s.var)) (ns.map (fun n => [(s.var, CVal.node n.id)])) =
      .ok (ns.map (rowC s)) := by
  unfold plainRows
  apply mapE_map_ok
  intro n hmem
  have := mapE_items g n s.var [(s.var, .node n.id)] (hn n hmem) (by simp [List.lookup]) s.items
  simp only [this, ebind_ok, epure_ok, rowC]

theorem keyRows_none (g : Graph) (rows : List (List CVal × Env)) :
    keyRows .none g [] rows = .ok (rows.map (fun r => (([] : List (CVal × Bool)), r))) := by
  unfold keyRows
  simp only [mapE_nil, ebind_ok, epure_ok]
  rw [mapE_pure]
  simp only [ebind_ok, epure_ok, stableSort_eq]
  rw [sortBy_id]
  intro a ha b
  obtain ⟨r, _, rfl⟩ := List.mem_map.mp ha
  rfl

theorem keyRows_id (g : Graph) (s : S1.Query) (o : S1.Order) (ho : s.order = some o) (hwf : s.wf = true) (ns : List NodeRec) :
    keyRows .none g [(.fn "id" false [.var s.var], o.asc)] (ns.map (rowC s)) =
      .ok ((Sql.sortBy (idLe o.asc) ns).map (fun n => ([(CVal.int n.id, o.asc)], rowC s n))) := by
  unfold keyRows
  rw [mapE_map_ok (rowC s) _ (fun n => ([(CVal.int n.id, o.asc)], rowC s n))]
  · simp only [ebind_ok, epure_ok, stableSort_eq]
    rw [sortBy_map (fun n => ([(CVal.int n.id, o.asc)], rowC s n)) (idLe o.asc) _ (fun a b => sortKeysLe_id o.asc a b)]
  · intro n _
    have := eval_id_fn g (rowC s n).2 s.var n.id false (wf_lookup s n o ho hwf)
    simp only [mapE_singleton, this, ebind_ok, epure_ok]

/-- CYPHER SIDE: the reference semantics on the Cypher reading of an S1 query returns the specified nodes' item values in the specified order -/
theorem cy_side (g : Graph) (hnd : (g.nodes.map (·.id)).Nodup) (s : S1.Query) (hwf : s.wf = true) :
    Cy.eval .none g s.toCy = .ok (cyNames s, (specNodes s g).map (fun n => s.items.map (itemC n))) := by
  have hn : ∀ n ∈ g.nodes, g.node? n.id = some n := find_of_nodup g.nodes hnd
  have hc := clause_eval g s hn
  unfold Cy.eval
  have hparts : s.toCy.parts = [] := rfl
  simp only [hparts, evalParts, ebind_ok, List.isEmpty_nil, hc]
  unfold evalProjection
  have hall : s.toCy.ret.all = false := rfl
  have hdist : s.toCy.ret.distinct = false := rfl
  have hitems : s.toCy.ret.items = s.items.map (S1.Item.toCy s.var) := rfl
  have hob : s.toCy.ret.orderBy = S1.orderKeysC s.var s.order := rfl
  have hskip : s.toCy.ret.skip = s.order.bind (fun o => o.skip.map S1.natLit) := rfl
  have hlim : s.toCy.ret.limit = s.order.bind (fun o => o.limit.map S1.natLit) := rfl
  simp only [hall, hdist, hitems, hob, hskip, hlim, Bool.false_eq_true, if_false, anyAgg_items, Bool.or_self]
  have hns : ∀ n ∈ g.nodes.filter (keepS s), g.node? n.id = some n := fun n h => hn n (List.mem_filter.mp h).1
  have hpr := plainRows_eval g s (g.nodes.filter (keepS s)) hns
  unfold cyNames at hpr
  rw [hpr]
  simp only [ebind_ok]
  unfold specNodes ordNodes
  have hsub : ((g.nodes.filter (keepS s)).map (·.id)).Nodup :=
    List.Nodup.sublist (List.Sublist.map _ List.filter_sublist) hnd
  generalize g.nodes.filter (keepS s) = ns at hsub ⊢
  cases ho : s.order with
  | none =>
    simp only [S1.orderKeysC, Option.bind_none, keyRows_none, ebind_ok, intOf, cutKeyed, epure_ok, List.map_map, Function.comp_def, rowC, cyNames,
      Bool.false_eq_true, if_false]
  | some o =>
    simp only [S1.orderKeysC, Option.bind_some, keyRows_id g s o ho hwf, ebind_ok, intOf_nat]
    have hperm : ((Sql.sortBy (idLe o.asc) ns).map (·.id)).Nodup := ((sortBy_perm _ ns).map _).symm.nodup hsub
    generalize Sql.sortBy (idLe o.asc) ns = L at hperm ⊢
    unfold cutKeyed
    have ht1 : ∀ k, tieAt (L.map (fun n => ([(CVal.int n.id, o.asc)], rowC s n))) k = false := tieAt_ids o.asc (rowC s) L hperm
    have ht2 : ∀ j k, tieAt ((L.map (fun n => ([(CVal.int n.id, o.asc)], rowC s n))).drop j) k = false := by
      intro j k
      rw [← List.map_drop]
      exact tieAt_ids o.asc (rowC s) (L.drop j) (List.Nodup.sublist (List.Sublist.map _ (List.drop_sublist j L)) hperm) k
    cases o.skip <;> cases o.limit <;> simp only [ht1, ht2, Bool.false_eq_true, if_false, ebind_ok, epure_ok] <;>
      simp [cutN, List.map_map, Function.comp_def, List.map_drop, List.map_take, rowC, cyNames]

end Dawgs.C01.Proofs
