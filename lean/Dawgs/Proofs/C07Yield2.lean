import Dawgs.Proofs.C07Yield
set_option linter.unusedSimpArgs false
set_option linter.unusedVariables false
set_option linter.unusedSectionVars false
/-! `yield (treeOf e) = emit e`: predicates, comparison, boolean tower, top-level theorem. -/
namespace Dawgs.C07
open Dawgs.Grammar Dawgs.C08

theorem size_add_two_le_interleave (sep : Tree) : ∀ (xs : List Tree) (x : Tree), x ∈ xs → 2 ≤ xs.length →
    size x + 2 ≤ sizeL (interleave sep xs)
  | [], _, hx, _ => by cases hx
  | [_], _, _, h => by simp at h
  | a :: b :: rest, x, hx, _ => by
    have hi := sizeL_le_interleave sep (b :: rest)
    have ha := size_pos a
    have hb := size_pos b
    have hs := size_pos sep
    simp only [interleave, sizeL_cons'] at hi ⊢
    rcases List.mem_cons.1 hx with h | h
    · subst h; omega
    · have := size_le_sizeL h
      simp only [sizeL_cons'] at this; omega

theorem yieldL_map {α} (f : α → Tree) : ∀ xs : List α, yieldL (xs.map f) = (xs.map (fun x => yieldT (f x))).flatten
  | [] => by simp
  | x :: xs => by simp [yieldL_map f xs]

section Y2
variable {N : Names} (recT : Expr → Tree) (recW : Expr → Bool) (Hrec : EmitOK N recT recW)
include Hrec

theorem predOp_cases' (op : String) (r : Expr) (hp : isPredOp op r = true) :
    (op = "=~" ∨ op = "starts with" ∨ op = "ends with" ∨ op = "contains" ∨ op = "in") ∨ ((op = "is" ∨ op = "is not") ∧ r = .lit .null) := by
  unfold isPredOp at hp
  simp only [Bool.or_eq_true, Bool.and_eq_true, strPredOps] at hp
  rcases hp with (hp | hp) | hp
  · have : op = "=~" ∨ op = "starts with" ∨ op = "ends with" ∨ op = "contains" := by simpa using hp
    rcases this with h | h | h | h <;> simp [h]
  · left; right; right; right; right; simpa using hp
  · right
    refine ⟨by simpa using hp.1, ?_⟩
    have := hp.2; unfold isNullLit at this; split at this
    · rfl
    · cases this

theorem yok_slnp : YOK (tSLNP N recT) (wSLNP recW) := by
  intro e G hw hG
  have HA := yok_add recT recW Hrec
  unfold tSLNP at hG ⊢
  unfold wSLNP at hw
  split at hG
  · rename_i acc op r
    by_cases hp : isPredOp op r = true
    · simp only [hp, if_true, Bool.and_eq_true] at hw hG ⊢
      simp only [size_nd, sizeL_cons', sizeL_nil'] at hG
      obtain ⟨G', rfl⟩ : ∃ G', G = G' + 1 := ⟨G - 1, by omega⟩
      have hacc := HA acc G' hw.1 (by omega)
      have he : eExpr (G' + 1) (.cmp acc [(op, r)]) = eExpr G' acc ++ (opWords op ++ eExpr G' r) := by
        rw [eExpr]; simp
      rw [he, hacc]
      simp only [yieldT_nd, yieldL_cons, yieldL_nil, List.append_nil]
      congr 1
      rcases predOp_cases' recT recW Hrec op r hp with h | h
      · have hnot : ¬ (op == "is" || op == "is not") = true := by
          rcases h with rfl | rfl | rfl | rfl | rfl <;> decide
        have hwr := hw.2
        simp only [hnot, Bool.false_eq_true, if_false] at hwr
        have hszp : size (tAdd N recT r) + 1 ≤ size (predNode N recT op r) := by
          rcases h with rfl | rfl | rfl | rfl | rfl <;> simp (config := { decide := true }) [predNode] <;> omega
        have hr := HA r G' hwr (by omega)
        rw [hr]
        rcases h with rfl | rfl | rfl | rfl | rfl <;> simp (config := { decide := true }) [predNode, opWords]
      · obtain ⟨hop, rfl⟩ := h
        have hG1 : 1 ≤ G' := by
          have := size_pos (tAdd N recT acc); omega
        obtain ⟨G'', rfl⟩ : ∃ G'', G' = G'' + 1 := ⟨G' - 1, by omega⟩
        rcases hop with rfl | rfl <;> simp (config := { decide := true }) [predNode, opWords, eExpr]
    · simp only [hp, Bool.false_eq_true, if_false] at hw
  · rename_i hne
    have hw' : wAdd recW e = true := by
      split at hw
      · rename_i acc op r; exact absurd rfl (hne acc op r)
      · exact hw
    simp only [size_nd, sizeL_cons', sizeL_nil'] at hG
    simp only [yieldT_nd, yieldL_cons, yieldL_nil, List.append_nil]
    exact HA e G hw' (by omega)

theorem opWords_comp (op : String) (h : compOps.contains op = true) : opWords op = [op] := by
  simp [compOps] at h
  rcases h with rfl | rfl | rfl | rfl | rfl | rfl <;> decide

theorem yok_cmp : YOK (tCmp N recT) (wCmp recW) := by
  intro e G hw hG
  have HS := yok_slnp recT recW Hrec
  unfold tCmp at hG ⊢
  unfold wCmp at hw
  split at hG
  · rename_i l op r ps
    by_cases ho : compOps.contains op = true
    · simp only [ho, if_true, Bool.and_eq_true, List.all_eq_true] at hw hG ⊢
      simp only [size_nd, sizeL_cons'] at hG
      obtain ⟨G', rfl⟩ : ∃ G', G = G' + 1 := ⟨G - 1, by omega⟩
      have hl := HS l G' hw.2 (by omega)
      have he : eExpr (G' + 1) (.cmp l ((op, r) :: ps)) =
          eExpr G' l ++ (((op, r) :: ps).map (fun p => opWords p.1 ++ eExpr G' p.2)).flatten := by
        rw [eExpr]
      have hm : ((op, r) :: ps).map (fun p => opWords p.1 ++ eExpr G' p.2) =
          ((op, r) :: ps).map (fun p => yieldT (N.nd "oC_PartialComparisonExpression" [N.lf (opTok p.1) p.1, tSLNP N recT p.2])) := by
        apply List.map_congr_left
        intro p hp
        have hsz := size_le_sizeL (List.mem_map_of_mem
          (f := fun p : String × Expr => N.nd "oC_PartialComparisonExpression" [N.lf (opTok p.1) p.1, tSLNP N recT p.2]) hp)
        simp only [size_nd, sizeL_cons', size_lf, sizeL_nil'] at hsz
        have hr := HS p.2 G' (hw.1 p hp).2 (by simp only [List.map_cons, sizeL_cons'] at hG; simp only [List.map_cons, sizeL_cons'] at hsz; omega)
        simp [opWords_comp recT recW Hrec p.1 (hw.1 p hp).1, hr]
      rw [he, hl, hm]
      rw [yieldT_nd, yieldL_cons, yieldL_map]
    · simp only [ho, Bool.false_eq_true, if_false] at hw hG ⊢
      simp only [size_nd, sizeL_cons', sizeL_nil'] at hG
      simp only [yieldT_nd, yieldL_cons, yieldL_nil, List.append_nil]
      exact HS _ G hw (by omega)
  · rename_i hne
    have hw' : wSLNP recW e = true := by
      split at hw
      · rename_i l op r ps; exact absurd rfl (hne l op r ps)
      · exact hw
    simp only [size_nd, sizeL_cons', sizeL_nil'] at hG
    simp only [yieldT_nd, yieldL_cons, yieldL_nil, List.append_nil]
    exact HS e G hw' (by omega)

/-- operands that reach a level through `wCmp` are never boolean connectives: the emitter adds no parentheses -/
theorem eOperand_cmp (x : Expr) (G prec : Nat) (hw : wCmp recW x = true) : eOperand (G + 1) x prec = eExpr G x := by
  cases x <;> first
    | (simp [wCmp, wSLNP, wAdd, wMul, wPow, wLevel, wUnary, wNonArith, wProps, isCountStar, wAtom] at hw; done)
    | simp [eOperand]

theorem yok_not : YOK (tNot N recT) (wNot recW) := by
  intro e G hw hG
  have HC := yok_cmp recT recW Hrec
  unfold tNot at hG ⊢
  unfold wNot at hw
  split at hG
  · rename_i x
    simp only [size_nd, sizeL_cons', size_lf, sizeL_nil'] at hG
    obtain ⟨G', rfl⟩ : ∃ G', G = G' + 2 := ⟨G - 2, by omega⟩
    have hx := HC x G' hw (by omega)
    have he : eExpr (G' + 2) (.neg x) = "not" :: eOperand (G' + 1) x 4 := by rw [eExpr]
    rw [he, eOperand_cmp recT recW Hrec x G' _ hw, hx]
    simp
  · rename_i hne
    have hw' : wCmp recW e = true := by
      split at hw
      · rename_i x; exact absurd rfl (hne x)
      · exact hw
    simp only [size_nd, sizeL_cons', sizeL_nil'] at hG
    simp only [yieldT_nd, yieldL_cons, yieldL_nil, List.append_nil]
    exact HC e G hw' (by omega)

theorem eOperand_not (x : Expr) (G prec : Nat) (hp : prec ≤ 3) (hw : wNot recW x = true) : eOperand (G + 1) x prec = eExpr G x := by
  cases x <;> first
    | (simp [wNot, wCmp, wSLNP, wAdd, wMul, wPow, wLevel, wUnary, wNonArith, wProps, isCountStar, wAtom] at hw; done)
    | (simp [eOperand]; try omega)

theorem yok_and : YOK (tAnd N recT) (wAnd recW) := by
  intro e G hw hG
  have HN := yok_not recT recW Hrec
  unfold tAnd at hG ⊢
  unfold wAnd at hw
  split at hG
  · rename_i es
    simp only [Bool.and_eq_true, decide_eq_true_eq] at hw
    have hsz := sizeL_le_interleave (N.lf "AND" "and") (es.map (tNot N recT))
    simp only [size_nd] at hG
    have h2 : 2 ≤ (es.map (tNot N recT)).length := by simpa using hw.1
    obtain ⟨G', rfl⟩ : ∃ G', G = G' + 2 := ⟨G - 2, by
      match es, hw.1 with
      | a :: b :: rest, _ =>
        have := size_add_two_le_interleave (N.lf "AND" "and") ((a :: b :: rest).map (tNot N recT)) (tNot N recT a) (by simp) (by simp)
        omega⟩
    have he : eExpr (G' + 2) (.conj es) = sepBy "and" (es.map (fun x => eOperand (G' + 1) x 2)) := by rw [eExpr]
    have hm : es.map (fun x => eOperand (G' + 1) x 2) = (es.map (tNot N recT)).map yieldT := by
      rw [List.map_map]
      apply List.map_congr_left
      intro x hx
      have hwx := (List.all_eq_true.1 hw.2) x hx
      have hextra := size_add_two_le_interleave (N.lf "AND" "and") (es.map (tNot N recT)) (tNot N recT x) (List.mem_map_of_mem hx) h2
      rw [eOperand_not recT recW Hrec x G' 2 (by omega) hwx]
      exact HN x G' hwx (by omega)
    rw [he, hm, yieldT_nd, yieldL_interleave]
  · rename_i hne
    have hw' : wNot recW e = true := by
      split at hw
      · rename_i es; exact absurd rfl (hne es)
      · exact hw
    simp only [size_nd, sizeL_cons', sizeL_nil'] at hG
    simp only [yieldT_nd, yieldL_cons, yieldL_nil, List.append_nil]
    exact HN e G hw' (by omega)

theorem eOperand_and (x : Expr) (G : Nat) (hw : wAnd recW x = true) : eOperand (G + 1) x 1 = eExpr G x := by
  cases x <;> first
    | (simp [wAnd, wNot, wCmp, wSLNP, wAdd, wMul, wPow, wLevel, wUnary, wNonArith, wProps, isCountStar, wAtom] at hw; done)
    | (simp [eOperand])

theorem yok_xor : YOK (tXor N recT) (wXor recW) := by
  intro e G hw hG
  have HN := yok_and recT recW Hrec
  unfold tXor at hG ⊢
  unfold wXor at hw
  split at hG
  · rename_i es
    simp only [Bool.and_eq_true, decide_eq_true_eq] at hw
    simp only [size_nd] at hG
    have h2 : 2 ≤ (es.map (tAnd N recT)).length := by simpa using hw.1
    obtain ⟨G', rfl⟩ : ∃ G', G = G' + 2 := ⟨G - 2, by
      match es, hw.1 with
      | a :: b :: rest, _ =>
        have := size_add_two_le_interleave (N.lf "XOR" "xor") ((a :: b :: rest).map (tAnd N recT)) (tAnd N recT a) (by simp) (by simp)
        omega⟩
    have he : eExpr (G' + 2) (.xdisj es) = sepBy "xor" (es.map (fun x => eOperand (G' + 1) x 1)) := by rw [eExpr]
    have hm : es.map (fun x => eOperand (G' + 1) x 1) = (es.map (tAnd N recT)).map yieldT := by
      rw [List.map_map]
      apply List.map_congr_left
      intro x hx
      have hwx := (List.all_eq_true.1 hw.2) x hx
      have hextra := size_add_two_le_interleave (N.lf "XOR" "xor") (es.map (tAnd N recT)) (tAnd N recT x) (List.mem_map_of_mem hx) h2
      rw [eOperand_and recT recW Hrec x G' hwx]
      exact HN x G' hwx (by omega)
    rw [he, hm, yieldT_nd, yieldL_interleave]
  · rename_i hne
    have hw' : wAnd recW e = true := by
      split at hw
      · rename_i es; exact absurd rfl (hne es)
      · exact hw
    simp only [size_nd, sizeL_cons', sizeL_nil'] at hG
    simp only [yieldT_nd, yieldL_cons, yieldL_nil, List.append_nil]
    exact HN e G hw' (by omega)

theorem yok_or : YOK (tOr N recT) (wOr recW) := by
  intro e G hw hG
  have HN := yok_xor recT recW Hrec
  unfold tOr at hG ⊢
  unfold wOr at hw
  split at hG
  · rename_i es
    simp only [Bool.and_eq_true, decide_eq_true_eq] at hw
    simp only [size_nd] at hG
    have h2 : 2 ≤ (es.map (tXor N recT)).length := by simpa using hw.1
    obtain ⟨G', rfl⟩ : ∃ G', G = G' + 1 := ⟨G - 1, by omega⟩
    have he : eExpr (G' + 1) (.disj es) = sepBy "or" (es.map (eExpr G')) := by rw [eExpr]
    have hm : es.map (eExpr G') = (es.map (tXor N recT)).map yieldT := by
      rw [List.map_map]
      apply List.map_congr_left
      intro x hx
      have hwx := (List.all_eq_true.1 hw.2) x hx
      have hextra := size_add_two_le_interleave (N.lf "OR" "or") (es.map (tXor N recT)) (tXor N recT x) (List.mem_map_of_mem hx) h2
      exact HN x G' hwx (by omega)
    rw [he, hm, yieldT_nd, yieldL_interleave]
  · rename_i hne
    have hw' : wXor recW e = true := by
      split at hw
      · rename_i es; exact absurd rfl (hne es)
      · exact hw
    simp only [size_nd, sizeL_cons', sizeL_nil'] at hG
    simp only [yieldT_nd, yieldL_cons, yieldL_nil, List.append_nil]
    exact HN e G hw' (by omega)

end Y2

/-- `yield (treeOf e) = emit e` on the expression layer, as ORDERED token sequences, for any fuel ≥ the size of the tree -/
theorem treeOfExpr_yield (N : Names) : ∀ f : Nat, EmitOK N (treeOfExpr N f) (wfExpr f)
  | 0 => by intro e G hw; simp [wfExpr] at hw
  | f + 1 => by
    intro e G hw hG
    exact yok_or (treeOfExpr N f) (wfExpr f) (treeOfExpr_yield N f) e G hw hG

end Dawgs.C07
