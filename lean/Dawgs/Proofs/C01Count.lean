import Dawgs.Model.C01Count
import Dawgs.Proofs.C02
import Dawgs.Proofs.C01Sound
import Dawgs.Proofs.C01Frag
/-
C01 / S1c — the count aggregate over one node pattern: both statement shapes (count-store fast path, node frame) return the number of
nodes that pass the MATCH … WHERE, and so does the reference semantics.
-/
namespace Dawgs.C01.Proofs
open Dawgs Dawgs.Sql Dawgs.C02.Proofs

def countName (al : Option String) : String := al.getD "count"

theorem countItem_name (al : Option String) (arg : Expr) : figureNameE (S1c.countItem al arg) = countName al := by
  cases al <;> rfl

/-- `select count(arg)::int8 [as c] from <table> [where …]` without GROUP BY: one output row, the aggregate over all rows that pass WHERE -/
theorem evalSelect_countA (E : EEnv) (t : String) (alias : Option String) (tbl : Table) (al : Option String) (arg : Expr) (wh : Option Expr)
    (h : lookupTableE E t = .ok tbl) :
    evalSetExpr E (.select false [S1c.countItem al arg] [.mk (.table [t] alias) []] wh [] none) =
      (do let rows ← (tbl.rows.map (fun r => [(⟨alias.getD t, tbl.cols, r⟩ : Binding)])).filterE (whTest E wh)
          let Eg : EEnv := { (E.push (rows.headD [])) with group := some rows }
          let v ← evalAggregate Eg rows "count" false [arg]
          let v' ← castVal "int8" v
          pure ([countName al], [([v'], some Eg)])) := by
  rw [evalSetExpr]
  simp only [Option.isSome_none, Bool.false_eq_true, if_false, evalFrom_single E t alias tbl h, ebind_ok]
  have hagg : hasAggL [S1c.countItem al arg] = true := by
    cases al <;> simp [S1c.countItem, hasAggL, hasAgg, isAggFn]
  simp only [hagg, Bool.true_or, if_true, List.filterMap_nil]
  refine bind_congr (fun rows => ?_)
  have hnamed : ∀ (E' : EEnv), evalNamedItems E' [] [S1c.countItem al arg] = .ok [] := by
    intro E'; rw [evalNamedItems, evalNamedItems]; simp
  simp only [hnamed, groupKey_nil, ebind_ok, epure_ok]
  rw [mapE_pure (fun l => (([] : List Val), l)) rows]
  simp only [ebind_ok, group_all']
  have hev : ∀ (Eg : EEnv) (lvl : Level), Eg.group = some rows →
      evalProj Eg lvl [S1c.countItem al arg] =
        (do let v ← evalAggregate Eg rows "count" false [arg]; let v' ← castVal "int8" v; pure [v']) := by
    intro Eg lvl hg
    have hc : isAggFn "count" = true := by decide
    cases al with
    | none =>
      simp only [S1c.countItem]
      rw [evalProj]
      · rw [evalExpr]
        simp only [hc, if_true, hg, evalProj, bind_assoc, ebind_ok, epure_ok]
      · intro hh; cases hh
    | some a =>
      simp only [S1c.countItem]
      rw [evalProj]
      · rw [evalExpr, evalExpr]
        simp only [hc, if_true, hg, evalProj, bind_assoc, ebind_ok, epure_ok]
      · intro hh; cases hh
  have hn : (fun (p : Expr) => match p with | .wildcard => (rows.headD []).flatMap (·.cols) | e => [figureNameE e]) (S1c.countItem al arg) = [countName al] := by
    cases al <;> rfl
  cases rows with
  | nil =>
    simp only [List.isEmpty_nil, Bool.and_self, if_true, mapE_singleton, List.headD_nil]
    rw [hev _ _ rfl]
    simp only [bind_assoc, ebind_ok, epure_ok, List.flatMap_cons, List.flatMap_nil, List.append_nil]
    cases al <;> rfl
  | cons r rs =>
    simp only [List.isEmpty_cons, Bool.false_and, Bool.false_eq_true, if_false, mapE_singleton, List.headD_cons]
    rw [hev _ _ rfl]
    simp only [bind_assoc, ebind_ok, epure_ok, List.flatMap_cons, List.flatMap_nil, List.append_nil]
    cases al <;> rfl

/-- fast path: `select count(*)::int8 [as c] from node n0 [where w]` -/
theorem fastStmt_eval (km : KindMap) (g : Graph) (al : Option String) (w : Option Expr) (wsem : Option (NodeRec → Cy.Tri))
    (hw : WOK km g (E0 (encode km g)) w wsem) :
    BenignT (Sql.eval (encode km g) (S1c.fastStmt al w) []) (⟨[countName al], [[.int (passing g wsem)]]⟩ : Table) := by
  unfold S1c.fastStmt
  show BenignT (evalQuery (E0 (encode km g)) _) _
  rw [evalQuery_simple, evalSelect_countA _ _ _ _ _ _ _ (lookup_node_table km g)]
  have hrows : (((⟨nodeCols, g.nodes.map (encodeNode km)⟩ : Table).rows).map (fun r => [(⟨(some "n0").getD "node", nodeCols, r⟩ : Binding)])) =
      g.nodes.map (nodeLvl km) := by
    simp [List.map_map, Function.comp_def, nodeLvl]
  rw [hrows]
  simp only [bind_assoc]
  apply benT_bind (filterE_ben (nodeLvl km) _ (fun n => keepW n wsem) g.nodes (whTest_ben km g _ w wsem hw))
  left
  rw [evalAggregate]
  simp only [if_true, ebind_ok, castVal_int8, epure_ok, List.length_map, List.map_cons, List.map_nil, passing]
  rfl

/-- node frame: `with s0 as (…) select count(s0.n0)::int8 [as c] from s0` -/
theorem frameStmt_eval (km : KindMap) (g : Graph) (al : Option String) (w : Option Expr) (wsem : Option (NodeRec → Cy.Tri))
    (hw : WOK km g (E0 (encode km g)) w wsem) :
    BenignT (Sql.eval (encode km g) (S1c.frameStmt al w) []) (⟨[countName al], [[.int (passing g wsem)]]⟩ : Table) := by
  have hst : S1c.frameStmt al w = s1Stmt w [S1c.countItem al (.compound ["s0", "n0"])] [] none none := rfl
  rw [hst, eval_s1Stmt]
  apply benT_bind (frame_eval km g w wsem hw)
  left
  generalize hns : g.nodes.filter (fun n => keepW n wsem) = ns
  have hl : lookupTableE (E1 (encode km g) ⟨["n0"], ns.map (fun n => [nodeVal km n])⟩) "s0" = .ok ⟨["n0"], ns.map (fun n => [nodeVal km n])⟩ := by
    simp [lookupTableE, E1]
  rw [evalSelect_countA _ _ _ _ _ _ _ hl]
  have hrows : (((⟨["n0"], ns.map (fun n => [nodeVal km n])⟩ : Table).rows).map (fun r => [(⟨(none : Option String).getD "s0", ["n0"], r⟩ : Binding)])) =
      ns.map (sLvl km) := by
    simp [List.map_map, Function.comp_def, sLvl]
  rw [hrows, whTest_none, filterE_true]
  simp only [ebind_ok]
  rw [evalAggregate]
  · rw [count_s0]
    simp only [ebind_ok, Bool.false_eq_true, if_false, epure_ok, filter_nonnull_nodeVal, castVal_int8, evalOrderKeys, mapE_singleton,
      orderRows, keysComparable, List.map_cons, List.map_nil]
    simp [passing, hns, evalOpt, cutRows, Sql.sortBy, Sql.insertBy]
    clear hl hrows hns hw hst
    induction ns with
    | nil => rfl
    | cons n ns ih => simp_all [List.filter_cons, nodeVal]
  · intro hh; cases hh

-- ------------------------------------------------------------------ Cypher side

section Cy
open Dawgs.Cy

/-- GROUP BY nothing in the reference semantics: all rows fall into one group, in input order -/
theorem groupRows_nokeys (g : Graph) : ∀ (envs : List Env), groupRows .none g [] envs = .ok (if envs.isEmpty then [] else [([], envs)])
  | [] => rfl
  | env :: rest => by
    rw [groupRows, groupRows_nokeys g rest]
    simp only [Cy.evalExprs, ebind_ok]
    cases rest with
    | nil => rfl
    | cons e2 r2 => rfl

/-- CYPHER SIDE of S1c: one row holding the number of nodes that pass kinds and predicate -/
theorem cy_side_count (g : Graph) (q : S1c.Query) (hn : ∀ n ∈ g.nodes, g.node? n.id = some n) :
    ∃ names, Cy.eval .none g q.toCy = .ok (names, [[.int ((g.nodes.filter (keepS q.s1)).length)]]) := by
  have hc := clause_eval g q.s1 hn
  have hcl : q.toCy.clauses = q.s1.toCy.clauses := rfl
  unfold Cy.eval
  have hparts : q.toCy.parts = [] := rfl
  simp only [hparts, evalParts, ebind_ok, List.isEmpty_nil, hcl, hc]
  unfold evalProjection
  have hall : q.toCy.ret.all = false := rfl
  have hdist : q.toCy.ret.distinct = false := rfl
  have hitems : q.toCy.ret.items = [⟨.fn "count" false [.var q.var], q.alias⟩] := rfl
  have hob : q.toCy.ret.orderBy = [] := rfl
  have hskip : q.toCy.ret.skip = none := rfl
  have hlim : q.toCy.ret.limit = none := rfl
  have hagg : hasAggregate (.fn "count" false [.var q.var]) = true := by simp [hasAggregate, isAggregate]
  simp only [hall, hdist, hitems, hob, hskip, hlim, Bool.false_eq_true, if_false, List.any_cons, List.any_nil, hagg, Bool.or_false, if_true,
    Bool.or_true]
  generalize hns : g.nodes.filter (keepS q.s1) = ns
  have hgr : groupedRows .none g (Cy.projNames [⟨.fn "count" false [.var q.var], q.alias⟩]) [⟨.fn "count" false [.var q.var], q.alias⟩]
      (ns.map (fun n => [(q.s1.var, CVal.node n.id)])) =
      .ok [([.int ns.length], (Cy.projNames [⟨.fn "count" false [.var q.var], q.alias⟩]).zip [CVal.int ns.length])] := by
    unfold groupedRows
    simp only [List.filter_cons, hagg, Bool.not_true, Bool.false_eq_true, if_false, List.filter_nil, List.map_nil, groupRows_nokeys, ebind_ok]
    have hev : ∀ (grp : List Env), (∀ env ∈ grp, ∃ i, env.lookup q.var = some (.node i)) →
        evalItem .none g grp (grp.headD []) (.fn "count" false [.var q.var]) = .ok (.int grp.length) := by
      intro grp hgrp
      unfold evalItem aggCall?
      simp only [isAggregate, List.contains_cons, beq_self_eq_true, Bool.true_or, if_true]
      unfold aggregate
      have hm : grp.mapE (fun env => Cy.evalExpr .none g env false (.var q.var)) = .ok (grp.map (fun env => (env.lookup q.var).getD .null)) := by
        have := mapE_map_ok (fun (e : Env) => e) (fun env => Cy.evalExpr .none g env false (.var q.var)) (fun env => (env.lookup q.var).getD .null) grp
          (fun env henv => by
            obtain ⟨i, hi⟩ := hgrp env henv
            rw [Cy.evalExpr]; simp only [lookupVar, hi, Option.getD_some])
        simpa using this
      simp only [hm, ebind_ok, Bool.false_eq_true, if_false, epure_ok]
      congr 2
      rw [List.filter_eq_self.mpr ?_, List.length_map]
      intro v hv
      obtain ⟨env, henv, rfl⟩ := List.mem_map.mp hv
      obtain ⟨i, hi⟩ := hgrp env henv
      simp [hi]
    cases ns with
    | nil =>
      simp only [List.map_nil, List.isEmpty_nil, if_true, Bool.and_self, mapE_singleton]
      rw [hev [] (fun _ h => by cases h)]
      simp only [ebind_ok, epure_ok, List.length_nil]
    | cons n ns' =>
      simp only [List.map_cons, List.isEmpty_cons, Bool.false_eq_true, if_false, Bool.false_and, mapE_singleton]
      rw [hev ([(q.s1.var, CVal.node n.id)] :: List.map (fun (m : NodeRec) => [(q.s1.var, CVal.node m.id)]) ns') (fun env henv => by
        rcases List.mem_cons.mp henv with rfl | henv
        · exact ⟨n.id, by simp [S1c.Query.s1, List.lookup]⟩
        · obtain ⟨m, _, rfl⟩ := List.mem_map.mp henv
          exact ⟨m.id, by simp [S1c.Query.s1, List.lookup]⟩)]
      simp only [ebind_ok, epure_ok, List.length_map, List.length_cons]
  rw [hgr]
  simp only [ebind_ok, keyRows_none, intOf, cutKeyed, epure_ok, List.map_cons, List.map_nil, Bool.false_eq_true, if_false]
  exact ⟨_, rfl⟩

end Cy

-- ------------------------------------------------------------------ the stage theorem

/-- STAGE S1c (count over one node pattern), for ALL graphs satisfying `GraphOK`, ALL queries of the stage and BOTH statement shapes (with /
without the count-store fast path): the reference semantics yields one row with the number of matching nodes; the emitted statement yields
the same row, or the SQL model stops with `unmodelled` -/
theorem count_sound (km : KindMap) (g : Graph) (hok : GraphOK km g) (q : S1c.Query) (fast : Bool) (st : Stmt) (h : q.trWith km fast = some st) :
    ∃ r names rows, Cy.eval .none g q.toCy = .ok r ∧ BenignT (Sql.eval (encode km g) st []) (⟨names, rows⟩ : Table) ∧
      sqlRows ⟨names, rows⟩ = cyRows g km r := by
  have hn : ∀ n ∈ g.nodes, g.node? n.id = some n := find_of_nodup g.nodes hok.nodup
  unfold S1c.Query.trWith at h
  obtain ⟨w, hw, hst⟩ := Option.map_eq_some_iff.mp h
  have hwok := whereOf_ok km g hok q.s1 w (E0 (encode km g)) hw
  obtain ⟨names, hcy⟩ := cy_side_count g q hn
  have hk : passing g (semW q.s1) = (g.nodes.filter (keepS q.s1)).length := by
    unfold passing
    congr 2
    funext n
    exact keepW_semW q.s1 n
  have hrows : sqlRows ⟨[countName q.alias], [[.int (passing g (semW q.s1))]]⟩ =
      cyRows g km (names, [[Cy.CVal.int ((g.nodes.filter (keepS q.s1)).length)]]) := by
    simp [sqlRows, cyRows, valsToR, valToR, Cy.CVal.toR, hk]
  cases hf : (fast && q.fastOK) with
  | true =>
    rw [hf] at hst
    simp only [if_true] at hst
    subst hst
    exact ⟨_, _, _, hcy, fastStmt_eval km g q.alias w (semW q.s1) hwok, hrows⟩
  | false =>
    rw [hf] at hst
    simp only [Bool.false_eq_true, if_false] at hst
    subst hst
    exact ⟨_, _, _, hcy, frameStmt_eval km g q.alias w (semW q.s1) hwok, hrows⟩

/-- an accepted parsed query is exactly the Cypher reading of the S1c query returned -/
theorem ofCyCount1_sound (q : Cy.Query) (s : S1c.Query) (h : ofCyCount1 q = some s) : s.toCy = q := by
  unfold ofCyCount1 at h
  split at h
  · rename_i v kinds wh hparts hclauses
    split at h
    · cases h
    · rename_i hcond
      simp only [Bool.or_eq_true, not_or, Bool.not_eq_true, Bool.not_eq_true'] at hcond
      simp only [bind, Option.bind_eq_some_iff] at h
      obtain ⟨w, hw, h⟩ := h
      have hwh : w.map (S1.Pred.toCy v) = wh := by
        cases wh with
        | none => simp only at hw; cases hw; rfl
        | some e =>
          simp only [Option.map_eq_some_iff] at hw
          obtain ⟨p, hp, rfl⟩ := hw
          simp only [Option.map_some, (predOf_sound v).1 e p hp]
      split at h
      · rename_i v' al hitems
        split at h
        · rename_i hv
          have := eq_of_beq hv
          subst this
          simp only [Option.some.injEq] at h
          subst h
          cases q with
          | mk parts clauses ret =>
            cases ret with
            | mk distinct all ritems orderBy rskip rlimit =>
              simp only at hparts hclauses hcond hitems
              subst hparts hclauses hitems
              simp only [S1c.Query.toCy, hwh, Cy.Query.mk.injEq, Cy.Projection.mk.injEq, true_and]
              simp_all
        · cases h
      · cases h
  · cases h

end Dawgs.C01.Proofs
