import Dawgs.Model.C03Bind
/-! C03 proofs: the binder's lookups agree with the resolution semantics' lookups; soundness of every binder pass. -/
namespace Dawgs.Sql

theorem bRel_eq (n : String) (rs : List Rel) : bRel n rs = findRel n rs := by
  induction rs with
  | nil => rfl
  | cons r rs ih =>
    simp only [bRel, List.find?, findRel] at *
    split <;> simp_all

theorem bFunc_eq (n : String) (fs : List Func) : bFunc n fs = findFunc n fs := by
  induction fs with
  | nil => rfl
  | cons f fs ih =>
    simp only [bFunc, List.find?, findFunc] at *
    split <;> simp_all

theorem bCount_eq (c : String) (cols : List Col) : bCount c cols = (colsNamed c cols).length := by
  simp [bCount, colsNamed, List.countP_eq_length_filter]

theorem bColTy_sound {c : String} {cols : List Col} {τ : Ty} (h : bColTy c cols = some τ) :
    ∃ x, colsNamed c cols = [x] ∧ x.ty = τ := by
  unfold bColTy at h
  split at h
  · rename_i h1
    rw [bCount_eq] at h1
    have h1' : (colsNamed c cols).length = 1 := by simpa using h1
    match hf : colsNamed c cols, h1' with
    | [x], _ =>
      refine ⟨x, rfl, ?_⟩
      have : cols.find? (fun x => x.name == c) = some x := by
        have := List.head?_filter (p := fun x : Col => x.name == c) (l := cols)
        simp only [colsNamed] at hf
        rw [hf] at this
        simpa using this.symm
      rw [this] at h
      simpa using h
  · simp at h

theorem bQualified_sound {t c : String} {lv : List (List Rel)} {τ : Ty} (h : bQualified t c lv = some τ) :
    lookupQualified t c lv = .ok τ := by
  induction lv with
  | nil => simp [bQualified] at h
  | cons lvl rest ih =>
    simp only [bQualified, bRel_eq] at h
    simp only [lookupQualified]
    split at h
    · rename_i r hr
      obtain ⟨x, hx, hτ⟩ := bColTy_sound h
      simp [hr, hx, hτ]
    · rename_i hr
      simp [hr, ih h]

theorem levelColsNamed_eq (c : String) (lvl : List Rel) : levelColsNamed c lvl = colsNamed c (bLevelCols lvl) := by
  induction lvl with
  | nil => rfl
  | cons r rs ih => simp [levelColsNamed, bLevelCols, colsNamed, ih, List.flatMap_cons] at *

theorem allCols_eq (lvl : List Rel) : allCols lvl = bLevelCols lvl := by
  induction lvl with
  | nil => rfl
  | cons r rs ih => simp [allCols, bLevelCols, ih, List.flatMap_cons] at *

theorem bUnqualifiedCol_sound {c : String} {lv : List (List Rel)} :
    (∀ τ, bUnqualifiedCol c lv = some (some τ) → lookupUnqualifiedCol c lv = some (.ok τ)) ∧
    (bUnqualifiedCol c lv = none → lookupUnqualifiedCol c lv = none) := by
  induction lv with
  | nil => simp [bUnqualifiedCol, lookupUnqualifiedCol]
  | cons lvl rest ih =>
    simp only [bUnqualifiedCol, lookupUnqualifiedCol, levelColsNamed_eq]
    split
    · rename_i h0
      rw [bCount_eq] at h0
      have : colsNamed c (bLevelCols lvl) = [] := by
        have : (colsNamed c (bLevelCols lvl)).length = 0 := by simpa using h0
        exact List.eq_nil_of_length_eq_zero this
      simp only [this]
      exact ih
    · rename_i h0
      constructor
      · intro τ h
        have h' : bColTy c (bLevelCols lvl) = some τ := by simpa using h
        obtain ⟨x, hx, hτ⟩ := bColTy_sound h'
        simp [hx, hτ]
      · intro h; simp at h

theorem bWholeRow_sound {t : String} {lv : List (List Rel)} {τ : Ty} (h : bWholeRow t lv = some τ) :
    lookupWholeRow t lv = .ok τ := by
  induction lv with
  | nil => simp [bWholeRow] at h
  | cons lvl rest ih =>
    simp only [bWholeRow, bRel_eq] at h
    simp only [lookupWholeRow]
    split at h
    · rename_i hs
      match hf : findRel t lvl with
      | some r => simp at h; simp [h]
      | none => simp [hf] at hs
    · rename_i hs
      match hf : findRel t lvl with
      | some r => simp [hf] at hs
      | none => simp [ih h]

theorem bUnqualified_sound {c : String} {lv : List (List Rel)} {τ : Ty} (h : bUnqualified c lv = some τ) :
    lookupUnqualified c lv = .ok τ := by
  unfold bUnqualified at h
  unfold lookupUnqualified
  split at h
  · rename_i r hr
    subst h
    rw [bUnqualifiedCol_sound.1 τ hr]
  · rename_i hr
    rw [bUnqualifiedCol_sound.2 hr]
    exact bWholeRow_sound h

theorem bName_sound {ps : List String} {lv : List (List Rel)} {τ : Ty} (h : bName lv ps = some τ) :
    lookupName lv ps = .ok τ := by
  match ps, h with
  | [c], h => exact bUnqualified_sound h
  | [t, c], h => exact bQualified_sound h
  | [], h => simp [bName] at h
  | _ :: _ :: _ :: _, h => simp [bName] at h

theorem bFieldTy_sound {cat : Catalog} {t c : String} {τ : Ty} (h : bFieldTy cat t c = some τ) :
    fieldTy cat t c = .ok τ := by
  unfold bFieldTy at h
  unfold fieldTy
  split at h
  · simp at h
  · rename_i ht
    simp only [ht]
    rw [bRel_eq] at h
    split at h
    · rename_i r hr
      obtain ⟨x, hx, hτ⟩ := bColTy_sound h
      simp [hr, hx, hτ]
    · simp at h

theorem bType_sound {cat : Catalog} {t : Ty} (h : bType cat t = some ()) : checkType cat t = .ok () := by
  unfold bType at h; unfold checkType
  split at h <;> simp_all

theorem bRelation_sound {cat : Catalog} {ctes : List Rel} {n : List String} {r : Rel} (h : bRelation cat ctes n = some r) :
    lookupRelation cat ctes n = .ok r := by
  match n, h with
  | [t], h =>
    simp only [bRelation, bRel_eq] at h
    simp only [lookupRelation]
    match h1 : findRel t ctes with
    | some r' => simp [h1] at h; simp [h]
    | none =>
      simp [h1] at h
      simp [h]
  | [], h => simp [bRelation] at h
  | _ :: _ :: _, h => simp [bRelation] at h

theorem bTable_sound {cat : Catalog} {n : List String} {r : Rel} (h : bTable cat n = some r) :
    lookupTable cat n = .ok r := by
  match n, h with
  | [t], h =>
    simp only [bTable, bRel_eq] at h
    simp [lookupTable, h]
  | [], h => simp [bTable] at h
  | _ :: _ :: _, h => simp [bTable] at h

theorem bCols_sound {t : String} {have_ : List Col} {want : List String} (h : bCols have_ want = some ()) :
    checkCols t have_ want = .ok () := by
  induction want with
  | nil => rfl
  | cons c cs ih =>
    unfold bCols at h
    split at h
    · rename_i hall
      simp only [List.all_cons, Bool.and_eq_true] at hall
      simp only [checkCols]
      have h1 : (colsNamed c have_).length = 1 := by
        have := hall.1; rw [bCount_eq] at this; simpa using this
      simp only [h1, BEq.rfl, if_true]
      apply ih
      simp [bCols, hall.2]
    · simp at h

theorem bShape_sound {name : String} {shape : Option (List String)} {cols : List Col} {r : Rel}
    (h : bShape name shape cols = some r) : applyShape name shape cols = .ok r := by
  unfold bShape at h; unfold applyShape
  split at h
  · simp at h; simp [h]
  · split at h
    · rename_i hl; simp at h; simp [hl, h]
    · simp at h

theorem any_name_eq (n : String) (rs : List Rel) : rs.any (fun x => x.name == n) = (findRel n rs).isSome := by
  induction rs with
  | nil => rfl
  | cons r rs ih =>
    simp only [List.any_cons, findRel]
    split <;> simp_all

theorem bAddRte_sound {r : Rel} {before tree out : List Rel} (h : bAddRte r before tree = some out) :
    addRte r before tree = .ok out := by
  unfold bAddRte at h; unfold addRte dupAlias
  rw [any_name_eq] at h
  split at h
  · simp at h
  · rename_i hn
    simp at h
    simp only [hn]
    simp [h]

theorem bUpdating_sound {Γ : Env} (h : bUpdating Γ = some ()) : requireUpdating Γ = .ok () := by
  unfold bUpdating at h; unfold requireUpdating
  split at h <;> simp_all

-- ------------------------------------------------------------------ soundness of the binder passes

theorem obind {α β} {x : Option α} {f : α → Option β} {b : β} (h : (x >>= f) = some b) : ∃ a, x = some a ∧ f a = some b := by
  cases x with
  | none => simp at h
  | some a => exact ⟨a, rfl, by simpa using h⟩

@[simp] theorem ebind_ok {ε α β : Type} (a : α) (f : α → Except ε β) : ((Except.ok a : Except ε α) >>= f) = f a := rfl
@[simp] theorem emap_ok {ε α β : Type} (a : α) (f : α → β) : (f <$> (Except.ok a : Except ε α)) = Except.ok (f a) := rfl
@[simp] theorem epure_ok {ε α : Type} (a : α) : (pure a : Except ε α) = Except.ok a := rfl

set_option maxHeartbeats 1000000 in
mutual
theorem bExpr_sound (Γ : Env) : (e : Expr) → (sc : Scope) → (τ : Ty) → bExpr Γ sc e = some τ → resolveExpr Γ sc e = .ok τ
  | .lit _ ty, sc, τ, h => by simp only [bExpr] at h; simp only [resolveExpr]; simp_all
  | .ident n, sc, τ, h => by simp only [bExpr] at h; simp only [resolveExpr]; exact bUnqualified_sound h
  | .compound ps, sc, τ, h => by simp only [bExpr] at h; simp only [resolveExpr]; exact bName_sound h
  | .rowCol e c, sc, τ, h => by
    simp only [bExpr] at h
    obtain ⟨t, ht, h⟩ := obind h
    simp only [resolveExpr, bExpr_sound Γ e sc t ht]
    exact bFieldTy_sound h
  | .param n ty, sc, τ, h => by
    simp only [bExpr] at h
    simp only [resolveExpr]
    split at h
    · rename_i hp
      obtain ⟨u, hu, h⟩ := obind h
      simp only [hp, if_true, bType_sound hu]
      simpa using h
    · simp at h
  | .bin op l r, sc, τ, h => by
    simp only [bExpr] at h
    obtain ⟨tl, htl, h⟩ := obind h
    obtain ⟨tr, htr, h⟩ := obind h
    simp only [resolveExpr, bExpr_sound Γ l sc tl htl, bExpr_sound Γ r sc tr htr]
    simpa using h
  | .un _ e, sc, τ, h => by
    simp only [bExpr] at h
    obtain ⟨t, ht, h⟩ := obind h
    simp only [resolveExpr, bExpr_sound Γ e sc t ht]
    simpa using h
  | .paren e, sc, τ, h => by
    simp only [bExpr] at h; simp only [resolveExpr]; exact bExpr_sound Γ e sc τ h
  | .call fn args d b ty, sc, τ, h => by
    simp only [bExpr] at h
    obtain ⟨tys, htys, h⟩ := obind h
    obtain ⟨f, hf, h⟩ := obind h
    rw [bFunc_eq] at hf
    simp only [resolveExpr, bExprs_sound Γ args sc tys htys, ebind_ok, hf]
    split at h
    · rename_i ha
      obtain ⟨u, hu, h⟩ := obind h
      simp only [ha, if_true, bType_sound hu]
      simpa using h
    · simp at h
  | .cast e ty, sc, τ, h => by
    simp only [bExpr] at h
    obtain ⟨t, ht, h⟩ := obind h
    obtain ⟨u, hu, h⟩ := obind h
    simp only [resolveExpr, bExpr_sound Γ e sc t ht, ebind_ok, bType_sound hu]
    simpa using h
  | .composite vals ty, sc, τ, h => by
    simp only [bExpr] at h
    obtain ⟨tys, htys, h⟩ := obind h
    obtain ⟨r, hr, h⟩ := obind h
    rw [bRel_eq] at hr
    simp only [resolveExpr, bExprs_sound Γ vals sc tys htys, ebind_ok, hr]
    split at h
    · rename_i hl; simp only [hl, if_true]; simpa using h
    · simp at h
  | .array vals ty, sc, τ, h => by
    simp only [bExpr] at h
    obtain ⟨tys, htys, h⟩ := obind h
    obtain ⟨u, hu, h⟩ := obind h
    simp only [resolveExpr, bExprs_sound Γ vals sc tys htys, ebind_ok, bType_sound hu]
    simpa using h
  | .index e idx, sc, τ, h => by
    simp only [bExpr] at h
    obtain ⟨t, ht, h⟩ := obind h
    obtain ⟨ts, hts, h⟩ := obind h
    simp only [resolveExpr, bExpr_sound Γ e sc t ht, bExprs_sound Γ idx sc ts hts]
    simpa using h
  | .slice e lo hi, sc, τ, h => by
    simp only [bExpr] at h
    obtain ⟨t, ht, h⟩ := obind h
    obtain ⟨a, ha, h⟩ := obind h
    obtain ⟨b, hb, h⟩ := obind h
    simp only [resolveExpr, bExpr_sound Γ e sc t ht, ebind_ok, bOpt_sound Γ lo sc a ha, bOpt_sound Γ hi sc b hb]
    simpa using h
  | .anyOf e, sc, τ, h => by
    simp only [bExpr] at h
    obtain ⟨t, ht, h⟩ := obind h
    simp only [resolveExpr, bExpr_sound Γ e sc t ht]
    simpa using h
  | .allOf e, sc, τ, h => by
    simp only [bExpr] at h
    obtain ⟨t, ht, h⟩ := obind h
    simp only [resolveExpr, bExpr_sound Γ e sc t ht]
    simpa using h
  | .exists q _, sc, τ, h => by
    simp only [bExpr] at h
    obtain ⟨cols, hc, h⟩ := obind h
    simp only [resolveExpr, bQuery_sound Γ q sc cols hc]
    simpa using h
  | .subquery q, sc, τ, h => by
    simp only [bExpr] at h
    obtain ⟨cols, hc, h⟩ := obind h
    simp only [resolveExpr, bQuery_sound Γ q sc cols hc, ebind_ok]
    match cols, h with
    | [c], h => simpa using h
    | [], h => simp at h
    | _ :: _ :: _, h => simp at h
  | .arrayOf q, sc, τ, h => by
    simp only [bExpr] at h
    obtain ⟨cols, hc, h⟩ := obind h
    simp only [resolveExpr, bQuery_sound Γ q sc cols hc, ebind_ok]
    match cols, h with
    | [c], h => simpa using h
    | [], h => simp at h
    | _ :: _ :: _, h => simp at h
  | .case op whens els, sc, τ, h => by
    simp only [bExpr] at h
    obtain ⟨a, ha, h⟩ := obind h
    obtain ⟨tys, htys, h⟩ := obind h
    obtain ⟨b, hb, h⟩ := obind h
    simp only [resolveExpr, bOpt_sound Γ op sc a ha, ebind_ok, bWhens_sound Γ whens sc tys htys, bOpt_sound Γ els sc b hb]
    simpa using h
  | .aliased e _, sc, τ, h => by
    simp only [bExpr] at h; simp only [resolveExpr]; exact bExpr_sound Γ e sc τ h
  | .wildcard, sc, τ, h => by simp only [bExpr] at h; simp only [resolveExpr]; simp_all
  | .edgeArray ids, sc, τ, h => by
    simp only [bExpr] at h
    obtain ⟨t, ht, h⟩ := obind h
    obtain ⟨e, he, h⟩ := obind h
    obtain ⟨u, hu, h⟩ := obind h
    obtain ⟨v, hv, h⟩ := obind h
    simp only [resolveExpr, bExpr_sound Γ ids sc t ht, ebind_ok, bTable_sound he, bCols_sound (t := "edge") hu, bType_sound hv]
    simpa using h
  | .extract _ src, sc, τ, h => by
    simp only [bExpr] at h
    obtain ⟨t, ht, h⟩ := obind h
    simp only [resolveExpr, bExpr_sound Γ src sc t ht]
    simpa using h
  | .variadic e, sc, τ, h => by
    simp only [bExpr] at h; simp only [resolveExpr]; exact bExpr_sound Γ e sc τ h

theorem bOpt_sound (Γ : Env) : (o : Option Expr) → (sc : Scope) → (τ : Ty) → bOpt Γ sc o = some τ → resolveOpt Γ sc o = .ok τ
  | none, sc, τ, h => by simp only [bOpt] at h; simp only [resolveOpt]; simp_all
  | some e, sc, τ, h => by simp only [bOpt] at h; simp only [resolveOpt]; exact bExpr_sound Γ e sc τ h

theorem bExprs_sound (Γ : Env) : (es : List Expr) → (sc : Scope) → (τs : List Ty) → bExprs Γ sc es = some τs → resolveExprs Γ sc es = .ok τs
  | [], sc, τs, h => by simp only [bExprs] at h; simp only [resolveExprs]; simp_all
  | e :: es, sc, τs, h => by
    simp only [bExprs] at h
    obtain ⟨t, ht, h⟩ := obind h
    obtain ⟨ts, hts, h⟩ := obind h
    simp only [resolveExprs, bExpr_sound Γ e sc t ht, bExprs_sound Γ es sc ts hts]
    simpa using h

theorem bWhens_sound (Γ : Env) : (ws : List (Expr × Expr)) → (sc : Scope) → (τs : List Ty) → bWhens Γ sc ws = some τs → resolveWhens Γ sc ws = .ok τs
  | [], sc, τs, h => by simp only [bWhens] at h; simp only [resolveWhens]; simp_all
  | (c, v) :: ws, sc, τs, h => by
    simp only [bWhens] at h
    obtain ⟨a, ha, h⟩ := obind h
    obtain ⟨t, ht, h⟩ := obind h
    obtain ⟨ts, hts, h⟩ := obind h
    simp only [resolveWhens, bExpr_sound Γ c sc a ha, bExpr_sound Γ v sc t ht, bWhens_sound Γ ws sc ts hts]
    simpa using h

theorem bProj_sound (Γ : Env) : (es : List Expr) → (sc : Scope) → (lvl : List Rel) → (out : List Col) →
    bProj Γ sc lvl es = some out → resolveProj Γ sc lvl es = .ok out
  | [], sc, lvl, out, h => by simp only [bProj] at h; simp only [resolveProj]; simp_all
  | .wildcard :: es, sc, lvl, out, h => by
    simp only [bProj] at h
    obtain ⟨rest, hr, h⟩ := obind h
    simp only [resolveProj, bProj_sound Γ es sc lvl rest hr, allCols_eq]
    simpa using h
  | e :: es, sc, lvl, out, h => by
    by_cases hw : e = .wildcard
    · subst hw
      simp only [bProj] at h
      obtain ⟨rest, hr, h⟩ := obind h
      simp only [resolveProj, bProj_sound Γ es sc lvl rest hr, allCols_eq]
      simpa using h
    · rw [bProj.eq_3 _ _ _ _ _ (by intro hh; exact hw hh)] at h
      obtain ⟨t, ht, h⟩ := obind h
      obtain ⟨rest, hr, h⟩ := obind h
      rw [resolveProj.eq_3 _ _ _ _ _ (by intro hh; exact hw hh)]
      simp only [bExpr_sound Γ e sc t ht, bProj_sound Γ es sc lvl rest hr]
      simpa using h

theorem bGroupBy_sound (Γ : Env) : (es : List Expr) → (sc : Scope) → (out : List Col) →
    bGroupBy Γ sc out es = some () → resolveGroupBy Γ sc out es = .ok ()
  | [], sc, out, h => by simp only [resolveGroupBy]
  | e :: es, sc, out, h => by
    simp only [bGroupBy] at h
    simp only [resolveGroupBy]
    split at h
    · rename_i n hn
      simp only [hn]
      split at h
      · rename_i r hr
        obtain ⟨τ, hτ, h⟩ := obind h
        subst hτ
        rw [bUnqualifiedCol_sound.1 τ hr]
        simp only [ebind_ok]
        exact bGroupBy_sound Γ es sc out h
      · rename_i hr
        rw [bUnqualifiedCol_sound.2 hr]
        simp only [outputNamed, ← bCount_eq]
        split at h
        · rename_i h1
          simp only [h1, if_true]
          exact bGroupBy_sound Γ es sc out h
        · rename_i h1
          split at h
          · rename_i h0
            obtain ⟨u, hu, h⟩ := obind h
            obtain ⟨τ, hτ, _⟩ := obind hu
            simp only [h1, h0, if_true, bExpr_sound Γ e sc τ hτ, ebind_ok]
            exact bGroupBy_sound Γ es sc out h
          · simp at h
    · rename_i hn
      obtain ⟨τ, hτ, h⟩ := obind h
      simp only [hn, bExpr_sound Γ e sc τ hτ, ebind_ok]
      exact bGroupBy_sound Γ es sc out h

theorem bOrderBy_sound (Γ : Env) : (es : List (Expr × Bool)) → (sc : Scope) → (out : List Col) → (simple : Bool) →
    bOrderBy Γ sc out simple es = some () → resolveOrderBy Γ sc out simple es = .ok ()
  | [], sc, out, simple, h => by simp only [resolveOrderBy]
  | (e, asc) :: es, sc, out, simple, h => by
    simp only [bOrderBy] at h
    simp only [resolveOrderBy]
    split at h
    · rename_i n hn
      simp only [hn, outputNamed, ← bCount_eq]
      split at h
      · rename_i h1
        simp only [h1, if_true]
        exact bOrderBy_sound Γ es sc out simple h
      · rename_i h1
        split at h
        · rename_i h0
          obtain ⟨u, hu, h⟩ := obind h
          split at hu
          · rename_i hs
            obtain ⟨τ, hτ, _⟩ := obind hu
            have ih := bOrderBy_sound Γ es sc out simple h
            simp only [hs] at ih h1 h0 ⊢
            simp [h1, h0, bExpr_sound Γ e sc τ hτ, ih]
          · simp at hu
        · simp at h
    · rename_i hn
      split at h
      · rename_i hs
        obtain ⟨u, hu, h⟩ := obind h
        obtain ⟨τ, hτ, _⟩ := obind hu
        have ih := bOrderBy_sound Γ es sc out simple h
        simp only [hs] at ih ⊢
        simp [hn, bExpr_sound Γ e sc τ hτ, ih]
      · simp at h

theorem bFromItem_sound (Γ : Env) : (f : FromItem) → (sc : Scope) → (vis : List Rel) → (r : Rel) →
    bFromItem Γ sc vis f = some r → resolveFromItem Γ sc vis f = .ok r
  | .table name alias, sc, vis, r, h => by
    simp only [bFromItem] at h
    obtain ⟨r0, hr0, h⟩ := obind h
    simp only [resolveFromItem, bRelation_sound hr0]
    simpa using h
  | .lateral q alias, sc, vis, r, h => by
    simp only [bFromItem] at h
    obtain ⟨cols, hc, h⟩ := obind h
    simp only [resolveFromItem, bQuery_sound Γ q (sc.push vis) cols hc]
    simpa using h
  | .func e alias, sc, vis, r, h => by
    simp only [bFromItem] at h
    simp only [resolveFromItem]
    split at h
    · rename_i fn hfn
      obtain ⟨t, ht, h⟩ := obind h
      obtain ⟨f, hf, h⟩ := obind h
      rw [bFunc_eq] at hf
      simp only [hfn, bExpr_sound Γ e (sc.push vis) t ht, ebind_ok, hf]
      simpa using h
    · simp at h

theorem bJoins_sound (Γ : Env) : (js : List Join) → (sc : Scope) → (before tree out : List Rel) →
    bJoins Γ sc before tree js = some out → resolveJoins Γ sc before tree js = .ok out
  | [], sc, before, tree, out, h => by simp only [bJoins] at h; simp only [resolveJoins]; simp_all
  | .mk k item on :: js, sc, before, tree, out, h => by
    simp only [bJoins] at h
    obtain ⟨r, hr, h⟩ := obind h
    obtain ⟨tree', ht, h⟩ := obind h
    obtain ⟨a, ha, h⟩ := obind h
    simp only [resolveJoins, bFromItem_sound Γ item sc (before ++ tree) r hr, ebind_ok,
      bAddRte_sound (r := r) (before := before) (tree := tree) (out := tree') ht,
      bOpt_sound Γ on (sc.push tree') a ha]
    exact bJoins_sound Γ js sc before tree' out h

theorem bFromClauses_sound (Γ : Env) : (fs : List FromClause) → (sc : Scope) → (before out : List Rel) →
    bFromClauses Γ sc before fs = some out → resolveFromClauses Γ sc before fs = .ok out
  | [], sc, before, out, h => by simp only [bFromClauses] at h; simp only [resolveFromClauses]; simp_all
  | .mk src joins :: fs, sc, before, out, h => by
    simp only [bFromClauses] at h
    obtain ⟨r, hr, h⟩ := obind h
    obtain ⟨tree, ht, h⟩ := obind h
    obtain ⟨tree', ht', h⟩ := obind h
    simp only [resolveFromClauses, bFromItem_sound Γ src sc before r hr, ebind_ok,
      bAddRte_sound (r := r) (before := before) (tree := []) (out := tree) ht,
      bJoins_sound Γ joins sc before tree tree' ht']
    exact bFromClauses_sound Γ fs sc (before ++ tree') out h

theorem bAssignments_sound (Γ : Env) : (as : List Expr) → (sc : Scope) → (t : Rel) →
    bAssignments Γ sc t as = some () → resolveAssignments Γ sc t as = .ok ()
  | [], sc, t, h => by simp only [resolveAssignments]
  | e :: as, sc, t, h => by
    by_cases hb : ∃ lhs rhs, e = .bin "=" lhs rhs
    · obtain ⟨lhs, rhs, he⟩ := hb
      subst he
      simp only [bAssignments] at h
      simp only [resolveAssignments]
      split at h
      · rename_i c hc
        obtain ⟨u, hu, h⟩ := obind h
        obtain ⟨τ, hτ, h⟩ := obind h
        simp only [hc, bCols_sound (t := t.name) hu, ebind_ok, bExpr_sound Γ rhs sc τ hτ]
        exact bAssignments_sound Γ as sc t h
      · simp at h
    · rw [bAssignments.eq_3] at h
      · simp at h
      · intro lhs' rhs' hh
        exact hb ⟨lhs', rhs', hh⟩

theorem bSetExpr_sound (Γ : Env) : (b : SetExpr) → (sc : Scope) → (out : List Col × Scope) →
    bSetExpr Γ sc b = some out → resolveSetExpr Γ sc b = .ok out
  | .select _ proj frm wh groupBy having, sc, out, h => by
    simp only [bSetExpr] at h
    obtain ⟨lvl, hl, h⟩ := obind h
    obtain ⟨a, ha, h⟩ := obind h
    obtain ⟨o, ho, h⟩ := obind h
    obtain ⟨u, hu, h⟩ := obind h
    obtain ⟨b, hb, h⟩ := obind h
    simp only [resolveSetExpr, bFromClauses_sound Γ frm sc [] lvl hl, ebind_ok, bOpt_sound Γ wh (sc.push lvl) a ha,
      bProj_sound Γ proj (sc.push lvl) lvl o ho, bGroupBy_sound Γ groupBy (sc.push lvl) o hu,
      bOpt_sound Γ having (sc.push lvl) b hb]
    simpa using h
  | .setop _ _ _ l r, sc, out, h => by
    simp only [bSetExpr] at h
    obtain ⟨⟨cl, s1⟩, hl, h⟩ := obind h
    obtain ⟨⟨cr, s2⟩, hr, h⟩ := obind h
    simp only [resolveSetExpr, bSetExpr_sound Γ l sc (cl, s1) hl, ebind_ok, bSetExpr_sound Γ r sc (cr, s2) hr]
    split at h
    · rename_i hlen; simp only [hlen, if_true]; simpa using h
    · simp at h
  | .nested q, sc, out, h => by
    simp only [bSetExpr] at h
    obtain ⟨cols, hc, h⟩ := obind h
    simp only [resolveSetExpr, bQuery_sound Γ q sc cols hc]
    simpa using h
  | .values vs, sc, out, h => by
    simp only [bSetExpr] at h
    obtain ⟨tys, ht, h⟩ := obind h
    simp only [resolveSetExpr, bExprs_sound Γ vs sc tys ht]
    simpa using h
  | .insert table alias cols none returning, sc, out, h => by
    simp only [bSetExpr] at h
    obtain ⟨u, hu, h⟩ := obind h
    obtain ⟨t, ht, h⟩ := obind h
    obtain ⟨v, hv, h⟩ := obind h
    obtain ⟨o, ho, h⟩ := obind h
    simp only [resolveSetExpr, bUpdating_sound hu, ebind_ok, bTable_sound ht, bCols_sound (t := t.name) hv,
      bProj_sound Γ returning _ _ o ho]
    simpa using h
  | .insert table alias cols (some q) returning, sc, out, h => by
    simp only [bSetExpr] at h
    obtain ⟨u, hu, h⟩ := obind h
    obtain ⟨t, ht, h⟩ := obind h
    obtain ⟨v, hv, h⟩ := obind h
    obtain ⟨sc0, hq, h⟩ := obind h
    simp only [resolveSetExpr, bUpdating_sound hu, ebind_ok, bTable_sound ht, bCols_sound (t := t.name) hv,
      bQuery_sound Γ q sc sc0 hq]
    split at h
    · rename_i hc
      obtain ⟨o, ho, h⟩ := obind h
      simp only [hc, if_true, bProj_sound Γ returning _ _ o ho, ebind_ok]
      simpa using h
    · simp at h
  | .update table alias assign frm wh returning, sc, out, h => by
    simp only [bSetExpr] at h
    obtain ⟨u, hu, h⟩ := obind h
    obtain ⟨t, ht, h⟩ := obind h
    obtain ⟨lvl, hl, h⟩ := obind h
    obtain ⟨v, hv, h⟩ := obind h
    obtain ⟨a, ha, h⟩ := obind h
    obtain ⟨o, ho, h⟩ := obind h
    simp only [resolveSetExpr, bUpdating_sound hu, ebind_ok, bTable_sound ht,
      bFromClauses_sound Γ frm sc _ lvl hl, bAssignments_sound Γ assign (sc.push lvl) t hv,
      bOpt_sound Γ wh (sc.push lvl) a ha, bProj_sound Γ returning (sc.push lvl) lvl o ho]
    simpa using h
  | .delete tables usingFrm wh returning, sc, out, h => by
    simp only [bSetExpr] at h
    obtain ⟨u, hu, h⟩ := obind h
    simp only [resolveSetExpr, bUpdating_sound hu, ebind_ok]
    match tables, h with
    | [(table, alias)], h =>
      simp only [] at h ⊢
      obtain ⟨t, ht, h⟩ := obind h
      obtain ⟨lvl, hl, h⟩ := obind h
      obtain ⟨a, ha, h⟩ := obind h
      obtain ⟨o, ho, h⟩ := obind h
      simp only [bTable_sound ht, ebind_ok, bFromClauses_sound Γ usingFrm sc _ lvl hl,
        bOpt_sound Γ wh (sc.push lvl) a ha, bProj_sound Γ returning (sc.push lvl) lvl o ho]
      simpa using h
    | [], h => simp at h
    | _ :: _ :: _, h => simp at h

theorem bCtes_sound (Γ : Env) : (cs : List Cte) → (sc : Scope) → (recursive : Bool) → (own : List String) → (acc out : List Rel) →
    bCtes Γ sc recursive own acc cs = some out → resolveCtes Γ sc recursive own acc cs = .ok out
  | [], sc, recursive, own, acc, out, h => by simp only [bCtes] at h; simp only [resolveCtes]; simp_all
  | .mk name shape m q :: cs, sc, recursive, own, acc, out, h => by
    rw [bCtes.eq_def] at h
    rw [resolveCtes.eq_def]
    simp only [] at h ⊢
    obtain ⟨rel, hrel, h⟩ := obind h
    have htail : (if own.contains name = true then Except.error (RErr.ambiguous name)
        else resolveCtes Γ sc recursive (name :: own) (rel :: acc) cs) = Except.ok out := by
      split at h
      · simp at h
      · rename_i hown
        simp only [hown]
        exact bCtes_sound Γ cs sc recursive (name :: own) (rel :: acc) out h
    split at hrel
    · rename_i r1 all d l r ob off lim hh
      obtain ⟨x1, hl, hrel⟩ := obind hrel
      obtain ⟨self, hs, hrel⟩ := obind hrel
      obtain ⟨x2, hr, hrel⟩ := obind hrel
      simp only [bSetExpr_sound Γ l _ x1 hl, ebind_ok, bShape_sound hs, bSetExpr_sound Γ r _ x2 hr]
      split at hrel
      · rename_i hlen
        obtain ⟨u, hu, hrel⟩ := obind hrel
        obtain ⟨a, ha, hrel⟩ := obind hrel
        obtain ⟨b, hb, hrel⟩ := obind hrel
        simp only [hlen, if_true, bOrderBy_sound Γ ob _ x1.fst false hu, ebind_ok, bOpt_sound Γ off _ a ha, bOpt_sound Γ lim _ b hb]
        have : self = rel := by simpa using hrel
        subst this
        exact htail
      · simp at hrel
    · rename_i hneg
      obtain ⟨cols, hc, hrel⟩ := obind hrel
      split
      · exact (hneg _ _ _ _ _ _ _ _ rfl rfl).elim
      · simp only [bQuery_sound Γ q _ cols hc, ebind_ok, bShape_sound hrel]
        exact htail

theorem bQuery_sound (Γ : Env) : (q : Query) → (sc : Scope) → (cols : List Col) → bQuery Γ sc q = some cols → resolveQuery Γ sc q = .ok cols
  | .mk recursive ctes body orderBy offset limit, sc, cols, h => by
    simp only [bQuery] at h
    obtain ⟨ctes', hc, h⟩ := obind h
    obtain ⟨⟨out, scBody⟩, hb, h⟩ := obind h
    obtain ⟨u, hu, h⟩ := obind h
    obtain ⟨a, ha, h⟩ := obind h
    obtain ⟨b, hb', h⟩ := obind h
    simp only [resolveQuery, bCtes_sound Γ ctes sc recursive [] sc.ctes ctes' hc, ebind_ok,
      bSetExpr_sound Γ body _ (out, scBody) hb, bOrderBy_sound Γ orderBy scBody out _ hu,
      bOpt_sound Γ offset _ a ha, bOpt_sound Γ limit _ b hb']
    simpa using h
end
theorem bMergeAction_sound (Γ : Env) (sc : Scope) (t : Rel) : (a : MergeAction) →
    bMergeAction Γ sc t a = some () → resolveMergeAction Γ sc t a = .ok ()
  | .matchedUpdate pred assign, h => by
    simp only [bMergeAction] at h
    obtain ⟨a, ha, h⟩ := obind h
    simp only [resolveMergeAction, bOpt_sound Γ pred sc a ha, ebind_ok]
    exact bAssignments_sound Γ assign sc t h
  | .matchedDelete pred, h => by
    simp only [bMergeAction] at h
    obtain ⟨a, ha, h⟩ := obind h
    simp only [resolveMergeAction, bOpt_sound Γ pred sc a ha, ebind_ok]
    rfl
  | .unmatched pred cols vals, h => by
    simp only [bMergeAction] at h
    obtain ⟨a, ha, h⟩ := obind h
    obtain ⟨u, hu, h⟩ := obind h
    obtain ⟨tys, ht, h⟩ := obind h
    simp only [resolveMergeAction, bOpt_sound Γ pred sc a ha, ebind_ok, bCols_sound (t := t.name) hu, bExprs_sound Γ vals sc tys ht]
    split at h
    · rename_i hl; simp [hl]
    · simp at h

theorem bMergeActions_sound (Γ : Env) (sc : Scope) (t : Rel) : (as : List MergeAction) →
    bMergeActions Γ sc t as = some () → resolveMergeActions Γ sc t as = .ok ()
  | [], _ => by simp only [resolveMergeActions]
  | a :: as, h => by
    simp only [bMergeActions] at h
    obtain ⟨u, hu, h⟩ := obind h
    simp only [resolveMergeActions, bMergeAction_sound Γ sc t a hu, ebind_ok]
    exact bMergeActions_sound Γ sc t as h

theorem bStmt_sound (Γ : Env) : (s : Stmt) → (cols : List Col) → bStmt Γ s = some cols → resolve Γ s = .ok cols
  | .query q, cols, h => by
    simp only [bStmt] at h; simp only [resolve]; exact bQuery_sound Γ q _ cols h
  | .merge table talias source salias on actions, cols, h => by
    simp only [bStmt] at h
    obtain ⟨u, hu, h⟩ := obind h
    obtain ⟨t, ht, h⟩ := obind h
    obtain ⟨s, hs, h⟩ := obind h
    obtain ⟨lvl, hl, h⟩ := obind h
    obtain ⟨a, ha, h⟩ := obind h
    obtain ⟨v, hv, h⟩ := obind h
    simp only [resolve, bUpdating_sound hu, ebind_ok, bTable_sound ht, bRelation_sound hs,
      bAddRte_sound (r := ⟨salias.getD s.name, s.cols⟩) (before := []) (tree := [⟨talias.getD t.name, t.cols⟩]) (out := lvl) hl,
      bExpr_sound Γ on _ a ha, bMergeActions_sound Γ _ t actions hv]
    simpa using h

end Dawgs.Sql
