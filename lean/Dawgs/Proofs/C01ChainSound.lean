import Dawgs.Proofs.C01ChainCy
/-
C01 / S2c — assembly for chains of two and three directed hops: the emitted statement (frames s0, s1[, s2]) returns, on every encoded
graph, a permutation of the rows the reference semantics returns.
-/
namespace Dawgs.C01.Proofs
open Dawgs Dawgs.Sql

-- ------------------------------------------------------------------ frame s0 of a chain (the hop frame of stage S2, no WHERE conjuncts)

def pA0 (ak : List String) (e : EdgeRec) (n : NodeRec) : Bool := (okPreds (nodeEnt n) [] && Cy.kindsAllOf n.kinds ak) && n.id == e.start
def pB0 (bk : List String) (e : EdgeRec) (n : NodeRec) : Bool := (okPreds (nodeEnt n) [] && Cy.kindsAllOf n.kinds bk) && n.id == e.stop
def wR0 (rk : List String) (e : EdgeRec) : Bool := okPreds (edgeEnt e) [] && Cy.kindAnyOf e.kind rk

/-- the one-hop matches as the frame `s0` lists them, in the join order given -/
def m1Sql (g : Graph) (ak rk bk : List String) (flip : Bool) : List Chain :=
  if flip then ((hopTriples g (pB0 bk) (pA0 ak)).filter (fun t => wR0 rk t.1.1)).map (fun t => ⟨[t.1.1], [t.2, t.1.2]⟩)
  else ((hopTriples g (pA0 ak) (pB0 bk)).filter (fun t => wR0 rk t.1.1)).map (fun t => ⟨[t.1.1], [t.1.2, t.2]⟩)

theorem frame0_ben (km : KindMap) (g : Graph) (hok : GraphOK2 km g) (ak rk bk : List String) (ka kr kb : Option (List Nat))
    (hka : S2.kindIds? km ak = some ka) (hkr : S2.kindIds? km rk = some kr) (hkb : S2.kindIds? km bk = some kb) (flip : Bool) :
    BenignT (evalQuery (Ec (encode km g) []) (Ch.frame0 ka kr kb flip)) (⟨["e0", "n0", "n1"], (m1Sql g ak rk bk flip).map (rowOf km)⟩ : Table) := by
  have hinj := hok.inj
  have hpe : ∀ t edge, S2.predsE km t edge [] = some none := fun _ _ => rfl
  have honA : ∀ (l : Level) (e : EdgeRec) (n : NodeRec), e ∈ g.edges → n ∈ g.nodes → findBinding "e0" l = some (eB km e) →
      findBinding "n0" l = some (nB "n0" km n) →
      BenignT (whTest (E0 (encode km g)) (some (S2.joinOn "n0" "start_id" ka)) l) (pA0 ak e n) :=
    fun l e n _ hnm hfe hfn => joinOnC_ben km hinj _ l "n0" "start_id" e n e.start hfn (hok.noNull n hnm)
      (lookup_e0 km l _ e hfe).2.1 ak ka hka [] none (hpe _ _)
  have honB : ∀ (l : Level) (e : EdgeRec) (n : NodeRec), e ∈ g.edges → n ∈ g.nodes → findBinding "e0" l = some (eB km e) →
      findBinding "n1" l = some (nB "n1" km n) →
      BenignT (whTest (E0 (encode km g)) (some (S2.joinOn "n1" "end_id" kb)) l) (pB0 bk e n) :=
    fun l e n _ hnm hfe hfn => joinOnC_ben km hinj _ l "n1" "end_id" e n e.stop hfn (hok.noNull n hnm)
      (lookup_e0 km l _ e hfe).2.2.1 bk kb hkb [] none (hpe _ _)
  have hwh : ∀ (l : Level) (e : EdgeRec), e ∈ g.edges → findBinding "e0" l = some (eB km e) →
      BenignT (whTest (E0 (encode km g)) (kr.map (fun ids => Expr.bin "=" (S2.col "e0" "kind_id") (.anyOf (S2.kindsLit ids)))) l) (wR0 rk e) :=
    fun l e hem hfe => hop_where_ben km hinj _ l e hfe (hok.edgeKinds e hem) (hok.edgeNoNull e hem) rk kr hkr [] none (hpe _ _)
  unfold Ch.frame0 m1Sql
  cases flip with
  | false =>
    simp only [Bool.false_eq_true, if_false]
    have hfrom := hop_from_ben km g "n0" "n1" _ _ (pA0 ak) (pB0 bk) (by decide) (by decide) (by decide) honA honB
    have := hop_frame_ben km g true true true (hopTriples g (pA0 ak) (pB0 bk)) (fun t => [eB km t.1.1, nB "n0" km t.1.2, nB "n1" km t.2])
      (fun t => t.1.1) (fun t => t.1.2) (fun t => t.2) _ hfrom
      (fun t _ => ⟨by simp [findBinding, eB], by simp [findBinding, eB, nB], by simp [findBinding, eB, nB]⟩)
      _ (fun t => wR0 rk t.1.1) (fun t ht => hwh _ t.1.1 (hopTriples_mem g _ _ t ht) (by simp [findBinding, eB]))
    simpa [List.map_map, Function.comp_def, rowOf, E0, Ec, S2.frameProj, keptCols, keptVals] using this
  | true =>
    simp only [if_true]
    have hfrom := hop_from_ben km g "n1" "n0" _ _ (pB0 bk) (pA0 ak) (by decide) (by decide) (by decide) honB honA
    have := hop_frame_ben km g true true true (hopTriples g (pB0 bk) (pA0 ak)) (fun t => [eB km t.1.1, nB "n1" km t.1.2, nB "n0" km t.2])
      (fun t => t.1.1) (fun t => t.2) (fun t => t.1.2) _ hfrom
      (fun t _ => ⟨by simp [findBinding, eB], by simp [findBinding, eB, nB], by simp [findBinding, eB, nB]⟩)
      _ (fun t => wR0 rk t.1.1) (fun t ht => hwh _ t.1.1 (hopTriples_mem g _ _ t ht) (by simp [findBinding, eB]))
    simpa [List.map_map, Function.comp_def, rowOf, E0, Ec, S2.frameProj, keptCols, keptVals] using this

theorem m1Sql_shape (g : Graph) (ak rk bk : List String) (flip : Bool) (c : Chain) (h : c ∈ m1Sql g ak rk bk flip) :
    ∃ x0 y0 y1, c = ⟨[x0], [y0, y1]⟩ := by
  unfold m1Sql at h
  cases flip with
  | false => simp only [Bool.false_eq_true, if_false] at h; obtain ⟨t, _, rfl⟩ := List.mem_map.mp h; exact ⟨_, _, _, rfl⟩
  | true => simp only [if_true] at h; obtain ⟨t, _, rfl⟩ := List.mem_map.mp h; exact ⟨_, _, _, rfl⟩

theorem ext_shape1 (g : Graph) (rk nk : List String) (c c' : Chain) (hc : ∃ x0 y0 y1, c = ⟨[x0], [y0, y1]⟩) (h : c' ∈ ext g rk nk c) :
    ∃ x0 x1 y0 y1 y2, c' = ⟨[x0, x1], [y0, y1, y2]⟩ := by
  obtain ⟨x0, y0, y1, rfl⟩ := hc
  rw [ext_eq_pairs] at h
  obtain ⟨eb, _, rfl⟩ := List.mem_map.mp h
  exact ⟨_, _, _, _, _, rfl⟩

theorem ext_shape2 (g : Graph) (rk nk : List String) (c c' : Chain) (hc : ∃ x0 x1 y0 y1 y2, c = ⟨[x0, x1], [y0, y1, y2]⟩) (h : c' ∈ ext g rk nk c) :
    ∃ x0 x1 x2 y0 y1 y2 y3, c' = ⟨[x0, x1, x2], [y0, y1, y2, y3]⟩ := by
  obtain ⟨x0, x1, y0, y1, y2, rfl⟩ := hc
  rw [ext_eq_pairs] at h
  obtain ⟨eb, _, rfl⟩ := List.mem_map.mp h
  exact ⟨_, _, _, _, _, _, _, rfl⟩

-- ------------------------------------------------------------------ column lookups of the last frame

theorem cols_s1 (km : KindMap) (c : Chain) (hc : ∃ x0 x1 y0 y1 y2, c = ⟨[x0, x1], [y0, y1, y2]⟩) (E' : EEnv) (x : Ch.Ref) (r : RefE)
    (h : refGet c x = some r) :
    evalExpr (E'.push [(⟨"s1", ["e0", "e1", "n0", "n1", "n2"], rowOf km c⟩ : Binding)]) (S2.col "s1" (Ch.colOf x)) = .ok (r.val km) := by
  obtain ⟨x0, x1, y0, y1, y2, rfl⟩ := hc
  rw [eval_col]
  cases x with
  | node i =>
    rcases i with _ | _ | _ | i <;> simp [refGet] at h <;> subst h <;>
      simp [Ch.colOf, Ch.nN, EEnv.push, lookupQualifiedV, findBinding, colVals, rowOf, RefE.val]
  | rel i =>
    rcases i with _ | _ | i <;> simp [refGet] at h <;> subst h <;>
      simp [Ch.colOf, Ch.eN, EEnv.push, lookupQualifiedV, findBinding, colVals, rowOf, RefE.val]

theorem cols_s2 (km : KindMap) (c : Chain) (hc : ∃ x0 x1 x2 y0 y1 y2 y3, c = ⟨[x0, x1, x2], [y0, y1, y2, y3]⟩) (E' : EEnv) (x : Ch.Ref) (r : RefE)
    (h : refGet c x = some r) :
    evalExpr (E'.push [(⟨"s2", ["e0", "e1", "e2", "n0", "n1", "n2", "n3"], rowOf km c⟩ : Binding)]) (S2.col "s2" (Ch.colOf x)) = .ok (r.val km) := by
  obtain ⟨x0, x1, x2, y0, y1, y2, y3, rfl⟩ := hc
  rw [eval_col]
  cases x with
  | node i =>
    rcases i with _ | _ | _ | _ | i <;> simp [refGet] at h <;> subst h <;>
      simp [Ch.colOf, Ch.nN, EEnv.push, lookupQualifiedV, findBinding, colVals, rowOf, RefE.val]
  | rel i =>
    rcases i with _ | _ | _ | i <;> simp [refGet] at h <;> subst h <;>
      simp [Ch.colOf, Ch.eN, EEnv.push, lookupQualifiedV, findBinding, colVals, rowOf, RefE.val]

-- ------------------------------------------------------------------ the whole statement

def chainMatchesSql (g : Graph) (q : Ch.Query) (flip : Bool) : List Chain :=
  match q.hops with
  | [] => []
  | h0 :: hs => (m1Sql g q.akinds h0.rkinds h0.nkinds flip).flatMap (chainExt g hs)

theorem flatMap_singleton_id {α : Type} : ∀ (l : List α), l.flatMap (fun c => [c]) = l
  | [] => rfl
  | x :: l => by rw [List.flatMap_cons, flatMap_singleton_id l]; rfl

theorem hopKinds_some (km : KindMap) (h : Ch.Hop) (kr kn : Option (List Nat)) (hh : Ch.hopKinds km h = some (kr, kn)) :
    S2.kindIds? km h.rkinds = some kr ∧ S2.kindIds? km h.nkinds = some kn := by
  unfold Ch.hopKinds at hh
  cases h1 : S2.kindIds? km h.rkinds with
  | none => simp [h1, bind, Option.bind] at hh
  | some a =>
    cases h2 : S2.kindIds? km h.nkinds with
    | none => simp [h1, h2, bind, Option.bind] at hh
    | some b => simp [h1, h2, bind, Option.bind] at hh; exact ⟨by rw [hh.1], by rw [hh.2]⟩

/-- SQL SIDE of S2c: the statement's rows, frame by frame -/
theorem sql_chain (km : KindMap) (g : Graph) (hok : GraphOK2 km g) (q : Ch.Query) (flip : Bool) (st : Stmt) (h : q.trWith km flip = some st) :
    ∃ names, BenignT (Sql.eval (encode km g) st []) (⟨names, (chainMatchesSql g q flip).map (fun c => q.items.map (itemValCh km c))⟩ : Table) := by
  have hinj := hok.inj
  have hnd := hok.nodup
  unfold Ch.Query.trWith at h
  cases hwf : q.wf with
  | false => simp [hwf] at h
  | true =>
  simp only [hwf, Bool.not_true, Bool.false_eq_true, if_false] at h
  have hwf' := hwf
  unfold Ch.Query.wf at hwf'
  simp only [Bool.and_eq_true, decide_eq_true_eq, List.all_eq_true, Bool.or_eq_true, beq_iff_eq] at hwf'
  obtain ⟨⟨⟨hlen, _⟩, hitems⟩, _⟩ := hwf'
  -- every item reads an entity of a match of the right length
  have hrefs : ∀ (c : Chain), c.ns.length = q.hops.length + 1 → c.es.length = q.hops.length → ∀ it ∈ q.items, (refGet c it.ref).isSome = true := by
    intro c h1 h2 it hit
    obtain ⟨hr1, hr2⟩ := refs_mem q it.ref (by simpa using hitems it hit)
    cases hx : it.ref with
    | node i =>
      have : i < c.ns.length := by rw [h1]; exact hr1 i hx
      simp [refGet, List.getElem?_eq_getElem this]
    | rel i =>
      have : i < c.es.length := by rw [h2]; exact hr2 i hx
      simp [refGet, List.getElem?_eq_getElem this]
  cases hh : q.hops with
  | nil => rw [hh] at hlen; simp at hlen
  | cons h0 hs =>
  rw [hh] at h hlen
  simp only at h
  cases hka : S2.kindIds? km q.akinds with
  | none => simp [hka, bind, Option.bind] at h
  | some ka =>
  cases hk0 : Ch.hopKinds km h0 with
  | none => simp [hka, hk0, bind, Option.bind] at h
  | some k0 =>
  obtain ⟨kr, kb⟩ := k0
  obtain ⟨hkr, hkb⟩ := hopKinds_some km h0 kr kb hk0
  have hf0 := frame0_ben km g hok q.akinds h0.rkinds h0.nkinds ka kr kb hka hkr hkb flip
  cases hs with
  | nil => simp at hlen
  | cons h1 hs' =>
  cases hk1 : Ch.hopKinds km h1 with
  | none => simp [hka, hk0, hk1, Ch.stepCtes, bind, Option.bind] at h
  | some k1 =>
  obtain ⟨kr1, kn1⟩ := k1
  obtain ⟨hkr1, hkn1⟩ := hopKinds_some km h1 kr1 kn1 hk1
  cases hs' with
  | nil =>
    -- two hops
    simp [hka, hk0, hk1, Ch.stepCtes, bind, Option.bind, Ch.sN] at h
    subst h
    unfold chainMatchesSql
    rw [hh]
    simp only [chainExt, flatMap_singleton_id]
    rw [eval_ctesStmt, evalCtes_cons]
    simp only [bind_assoc]
    refine ?_
    have hE0 : E0 (encode km g) = Ec (encode km g) [] := rfl
    rw [hE0]
    generalize hm1 : m1Sql g q.akinds h0.rkinds h0.nkinds flip = M1 at hf0 ⊢
    have hsh1 : ∀ c ∈ M1, ∃ x0 y0 y1, c = ⟨[x0], [y0, y1]⟩ := fun c hc => m1Sql_shape g _ _ _ flip c (hm1 ▸ hc)
    have hf1 := frame1 km hinj g hok.edgeKinds [("s0", ⟨["e0", "n0", "n1"], M1.map (rowOf km)⟩)] M1 hsh1 (by simp [List.lookup])
      (by simp [List.lookup]) (by simp [List.lookup]) h1.rkinds h1.nkinds kr1 kn1 hkr1 hkn1
    rw [stepRows_eq g hnd] at hf1
    have hsh2 : ∀ c ∈ M1.flatMap (ext g h1.rkinds h1.nkinds), ∃ x0 x1 y0 y1 y2, c = ⟨[x0, x1], [y0, y1, y2]⟩ := by
      intro c hc
      obtain ⟨c0, hc0, hc⟩ := List.mem_flatMap.mp hc
      exact ext_shape1 g _ _ c0 c (hsh1 c0 hc0) hc
    obtain ⟨names, out, hsel, hout⟩ := final_select km (encode km g)
      [("s1", ⟨["e0", "e1", "n0", "n1", "n2"], (M1.flatMap (ext g h1.rkinds h1.nkinds)).map (rowOf km)⟩), ("s0", ⟨["e0", "n0", "n1"], M1.map (rowOf km)⟩)]
      q "s1" ["e0", "e1", "n0", "n1", "n2"] (M1.flatMap (ext g h1.rkinds h1.nkinds)) (by simp [List.lookup])
      (fun c hc E' x r hr => cols_s1 km c (hsh2 c hc) E' x r hr)
      (fun c hc => by
        obtain ⟨x0, x1, y0, y1, y2, rfl⟩ := hsh2 c hc
        exact hrefs _ (by rw [hh]; rfl) (by rw [hh]; rfl))
    refine ⟨names, ?_⟩
    apply benT_bind hf0
    rw [evalCtes_cons]
    simp only [bind_assoc]
    apply benT_bind hf1
    left
    rw [evalCtes]
    simp only [ebind_ok, Ec] at hsel ⊢
    rw [hsel]
    simp only [ebind_ok, epure_ok, hout]
  | cons h2 hs'' =>
    cases hs'' with
    | cons h3 _ => simp at hlen
    | nil =>
    -- three hops
    cases hk2 : Ch.hopKinds km h2 with
    | none => simp [hka, hk0, hk1, hk2, Ch.stepCtes, bind, Option.bind] at h
    | some k2 =>
    obtain ⟨kr2, kn2⟩ := k2
    obtain ⟨hkr2, hkn2⟩ := hopKinds_some km h2 kr2 kn2 hk2
    simp [hka, hk0, hk1, hk2, Ch.stepCtes, bind, Option.bind, Ch.sN] at h
    subst h
    unfold chainMatchesSql
    rw [hh]
    simp only [chainExt, flatMap_singleton_id]
    rw [eval_ctesStmt, evalCtes_cons]
    simp only [bind_assoc]
    have hE0 : E0 (encode km g) = Ec (encode km g) [] := rfl
    rw [hE0]
    generalize hm1 : m1Sql g q.akinds h0.rkinds h0.nkinds flip = M1 at hf0 ⊢
    have hsh1 : ∀ c ∈ M1, ∃ x0 y0 y1, c = ⟨[x0], [y0, y1]⟩ := fun c hc => m1Sql_shape g _ _ _ flip c (hm1 ▸ hc)
    have hf1 := frame1 km hinj g hok.edgeKinds [("s0", ⟨["e0", "n0", "n1"], M1.map (rowOf km)⟩)] M1 hsh1 (by simp [List.lookup])
      (by simp [List.lookup]) (by simp [List.lookup]) h1.rkinds h1.nkinds kr1 kn1 hkr1 hkn1
    rw [stepRows_eq g hnd] at hf1
    have hsh2 : ∀ c ∈ M1.flatMap (ext g h1.rkinds h1.nkinds), ∃ x0 x1 y0 y1 y2, c = ⟨[x0, x1], [y0, y1, y2]⟩ := by
      intro c hc
      obtain ⟨c0, hc0, hc⟩ := List.mem_flatMap.mp hc
      exact ext_shape1 g _ _ c0 c (hsh1 c0 hc0) hc
    generalize hm2 : M1.flatMap (ext g h1.rkinds h1.nkinds) = M2 at hf1 hsh2
    have hf2 := frame2 km hinj g hok.edgeKinds
      [("s1", ⟨["e0", "e1", "n0", "n1", "n2"], M2.map (rowOf km)⟩), ("s0", ⟨["e0", "n0", "n1"], M1.map (rowOf km)⟩)] M2 hsh2 (by simp [List.lookup])
      (by simp [List.lookup]) (by simp [List.lookup]) h2.rkinds h2.nkinds kr2 kn2 hkr2 hkn2
    rw [stepRows_eq g hnd] at hf2
    have hsh3 : ∀ c ∈ M2.flatMap (ext g h2.rkinds h2.nkinds), ∃ x0 x1 x2 y0 y1 y2 y3, c = ⟨[x0, x1, x2], [y0, y1, y2, y3]⟩ := by
      intro c hc
      obtain ⟨c0, hc0, hc⟩ := List.mem_flatMap.mp hc
      exact ext_shape2 g _ _ c0 c (hsh2 c0 hc0) hc
    obtain ⟨names, out, hsel, hout⟩ := final_select km (encode km g)
      [("s2", ⟨["e0", "e1", "e2", "n0", "n1", "n2", "n3"], (M2.flatMap (ext g h2.rkinds h2.nkinds)).map (rowOf km)⟩),
       ("s1", ⟨["e0", "e1", "n0", "n1", "n2"], M2.map (rowOf km)⟩), ("s0", ⟨["e0", "n0", "n1"], M1.map (rowOf km)⟩)]
      q "s2" ["e0", "e1", "e2", "n0", "n1", "n2", "n3"] (M2.flatMap (ext g h2.rkinds h2.nkinds)) (by simp [List.lookup])
      (fun c hc E' x r hr => cols_s2 km c (hsh3 c hc) E' x r hr)
      (fun c hc => by
        obtain ⟨x0, x1, x2, y0, y1, y2, y3, rfl⟩ := hsh3 c hc
        exact hrefs _ (by rw [hh]; rfl) (by rw [hh]; rfl))
    refine ⟨names, ?_⟩
    apply benT_bind hf0
    rw [evalCtes_cons]
    simp only [bind_assoc]
    apply benT_bind hf1
    rw [evalCtes_cons]
    simp only [bind_assoc]
    apply benT_bind hf2
    left
    rw [evalCtes]
    simp only [ebind_ok, Ec] at hsel ⊢
    rw [← List.flatMap_assoc, hm2]
    rw [hsel]
    simp only [ebind_ok, epure_ok, hout]

-- ------------------------------------------------------------------ SQL order versus Cypher order

def toChain (m : NodeRec × EdgeRec × NodeRec) : Chain := ⟨[m.2.1], [m.1, m.2.2]⟩

/-- the first hop of a chain as a stage-S2 query (only its pattern matters) -/
def q0 (q : Ch.Query) (h0 : Ch.Hop) : S2.Query := ⟨q.a, h0.r, h0.n, q.akinds, h0.rkinds, h0.nkinds, [], []⟩

theorem pA0_eq (q : Ch.Query) (h0 : Ch.Hop) : pA0 q.akinds = pA (q0 q h0) := by
  funext e n; simp [pA0, pA, q0, okPreds]
theorem pB0_eq (q : Ch.Query) (h0 : Ch.Hop) : pB0 h0.nkinds = pB (q0 q h0) := by
  funext e n; simp [pB0, pB, q0, okPreds]
theorem wR0_eq (h0 : Ch.Hop) : wR0 h0.rkinds = fun e => Cy.kindAnyOf e.kind h0.rkinds := by
  funext e; simp [wR0, okPreds]

theorem m1Sql_perm (g : Graph) (hnd : (g.nodes.map (·.id)).Nodup) (q : Ch.Query) (h0 : Ch.Hop) (flip : Bool) :
    (m1Sql g q.akinds h0.rkinds h0.nkinds flip).Perm ((hopMatchesCy g (q0 q h0)).map toChain) := by
  have hCyPerm : (g.edges.flatMap (fun e => (g.nodes.filter (pA (q0 q h0) e)).flatMap (fun a => hopF g (q0 q h0) e a))).Perm (hopMatchesCy g (q0 q h0)) := by
    rw [hopMatchesCy_eq]
    exact flatMap_filter_swap (pA (q0 q h0)) (hopF g (q0 q h0)) g.edges g.nodes
  unfold m1Sql
  rw [pA0_eq q h0, pB0_eq q h0, wR0_eq h0]
  cases flip with
  | false =>
    simp only [Bool.false_eq_true, if_false]
    have h1 : ((hopTriples g (pA (q0 q h0)) (pB (q0 q h0))).filter (fun t => Cy.kindAnyOf t.1.1.kind h0.rkinds)).map (fun t => (⟨[t.1.1], [t.1.2, t.2]⟩ : Chain)) =
        (((hopTriples g (pA (q0 q h0)) (pB (q0 q h0))).filter (fun t => Cy.kindAnyOf t.1.1.kind (q0 q h0).rkinds)).map (fun t => (t.1.2, t.1.1, t.2))).map toChain := by
      simp [List.map_map, Function.comp_def, toChain, q0]
    rw [h1, sqlMatches_eq g hnd]
    exact hCyPerm.map _
  | true =>
    simp only [if_true]
    have h1 : ((hopTriples g (pB (q0 q h0)) (pA (q0 q h0))).filter (fun t => Cy.kindAnyOf t.1.1.kind h0.rkinds)).map (fun t => (⟨[t.1.1], [t.2, t.1.2]⟩ : Chain)) =
        (((hopTriples g (pB (q0 q h0)) (pA (q0 q h0))).filter (fun t => Cy.kindAnyOf t.1.1.kind (q0 q h0).rkinds)).map (fun t => (t.2, t.1.1, t.1.2))).map toChain := by
      simp [List.map_map, Function.comp_def, toChain, q0]
    rw [h1]
    exact ((sqlMatches_flip_perm g hnd (q0 q h0)).trans hCyPerm).map _

theorem m1Cy_eq (g : Graph) (q : Ch.Query) (h0 : Ch.Hop) :
    (g.nodes.filter (fun a => Cy.kindsAllOf a.kinds q.akinds)).flatMap (fun a => ext g h0.rkinds h0.nkinds ⟨[], [a]⟩) =
      (hopMatchesCy g (q0 q h0)).map toChain := by
  unfold hopMatchesCy
  rw [List.map_flatMap]
  congr 1
  funext a
  unfold ext
  simp only [List.getLast?_singleton, List.map_nil, List.contains_nil, Bool.not_false, Bool.and_true, List.map_flatMap, List.map_map,
    Function.comp_def, toChain, q0, List.nil_append, List.singleton_append]
  rfl

theorem chainMatches_perm (g : Graph) (hnd : (g.nodes.map (·.id)).Nodup) (q : Ch.Query) (flip : Bool) (hne : q.hops ≠ []) :
    (chainMatchesSql g q flip).Perm (chainMatchesCy g q) := by
  unfold chainMatchesSql chainMatchesCy
  cases hh : q.hops with
  | nil => exact absurd hh hne
  | cons h0 hs =>
    simp only [chainExt]
    rw [← List.flatMap_assoc, m1Cy_eq g q h0]
    exact (m1Sql_perm g hnd q h0 flip).flatMap_right _

-- ------------------------------------------------------------------ values, and the stage theorem

theorem itemCh_toR (km : KindMap) (g : Graph) (c : Chain) (hin : InGraph g c) (it : Ch.Item) (r : RefE) (hr : refGet c it.ref = some r) :
    valToR (itemValCh km c it) = Cy.CVal.toR g km (itemCCh c it) := by
  have hmem : (∀ y, r = .n y → g.node? y.id = some y) ∧ (∀ x, r = .e x → g.edge? x.id = some x) := by
    cases hx : it.ref with
    | node i =>
      rw [hx] at hr
      simp only [refGet, Option.map_eq_some_iff] at hr
      obtain ⟨y, hy, rfl⟩ := hr
      exact ⟨fun y' hy' => (by cases hy'; exact hin.node y (List.mem_of_getElem? hy)), fun x' hx' => (by cases hx')⟩
    | rel i =>
      rw [hx] at hr
      simp only [refGet, Option.map_eq_some_iff] at hr
      obtain ⟨x, hxx, rfl⟩ := hr
      exact ⟨fun y' hy' => (by cases hy'), fun x' hx' => (by cases hx'; exact hin.rel x (List.mem_of_getElem? hxx))⟩
  cases it with
  | ent x al =>
    simp only [Ch.Item.ref] at hr
    simp only [itemValCh, itemCCh, hr, Option.map_some, Option.getD_some]
    cases r with
    | n y => exact item_toR km g y (hmem.1 y rfl) (.node none)
    | e x' => exact edge_toR km g x' (hmem.2 x' rfl)
  | idOf x al =>
    simp only [Ch.Item.ref] at hr
    simp only [itemValCh, itemCCh, hr, Option.map_some, Option.getD_some]
    simp [valToR, Cy.CVal.toR]
  | prop x k al =>
    simp only [Ch.Item.ref] at hr
    simp only [itemValCh, itemCCh, hr, Option.map_some, Option.getD_some]
    exact propVal_toR km g _ k

/-- STAGE S2c (chains of two or three directed fixed hops), for ALL graphs satisfying `GraphOK2`, ALL queries of the stage and BOTH join
orders of the first hop: the reference semantics yields a result; the emitted statement either yields a table whose client-visible rows are
a permutation of the Cypher rows, or the SQL model stops with `unmodelled` -/
theorem chain_sound (km : KindMap) (g : Graph) (hok : GraphOK2 km g) (q : Ch.Query) (flip : Bool) (st : Stmt) (h : q.trWith km flip = some st) :
    ∃ r names rows, Cy.eval .none g q.toCy = .ok r ∧ BenignT (Sql.eval (encode km g) st []) (⟨names, rows⟩ : Table) ∧
      (sqlRows ⟨names, rows⟩).Perm (cyRows g km r) := by
  have hnd := hok.nodup
  have hn : ∀ n ∈ g.nodes, g.node? n.id = some n := find_of_nodup g.nodes hnd
  have he : ∀ e ∈ g.edges, g.edge? e.id = some e := fun e hm => hok.edge? e hm
  have hwf : q.wf = true := by
    unfold Ch.Query.trWith at h
    cases hwf : q.wf with
    | true => rfl
    | false => simp [hwf] at h
  have hwf' := hwf
  unfold Ch.Query.wf at hwf'
  simp only [Bool.and_eq_true, decide_eq_true_eq, List.all_eq_true, Bool.or_eq_true, beq_iff_eq] at hwf'
  obtain ⟨⟨⟨hlen, hndn⟩, hitems⟩, _⟩ := hwf'
  have hne : q.hops ≠ [] := by intro hh; rw [hh] at hlen; simp at hlen
  obtain ⟨names, hsql⟩ := sql_chain km g hok q flip st h
  refine ⟨_, names, _, cy_side_chain g q hwf hn he, hsql, ?_⟩
  unfold sqlRows cyRows
  simp only [List.map_map, Function.comp_def]
  have hperm := chainMatches_perm g hnd q flip hne
  rw [← chainECs_chains g q] at hperm
  have hcongr : (chainECs g q).map (fun ec => q.items.map (fun it => Cy.CVal.toR g km (itemCCh ec.2 it))) =
      ((chainECs g q).map (·.2)).map (fun c => valsToR (q.items.map (itemValCh km c))) := by
    rw [List.map_map]
    apply List.map_congr_left
    intro ec hec
    obtain ⟨_, hin, hl1, hl2⟩ := chainECs_inv g q hndn hn he ec hec
    simp only [Function.comp_def]
    rw [valsToR_map, List.map_map]
    apply List.map_congr_left
    intro it hit
    obtain ⟨hr1, hr2⟩ := refs_mem q it.ref (by simpa using hitems it hit)
    have hget : ∃ r, refGet ec.2 it.ref = some r := by
      cases hx : it.ref with
      | node i =>
        have : i < ec.2.ns.length := by rw [hl1]; exact hr1 i hx
        exact ⟨.n (ec.2.ns[i]), by simp [refGet, List.getElem?_eq_getElem this]⟩
      | rel i =>
        have : i < ec.2.es.length := by rw [hl2]; exact hr2 i hx
        exact ⟨.e (ec.2.es[i]), by simp [refGet, List.getElem?_eq_getElem this]⟩
    obtain ⟨r, hr⟩ := hget
    exact (itemCh_toR km g ec.2 hin it r hr).symm
  rw [hcongr]
  exact hperm.map _

-- ------------------------------------------------------------------ the recogniser of stage S2c is sound

theorem chHopOf_sound (p : Cy.RelPat × Cy.NodePat) (h : Ch.Hop) (hh : chHopOf p = some h) : stepOf h = p := by
  unfold chHopOf at hh
  split at hh
  · cases hh; rfl
  · cases hh

theorem chHopsOf_sound : ∀ (ps : List (Cy.RelPat × Cy.NodePat)) (hs : List Ch.Hop), ps.mapM chHopOf = some hs → hs.map stepOf = ps
  | [], hs, h => by simp only [List.mapM_nil] at h; cases h; rfl
  | p :: ps, hs, h => by
    rw [List.mapM_cons] at h
    cases hp : chHopOf p with
    | none => rw [hp] at h; cases h
    | some x =>
      rw [hp] at h
      cases hr : ps.mapM chHopOf with
      | none => rw [hr] at h; cases h
      | some xs =>
        rw [hr] at h; cases h
        rw [List.map_cons, chHopOf_sound p x hp, chHopsOf_sound ps xs hr]

theorem idxOf?_getElem {α : Type} [BEq α] [LawfulBEq α] : ∀ (l : List α) (v : α) (i : Nat), l.idxOf? v = some i → l[i]? = some v
  | [], v, i, h => by simp [List.idxOf?] at h
  | x :: l, v, i, h => by
    rw [List.idxOf?_cons] at h
    cases hx : x == v with
    | true =>
      simp only [hx, if_true, Option.some.injEq] at h
      subst h
      simp [eq_of_beq hx]
    | false =>
      simp only [hx, Bool.false_eq_true, if_false, Option.map_eq_some_iff] at h
      obtain ⟨j, hj, rfl⟩ := h
      simp [idxOf?_getElem l v j hj]

theorem chRefOf_name (q : Ch.Query) (v : String) (x : Ch.Ref) (h : chRefOf q v = some x) : q.name x = v := by
  unfold chRefOf at h
  cases h1 : q.nodeNames.idxOf? v with
  | some i =>
    rw [h1] at h; cases h
    simp [Ch.Query.name, idxOf?_getElem _ _ _ h1]
  | none =>
    rw [h1] at h
    obtain ⟨i, hi, rfl⟩ := Option.map_eq_some_iff.mp h
    simp [Ch.Query.name, idxOf?_getElem _ _ _ hi]

theorem chItemOf_sound (q0 q : Ch.Query) (hn : q0.nodeNames = q.nodeNames) (hr : q0.relNames = q.relNames) (it : Cy.ProjItem) (i : Ch.Item)
    (h : chItemOf q0 it = some i) : i.toCy q = it := by
  have hname : ∀ x, q.name x = q0.name x := by intro x; cases x <;> simp [Ch.Query.name, hn, hr]
  unfold chItemOf at h
  cases it with
  | mk e alias =>
    simp only at h
    split at h
    · obtain ⟨x, hx, rfl⟩ := Option.map_eq_some_iff.mp h
      simp only [Ch.Item.toCy, hname, chRefOf_name q0 _ x hx]
    · obtain ⟨x, hx, rfl⟩ := Option.map_eq_some_iff.mp h
      simp only [Ch.Item.toCy, hname, chRefOf_name q0 _ x hx]
    · obtain ⟨x, hx, rfl⟩ := Option.map_eq_some_iff.mp h
      simp only [Ch.Item.toCy, hname, chRefOf_name q0 _ x hx]
    · cases h

theorem chItemsOf_sound (q0 q : Ch.Query) (hn : q0.nodeNames = q.nodeNames) (hr : q0.relNames = q.relNames) :
    ∀ (its : List Cy.ProjItem) (is : List Ch.Item), its.mapM (chItemOf q0) = some is → is.map (Ch.Item.toCy q) = its
  | [], is, h => by simp only [List.mapM_nil] at h; cases h; rfl
  | it :: its, is, h => by
    rw [List.mapM_cons] at h
    cases hi : chItemOf q0 it with
    | none => rw [hi] at h; cases h
    | some i =>
      rw [hi] at h
      cases hrr : its.mapM (chItemOf q0) with
      | none => rw [hrr] at h; cases h
      | some is' =>
        rw [hrr] at h; cases h
        rw [List.map_cons, chItemOf_sound q0 q hn hr it i hi, chItemsOf_sound q0 q hn hr its is' hrr]

/-- an accepted parsed query is exactly the Cypher reading of the S2c query returned -/
theorem ofCyChain_sound (q : Cy.Query) (s : Ch.Query) (h : ofCyChain q = some s) : s.toCy = q := by
  unfold ofCyChain at h
  split at h
  · rename_i a akinds steps hparts hclauses
    split at h
    · cases h
    · rename_i hcond
      simp only [Bool.or_eq_true, not_or, Bool.not_eq_true, Bool.not_eq_true'] at hcond
      simp only [bind, Option.bind_eq_some_iff, pure] at h
      obtain ⟨hops, hhops, items, hitems, h⟩ := h
      split at h
      · simp only [Option.some.injEq] at h
        subst h
        have hit := chItemsOf_sound ⟨a, akinds, hops, []⟩ ⟨a, akinds, hops, items⟩ rfl rfl _ _ hitems
        have hst := chHopsOf_sound steps hops hhops
        cases q with
        | mk parts clauses ret =>
          cases ret with
          | mk distinct all ritems orderBy rskip rlimit =>
            simp only at hparts hclauses hcond hit
            subst hparts hclauses
            have hsteps : hops.map (fun h => ((.mk (some h.r) h.rkinds .out none [], .mk (some h.n) h.nkinds []) : Cy.RelPat × Cy.NodePat)) = steps := hst
            simp only [Ch.Query.toCy, hit, hsteps, Cy.Query.mk.injEq, Cy.Projection.mk.injEq, true_and]
            simp_all
      · cases h
  · cases h

end Dawgs.C01.Proofs
