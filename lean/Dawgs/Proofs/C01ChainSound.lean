import Dawgs.Proofs.C01ChainCy
/-
C01 / S2c — assembly for chains of two and three directed hops: the emitted statement (frames s0, s1[, s2]) returns, on every encoded
graph, a permutation of the rows the reference semantics returns.
-/
namespace Dawgs.C01.Proofs
open Dawgs Dawgs.Sql

-- ------------------------------------------------------------------ frame s0 of a chain (the hop frame of stage S2 with the conjuncts over n0, e0, n1)

def pA0 (ak : List String) (psa : List S1.Pred) (e : EdgeRec) (n : NodeRec) : Bool := (okPreds (nodeEnt n) psa && Cy.kindsAllOf n.kinds ak) && n.id == e.start
def pB0 (bk : List String) (psb : List S1.Pred) (e : EdgeRec) (n : NodeRec) : Bool := (okPreds (nodeEnt n) psb && Cy.kindsAllOf n.kinds bk) && n.id == e.stop
def wR0 (rk : List String) (psr : List S1.Pred) (e : EdgeRec) : Bool := okPreds (edgeEnt e) psr && Cy.kindAnyOf e.kind rk

/-- the one-hop matches as the frame `s0` lists them, in the join order given (`psa` / `psr` / `psb`: the WHERE conjuncts over n0 / e0 / n1) -/
def m1Sql (g : Graph) (ak rk bk : List String) (psa psr psb : List S1.Pred) (flip : Bool) : List Chain :=
  if flip then ((hopTriples g (pB0 bk psb) (pA0 ak psa)).filter (fun t => wR0 rk psr t.1.1)).map (fun t => ⟨[t.1.1], [t.2, t.1.2]⟩)
  else ((hopTriples g (pA0 ak psa) (pB0 bk psb)).filter (fun t => wR0 rk psr t.1.1)).map (fun t => ⟨[t.1.1], [t.1.2, t.2]⟩)

theorem frame0_ben (km : KindMap) (g : Graph) (hok : GraphOK2 km g) (ak rk bk : List String) (ka kr kb : Option (List Nat))
    (hka : S2.kindIds? km ak = some ka) (hkr : S2.kindIds? km rk = some kr) (hkb : S2.kindIds? km bk = some kb)
    (psa psr psb : List S1.Pred) (pa pr pb : Option Expr)
    (hpa : S2.predsE km "n0" false psa = some pa) (hpr : S2.predsE km "e0" true psr = some pr) (hpb : S2.predsE km "n1" false psb = some pb) (flip : Bool) :
    BenignT (evalQuery (Ec (encode km g) []) (Ch.frame0 ka kr kb pa pr pb flip))
      (⟨["e0", "n0", "n1"], (m1Sql g ak rk bk psa psr psb flip).map (rowOf km)⟩ : Table) := by
  have hinj := hok.inj
  have honA : ∀ (l : Level) (e : EdgeRec) (n : NodeRec), e ∈ g.edges → n ∈ g.nodes → findBinding "e0" l = some (eB km e) →
      findBinding "n0" l = some (nB "n0" km n) →
      BenignT (whTest (E0 (encode km g)) (some (S2.joinOnC "n0" "start_id" (S2.both pa (S2.nodeKindsE "n0" ka)))) l) (pA0 ak psa e n) :=
    fun l e n _ hnm hfe hfn => joinOnC_ben km hinj _ l "n0" "start_id" e n e.start hfn (hok.noNull n hnm)
      (lookup_e0 km l _ e hfe).2.1 ak ka hka psa pa hpa
  have honB : ∀ (l : Level) (e : EdgeRec) (n : NodeRec), e ∈ g.edges → n ∈ g.nodes → findBinding "e0" l = some (eB km e) →
      findBinding "n1" l = some (nB "n1" km n) →
      BenignT (whTest (E0 (encode km g)) (some (S2.joinOnC "n1" "end_id" (S2.both pb (S2.nodeKindsE "n1" kb)))) l) (pB0 bk psb e n) :=
    fun l e n _ hnm hfe hfn => joinOnC_ben km hinj _ l "n1" "end_id" e n e.stop hfn (hok.noNull n hnm)
      (lookup_e0 km l _ e hfe).2.2.1 bk kb hkb psb pb hpb
  have hwh : ∀ (l : Level) (e : EdgeRec), e ∈ g.edges → findBinding "e0" l = some (eB km e) →
      BenignT (whTest (E0 (encode km g)) (S2.both pr (kr.map (fun ids => Expr.bin "=" (S2.col "e0" "kind_id") (.anyOf (S2.kindsLit ids))))) l) (wR0 rk psr e) :=
    fun l e hem hfe => hop_where_ben km hinj _ l e hfe (hok.edgeKinds e hem) (hok.edgeNoNull e hem) rk kr hkr psr pr hpr
  unfold Ch.frame0 m1Sql
  cases flip with
  | false =>
    simp only [Bool.false_eq_true, if_false]
    have hfrom := hop_from_ben km g "n0" "n1" _ _ (pA0 ak psa) (pB0 bk psb) (by decide) (by decide) (by decide) honA honB
    have := hop_frame_ben km g true true true (hopTriples g (pA0 ak psa) (pB0 bk psb)) (fun t => [eB km t.1.1, nB "n0" km t.1.2, nB "n1" km t.2])
      (fun t => t.1.1) (fun t => t.1.2) (fun t => t.2) _ hfrom
      (fun t _ => ⟨by simp [findBinding, eB], by simp [findBinding, eB, nB], by simp [findBinding, eB, nB]⟩)
      _ (fun t => wR0 rk psr t.1.1) (fun t ht => hwh _ t.1.1 (hopTriples_mem g _ _ t ht) (by simp [findBinding, eB]))
    simpa [List.map_map, Function.comp_def, rowOf, E0, Ec, S2.frameProj, keptCols, keptVals] using this
  | true =>
    simp only [if_true]
    have hfrom := hop_from_ben km g "n1" "n0" _ _ (pB0 bk psb) (pA0 ak psa) (by decide) (by decide) (by decide) honB honA
    have := hop_frame_ben km g true true true (hopTriples g (pB0 bk psb) (pA0 ak psa)) (fun t => [eB km t.1.1, nB "n1" km t.1.2, nB "n0" km t.2])
      (fun t => t.1.1) (fun t => t.2) (fun t => t.1.2) _ hfrom
      (fun t _ => ⟨by simp [findBinding, eB], by simp [findBinding, eB, nB], by simp [findBinding, eB, nB]⟩)
      _ (fun t => wR0 rk psr t.1.1) (fun t ht => hwh _ t.1.1 (hopTriples_mem g _ _ t ht) (by simp [findBinding, eB]))
    simpa [List.map_map, Function.comp_def, rowOf, E0, Ec, S2.frameProj, keptCols, keptVals] using this

theorem m1Sql_shape (g : Graph) (ak rk bk : List String) (psa psr psb : List S1.Pred) (flip : Bool) (c : Chain) (h : c ∈ m1Sql g ak rk bk psa psr psb flip) :
    ∃ x0 y0 y1, c = ⟨[x0], [y0, y1]⟩ := by
  unfold m1Sql at h
  cases flip with
  | false => simp only [Bool.false_eq_true, if_false] at h; obtain ⟨t, _, rfl⟩ := List.mem_map.mp h; exact ⟨_, _, _, rfl⟩
  | true => simp only [if_true] at h; obtain ⟨t, _, rfl⟩ := List.mem_map.mp h; exact ⟨_, _, _, rfl⟩

theorem ext_shape1 (g : Graph) (rk nk : List String) (c c' : Chain) (hc : ∃ x0 y0 y1, c = ⟨[x0], [y0, y1]⟩) (h : c' ∈ ext g rk nk c) :
    ∃ x0 x1 y0 y1 y2, c' = ⟨[x0, x1], [y0, y1, y2]⟩ := by
  obtain ⟨x0, y0, y1, rfl⟩ := hc
  rw [ext_eq_pairs] at h
  obtain ⟨eb, _, rfl⟩ := List.mem_map.mp h
  exact ⟨_, _, _, _, _, rfl⟩

theorem ext_shape2 (g : Graph) (rk nk : List String) (c c' : Chain) (hc : ∃ x0 x1 y0 y1 y2, c = ⟨[x0, x1], [y0, y1, y2]⟩) (h : c' ∈ ext g rk nk c) :
    ∃ x0 x1 x2 y0 y1 y2 y3, c' = ⟨[x0, x1, x2], [y0, y1, y2, y3]⟩ := by
  obtain ⟨x0, x1, y0, y1, y2, rfl⟩ := hc
  rw [ext_eq_pairs] at h
  obtain ⟨eb, _, rfl⟩ := List.mem_map.mp h
  exact ⟨_, _, _, _, _, _, _, rfl⟩

-- ------------------------------------------------------------------ column lookups of the last frame

theorem cols_s1 (km : KindMap) (c : Chain) (hc : ∃ x0 x1 y0 y1 y2, c = ⟨[x0, x1], [y0, y1, y2]⟩) (E' : EEnv) (x : Ch.Ref) (r : RefE)
    (h : refGet c x = some r) :
    evalExpr (E'.push [(⟨"s1", ["e0", "e1", "n0", "n1", "n2"], rowOf km c⟩ : Binding)]) (S2.col "s1" (Ch.colOf x)) = .ok (r.val km) := by
  obtain ⟨x0, x1, y0, y1, y2, rfl⟩ := hc
  rw [eval_col]
  cases x with
  | node i =>
    rcases i with _ | _ | _ | i <;> simp [refGet] at h <;> subst h <;>
      simp [Ch.colOf, Ch.nN, EEnv.push, lookupQualifiedV, findBinding, colVals, rowOf, RefE.val]
  | rel i =>
    rcases i with _ | _ | i <;> simp [refGet] at h <;> subst h <;>
      simp [Ch.colOf, Ch.eN, EEnv.push, lookupQualifiedV, findBinding, colVals, rowOf, RefE.val]

theorem cols_s2 (km : KindMap) (c : Chain) (hc : ∃ x0 x1 x2 y0 y1 y2 y3, c = ⟨[x0, x1, x2], [y0, y1, y2, y3]⟩) (E' : EEnv) (x : Ch.Ref) (r : RefE)
    (h : refGet c x = some r) :
    evalExpr (E'.push [(⟨"s2", ["e0", "e1", "e2", "n0", "n1", "n2", "n3"], rowOf km c⟩ : Binding)]) (S2.col "s2" (Ch.colOf x)) = .ok (r.val km) := by
  obtain ⟨x0, x1, x2, y0, y1, y2, y3, rfl⟩ := hc
  rw [eval_col]
  cases x with
  | node i =>
    rcases i with _ | _ | _ | _ | i <;> simp [refGet] at h <;> subst h <;>
      simp [Ch.colOf, Ch.nN, EEnv.push, lookupQualifiedV, findBinding, colVals, rowOf, RefE.val]
  | rel i =>
    rcases i with _ | _ | _ | i <;> simp [refGet] at h <;> subst h <;>
      simp [Ch.colOf, Ch.eN, EEnv.push, lookupQualifiedV, findBinding, colVals, rowOf, RefE.val]

-- ------------------------------------------------------------------ the whole statement

/-- the completions of a partial match by the remaining hops, every step keeping only the extensions whose new relationship / node pass the
WHERE conjuncts over them (`i` = number of the next hop) -/
def chainExtW (g : Graph) (q : Ch.Query) : Nat → List Ch.Hop → Chain → List Chain
  | _, [], c => [c]
  | i, h :: hs, c => (extW g h.rkinds h.nkinds (q.preds (.rel i)) (q.preds (.node (i + 1))) c).flatMap (chainExtW g q (i + 1) hs)

def chainMatchesSql (g : Graph) (q : Ch.Query) (flip : Bool) : List Chain :=
  match q.hops with
  | [] => []
  | h0 :: hs => (m1Sql g q.akinds h0.rkinds h0.nkinds (q.preds (.node 0)) (q.preds (.rel 0)) (q.preds (.node 1)) flip).flatMap (chainExtW g q 1 hs)

theorem entOfCh_last (c : Chain) (e : EdgeRec) (n : NodeRec) :
    entOfCh ⟨c.es ++ [e], c.ns ++ [n]⟩ (.rel c.es.length) = edgeEnt e ∧ entOfCh ⟨c.es ++ [e], c.ns ++ [n]⟩ (.node c.ns.length) = nodeEnt n := by
  simp [entOfCh, refGet, RefE.ent]

/-- `extW` keeps the extensions whose new relationship and new node pass the conjuncts -/
theorem extW_eq_filter (g : Graph) (rk nk : List String) (psr psn : List S1.Pred) (c : Chain) :
    extW g rk nk psr psn c = (ext g rk nk c).filter (fun c' =>
      okPreds (entOfCh c' (.rel c.es.length)) psr && okPreds (entOfCh c' (.node c.ns.length)) psn) := by
  unfold extW ext
  cases c.ns.getLast? with
  | none => rfl
  | some l =>
    simp only
    have hsplit : g.edges.filter (fun e => e.start == l.id && Cy.kindAnyOf e.kind rk && !(c.es.map (·.id)).contains e.id && okPreds (edgeEnt e) psr) =
        (g.edges.filter (fun e => e.start == l.id && Cy.kindAnyOf e.kind rk && !(c.es.map (·.id)).contains e.id)).filter (fun e => okPreds (edgeEnt e) psr) := by
      rw [List.filter_filter]
      apply List.filter_congr
      intro e _
      rw [Bool.and_comm]
    rw [hsplit, filter_flatMap_ite, List.filter_flatMap]
    congr 1
    funext e
    rw [List.filter_map]
    have hP : ((fun c' => okPreds (entOfCh c' (.rel c.es.length)) psr && okPreds (entOfCh c' (.node c.ns.length)) psn) ∘
        (fun n => ({ es := c.es ++ [e], ns := c.ns ++ [n] } : Chain))) = fun n => okPreds (edgeEnt e) psr && okPreds (nodeEnt n) psn := by
      funext n
      simp only [Function.comp_def, (entOfCh_last c e n).1, (entOfCh_last c e n).2]
    rw [hP]
    cases okPreds (edgeEnt e) psr with
    | false => simp
    | true => simp

theorem extW_sub (g : Graph) (rk nk : List String) (psr psn : List S1.Pred) (c c' : Chain) (h : c' ∈ extW g rk nk psr psn c) : c' ∈ ext g rk nk c := by
  rw [extW_eq_filter] at h
  exact (List.mem_filter.mp h).1

theorem stepPreds_some (km : KindMap) (q : Ch.Query) (i : Nat) (pr pn : Option Expr) (h : Ch.stepPreds km q i = some (pr, pn)) :
    S2.predsE km (Ch.eN i) true (q.preds (.rel i)) = some pr ∧ S2.predsE km (Ch.nN (i + 1)) false (q.preds (.node (i + 1))) = some pn := by
  unfold Ch.stepPreds at h
  cases h1 : S2.predsE km (Ch.eN i) true (q.preds (.rel i)) with
  | none => simp [h1, bind, Option.bind] at h
  | some a =>
    cases h2 : S2.predsE km (Ch.nN (i + 1)) false (q.preds (.node (i + 1))) with
    | none => simp [h1, h2, bind, Option.bind] at h
    | some b => simp [h1, h2, bind, Option.bind] at h; exact ⟨by rw [h.1], by rw [h.2]⟩

theorem flatMap_singleton_id {α : Type} : ∀ (l : List α), l.flatMap (fun c => [c]) = l
  | [] => rfl
  | x :: l => by rw [List.flatMap_cons, flatMap_singleton_id l]; rfl

theorem hopKinds_some (km : KindMap) (h : Ch.Hop) (kr kn : Option (List Nat)) (hh : Ch.hopKinds km h = some (kr, kn)) :
    S2.kindIds? km h.rkinds = some kr ∧ S2.kindIds? km h.nkinds = some kn := by
  unfold Ch.hopKinds at hh
  cases h1 : S2.kindIds? km h.rkinds with
  | none => simp [h1, bind, Option.bind] at hh
  | some a =>
    cases h2 : S2.kindIds? km h.nkinds with
    | none => simp [h1, h2, bind, Option.bind] at hh
    | some b => simp [h1, h2, bind, Option.bind] at hh; exact ⟨by rw [hh.1], by rw [hh.2]⟩

/-- SQL SIDE of S2c: the statement's rows, frame by frame -/
theorem sql_chain (km : KindMap) (g : Graph) (hok : GraphOK2 km g) (q : Ch.Query) (flip : Bool) (st : Stmt) (h : q.trWith km flip = some st) :
    ∃ names, BenignT (Sql.eval (encode km g) st []) (⟨names, (chainMatchesSql g q flip).map (fun c => q.items.map (itemValCh km c))⟩ : Table) := by
  have hinj := hok.inj
  have hnd := hok.nodup
  unfold Ch.Query.trWith at h
  cases hwf : q.wf with
  | false => simp [hwf] at h
  | true =>
  simp only [hwf, Bool.not_true, Bool.false_eq_true, if_false] at h
  have hwf' := hwf
  unfold Ch.Query.wf at hwf'
  simp only [Bool.and_eq_true, decide_eq_true_eq, List.all_eq_true, Bool.or_eq_true, beq_iff_eq] at hwf'
  obtain ⟨⟨⟨⟨hlen, _⟩, hitems⟩, _⟩, _⟩ := hwf'
  -- every item reads an entity of a match of the right length
  have hrefs : ∀ (c : Chain), c.ns.length = q.hops.length + 1 → c.es.length = q.hops.length → ∀ it ∈ q.items, (refGet c it.ref).isSome = true := by
    intro c h1 h2 it hit
    obtain ⟨hr1, hr2⟩ := refs_mem q it.ref (by simpa using hitems it hit)
    cases hx : it.ref with
    | node i =>
      have : i < c.ns.length := by rw [h1]; exact hr1 i hx
      simp [refGet, List.getElem?_eq_getElem this]
    | rel i =>
      have : i < c.es.length := by rw [h2]; exact hr2 i hx
      simp [refGet, List.getElem?_eq_getElem this]
  cases hh : q.hops with
  | nil => rw [hh] at hlen; simp at hlen
  | cons h0 hs =>
  rw [hh] at h hlen
  simp only at h
  cases hka : S2.kindIds? km q.akinds with
  | none => simp [hka, bind, Option.bind] at h
  | some ka =>
  cases hk0 : Ch.hopKinds km h0 with
  | none => simp [hka, hk0, bind, Option.bind] at h
  | some k0 =>
  obtain ⟨kr, kb⟩ := k0
  obtain ⟨hkr, hkb⟩ := hopKinds_some km h0 kr kb hk0
  cases hpa : S2.predsE km "n0" false (q.preds (.node 0)) with
  | none => simp [hka, hk0, hpa, bind, Option.bind] at h
  | some pa =>
  cases hsp0 : Ch.stepPreds km q 0 with
  | none => simp [hka, hk0, hpa, hsp0, bind, Option.bind] at h
  | some sp0 =>
  obtain ⟨pr0, pb0⟩ := sp0
  obtain ⟨hpr0, hpb0⟩ := stepPreds_some km q 0 pr0 pb0 hsp0
  have hf0 := frame0_ben km g hok q.akinds h0.rkinds h0.nkinds ka kr kb hka hkr hkb (q.preds (.node 0)) (q.preds (.rel 0)) (q.preds (.node 1))
    pa pr0 pb0 hpa hpr0 hpb0 flip
  cases hs with
  | nil => simp at hlen
  | cons h1 hs' =>
  cases hk1 : Ch.hopKinds km h1 with
  | none => simp [hka, hk0, hpa, hsp0, hk1, Ch.stepCtes, bind, Option.bind] at h
  | some k1 =>
  obtain ⟨kr1, kn1⟩ := k1
  obtain ⟨hkr1, hkn1⟩ := hopKinds_some km h1 kr1 kn1 hk1
  cases hsp1 : Ch.stepPreds km q 1 with
  | none => simp [hka, hk0, hpa, hsp0, hk1, hsp1, Ch.stepCtes, bind, Option.bind] at h
  | some sp1 =>
  obtain ⟨pr1, pn1⟩ := sp1
  obtain ⟨hpr1, hpn1⟩ := stepPreds_some km q 1 pr1 pn1 hsp1
  cases hs' with
  | nil =>
    -- two hops
    simp [hka, hk0, hpa, hsp0, hk1, hsp1, Ch.stepCtes, bind, Option.bind, Ch.sN] at h
    subst h
    unfold chainMatchesSql
    rw [hh]
    simp only [chainExtW, flatMap_singleton_id]
    rw [eval_ctesStmt, evalCtes_cons]
    simp only [bind_assoc]
    refine ?_
    have hE0 : E0 (encode km g) = Ec (encode km g) [] := rfl
    rw [hE0]
    generalize hm1 : m1Sql g q.akinds h0.rkinds h0.nkinds (q.preds (.node 0)) (q.preds (.rel 0)) (q.preds (.node 1)) flip = M1 at hf0 ⊢
    have hsh1 : ∀ c ∈ M1, ∃ x0 y0 y1, c = ⟨[x0], [y0, y1]⟩ := fun c hc => m1Sql_shape g _ _ _ _ _ _ flip c (hm1 ▸ hc)
    have hf1 := frame1 km hinj g hok.edgeKinds [("s0", ⟨["e0", "n0", "n1"], M1.map (rowOf km)⟩)] M1 hsh1 (by simp [List.lookup])
      (by simp [List.lookup]) (by simp [List.lookup]) h1.rkinds h1.nkinds kr1 kn1 hkr1 hkn1 hok.noNull hok.edgeNoNull
      (q.preds (.rel 1)) (q.preds (.node 2)) pr1 pn1 hpr1 hpn1
    rw [stepRows_eq g hnd] at hf1
    have hsh2 : ∀ c ∈ M1.flatMap (extW g h1.rkinds h1.nkinds (q.preds (.rel 1)) (q.preds (.node 2))), ∃ x0 x1 y0 y1 y2, c = ⟨[x0, x1], [y0, y1, y2]⟩ := by
      intro c hc
      obtain ⟨c0, hc0, hc⟩ := List.mem_flatMap.mp hc
      exact ext_shape1 g _ _ c0 c (hsh1 c0 hc0) (extW_sub g _ _ _ _ c0 c hc)
    obtain ⟨names, out, hsel, hout⟩ := final_select km (encode km g)
      [("s1", ⟨["e0", "e1", "n0", "n1", "n2"], (M1.flatMap (extW g h1.rkinds h1.nkinds (q.preds (.rel 1)) (q.preds (.node 2)))).map (rowOf km)⟩), ("s0", ⟨["e0", "n0", "n1"], M1.map (rowOf km)⟩)]
      q "s1" ["e0", "e1", "n0", "n1", "n2"] (M1.flatMap (extW g h1.rkinds h1.nkinds (q.preds (.rel 1)) (q.preds (.node 2)))) (by simp [List.lookup])
      (fun c hc E' x r hr => cols_s1 km c (hsh2 c hc) E' x r hr)
      (fun c hc => by
        obtain ⟨x0, x1, y0, y1, y2, rfl⟩ := hsh2 c hc
        exact hrefs _ (by rw [hh]; rfl) (by rw [hh]; rfl))
    refine ⟨names, ?_⟩
    apply benT_bind hf0
    rw [evalCtes_cons]
    simp only [bind_assoc]
    apply benT_bind hf1
    left
    rw [evalCtes]
    simp only [ebind_ok, Ec] at hsel ⊢
    rw [hsel]
    simp only [ebind_ok, epure_ok, hout]
  | cons h2 hs'' =>
    cases hs'' with
    | cons h3 _ => simp at hlen
    | nil =>
    -- three hops
    cases hk2 : Ch.hopKinds km h2 with
    | none => simp [hka, hk0, hpa, hsp0, hk1, hsp1, hk2, Ch.stepCtes, bind, Option.bind] at h
    | some k2 =>
    obtain ⟨kr2, kn2⟩ := k2
    obtain ⟨hkr2, hkn2⟩ := hopKinds_some km h2 kr2 kn2 hk2
    cases hsp2 : Ch.stepPreds km q 2 with
    | none => simp [hka, hk0, hpa, hsp0, hk1, hsp1, hk2, hsp2, Ch.stepCtes, bind, Option.bind] at h
    | some sp2 =>
    obtain ⟨pr2, pn2⟩ := sp2
    obtain ⟨hpr2, hpn2⟩ := stepPreds_some km q 2 pr2 pn2 hsp2
    simp [hka, hk0, hpa, hsp0, hk1, hsp1, hk2, hsp2, Ch.stepCtes, bind, Option.bind, Ch.sN] at h
    subst h
    unfold chainMatchesSql
    rw [hh]
    simp only [chainExtW, flatMap_singleton_id]
    rw [eval_ctesStmt, evalCtes_cons]
    simp only [bind_assoc]
    have hE0 : E0 (encode km g) = Ec (encode km g) [] := rfl
    rw [hE0]
    generalize hm1 : m1Sql g q.akinds h0.rkinds h0.nkinds (q.preds (.node 0)) (q.preds (.rel 0)) (q.preds (.node 1)) flip = M1 at hf0 ⊢
    have hsh1 : ∀ c ∈ M1, ∃ x0 y0 y1, c = ⟨[x0], [y0, y1]⟩ := fun c hc => m1Sql_shape g _ _ _ _ _ _ flip c (hm1 ▸ hc)
    have hf1 := frame1 km hinj g hok.edgeKinds [("s0", ⟨["e0", "n0", "n1"], M1.map (rowOf km)⟩)] M1 hsh1 (by simp [List.lookup])
      (by simp [List.lookup]) (by simp [List.lookup]) h1.rkinds h1.nkinds kr1 kn1 hkr1 hkn1 hok.noNull hok.edgeNoNull
      (q.preds (.rel 1)) (q.preds (.node 2)) pr1 pn1 hpr1 hpn1
    rw [stepRows_eq g hnd] at hf1
    have hsh2 : ∀ c ∈ M1.flatMap (extW g h1.rkinds h1.nkinds (q.preds (.rel 1)) (q.preds (.node 2))), ∃ x0 x1 y0 y1 y2, c = ⟨[x0, x1], [y0, y1, y2]⟩ := by
      intro c hc
      obtain ⟨c0, hc0, hc⟩ := List.mem_flatMap.mp hc
      exact ext_shape1 g _ _ c0 c (hsh1 c0 hc0) (extW_sub g _ _ _ _ c0 c hc)
    generalize hm2 : M1.flatMap (extW g h1.rkinds h1.nkinds (q.preds (.rel 1)) (q.preds (.node 2))) = M2 at hf1 hsh2
    have hf2 := frame2 km hinj g hok.edgeKinds
      [("s1", ⟨["e0", "e1", "n0", "n1", "n2"], M2.map (rowOf km)⟩), ("s0", ⟨["e0", "n0", "n1"], M1.map (rowOf km)⟩)] M2 hsh2 (by simp [List.lookup])
      (by simp [List.lookup]) (by simp [List.lookup]) h2.rkinds h2.nkinds kr2 kn2 hkr2 hkn2 hok.noNull hok.edgeNoNull
      (q.preds (.rel 2)) (q.preds (.node 3)) pr2 pn2 hpr2 hpn2
    rw [stepRows_eq g hnd] at hf2
    have hsh3 : ∀ c ∈ M2.flatMap (extW g h2.rkinds h2.nkinds (q.preds (.rel 2)) (q.preds (.node 3))), ∃ x0 x1 x2 y0 y1 y2 y3, c = ⟨[x0, x1, x2], [y0, y1, y2, y3]⟩ := by
      intro c hc
      obtain ⟨c0, hc0, hc⟩ := List.mem_flatMap.mp hc
      exact ext_shape2 g _ _ c0 c (hsh2 c0 hc0) (extW_sub g _ _ _ _ c0 c hc)
    obtain ⟨names, out, hsel, hout⟩ := final_select km (encode km g)
      [("s2", ⟨["e0", "e1", "e2", "n0", "n1", "n2", "n3"], (M2.flatMap (extW g h2.rkinds h2.nkinds (q.preds (.rel 2)) (q.preds (.node 3)))).map (rowOf km)⟩),
       ("s1", ⟨["e0", "e1", "n0", "n1", "n2"], M2.map (rowOf km)⟩), ("s0", ⟨["e0", "n0", "n1"], M1.map (rowOf km)⟩)]
      q "s2" ["e0", "e1", "e2", "n0", "n1", "n2", "n3"] (M2.flatMap (extW g h2.rkinds h2.nkinds (q.preds (.rel 2)) (q.preds (.node 3)))) (by simp [List.lookup])
      (fun c hc E' x r hr => cols_s2 km c (hsh3 c hc) E' x r hr)
      (fun c hc => by
        obtain ⟨x0, x1, x2, y0, y1, y2, y3, rfl⟩ := hsh3 c hc
        exact hrefs _ (by rw [hh]; rfl) (by rw [hh]; rfl))
    refine ⟨names, ?_⟩
    apply benT_bind hf0
    rw [evalCtes_cons]
    simp only [bind_assoc]
    apply benT_bind hf1
    rw [evalCtes_cons]
    simp only [bind_assoc]
    apply benT_bind hf2
    left
    rw [evalCtes]
    simp only [ebind_ok, Ec] at hsel ⊢
    rw [← List.flatMap_assoc, hm2]
    rw [hsel]
    simp only [ebind_ok, epure_ok, hout]

-- ------------------------------------------------------------------ SQL order versus Cypher order

def toChain (m : NodeRec × EdgeRec × NodeRec) : Chain := ⟨[m.2.1], [m.1, m.2.2]⟩

/-- the first hop of a chain as a stage-S2 query (only its pattern matters) -/
def q0 (q : Ch.Query) (h0 : Ch.Hop) : S2.Query := ⟨q.a, h0.r, h0.n, q.akinds, h0.rkinds, h0.nkinds, [], []⟩

theorem pA0_eq (q : Ch.Query) (h0 : Ch.Hop) : pA0 q.akinds [] = pA (q0 q h0) := by
  funext e n; simp [pA0, pA, q0, okPreds]
theorem pB0_eq (q : Ch.Query) (h0 : Ch.Hop) : pB0 h0.nkinds [] = pB (q0 q h0) := by
  funext e n; simp [pB0, pB, q0, okPreds]
theorem wR0_eq (h0 : Ch.Hop) : wR0 h0.rkinds [] = fun e => Cy.kindAnyOf e.kind h0.rkinds := by
  funext e; simp [wR0, okPreds]

theorem m1Sql_perm (g : Graph) (hnd : (g.nodes.map (·.id)).Nodup) (q : Ch.Query) (h0 : Ch.Hop) (flip : Bool) :
    (m1Sql g q.akinds h0.rkinds h0.nkinds [] [] [] flip).Perm ((hopMatchesCy g (q0 q h0)).map toChain) := by
  have hCyPerm : (g.edges.flatMap (fun e => (g.nodes.filter (pA (q0 q h0) e)).flatMap (fun a => hopF g (q0 q h0) e a))).Perm (hopMatchesCy g (q0 q h0)) := by
    rw [hopMatchesCy_eq]
    exact flatMap_filter_swap (pA (q0 q h0)) (hopF g (q0 q h0)) g.edges g.nodes
  unfold m1Sql
  rw [pA0_eq q h0, pB0_eq q h0, wR0_eq h0]
  cases flip with
  | false =>
    simp only [Bool.false_eq_true, if_false]
    have h1 : ((hopTriples g (pA (q0 q h0)) (pB (q0 q h0))).filter (fun t => Cy.kindAnyOf t.1.1.kind h0.rkinds)).map (fun t => (⟨[t.1.1], [t.1.2, t.2]⟩ : Chain)) =
        (((hopTriples g (pA (q0 q h0)) (pB (q0 q h0))).filter (fun t => Cy.kindAnyOf t.1.1.kind (q0 q h0).rkinds)).map (fun t => (t.1.2, t.1.1, t.2))).map toChain := by
      simp [List.map_map, Function.comp_def, toChain, q0]
    rw [h1, sqlMatches_eq g hnd]
    exact hCyPerm.map _
  | true =>
    simp only [if_true]
    have h1 : ((hopTriples g (pB (q0 q h0)) (pA (q0 q h0))).filter (fun t => Cy.kindAnyOf t.1.1.kind h0.rkinds)).map (fun t => (⟨[t.1.1], [t.2, t.1.2]⟩ : Chain)) =
        (((hopTriples g (pB (q0 q h0)) (pA (q0 q h0))).filter (fun t => Cy.kindAnyOf t.1.1.kind (q0 q h0).rkinds)).map (fun t => (t.2, t.1.1, t.1.2))).map toChain := by
      simp [List.map_map, Function.comp_def, toChain, q0]
    rw [h1]
    exact ((sqlMatches_flip_perm g hnd (q0 q h0)).trans hCyPerm).map _

theorem m1Cy_eq (g : Graph) (q : Ch.Query) (h0 : Ch.Hop) :
    (g.nodes.filter (fun a => Cy.kindsAllOf a.kinds q.akinds)).flatMap (fun a => ext g h0.rkinds h0.nkinds ⟨[], [a]⟩) =
      (hopMatchesCy g (q0 q h0)).map toChain := by
  unfold hopMatchesCy
  rw [List.map_flatMap]
  congr 1
  funext a
  unfold ext
  simp only [List.getLast?_singleton, List.map_nil, List.contains_nil, Bool.not_false, Bool.and_true, List.map_flatMap, List.map_map,
    Function.comp_def, toChain, q0, List.nil_append, List.singleton_append]
  rfl

/-- the SQL enumeration of the chain matches when the query has no WHERE -/
def chainMatchesSql0 (g : Graph) (q : Ch.Query) (flip : Bool) : List Chain :=
  match q.hops with
  | [] => []
  | h0 :: hs => (m1Sql g q.akinds h0.rkinds h0.nkinds [] [] [] flip).flatMap (chainExt g hs)

theorem chainMatches_perm0 (g : Graph) (hnd : (g.nodes.map (·.id)).Nodup) (q : Ch.Query) (flip : Bool) (hne : q.hops ≠ []) :
    (chainMatchesSql0 g q flip).Perm (chainMatchesCy g q) := by
  unfold chainMatchesSql0 chainMatchesCy
  cases hh : q.hops with
  | nil => exact absurd hh hne
  | cons h0 hs =>
    simp only [chainExt]
    rw [← List.flatMap_assoc, m1Cy_eq g q h0]
    exact (m1Sql_perm g hnd q h0 flip).flatMap_right _

-- ------------------------------------------------------------------ WHERE: the frames filter early what Cypher filters at the end

/-- the conjuncts over pattern variable `x` hold on the match -/
def okRef (q : Ch.Query) (c : Chain) (x : Ch.Ref) : Bool := okPreds (entOfCh c x) (q.preds x)

theorem and_all_split {α : Type} (a b : α → Bool) : ∀ (l : List α), l.all (fun y => a y && b y) = (l.all a && l.all b)
  | [] => rfl
  | y :: l => by
    simp only [List.all_cons, and_all_split a b l]
    cases a y <;> cases b y <;> cases l.all a <;> cases l.all b <;> rfl

theorem all_or_ne (refs : List Ch.Ref) (x : Ch.Ref) (b : Bool) (hx : x ∈ refs) : refs.all (fun y => !(x == y) || b) = b := by
  cases b with
  | true => simp
  | false =>
    simp only [Bool.or_false, List.all_eq_false]
    exact ⟨x, hx, by simp⟩

/-- WHERE holds iff, variable by variable, the conjuncts over that variable hold -/
theorem okWhereCh_split (q : Ch.Query) (c : Chain) : ∀ (cs : List (Ch.Ref × S1.Pred)), (∀ cj ∈ cs, cj.1 ∈ q.refs) →
    cs.all (fun cj => semE (entOfCh c cj.1) cj.2 == some true) =
      q.refs.all (fun x => ((cs.filter (fun cj => cj.1 == x)).map (·.2)).all (fun p => semE (entOfCh c x) p == some true))
  | [], _ => by simp
  | (x, p) :: cs, h => by
    have ih := okWhereCh_split q c cs (fun cj hcj => h cj (List.mem_cons_of_mem _ hcj))
    have hx : x ∈ q.refs := h (x, p) (List.mem_cons_self ..)
    rw [List.all_cons, ih]
    have hfun : (fun y => ((((x, p) :: cs).filter (fun cj => cj.1 == y)).map (·.2)).all (fun p' => semE (entOfCh c y) p' == some true)) =
        fun y => (!(x == y) || (semE (entOfCh c x) p == some true)) &&
          ((cs.filter (fun cj => cj.1 == y)).map (·.2)).all (fun p' => semE (entOfCh c y) p' == some true) := by
      funext y
      rw [List.filter_cons]
      cases hxy : x == y with
      | false => simp [hxy]
      | true =>
        have : x = y := eq_of_beq hxy
        subst this
        simp [hxy]
    rw [hfun, and_all_split, all_or_ne q.refs x _ hx]

theorem okWhereCh_refs (q : Ch.Query) (c : Chain) (hwh : ∀ cj ∈ q.wh, q.refs.contains cj.1 = true) :
    okWhereCh q c = q.refs.all (okRef q c) := by
  unfold okWhereCh okRef okPreds Ch.Query.preds
  exact okWhereCh_split q c q.wh (fun cj hcj => by simpa using hwh cj hcj)

/-- filtering the sources and the extensions = filtering the results, when the result predicate factors -/
theorem flatMap_filter_push {α β : Type} (p : α → Bool) (f : α → List β) (r : α → β → Bool) (P : β → Bool) : ∀ (l : List α),
    (∀ c ∈ l, ∀ c' ∈ f c, P c' = (p c && r c c')) →
    (l.filter p).flatMap (fun c => (f c).filter (r c)) = (l.flatMap f).filter P
  | [], _ => rfl
  | a :: l, h => by
    have ih := flatMap_filter_push p f r P l (fun c hc => h c (List.mem_cons_of_mem _ hc))
    rw [List.flatMap_cons, List.filter_append, ← ih, List.filter_cons]
    have ha := h a (List.mem_cons_self ..)
    cases hp : p a with
    | true =>
      simp only [if_true, List.flatMap_cons]
      congr 1
      apply List.filter_congr
      intro c' hc'
      rw [ha c' hc', hp, Bool.true_and]
    | false =>
      simp only [Bool.false_eq_true, if_false]
      have : (f a).filter P = [] := by
        rw [List.filter_eq_nil_iff]
        intro c' hc'
        rw [ha c' hc', hp]
        simp
      rw [this, List.nil_append]

theorem m1Sql_filter (g : Graph) (ak rk bk : List String) (psa psr psb : List S1.Pred) (flip : Bool) :
    m1Sql g ak rk bk psa psr psb flip = (m1Sql g ak rk bk [] [] [] flip).filter (fun c =>
      (okPreds (entOfCh c (.node 0)) psa && okPreds (entOfCh c (.rel 0)) psr) && okPreds (entOfCh c (.node 1)) psb) := by
  have hA : pA0 ak psa = fun e n => okPreds (nodeEnt n) psa && pA0 ak [] e n := by
    funext e n; simp [pA0, okPreds, Bool.and_assoc]
  have hB : pB0 bk psb = fun e n => okPreds (nodeEnt n) psb && pB0 bk [] e n := by
    funext e n; simp [pB0, okPreds, Bool.and_assoc]
  unfold m1Sql
  cases flip with
  | false =>
    simp only [Bool.false_eq_true, if_false]
    rw [hA, hB, hopTriples_strengthen, List.filter_map, List.filter_filter, List.filter_filter]
    congr 1
    apply List.filter_congr
    intro t _
    simp only [Function.comp_def, wR0, entOfCh, refGet, RefE.ent, okPreds, List.all_nil, Bool.true_and, List.getElem?_cons_zero, List.getElem?_cons_succ,
      Option.map_some, Option.getD_some]
    cases List.all psa (fun p => semE (nodeEnt t.1.2) p == some true) <;> cases List.all psr (fun p => semE (edgeEnt t.1.1) p == some true) <;>
      cases List.all psb (fun p => semE (nodeEnt t.2) p == some true) <;> cases Cy.kindAnyOf t.1.1.kind rk <;> rfl
  | true =>
    simp only [if_true]
    rw [hA, hB, hopTriples_strengthen, List.filter_map, List.filter_filter, List.filter_filter]
    congr 1
    apply List.filter_congr
    intro t _
    simp only [Function.comp_def, wR0, entOfCh, refGet, RefE.ent, okPreds, List.all_nil, Bool.true_and, List.getElem?_cons_zero, List.getElem?_cons_succ,
      Option.map_some, Option.getD_some]
    cases List.all psa (fun p => semE (nodeEnt t.2) p == some true) <;> cases List.all psr (fun p => semE (edgeEnt t.1.1) p == some true) <;>
      cases List.all psb (fun p => semE (nodeEnt t.1.2) p == some true) <;> cases Cy.kindAnyOf t.1.1.kind rk <;> rfl

theorem refs2 (q : Ch.Query) (h : q.hops.length = 2) : q.refs = [.node 0, .node 1, .node 2, .rel 0, .rel 1] := by
  unfold Ch.Query.refs; rw [h]; rfl
theorem refs3 (q : Ch.Query) (h : q.hops.length = 3) : q.refs = [.node 0, .node 1, .node 2, .node 3, .rel 0, .rel 1, .rel 2] := by
  unfold Ch.Query.refs; rw [h]; rfl

theorem ext_mem_shape (g : Graph) (rk nk : List String) (c c' : Chain) (h : c' ∈ ext g rk nk c) : ∃ e n, c' = ⟨c.es ++ [e], c.ns ++ [n]⟩ := by
  rw [ext_eq_pairs] at h
  obtain ⟨eb, _, rfl⟩ := List.mem_map.mp h
  exact ⟨_, _, rfl⟩

/-- the statement's enumeration is the WHERE-free enumeration filtered by WHERE: pushing each conjunct into the frame that introduces its
variable does not change the set of complete matches nor their order -/
theorem chainMatchesSql_eq (g : Graph) (q : Ch.Query) (flip : Bool) (hlen : q.hops.length = 2 ∨ q.hops.length = 3)
    (hwh : ∀ cj ∈ q.wh, q.refs.contains cj.1 = true) :
    chainMatchesSql g q flip = (chainMatchesSql0 g q flip).filter (okWhereCh q) := by
  have hext : ∀ (h : Ch.Hop) (i : Nat), extW g h.rkinds h.nkinds (q.preds (.rel i)) (q.preds (.node (i + 1))) = fun c =>
      (ext g h.rkinds h.nkinds c).filter (fun c' => okPreds (entOfCh c' (.rel c.es.length)) (q.preds (.rel i)) &&
        okPreds (entOfCh c' (.node c.ns.length)) (q.preds (.node (i + 1)))) := fun h i => funext (fun c => extW_eq_filter g _ _ _ _ c)
  unfold chainMatchesSql chainMatchesSql0
  cases hh : q.hops with
  | nil => rw [hh] at hlen; simp at hlen
  | cons h0 hs =>
  cases hs with
  | nil => rw [hh] at hlen; simp at hlen
  | cons h1 hs' =>
  cases hs' with
  | nil =>
    -- two hops
    have hl2 : q.hops.length = 2 := by rw [hh]; rfl
    simp only [chainExtW, chainExt, flatMap_singleton_id]
    rw [m1Sql_filter, hext h1 1]
    apply flatMap_filter_push
    intro c hc c' hc'
    obtain ⟨x0, y0, y1, rfl⟩ := m1Sql_shape g _ _ _ _ _ _ flip c hc
    obtain ⟨e, n, rfl⟩ := ext_mem_shape g _ _ _ c' hc'
    rw [okWhereCh_refs q _ hwh, refs2 q hl2]
    simp only [List.all_cons, List.all_nil, Bool.and_true, okRef, entOfCh, refGet, RefE.ent, List.cons_append, List.nil_append, List.length_cons,
      List.length_nil, List.getElem?_cons_zero, List.getElem?_cons_succ, Option.map_some, Option.getD_some]
    generalize okPreds (nodeEnt y0) (q.preds (.node 0)) = A0
    generalize okPreds (nodeEnt y1) (q.preds (.node 1)) = A1
    generalize okPreds (nodeEnt n) (q.preds (.node 2)) = A2
    generalize okPreds (edgeEnt x0) (q.preds (.rel 0)) = R0
    generalize okPreds (edgeEnt e) (q.preds (.rel 1)) = R1
    cases A0 <;> cases A1 <;> cases A2 <;> cases R0 <;> cases R1 <;> rfl
  | cons h2 hs'' =>
    cases hs'' with
    | cons h3 _ => rw [hh] at hlen; simp at hlen
    | nil =>
    -- three hops
    have hl3 : q.hops.length = 3 := by rw [hh]; rfl
    simp only [chainExtW, chainExt, flatMap_singleton_id]
    rw [← List.flatMap_assoc, ← List.flatMap_assoc, m1Sql_filter, hext h1 1, hext h2 2]
    have step1 := flatMap_filter_push
      (fun c => (okPreds (entOfCh c (.node 0)) (q.preds (.node 0)) && okPreds (entOfCh c (.rel 0)) (q.preds (.rel 0))) && okPreds (entOfCh c (.node 1)) (q.preds (.node 1)))
      (ext g h1.rkinds h1.nkinds)
      (fun c c' => okPreds (entOfCh c' (.rel c.es.length)) (q.preds (.rel 1)) && okPreds (entOfCh c' (.node c.ns.length)) (q.preds (.node 2)))
      (fun c' => ((okPreds (entOfCh c' (.node 0)) (q.preds (.node 0)) && okPreds (entOfCh c' (.rel 0)) (q.preds (.rel 0))) && okPreds (entOfCh c' (.node 1)) (q.preds (.node 1))) &&
        (okPreds (entOfCh c' (.rel 1)) (q.preds (.rel 1)) && okPreds (entOfCh c' (.node 2)) (q.preds (.node 2))))
      (m1Sql g q.akinds h0.rkinds h0.nkinds [] [] [] flip)
      (by
        intro c hc c' hc'
        obtain ⟨x0, y0, y1, rfl⟩ := m1Sql_shape g _ _ _ _ _ _ flip c hc
        obtain ⟨e, n, rfl⟩ := ext_mem_shape g _ _ _ c' hc'
        simp only [entOfCh, refGet, RefE.ent, List.cons_append, List.nil_append, List.length_cons, List.length_nil, List.getElem?_cons_zero,
          List.getElem?_cons_succ, Option.map_some, Option.getD_some])
    rw [step1]
    apply flatMap_filter_push
    intro c hc c' hc'
    obtain ⟨c0, hc0, hc⟩ := List.mem_flatMap.mp hc
    obtain ⟨x0, y0, y1, rfl⟩ := m1Sql_shape g _ _ _ _ _ _ flip c0 hc0
    obtain ⟨e, n, rfl⟩ := ext_mem_shape g _ _ _ c hc
    obtain ⟨e', n', rfl⟩ := ext_mem_shape g _ _ _ c' hc'
    rw [okWhereCh_refs q _ hwh, refs3 q hl3]
    simp only [List.all_cons, List.all_nil, Bool.and_true, okRef, entOfCh, refGet, RefE.ent, List.cons_append, List.nil_append, List.length_cons,
      List.length_nil, List.getElem?_cons_zero, List.getElem?_cons_succ, Option.map_some, Option.getD_some]
    generalize okPreds (nodeEnt y0) (q.preds (.node 0)) = A0
    generalize okPreds (nodeEnt y1) (q.preds (.node 1)) = A1
    generalize okPreds (nodeEnt n) (q.preds (.node 2)) = A2
    generalize okPreds (nodeEnt n') (q.preds (.node 3)) = A3
    generalize okPreds (edgeEnt x0) (q.preds (.rel 0)) = R0
    generalize okPreds (edgeEnt e) (q.preds (.rel 1)) = R1
    generalize okPreds (edgeEnt e') (q.preds (.rel 2)) = R2
    cases A0 <;> cases A1 <;> cases A2 <;> cases A3 <;> cases R0 <;> cases R1 <;> cases R2 <;> rfl

theorem chainMatches_perm (g : Graph) (hnd : (g.nodes.map (·.id)).Nodup) (q : Ch.Query) (flip : Bool) (hlen : q.hops.length = 2 ∨ q.hops.length = 3)
    (hwh : ∀ cj ∈ q.wh, q.refs.contains cj.1 = true) :
    (chainMatchesSql g q flip).Perm ((chainMatchesCy g q).filter (okWhereCh q)) := by
  have hne : q.hops ≠ [] := by intro hh; rw [hh] at hlen; simp at hlen
  rw [chainMatchesSql_eq g q flip hlen hwh]
  exact (chainMatches_perm0 g hnd q flip hne).filter _

theorem whereECs_chains (g : Graph) (q : Ch.Query) : (whereECs g q).map (·.2) = (chainMatchesCy g q).filter (okWhereCh q) := by
  unfold whereECs
  rw [← chainECs_chains g q, List.filter_map]
  rfl

-- ------------------------------------------------------------------ values, and the stage theorem

theorem itemCh_toR (km : KindMap) (g : Graph) (c : Chain) (hin : InGraph g c) (it : Ch.Item) (r : RefE) (hr : refGet c it.ref = some r) :
    valToR (itemValCh km c it) = Cy.CVal.toR g km (itemCCh c it) := by
  have hmem : (∀ y, r = .n y → g.node? y.id = some y) ∧ (∀ x, r = .e x → g.edge? x.id = some x) := by
    cases hx : it.ref with
    | node i =>
      rw [hx] at hr
      simp only [refGet, Option.map_eq_some_iff] at hr
      obtain ⟨y, hy, rfl⟩ := hr
      exact ⟨fun y' hy' => (by cases hy'; exact hin.node y (List.mem_of_getElem? hy)), fun x' hx' => (by cases hx')⟩
    | rel i =>
      rw [hx] at hr
      simp only [refGet, Option.map_eq_some_iff] at hr
      obtain ⟨x, hxx, rfl⟩ := hr
      exact ⟨fun y' hy' => (by cases hy'), fun x' hx' => (by cases hx'; exact hin.rel x (List.mem_of_getElem? hxx))⟩
  cases it with
  | ent x al =>
    simp only [Ch.Item.ref] at hr
    simp only [itemValCh, itemCCh, hr, Option.map_some, Option.getD_some]
    cases r with
    | n y => exact item_toR km g y (hmem.1 y rfl) (.node none)
    | e x' => exact edge_toR km g x' (hmem.2 x' rfl)
  | idOf x al =>
    simp only [Ch.Item.ref] at hr
    simp only [itemValCh, itemCCh, hr, Option.map_some, Option.getD_some]
    simp [valToR, Cy.CVal.toR]
  | prop x k al =>
    simp only [Ch.Item.ref] at hr
    simp only [itemValCh, itemCCh, hr, Option.map_some, Option.getD_some]
    exact propVal_toR km g _ k

/-- STAGE S2c (chains of two or three directed fixed hops), for ALL graphs satisfying `GraphOK2`, ALL queries of the stage and BOTH join
orders of the first hop: the reference semantics yields a result; the emitted statement either yields a table whose client-visible rows are
a permutation of the Cypher rows, or the SQL model stops with `unmodelled` -/
theorem chain_sound (km : KindMap) (g : Graph) (hok : GraphOK2 km g) (q : Ch.Query) (flip : Bool) (st : Stmt) (h : q.trWith km flip = some st) :
    ∃ r names rows, Cy.eval .none g q.toCy = .ok r ∧ BenignT (Sql.eval (encode km g) st []) (⟨names, rows⟩ : Table) ∧
      (sqlRows ⟨names, rows⟩).Perm (cyRows g km r) := by
  have hnd := hok.nodup
  have hn : ∀ n ∈ g.nodes, g.node? n.id = some n := find_of_nodup g.nodes hnd
  have he : ∀ e ∈ g.edges, g.edge? e.id = some e := fun e hm => hok.edge? e hm
  have hwf : q.wf = true := by
    unfold Ch.Query.trWith at h
    cases hwf : q.wf with
    | true => rfl
    | false => simp [hwf] at h
  have hwf' := hwf
  unfold Ch.Query.wf at hwf'
  simp only [Bool.and_eq_true, decide_eq_true_eq, List.all_eq_true, Bool.or_eq_true, beq_iff_eq] at hwf'
  obtain ⟨⟨⟨⟨hlen, hndn⟩, hitems⟩, _⟩, hwh⟩ := hwf'
  have hwh' : ∀ cj ∈ q.wh, q.refs.contains cj.1 = true := fun cj hcj => (hwh cj hcj).1
  obtain ⟨names, hsql⟩ := sql_chain km g hok q flip st h
  refine ⟨_, names, _, cy_side_chain g q hwf hn he, hsql, ?_⟩
  unfold sqlRows cyRows
  simp only [List.map_map, Function.comp_def]
  have hperm := chainMatches_perm g hnd q flip hlen hwh'
  rw [← whereECs_chains g q] at hperm
  have hcongr : (whereECs g q).map (fun ec => q.items.map (fun it => Cy.CVal.toR g km (itemCCh ec.2 it))) =
      ((whereECs g q).map (·.2)).map (fun c => valsToR (q.items.map (itemValCh km c))) := by
    rw [List.map_map]
    apply List.map_congr_left
    intro ec hec
    obtain ⟨_, hin, hl1, hl2⟩ := chainECs_inv g q hndn hn he ec (whereECs_mem g q ec hec)
    simp only [Function.comp_def]
    rw [valsToR_map, List.map_map]
    apply List.map_congr_left
    intro it hit
    obtain ⟨hr1, hr2⟩ := refs_mem q it.ref (by simpa using hitems it hit)
    have hget : ∃ r, refGet ec.2 it.ref = some r := by
      cases hx : it.ref with
      | node i =>
        have : i < ec.2.ns.length := by rw [hl1]; exact hr1 i hx
        exact ⟨.n (ec.2.ns[i]), by simp [refGet, List.getElem?_eq_getElem this]⟩
      | rel i =>
        have : i < ec.2.es.length := by rw [hl2]; exact hr2 i hx
        exact ⟨.e (ec.2.es[i]), by simp [refGet, List.getElem?_eq_getElem this]⟩
    obtain ⟨r, hr⟩ := hget
    exact (itemCh_toR km g ec.2 hin it r hr).symm
  rw [hcongr]
  exact hperm.map _

-- ------------------------------------------------------------------ the recogniser of stage S2c is sound

theorem chHopOf_sound (p : Cy.RelPat × Cy.NodePat) (h : Ch.Hop) (hh : chHopOf p = some h) : stepOf h = p := by
  unfold chHopOf at hh
  split at hh
  · cases hh; rfl
  · cases hh

theorem chHopsOf_sound : ∀ (ps : List (Cy.RelPat × Cy.NodePat)) (hs : List Ch.Hop), ps.mapM chHopOf = some hs → hs.map stepOf = ps
  | [], hs, h => by simp only [List.mapM_nil] at h; cases h; rfl
  | p :: ps, hs, h => by
    rw [List.mapM_cons] at h
    cases hp : chHopOf p with
    | none => rw [hp] at h; cases h
    | some x =>
      rw [hp] at h
      cases hr : ps.mapM chHopOf with
      | none => rw [hr] at h; cases h
      | some xs =>
        rw [hr] at h; cases h
        rw [List.map_cons, chHopOf_sound p x hp, chHopsOf_sound ps xs hr]

theorem idxOf?_getElem {α : Type} [BEq α] [LawfulBEq α] : ∀ (l : List α) (v : α) (i : Nat), l.idxOf? v = some i → l[i]? = some v
  | [], v, i, h => by simp [List.idxOf?] at h
  | x :: l, v, i, h => by
    rw [List.idxOf?_cons] at h
    cases hx : x == v with
    | true =>
      simp only [hx, if_true, Option.some.injEq] at h
      subst h
      simp [eq_of_beq hx]
    | false =>
      simp only [hx, Bool.false_eq_true, if_false, Option.map_eq_some_iff] at h
      obtain ⟨j, hj, rfl⟩ := h
      simp [idxOf?_getElem l v j hj]

theorem chRefOf_name (q : Ch.Query) (v : String) (x : Ch.Ref) (h : chRefOf q v = some x) : q.name x = v := by
  unfold chRefOf at h
  cases h1 : q.nodeNames.idxOf? v with
  | some i =>
    rw [h1] at h; cases h
    simp [Ch.Query.name, idxOf?_getElem _ _ _ h1]
  | none =>
    rw [h1] at h
    obtain ⟨i, hi, rfl⟩ := Option.map_eq_some_iff.mp h
    simp [Ch.Query.name, idxOf?_getElem _ _ _ hi]

theorem chItemOf_sound (q0 q : Ch.Query) (hn : q0.nodeNames = q.nodeNames) (hr : q0.relNames = q.relNames) (it : Cy.ProjItem) (i : Ch.Item)
    (h : chItemOf q0 it = some i) : i.toCy q = it := by
  have hname : ∀ x, q.name x = q0.name x := by intro x; cases x <;> simp [Ch.Query.name, hn, hr]
  unfold chItemOf at h
  cases it with
  | mk e alias =>
    simp only at h
    split at h
    · obtain ⟨x, hx, rfl⟩ := Option.map_eq_some_iff.mp h
      simp only [Ch.Item.toCy, hname, chRefOf_name q0 _ x hx]
    · obtain ⟨x, hx, rfl⟩ := Option.map_eq_some_iff.mp h
      simp only [Ch.Item.toCy, hname, chRefOf_name q0 _ x hx]
    · obtain ⟨x, hx, rfl⟩ := Option.map_eq_some_iff.mp h
      simp only [Ch.Item.toCy, hname, chRefOf_name q0 _ x hx]
    · cases h

theorem chItemsOf_sound (q0 q : Ch.Query) (hn : q0.nodeNames = q.nodeNames) (hr : q0.relNames = q.relNames) :
    ∀ (its : List Cy.ProjItem) (is : List Ch.Item), its.mapM (chItemOf q0) = some is → is.map (Ch.Item.toCy q) = its
  | [], is, h => by simp only [List.mapM_nil] at h; cases h; rfl
  | it :: its, is, h => by
    rw [List.mapM_cons] at h
    cases hi : chItemOf q0 it with
    | none => rw [hi] at h; cases h
    | some i =>
      rw [hi] at h
      cases hrr : its.mapM (chItemOf q0) with
      | none => rw [hrr] at h; cases h
      | some is' =>
        rw [hrr] at h; cases h
        rw [List.map_cons, chItemOf_sound q0 q hn hr it i hi, chItemsOf_sound q0 q hn hr its is' hrr]

theorem chConjunctOf_sound (q0 : Ch.Query) : ∀ (xs : List Ch.Ref) (e : Cy.Expr) (c : Ch.Ref × S1.Pred), chConjunctOf q0 xs e = some c →
    S1.Pred.toCy (q0.name c.1) c.2 = e
  | [], e, c, h => by simp [chConjunctOf] at h
  | x :: xs, e, c, h => by
    unfold chConjunctOf at h
    cases hp : predOf (q0.name x) e with
    | some p => rw [hp] at h; cases h; exact (predOf_sound (q0.name x)).1 e p hp
    | none => rw [hp] at h; exact chConjunctOf_sound q0 xs e c h

theorem chConjunctsOf_sound (q0 : Ch.Query) : ∀ (es : List Cy.Expr) (cs : List (Ch.Ref × S1.Pred)), es.mapM (chConjunctOf q0 q0.refs) = some cs →
    cs.map (fun c => S1.Pred.toCy (q0.name c.1) c.2) = es ∧ cs.length = es.length
  | [], cs, h => by simp only [List.mapM_nil] at h; cases h; exact ⟨rfl, rfl⟩
  | e :: es, cs, h => by
    rw [List.mapM_cons] at h
    cases hc : chConjunctOf q0 q0.refs e with
    | none => rw [hc] at h; cases h
    | some c =>
      rw [hc] at h
      cases hr : es.mapM (chConjunctOf q0 q0.refs) with
      | none => rw [hr] at h; cases h
      | some cs' =>
        rw [hr] at h; cases h
        obtain ⟨h1, h2⟩ := chConjunctsOf_sound q0 es cs' hr
        exact ⟨by rw [List.map_cons, chConjunctOf_sound q0 _ e c hc, h1], by rw [List.length_cons, List.length_cons, h2]⟩

theorem whereOfCh_sound (q0 q : Ch.Query) (hname : ∀ x, q.name x = q0.name x) (wh : Option Cy.Expr) (h : whereOfCh q0 wh = some q.wh) : q.whereCy = wh := by
  unfold Ch.Query.whereCy
  unfold whereOfCh at h
  split at h
  · simp only [Option.some.injEq] at h; rw [← h]
  · rename_i es
    split at h
    · cases h
    · rename_i hlen
      obtain ⟨h1, h2⟩ := chConjunctsOf_sound q0 es q.wh h
      have hl : 2 ≤ q.wh.length := by rw [h2]; omega
      cases hw : q.wh with
      | nil => rw [hw] at hl; simp at hl
      | cons c cs =>
        cases cs with
        | nil => rw [hw] at hl; simp at hl
        | cons c' cs' => rw [hw] at h1; simp only [hname, h1]
  · rename_i e hne
    obtain ⟨c, hc, hcs⟩ := Option.map_eq_some_iff.mp h
    rw [← hcs]
    simp only [hname, chConjunctOf_sound q0 _ e c hc]

/-- an accepted parsed query is exactly the Cypher reading of the S2c query returned -/
theorem ofCyChain_sound (q : Cy.Query) (s : Ch.Query) (h : ofCyChain q = some s) : s.toCy = q := by
  unfold ofCyChain at h
  split at h
  · rename_i a akinds steps wh hparts hclauses
    split at h
    · cases h
    · rename_i hcond
      simp only [Bool.or_eq_true, not_or, Bool.not_eq_true, Bool.not_eq_true'] at hcond
      simp only [bind, Option.bind_eq_some_iff, pure] at h
      obtain ⟨hops, hhops, cs, hcs, items, hitems, h⟩ := h
      split at h
      · simp only [Option.some.injEq] at h
        subst h
        have hit := chItemsOf_sound ⟨a, akinds, hops, [], []⟩ ⟨a, akinds, hops, cs, items⟩ rfl rfl _ _ hitems
        have hwhc := whereOfCh_sound ⟨a, akinds, hops, [], []⟩ ⟨a, akinds, hops, cs, items⟩ (fun x => by cases x <;> rfl) wh hcs
        have hst := chHopsOf_sound steps hops hhops
        cases q with
        | mk parts clauses ret =>
          cases ret with
          | mk distinct all ritems orderBy rskip rlimit =>
            simp only at hparts hclauses hcond hit
            subst hparts hclauses
            have hsteps : hops.map (fun h => ((.mk (some h.r) h.rkinds .out none [], .mk (some h.n) h.nkinds []) : Cy.RelPat × Cy.NodePat)) = steps := hst
            simp only [Ch.Query.toCy, hit, hsteps, hwhc, Cy.Query.mk.injEq, Cy.Projection.mk.injEq, true_and]
            simp_all
      · cases h
  · cases h

end Dawgs.C01.Proofs
