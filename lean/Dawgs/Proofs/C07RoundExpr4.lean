import Dawgs.Proofs.C07RoundExpr3
set_option linter.unusedSimpArgs false
set_option linter.unusedVariables false
set_option linter.unusedSectionVars false
/-! `build ∘ treeOf = id` on the expression layer: predicates, comparison, NOT / AND / XOR / OR, and the top-level theorem. -/
namespace Dawgs.C07
open Dawgs.Grammar Dawgs.C08

section Preds
variable {N : Names} (hN : N.ok = true) (recT : Expr → Tree) (recW : Expr → Bool) (Hrec : RecOK N recT recW)
include hN Hrec

theorem tAdd_rule (e : Expr) : ∃ ks, tAdd N recT e = N.nd "oC_AddOrSubtractExpression" ks := by
  unfold tAdd tLevel
  split
  · split <;> exact ⟨_, rfl⟩
  · exact ⟨_, rfl⟩

theorem isNullLit_eq (r : Expr) (h : isNullLit r = true) : r = .lit .null := by
  unfold isNullLit at h; split at h
  · rfl
  · cases h

theorem bPreds_single (acc : Expr) (op : String) (r : Expr) (f : Nat) (hp : isPredOp op r = true)
    (hwr : (op == "is" || op == "is not") = true ∨ (wAdd recW r = true ∧ 2 * size (tAdd N recT r) + 2 ≤ f)) :
    bPreds N (f + 2) acc [predNode N recT op r] = .ok (.cmp acc [(op, r)]) := by
  have HA := subOK_add hN recT recW Hrec
  obtain ⟨ks, hks⟩ := tAdd_rule hN recT recW Hrec r
  have hrk : (wAdd recW r = true ∧ 2 * size (tAdd N recT r) + 2 ≤ f) → bExpr N (f + 1) (N.nd "oC_AddOrSubtractExpression" ks) = .ok r := by
    intro h; rw [← hks]; exact HA.ok r (f + 1) h.1 (by omega)
  unfold isPredOp at hp
  simp only [Bool.or_eq_true, Bool.and_eq_true, strPredOps] at hp
  rw [show f + 2 = (f + 1) + 1 from rfl, bPreds]
  by_cases h1 : op = "=~"
  · subst h1
    have hr := hrk (by rcases hwr with h | h; simp at h; exact h)
    simp only [predNode, beq_self_eq_true, if_true, hks]
    bsimp [hr, bPreds]
  by_cases h2 : op = "starts with"
  · subst h2
    have hr := hrk (by rcases hwr with h | h; simp at h; exact h)
    simp (config := { decide := true }) only [predNode, if_false, if_true, hks]
    bsimp [hr, bPreds]
  by_cases h3 : op = "ends with"
  · subst h3
    have hr := hrk (by rcases hwr with h | h; simp at h; exact h)
    simp (config := { decide := true }) only [predNode, if_false, if_true, hks]
    bsimp [hr, bPreds]
  by_cases h4 : op = "contains"
  · subst h4
    have hr := hrk (by rcases hwr with h | h; simp at h; exact h)
    simp (config := { decide := true }) only [predNode, if_false, if_true, hks]
    bsimp [hr, bPreds]
  by_cases h5 : op = "in"
  · subst h5
    have hr := hrk (by rcases hwr with h | h; simp at h; exact h)
    simp (config := { decide := true }) only [predNode, if_false, if_true, hks]
    bsimp [hr, bPreds]
  have hp' : (op = "is" ∨ op = "is not") ∧ isNullLit r = true := by
    rcases hp with (hp | hp) | hp
    · exfalso
      have : op = "=~" ∨ op = "starts with" ∨ op = "ends with" ∨ op = "contains" := by simpa using hp
      rcases this with h | h | h | h
      · exact h1 h
      · exact h2 h
      · exact h3 h
      · exact h4 h
    · exfalso; exact h5 (by simpa using hp)
    · exact ⟨by simpa using hp.1, hp.2⟩
  have hnull : r = .lit .null := isNullLit_eq hN recT recW Hrec r hp'.2
  subst hnull
  rcases hp'.1 with h6 | h7
  · subst h6
    simp (config := { decide := true }) only [predNode, if_false, if_true]
    bsimp [bPreds]
  · subst h7
    simp (config := { decide := true }) only [predNode, if_false, if_true]
    bsimp [bPreds]

theorem predOp_cases (op : String) (r : Expr) (hp : isPredOp op r = true) :
    (op = "=~" ∨ op = "starts with" ∨ op = "ends with" ∨ op = "contains" ∨ op = "in") ∨ ((op = "is" ∨ op = "is not") ∧ r = .lit .null) := by
  unfold isPredOp at hp
  simp only [Bool.or_eq_true, Bool.and_eq_true, strPredOps] at hp
  rcases hp with (hp | hp) | hp
  · have : op = "=~" ∨ op = "starts with" ∨ op = "ends with" ∨ op = "contains" := by simpa using hp
    rcases this with h | h | h | h <;> simp [h]
  · left; right; right; right; right; simpa using hp
  · right; exact ⟨by simpa using hp.1, isNullLit_eq hN recT recW Hrec r hp.2⟩

theorem size_predNode_ge (op : String) (r : Expr)
    (hop : op = "=~" ∨ op = "starts with" ∨ op = "ends with" ∨ op = "contains" ∨ op = "in") :
    size (tAdd N recT r) + 1 ≤ size (predNode N recT op r) := by
  rcases hop with rfl | rfl | rfl | rfl | rfl <;> simp (config := { decide := true }) [predNode] <;> omega

theorem tSLNP_node (e : Expr) : ∃ r ks, tSLNP N recT e = N.nd r ks := by
  unfold tSLNP; split
  · split <;> exact ⟨_, _, rfl⟩
  · exact ⟨_, _, rfl⟩

theorem predNode_isNode (op : String) (r : Expr) : isNode (predNode N recT op r) = true := by
  unfold predNode; repeat' split
  all_goals rfl

theorem bExpr_tSLNP (e : Expr) (g : Nat) (hw : wSLNP recW e = true) (hg : 2 * size (tSLNP N recT e) + 2 ≤ g) :
    bExpr N g (tSLNP N recT e) = .ok e := by
  have HA := subOK_add hN recT recW Hrec
  have unit : ∀ x : Expr, wAdd recW x = true → 2 * size (N.nd "oC_StringListNullPredicateExpression" [tAdd N recT x]) + 2 ≤ g →
      bExpr N g (N.nd "oC_StringListNullPredicateExpression" [tAdd N recT x]) = .ok x := by
    intro x hwx hgx
    obtain ⟨ks, hks⟩ := tAdd_rule hN recT recW Hrec x
    simp only [size_nd, sizeL_cons', sizeL_nil'] at hgx
    obtain ⟨g', rfl⟩ : ∃ g', g = g' + 2 := ⟨g - 2, by omega⟩
    have hx := HA.ok x (g' + 1) hwx (by omega)
    rw [show g' + 2 = (g' + 1) + 1 from rfl, bExpr]
    rw [hks] at hx ⊢
    bsimp [hx, bPreds]
  unfold tSLNP at hg ⊢
  unfold wSLNP at hw
  split at hg
  · rename_i acc op r
    by_cases hp : isPredOp op r = true
    · simp only [hp, if_true, Bool.and_eq_true] at hw hg ⊢
      obtain ⟨ks, hks⟩ := tAdd_rule hN recT recW Hrec acc
      simp only [size_nd, sizeL_cons', sizeL_nil'] at hg
      obtain ⟨g', rfl⟩ : ∃ g', g = g' + 3 := ⟨g - 3, by have := size_pos (predNode N recT op r); omega⟩
      have hacc := HA.ok acc (g' + 2) hw.1 (by omega)
      have hpn := predNode_isNode hN recT recW Hrec op r
      have hpred : bPreds N (g' + 2) acc [predNode N recT op r] = .ok (.cmp acc [(op, r)]) := by
        apply bPreds_single hN recT recW Hrec acc op r g' hp
        rcases predOp_cases hN recT recW Hrec op r hp with h | h
        · right
          have hnot : ¬ (op == "is" || op == "is not") = true := by
            rcases h with rfl | rfl | rfl | rfl | rfl <;> decide
          have hwr := hw.2
          simp only [hnot, Bool.false_eq_true, if_false] at hwr
          have := size_predNode_ge hN recT recW Hrec op r h
          exact ⟨hwr, by omega⟩
        · left; rcases h.1 with rfl | rfl <;> decide
      rw [show g' + 3 = (g' + 2) + 1 from rfl, bExpr]
      rw [hks] at hacc ⊢
      bsimp [hpn, hacc, hpred]
    · simp only [hp, Bool.false_eq_true, if_false] at hw
  · rename_i hne
    have hw' : wAdd recW e = true := by
      split at hw
      · rename_i acc op r; exact absurd rfl (hne acc op r)
      · exact hw
    exact unit e hw' hg

theorem subOK_slnp : SubOK (N := N) (tSLNP N recT) (wSLNP recW) :=
  ⟨fun x g hw hg => bExpr_tSLNP hN recT recW Hrec x g hw hg, tSLNP_node hN recT recW Hrec⟩

theorem tSLNP_rule (e : Expr) : ∃ ks, tSLNP N recT e = N.nd "oC_StringListNullPredicateExpression" ks := by
  unfold tSLNP; split
  · split <;> exact ⟨_, rfl⟩
  · exact ⟨_, rfl⟩

def partialNode (N : Names) (recT : Expr → Tree) (p : String × Expr) : Tree :=
  N.nd "oC_PartialComparisonExpression" [N.lf (opTok p.1) p.1, tSLNP N recT p.2]

theorem bPartial_node (p : String × Expr) (g : Nat) (hop : compOps.contains p.1 = true) (hw : wSLNP recW p.2 = true)
    (hg : 2 * size (tSLNP N recT p.2) + 2 ≤ g) :
    bPartial N (g + 1) (partialNode N recT p) = .ok p := by
  obtain ⟨ks, hks⟩ := tSLNP_rule hN recT recW Hrec p.2
  have hr := bExpr_tSLNP hN recT recW Hrec p.2 g hw hg
  have hmem : p.1 ∈ ["=", "<>", "<", ">", "<=", ">="] := by simpa [compOps] using hop
  rw [bPartial]
  simp only [partialNode, kids_nd, Names.lf]
  rw [hks] at hr ⊢
  have hk : kidOfRule N (N.nd "oC_PartialComparisonExpression" [Tree.leaf (mkLeaf (N.tokNat (opTok p.1)) p.1), N.nd "oC_StringListNullPredicateExpression" ks]) "oC_StringListNullPredicateExpression" =
      some (N.nd "oC_StringListNullPredicateExpression" ks) := by
    have : isRuleKid N "oC_StringListNullPredicateExpression" (Tree.leaf (mkLeaf (N.tokNat (opTok p.1)) p.1)) = false := rfl
    bsimp [this]
  simp only [hk, leafText_mkLeaf]
  have hc : ["=", "<>", "<", ">", "<=", ">="].contains p.1 = true := by simpa using hmem
  simp [hc, hr, Except.map]
  intro a b c d e f
  exfalso
  simp at hmem
  rcases hmem with h | h | h | h | h | h
  · exact a h
  · exact b h
  · exact c h
  · exact d h
  · exact e h
  · exact f h

theorem filter_partials (l : Tree) (hl : ∃ ks, l = N.nd "oC_StringListNullPredicateExpression" ks) (parts : List (String × Expr)) :
    (l :: parts.map (partialNode N recT)).filter (isRuleKid N "oC_StringListNullPredicateExpression") = [l] ∧
    (l :: parts.map (partialNode N recT)).filter (isRuleKid N "oC_PartialComparisonExpression") = parts.map (partialNode N recT) := by
  obtain ⟨ks, rfl⟩ := hl
  constructor
  · have : (parts.map (partialNode N recT)).filter (isRuleKid N "oC_StringListNullPredicateExpression") = [] := by
      apply List.filter_eq_nil_iff.2
      intro x hx; obtain ⟨p, _, rfl⟩ := List.mem_map.1 hx
      simp only [partialNode]; rw [isRuleKid_nd hN]; simp (config := { decide := true })
    simp only [List.filter_cons, this]
    rw [isRuleKid_nd hN]; simp (config := { decide := true })
  · have : (parts.map (partialNode N recT)).filter (isRuleKid N "oC_PartialComparisonExpression") = parts.map (partialNode N recT) := by
      apply List.filter_eq_self.2
      intro x hx; obtain ⟨p, _, rfl⟩ := List.mem_map.1 hx
      simp only [partialNode]; rw [isRuleKid_nd hN]; simp (config := { decide := true })
    simp only [List.filter_cons, this]
    rw [isRuleKid_nd hN]; simp (config := { decide := true })

theorem size_partial_mem (parts : List (String × Expr)) (p : String × Expr) (hp : p ∈ parts) :
    size (tSLNP N recT p.2) + 2 ≤ sizeL (parts.map (partialNode N recT)) := by
  have := size_le_sizeL (List.mem_map_of_mem (f := partialNode N recT) hp)
  simp only [partialNode, size_nd, sizeL_cons', size_lf, sizeL_nil'] at this
  omega

theorem tCmp_node (e : Expr) : ∃ ks, tCmp N recT e = N.nd "oC_ComparisonExpression" ks := by
  unfold tCmp; split
  · split <;> exact ⟨_, rfl⟩
  · exact ⟨_, rfl⟩

theorem bExpr_tCmp (e : Expr) (g : Nat) (hw : wCmp recW e = true) (hg : 2 * size (tCmp N recT e) + 2 ≤ g) :
    bExpr N g (tCmp N recT e) = .ok e := by
  have unit : ∀ x : Expr, wSLNP recW x = true → 2 * size (N.nd "oC_ComparisonExpression" [tSLNP N recT x]) + 2 ≤ g →
      bExpr N g (N.nd "oC_ComparisonExpression" [tSLNP N recT x]) = .ok x := by
    intro x hwx hgx
    obtain ⟨ks, hks⟩ := tSLNP_rule hN recT recW Hrec x
    simp only [size_nd, sizeL_cons', sizeL_nil'] at hgx
    obtain ⟨g', rfl⟩ : ∃ g', g = g' + 1 := ⟨g - 1, by omega⟩
    have hx := bExpr_tSLNP hN recT recW Hrec x g' hwx (by omega)
    rw [bExpr]
    rw [hks] at hx ⊢
    bsimp [hx]
  unfold tCmp at hg ⊢
  unfold wCmp at hw
  split at hg
  · rename_i l op r ps
    by_cases ho : compOps.contains op = true
    · simp only [ho, if_true, Bool.and_eq_true, List.all_eq_true] at hw hg ⊢
      have hfp := filter_partials hN recT recW Hrec (tSLNP N recT l) (tSLNP_rule hN recT recW Hrec l) ((op, r) :: ps)
      have hmapeq : ((op, r) :: ps).map (fun p => N.nd "oC_PartialComparisonExpression" [N.lf (opTok p.1) p.1, tSLNP N recT p.2]) =
          ((op, r) :: ps).map (partialNode N recT) := rfl
      rw [hmapeq] at hg ⊢
      simp only [size_nd, sizeL_cons'] at hg
      obtain ⟨g', rfl⟩ : ∃ g', g = g' + 2 := ⟨g - 2, by omega⟩
      have hl := bExpr_tSLNP hN recT recW Hrec l (g' + 1) hw.2 (by omega)
      have hm : mapM' (bPartial N (g' + 1)) (((op, r) :: ps).map (partialNode N recT)) = .ok ((op, r) :: ps) := by
        apply mapM'_map_id
        intro p hp
        have hsz := size_partial_mem hN recT recW Hrec ((op, r) :: ps) p hp
        exact bPartial_node hN recT recW Hrec p g' (hw.1 p hp).1 (hw.1 p hp).2 (by omega)
      rw [show g' + 2 = (g' + 1) + 1 from rfl, bExpr]
      have hname : ruleNameOf N (N.nd "oC_ComparisonExpression" (tSLNP N recT l :: ((op, r) :: ps).map (partialNode N recT))) = "oC_ComparisonExpression" := by
        bsimp []
      simp only [hname, kidsOfRule, kids_nd, hfp.1, hfp.2]
      simp only [List.map_cons] at hm ⊢
      simp [hl, hm]
    · simp only [ho, Bool.false_eq_true, if_false] at hw hg ⊢
      exact unit _ hw hg
  · rename_i hne
    have hw' : wSLNP recW e = true := by
      split at hw
      · rename_i l op r ps; exact absurd rfl (hne l op r ps)
      · exact hw
    exact unit e hw' hg

theorem bExpr_tNot (e : Expr) (g : Nat) (hw : wNot recW e = true) (hg : 2 * size (tNot N recT e) + 2 ≤ g) :
    bExpr N g (tNot N recT e) = .ok e := by
  unfold tNot at hg ⊢
  unfold wNot at hw
  split at hg
  · rename_i x
    obtain ⟨ks, hks⟩ := tCmp_node hN recT recW Hrec x
    simp only [size_nd, sizeL_cons', size_lf, sizeL_nil'] at hg
    obtain ⟨g', rfl⟩ : ∃ g', g = g' + 1 := ⟨g - 1, by omega⟩
    have hx := bExpr_tCmp hN recT recW Hrec x g' hw (by omega)
    rw [bExpr]
    rw [hks] at hx ⊢
    bsimp [hx, Except.map]
  · rename_i hne
    have hw' : wCmp recW e = true := by
      split at hw
      · rename_i x; exact absurd rfl (hne x)
      · exact hw
    obtain ⟨ks, hks⟩ := tCmp_node hN recT recW Hrec e
    simp only [size_nd, sizeL_cons', sizeL_nil'] at hg
    obtain ⟨g', rfl⟩ : ∃ g', g = g' + 1 := ⟨g - 1, by omega⟩
    have hx := bExpr_tCmp hN recT recW Hrec e g' hw' (by omega)
    rw [bExpr]
    rw [hks] at hx ⊢
    bsimp [hx]

theorem tNot_rule (e : Expr) : ∃ ks, tNot N recT e = N.nd "oC_NotExpression" ks := by
  unfold tNot; split <;> exact ⟨_, rfl⟩

end Preds

/-! ### AND / XOR / OR, generically -/
section Join
variable {N : Names} (hN : N.ok = true)
include hN

/-- (rule, rule of the operands, operator token, operator text) -/
def joinLevels : List (String × String × String × String) :=
  [("oC_OrExpression", "oC_XorExpression", "OR", "or"), ("oC_XorExpression", "oC_AndExpression", "XOR", "xor"),
   ("oC_AndExpression", "oC_NotExpression", "AND", "and")]

theorem bJoin_proper (L : String × String × String × String) (hL : L ∈ joinLevels) (mk : List Expr → Expr)
    (sub : Expr → Tree) (wsub : Expr → Bool)
    (Hok : ∀ x g, wsub x = true → 2 * size (sub x) + 2 ≤ g → bExpr N g (sub x) = .ok x)
    (Hrule : ∀ x, ∃ ks, sub x = N.nd L.2.1 ks)
    (es : List Expr) (h2 : 2 ≤ es.length) (hw : es.all wsub = true) (g : Nat)
    (hg : 2 * size (N.nd L.1 (interleave (N.lf L.2.2.1 L.2.2.2) (es.map sub))) + 1 ≤ g) :
    bJoin N g (N.nd L.1 (interleave (N.lf L.2.2.1 L.2.2.2) (es.map sub))) L.2.1 L.2.2.1 mk = .ok (mk es) := by
  have hsz := sizeL_le_interleave (N.lf L.2.2.1 L.2.2.2) (es.map sub)
  simp only [size_nd] at hg
  obtain ⟨g', rfl⟩ : ∃ g', g = g' + 1 := ⟨g - 1, by omega⟩
  have hm : mapM' (bExpr N g') (es.map sub) = .ok es := by
    apply mapM'_map_id
    intro x hx
    have := size_le_sizeL (List.mem_map_of_mem (f := sub) hx)
    exact Hok x g' ((List.all_eq_true.1 hw) x hx) (by omega)
  have hany : (interleave (N.lf L.2.2.1 L.2.2.2) (es.map sub)).any (isTokLeaf N L.2.2.1) = true := by
    apply any_interleave_true
    · simp [joinLevels] at hL
      rcases hL with rfl | rfl | rfl <;> (rw [isTokLeaf_lf hN]; simp (config := { decide := true }))
    · simpa using h2
  have hf : (interleave (N.lf L.2.2.1 L.2.2.2) (es.map sub)).filter (isRuleKid N L.2.1) = es.map sub := by
    apply kidsOfRule_interleave hN (by simp [joinLevels] at hL; rcases hL with rfl | rfl | rfl <;> decide) _ rfl
    intro x hx
    obtain ⟨e, _, rfl⟩ := List.mem_map.1 hx
    obtain ⟨ks, hks⟩ := Hrule e
    exact ⟨ks, hks⟩
  rw [bJoin]
  simp only [kidsOfRule, kids_nd, hf, hasTok, hany, if_true, hm, Except.map]
  cases es with
  | nil => simp at h2
  | cons a as =>
    simp only [List.map_cons] at hm
    simp [hm]

theorem bJoin_unit (L : String × String × String × String) (hL : L ∈ joinLevels) (mk : List Expr → Expr)
    (ks : List Tree) (g : Nat) :
    bJoin N (g + 1) (N.nd L.1 [N.nd L.2.1 ks]) L.2.1 L.2.2.1 mk = bExpr N g (N.nd L.2.1 ks) := by
  simp [joinLevels] at hL
  rcases hL with rfl | rfl | rfl <;>
  · rw [bJoin]; bsimp []

end Join

section Bool
variable {N : Names} (hN : N.ok = true) (recT : Expr → Tree) (recW : Expr → Bool) (Hrec : RecOK N recT recW)
include hN Hrec

theorem bExpr_tAnd (e : Expr) (g : Nat) (hw : wAnd recW e = true) (hg : 2 * size (tAnd N recT e) + 2 ≤ g) :
    bExpr N g (tAnd N recT e) = .ok e := by
  unfold tAnd at hg ⊢
  unfold wAnd at hw
  split at hg
  · rename_i es
    simp only [Bool.and_eq_true, decide_eq_true_eq] at hw
    have hg' := hg
    simp only [size_nd] at hg'
    obtain ⟨g', rfl⟩ : ∃ g', g = g' + 1 := ⟨g - 1, by omega⟩
    have := bJoin_proper hN ("oC_AndExpression", "oC_NotExpression", "AND", "and") (by simp [joinLevels]) Expr.conj
      (tNot N recT) (wNot recW) (bExpr_tNot hN recT recW Hrec) (tNot_rule hN recT recW Hrec) es hw.1 hw.2 g' (by simp only [size_nd]; omega)
    rw [bExpr]; bsimp []; exact this
  · rename_i hne
    have hw' : wNot recW e = true := by
      split at hw
      · rename_i es; exact absurd rfl (hne es)
      · exact hw
    obtain ⟨ks, hks⟩ := tNot_rule hN recT recW Hrec e
    simp only [size_nd, sizeL_cons', sizeL_nil'] at hg
    obtain ⟨g', rfl⟩ : ∃ g', g = g' + 2 := ⟨g - 2, by omega⟩
    have hx := bExpr_tNot hN recT recW Hrec e g' hw' (by omega)
    have hu := bJoin_unit hN ("oC_AndExpression", "oC_NotExpression", "AND", "and") (by simp [joinLevels]) Expr.conj ks g'
    rw [show g' + 2 = (g' + 1) + 1 from rfl, bExpr]
    rw [hks] at hx ⊢
    bsimp []
    rw [hu, hx]

theorem tAnd_rule (e : Expr) : ∃ ks, tAnd N recT e = N.nd "oC_AndExpression" ks := by
  unfold tAnd; split <;> exact ⟨_, rfl⟩

theorem bExpr_tXor (e : Expr) (g : Nat) (hw : wXor recW e = true) (hg : 2 * size (tXor N recT e) + 2 ≤ g) :
    bExpr N g (tXor N recT e) = .ok e := by
  unfold tXor at hg ⊢
  unfold wXor at hw
  split at hg
  · rename_i es
    simp only [Bool.and_eq_true, decide_eq_true_eq] at hw
    have hg' := hg
    simp only [size_nd] at hg'
    obtain ⟨g', rfl⟩ : ∃ g', g = g' + 1 := ⟨g - 1, by omega⟩
    have := bJoin_proper hN ("oC_XorExpression", "oC_AndExpression", "XOR", "xor") (by simp [joinLevels]) Expr.xdisj
      (tAnd N recT) (wAnd recW) (bExpr_tAnd hN recT recW Hrec) (tAnd_rule hN recT recW Hrec) es hw.1 hw.2 g' (by simp only [size_nd]; omega)
    rw [bExpr]; bsimp []; exact this
  · rename_i hne
    have hw' : wAnd recW e = true := by
      split at hw
      · rename_i es; exact absurd rfl (hne es)
      · exact hw
    obtain ⟨ks, hks⟩ := tAnd_rule hN recT recW Hrec e
    simp only [size_nd, sizeL_cons', sizeL_nil'] at hg
    obtain ⟨g', rfl⟩ : ∃ g', g = g' + 2 := ⟨g - 2, by omega⟩
    have hx := bExpr_tAnd hN recT recW Hrec e g' hw' (by omega)
    have hu := bJoin_unit hN ("oC_XorExpression", "oC_AndExpression", "XOR", "xor") (by simp [joinLevels]) Expr.xdisj ks g'
    rw [show g' + 2 = (g' + 1) + 1 from rfl, bExpr]
    rw [hks] at hx ⊢
    bsimp []
    rw [hu, hx]

theorem tXor_rule (e : Expr) : ∃ ks, tXor N recT e = N.nd "oC_XorExpression" ks := by
  unfold tXor; split <;> exact ⟨_, rfl⟩

theorem bExpr_tOr (e : Expr) (g : Nat) (hw : wOr recW e = true) (hg : 2 * size (tOr N recT e) + 2 ≤ g) :
    bExpr N g (tOr N recT e) = .ok e := by
  unfold tOr at hg ⊢
  unfold wOr at hw
  split at hg
  · rename_i es
    simp only [Bool.and_eq_true, decide_eq_true_eq] at hw
    have hg' := hg
    simp only [size_nd] at hg'
    obtain ⟨g', rfl⟩ : ∃ g', g = g' + 1 := ⟨g - 1, by omega⟩
    have := bJoin_proper hN ("oC_OrExpression", "oC_XorExpression", "OR", "or") (by simp [joinLevels]) Expr.disj
      (tXor N recT) (wXor recW) (bExpr_tXor hN recT recW Hrec) (tXor_rule hN recT recW Hrec) es hw.1 hw.2 g' (by simp only [size_nd]; omega)
    rw [bExpr]; bsimp []; exact this
  · rename_i hne
    have hw' : wXor recW e = true := by
      split at hw
      · rename_i es; exact absurd rfl (hne es)
      · exact hw
    obtain ⟨ks, hks⟩ := tXor_rule hN recT recW Hrec e
    simp only [size_nd, sizeL_cons', sizeL_nil'] at hg
    obtain ⟨g', rfl⟩ : ∃ g', g = g' + 2 := ⟨g - 2, by omega⟩
    have hx := bExpr_tXor hN recT recW Hrec e g' hw' (by omega)
    have hu := bJoin_unit hN ("oC_OrExpression", "oC_XorExpression", "OR", "or") (by simp [joinLevels]) Expr.disj ks g'
    rw [show g' + 2 = (g' + 1) + 1 from rfl, bExpr]
    rw [hks] at hx ⊢
    bsimp []
    rw [hu, hx]

end Bool

/-- `build ∘ treeOf = id` on the expression layer: for every nesting depth `f`, every expression model that is well-formed
within that depth is rebuilt exactly from its canonical tree, with any fuel ≥ 2·size + 2 -/
theorem treeOfExpr_ok {N : Names} (hN : N.ok = true) : ∀ f : Nat, RecOK N (treeOfExpr N f) (wfExpr f)
  | 0 => by intro e g hw; simp [wfExpr] at hw
  | f + 1 => by
    intro e g hw hg
    exact bExpr_tOr hN (treeOfExpr N f) (wfExpr f) (treeOfExpr_ok hN f) e g hw hg

end Dawgs.C07
