import Dawgs.Proofs.C01Pred
/-
C01 — the S1 predicate language over an ENTITY (node or relationship) bound under an arbitrary table alias `t` in an arbitrary SQL
environment `E'`, and bound to an arbitrary Cypher variable: the generalisation of `sql_pred` / `cy_pred` used by the hop stages.
-/
namespace Dawgs.C01.Proofs
open Dawgs Dawgs.Sql

/-- what the predicate language can observe of a graph entity -/
structure Ent where
  id : Int
  props : List (String × Json)
  kindsOk : List String → Bool

def nodeEnt (n : NodeRec) : Ent := ⟨n.id, n.props, fun ks => Cy.kindsAllOf n.kinds ks⟩
def edgeEnt (e : EdgeRec) : Ent := ⟨e.id, e.props, fun ks => ks.contains e.kind⟩

open Dawgs.Cy in
def propCE (x : Ent) (k : String) : Cy.CVal := ((Json.lookup k x.props).map Cy.jsonToC).getD .null

open Dawgs.Cy in
/-- three-valued meaning of an S1 predicate on an entity (the specification both evaluators are compared with) -/
def semE (x : Ent) : S1.Pred → Cy.Tri
  | .propEqStr k s => cEq (propCE x k) (.str s)
  | .propEqInt neg k i => if neg then triNot (cEq (propCE x k) (.int i)) else cEq (propCE x k) (.int i)
  | .propIsNull k => some (match propCE x k with | .null => true | _ => false)
  | .propNotNull k => some (match propCE x k with | .null => false | _ => true)
  | .idCmp op i => relT op (.int x.id) (.int i)
  | .kinds ks => some (x.kindsOk ks)
  | .and p q => triAnd (semE x p) (semE x q)
  | .or p q => triOr (semE x p) (semE x q)
  | .not p => triNot (semE x p)
  | .paren p => semE x p

theorem sem_nodeEnt (n : NodeRec) : ∀ p, semE (nodeEnt n) p = sem n p := by
  intro p
  induction p with
  | and p q ihp ihq => simp only [semE, sem, ihp, ihq]
  | or p q ihp ihq => simp only [semE, sem, ihp, ihq]
  | not p ih => simp only [semE, sem, ih]
  | paren p ih => simp only [semE, sem, ih]
  | _ => rfl

/-- the lowered kind predicate under alias `t` -/
def kindsExpr (t : String) (edge : Bool) (ids : List Nat) : Expr :=
  if edge then .bin "=" (.compound [t, "kind_id"]) (.anyOf (.lit (.ints (ids.map Int.ofNat)) "int2[]"))
  else .bin "operator (pg_catalog.@>)" (.compound [t, "kind_ids"]) (.lit (.ints (ids.map Int.ofNat)) "int2[]")

/-- entity `x` is what the columns of alias `t` show in environment `E'` -/
structure EntAt (km : KindMap) (E' : EEnv) (t : String) (edge : Bool) (x : Ent) : Prop where
  id : evalExpr E' (.compound [t, "id"]) = .ok (.int x.id)
  props : evalExpr E' (.compound [t, "properties"]) = .ok (.jsonb (.obj x.props))
  kinds : ∀ ks ids, ks.mapM km.id? = some ids → evalExpr E' (kindsExpr t edge ids) = .ok (.bool (x.kindsOk ks))

section At
variable {km : KindMap} {E' : EEnv} {t : String} {edge : Bool} {x : Ent} (H : EntAt km E' t edge x)
include H

theorem at_arrow (k : String) :
    evalExpr E' (.bin "->" (.compound [t, "properties"]) (S1.strLit k)) =
      .ok (match Json.lookup k x.props with | some j => .jsonb j | none => .null) := by
  rw [eval_bin _ _ _ _ (by decide) (strLit_not_any k).1 (strLit_not_any k).2]
  simp only [H.props, eval_strLit, ebind_ok]
  unfold binOp
  simp only [arrowOp, jsonGet]
  rfl

theorem at_arrowText (k : String) :
    evalExpr E' (.bin "->>" (.compound [t, "properties"]) (S1.strLit k)) =
      (match Json.lookup k x.props with
       | none => .ok .null
       | some .null => .ok .null
       | some j => match jsonScalarText j with
         | some s => .ok (.text s)
         | none => .error (.unmodelled "->>-of-container")) := by
  rw [eval_bin _ _ _ _ (by decide) (strLit_not_any k).1 (strLit_not_any k).2]
  simp only [H.props, eval_strLit, ebind_ok]
  unfold binOp
  simp only [arrowTextOp, jsonGetText, jsonGet]
  cases h : Json.lookup k x.props with
  | none => rfl
  | some j => cases j <;> rfl

theorem at_typeof (k : String) :
    evalExpr E' (.call "jsonb_typeof" [.bin "->" (.compound [t, "properties"]) (S1.strLit k)] false false "") =
      .ok (match Json.lookup k x.props with | some j => .text j.typeName | none => .null) := by
  rw [evalExpr]
  have h1 : isAggFn "jsonb_typeof" = false := by decide
  have h2 : ("jsonb_typeof" == "coalesce") = false := by decide
  simp only [h1, h2, Bool.false_eq_true, if_false, evalExprs, at_arrow H, ebind_ok, epure_ok]
  cases h : Json.lookup k x.props with
  | none => unfold applyFn; simp only [fnJsonbTypeof, ebind_ok, castVal_empty]
  | some j => unfold applyFn; simp only [fnJsonbTypeof, ebind_ok, castVal_empty]

theorem at_typeofEq (k : String) :
    evalExpr E'
      (.bin "=" (.call "jsonb_typeof" [.bin "->" (.compound [t, "properties"]) (S1.strLit k)] false false "") (S1.strLit "string")) =
      .ok (match Json.lookup k x.props with | some j => .bool (j.typeName == "string") | none => .null) := by
  rw [eval_bin _ _ _ _ (by decide) (strLit_not_any _).1 (strLit_not_any _).2]
  simp only [at_typeof H, eval_strLit, ebind_ok, binOp_eq]
  cases Json.lookup k x.props with
  | none => rfl
  | some j => simp only [vCompare_text_eq]

theorem at_textEq (k s : String) :
    evalExpr E' (.bin "=" (.bin "->>" (.compound [t, "properties"]) (S1.strLit k)) (S1.strLit s)) =
      (match Json.lookup k x.props with
       | none => .ok .null
       | some .null => .ok .null
       | some j => match jsonScalarText j with
         | some t => .ok (.bool (t == s))
         | none => .error (.unmodelled "->>-of-container")) := by
  rw [eval_bin _ _ _ _ (by decide) (strLit_not_any _).1 (strLit_not_any _).2]
  simp only [at_arrowText H, eval_strLit]
  cases Json.lookup k x.props with
  | none => rfl
  | some j =>
    cases j with
    | null => rfl
    | str t => simp only [jsonScalarText, ebind_ok, binOp_eq, vCompare_text_eq]
    | num d => simp only [jsonScalarText, ebind_ok, binOp_eq, vCompare_text_eq]
    | bool b => simp only [jsonScalarText, ebind_ok, binOp_eq, vCompare_text_eq]
    | arr xs => rfl
    | obj kvs => rfl

theorem at_propJsonb (k : String) :
    evalExpr E' (.cast (.bin "->" (.compound [t, "properties"]) (S1.strLit k)) "jsonb") =
      .ok (match Json.lookup k x.props with | some j => .jsonb j | none => .null) := by
  rw [evalExpr, at_arrow H]
  cases Json.lookup k x.props with
  | none => simp only [ebind_ok, castVal_null]
  | some j => simp only [ebind_ok, castVal_jsonb_jsonb]

theorem at_hasKey (k : String) :
    evalExpr E' (.bin "?" (.compound [t, "properties"]) (S1.strLit k)) = .ok (.bool (Json.lookup k x.props).isSome) := by
  rw [eval_bin _ _ _ _ (by decide) (strLit_not_any k).1 (strLit_not_any k).2]
  simp only [H.props, eval_strLit, ebind_ok]
  unfold binOp
  rfl

theorem at_isJsonNull (k : String) (hnn : Json.lookup k x.props ≠ some .null) :
    evalExpr E' (.bin "=" (.bin "->" (.compound [t, "properties"]) (S1.strLit k)) S1.jsonNull) =
      .ok (match Json.lookup k x.props with | some _ => .bool false | none => .null) := by
  rw [eval_bin _ _ _ _ (by decide) (by unfold S1.jsonNull; exact (cast_not_any ..).1) (by unfold S1.jsonNull; exact (cast_not_any ..).2)]
  simp only [at_arrow H, eval_jsonNull, ebind_ok, binOp_eq]
  cases hl : Json.lookup k x.props with
  | none => rfl
  | some j =>
    cases j with
    | null => exact absurd hl hnn
    | str s => rfl
    | num d => rfl
    | bool b => rfl
    | arr xs => rfl
    | obj kvs => rfl

theorem at_propEqStr (k s : String) (hnn : Json.lookup k x.props ≠ some .null) (e : Expr)
    (he : S1.Pred.trAt km t edge (.propEqStr k s) = some e) : Benign (evalExpr E' e) (semE x (.propEqStr k s)) := by
  simp only [S1.Pred.trAt, Option.some.injEq] at he
  subst he
  apply paren_ben
  simp only [semE, propCE]
  cases hl : Json.lookup k x.props with
  | none =>
    exact and_ben _ _ _ none none (ben_ok (by rw [at_typeofEq H, hl]; rfl)) (ben_ok (by rw [at_textEq H, hl]; rfl)) (bin_not_any ..).1 (bin_not_any ..).2
  | some j =>
    cases j with
    | null => exact absurd hl hnn
    | str u =>
      have := and_ben _ _ _ (some true) (some (u == s)) (ben_ok (by rw [at_typeofEq H k, hl]; rfl)) (ben_ok (by rw [at_textEq H k s, hl]; rfl)) (bin_not_any ..).1 (bin_not_any ..).2
      simp only [Option.map, Option.getD, Cy.jsonToC, Cy.cEq]
      cases hts : (u == s) <;> (rw [hts] at this; exact this)
    | num d =>
      exact and_ben _ _ _ (some false) (some (d.toText == s)) (ben_ok (by rw [at_typeofEq H k, hl]; rfl)) (ben_ok (by rw [at_textEq H k s, hl]; rfl)) (bin_not_any ..).1 (bin_not_any ..).2
    | bool b =>
      exact and_ben _ _ _ (some false) (some ((if b then "true" else "false") == s)) (ben_ok (by rw [at_typeofEq H k, hl]; rfl)) (ben_ok (by rw [at_textEq H k s, hl]; rfl)) (bin_not_any ..).1 (bin_not_any ..).2
    | arr xs =>
      exact and_ben _ _ _ (some false) none (ben_ok (by rw [at_typeofEq H k, hl]; rfl)) (Or.inr ⟨"->>-of-container", by rw [at_textEq H k s, hl]; rfl⟩) (bin_not_any ..).1 (bin_not_any ..).2
    | obj kvs =>
      exact and_ben _ _ _ (some false) none (ben_ok (by rw [at_typeofEq H k, hl]; rfl)) (Or.inr ⟨"->>-of-container", by rw [at_textEq H k s, hl]; rfl⟩) (bin_not_any ..).1 (bin_not_any ..).2

theorem at_propEqInt (neg : Bool) (k : String) (i : Int) (hnn : Json.lookup k x.props ≠ some .null) (e : Expr)
    (he : S1.Pred.trAt km t edge (.propEqInt neg k i) = some e) : Benign (evalExpr E' e) (semE x (.propEqInt neg k i)) := by
  simp only [S1.Pred.trAt, Option.some.injEq] at he
  subst he
  left
  simp only [semE, propCE]
  cases neg with
  | false =>
    simp only [Bool.false_eq_true, if_false]
    rw [eval_bin _ _ _ _ (by decide) (call_not_any ..).1 (call_not_any ..).2, at_propJsonb H, eval_toJsonbInt]
    simp only [ebind_ok, binOp_eq]
    cases hl : Json.lookup k x.props with
    | none => rfl
    | some j =>
      simp only [vCompare, valCmp, jsonCmp_num]
      cases j <;> first | (exact absurd hl hnn) | rfl
  | true =>
    simp only [if_true]
    rw [eval_bin _ _ _ _ (by decide) (call_not_any ..).1 (call_not_any ..).2, at_propJsonb H, eval_toJsonbInt]
    simp only [ebind_ok, binOp_ne]
    cases hl : Json.lookup k x.props with
    | none => rfl
    | some j =>
      simp only [vCompare, valCmp, jsonCmp_num]
      cases j <;> first | (exact absurd hl hnn) | rfl

theorem at_propIsNull (k : String) (hnn : Json.lookup k x.props ≠ some .null) (e : Expr)
    (he : S1.Pred.trAt km t edge (.propIsNull k) = some e) : Benign (evalExpr E' e) (semE x (.propIsNull k)) := by
  simp only [S1.Pred.trAt, Option.some.injEq] at he
  subst he
  apply paren_ben
  simp only [semE, propCE]
  cases hl : Json.lookup k x.props with
  | none =>
    exact or_ben _ _ _ (Cy.triNot (some false)) none (not_ben _ _ _ (ben_ok (by rw [at_hasKey H, hl]; rfl)))
      (ben_ok (by rw [at_isJsonNull H k hnn, hl]; rfl)) (bin_not_any ..).1 (bin_not_any ..).2
  | some j =>
    have hj : j ≠ .null := by intro hh; subst hh; exact hnn hl
    have := or_ben _ _ _ (Cy.triNot (some true)) (some false) (not_ben _ _ _ (ben_ok (by rw [at_hasKey H k, hl]; rfl)))
      (ben_ok (by rw [at_isJsonNull H k hnn, hl]; rfl)) (bin_not_any ..).1 (bin_not_any ..).2
    have hc := jsonToC_ne_null j hj
    simp only [Option.map, Option.getD]
    cases hcc : Cy.jsonToC j <;> first | (exact absurd hcc hc) | exact this

theorem at_propNotNull (k : String) (hnn : Json.lookup k x.props ≠ some .null) (e : Expr)
    (he : S1.Pred.trAt km t edge (.propNotNull k) = some e) : Benign (evalExpr E' e) (semE x (.propNotNull k)) := by
  simp only [S1.Pred.trAt, Option.some.injEq] at he
  subst he
  apply paren_ben
  simp only [semE, propCE]
  cases hl : Json.lookup k x.props with
  | none =>
    exact and_ben _ _ _ (some false) (Cy.triNot none) (ben_ok (by rw [at_hasKey H, hl]; rfl))
      (not_ben _ _ _ (ben_ok (by rw [at_isJsonNull H k hnn, hl]; rfl))) (un_not_any ..).1 (un_not_any ..).2
  | some j =>
    have hj : j ≠ .null := by intro hh; subst hh; exact hnn hl
    have := and_ben _ _ _ (some true) (Cy.triNot (some false)) (ben_ok (by rw [at_hasKey H k, hl]; rfl))
      (not_ben _ _ _ (ben_ok (by rw [at_isJsonNull H k hnn, hl]; rfl))) (un_not_any ..).1 (un_not_any ..).2
    have hc := jsonToC_ne_null j hj
    simp only [Option.map, Option.getD]
    cases hcc : Cy.jsonToC j <;> first | (exact absurd hcc hc) | exact this

theorem at_idCmp (op : Cmp) (i : Int) (e : Expr)
    (he : S1.Pred.trAt km t edge (.idCmp op i) = some e) : Benign (evalExpr E' e) (semE x (.idCmp op i)) := by
  simp only [S1.Pred.trAt, Option.some.injEq] at he
  subst he
  left
  rw [eval_bin _ _ _ _ (by cases op <;> decide) (intLit_not_any i).1 (intLit_not_any i).2]
  simp only [H.id, eval_intLit, ebind_ok, binOp_cmp]
  simp only [semE]
  cases op <;> simp only [vCompare, valCmp, Cmp.sql, Cmp.cy, relOp] <;>
    simp only [relT, Cy.cEq, Cy.cCmp, Cy.triNot, Option.map, triVal, intCmp_eq, bne]

theorem at_kinds (ks : List String) (e : Expr)
    (he : S1.Pred.trAt km t edge (.kinds ks) = some e) : Benign (evalExpr E' e) (semE x (.kinds ks)) := by
  simp only [S1.Pred.trAt] at he
  cases hm : ks.mapM km.id? with
  | none => rw [hm] at he; cases he
  | some ids =>
    rw [hm] at he
    simp only at he
    left
    have hk := H.kinds ks ids hm
    unfold kindsExpr at hk
    cases edge with
    | true => simp only [if_true, Option.some.injEq] at he hk; subst he; simpa only [semE, triVal] using hk
    | false => simp only [Bool.false_eq_true, if_false, Option.some.injEq] at he hk; subst he; simpa only [semE, triVal] using hk

omit H in
/-- a lowered predicate is never an `ANY (…)` / `ALL (…)` operand -/
theorem trAt_not_any (km : KindMap) (t : String) (edge : Bool) (p : S1.Pred) (e : Expr) (he : S1.Pred.trAt km t edge p = some e) :
    (∀ arr, e ≠ .anyOf arr) ∧ (∀ arr, e ≠ .allOf arr) := by
  cases p <;> simp only [S1.Pred.trAt] at he
  case kinds ks =>
    cases hm : ks.mapM km.id? with
    | none => rw [hm] at he; cases he
    | some ids =>
      rw [hm] at he
      cases edge <;> (simp only [if_true, Bool.false_eq_true, if_false, Option.some.injEq] at he; subst he; exact bin_not_any ..)
  case and p q =>
    cases hp : S1.Pred.trAt km t edge p <;> cases hq : S1.Pred.trAt km t edge q <;> simp [hp, hq, bind, Option.bind] at he
    subst he; exact bin_not_any ..
  case or p q =>
    cases hp : S1.Pred.trAt km t edge p <;> cases hq : S1.Pred.trAt km t edge q <;> simp [hp, hq, bind, Option.bind] at he
    subst he; exact bin_not_any ..
  case not p =>
    cases hp : S1.Pred.trAt km t edge p <;> simp [hp, bind, Option.bind] at he
    subst he; exact un_not_any ..
  case paren p =>
    cases hp : S1.Pred.trAt km t edge p <;> simp [hp, bind, Option.bind] at he
    subst he; constructor <;> (intro arr hh; cases hh)
  all_goals (cases he; first | exact bin_not_any .. | (constructor <;> (intro arr hh; cases hh)))

/-- THE PREDICATE THEOREM (SQL side), entity form: where alias `t` shows entity `x`, the lowered predicate evaluates to `semE x p`
(or the model stops with `unmodelled`; never a run-time / type / name error) -/
theorem sql_predAt (hnn : ∀ k, Json.lookup k x.props ≠ some .null) :
    ∀ (p : S1.Pred) (e : Expr), S1.Pred.trAt km t edge p = some e → Benign (evalExpr E' e) (semE x p) := by
  intro p
  induction p with
  | propEqStr k s => intro e he; exact at_propEqStr H k s (hnn k) e he
  | propEqInt neg k i => intro e he; exact at_propEqInt H neg k i (hnn k) e he
  | propIsNull k => intro e he; exact at_propIsNull H k (hnn k) e he
  | propNotNull k => intro e he; exact at_propNotNull H k (hnn k) e he
  | idCmp op i => intro e he; exact at_idCmp H op i e he
  | kinds ks => intro e he; exact at_kinds H ks e he
  | and p q ihp ihq =>
    intro e he
    simp only [S1.Pred.trAt] at he
    cases hp : S1.Pred.trAt km t edge p with
    | none => simp [hp, bind, Option.bind] at he
    | some a =>
      cases hq : S1.Pred.trAt km t edge q with
      | none => simp [hp, hq, bind, Option.bind] at he
      | some b =>
        simp [hp, hq, bind, Option.bind] at he
        subst he
        exact and_ben _ _ _ _ _ (ihp a hp) (ihq b hq) (trAt_not_any km t edge q b hq).1 (trAt_not_any km t edge q b hq).2
  | or p q ihp ihq =>
    intro e he
    simp only [S1.Pred.trAt] at he
    cases hp : S1.Pred.trAt km t edge p with
    | none => simp [hp, bind, Option.bind] at he
    | some a =>
      cases hq : S1.Pred.trAt km t edge q with
      | none => simp [hp, hq, bind, Option.bind] at he
      | some b =>
        simp [hp, hq, bind, Option.bind] at he
        subst he
        exact or_ben _ _ _ _ _ (ihp a hp) (ihq b hq) (trAt_not_any km t edge q b hq).1 (trAt_not_any km t edge q b hq).2
  | not p ih =>
    intro e he
    simp only [S1.Pred.trAt] at he
    cases hp : S1.Pred.trAt km t edge p with
    | none => simp [hp, bind, Option.bind] at he
    | some a =>
      simp [hp, bind, Option.bind] at he
      subst he
      exact not_ben _ _ _ (ih a hp)
  | paren p ih =>
    intro e he
    simp only [S1.Pred.trAt] at he
    cases hp : S1.Pred.trAt km t edge p with
    | none => simp [hp, bind, Option.bind] at he
    | some a =>
      simp [hp, bind, Option.bind] at he
      subst he
      exact paren_ben _ _ _ (ih a hp)

end At

-- ------------------------------------------------------------------ Cypher side, entity form

section CyAt
open Dawgs.Cy

/-- the Cypher value `cv` is entity `x` of graph `g` -/
structure CyEnt (g : Graph) (cv : CVal) (x : Ent) : Prop where
  prop : ∀ k, propOf g cv k = .ok (propCE x k)
  id : evalFn g "id" [cv] = .ok (.int x.id)
  kinds : ∀ (env : Env) (v : String) (ks : List String) (b : Bool), env.lookup v = some cv →
    Cy.evalExpr .none g env b (.kindIs (.var v) ks true) = .ok (triToC (some (x.kindsOk ks)))

theorem cyEnt_node (g : Graph) (n : NodeRec) (hnode : g.node? n.id = some n) : CyEnt g (.node n.id) (nodeEnt n) where
  prop k := by simp [propOf, nodeProps, hnode, propCE, nodeEnt]
  id := by simp [evalFn, nodeEnt]
  kinds env v ks b henv := by
    rw [Cy.evalExpr, Cy.evalExpr]
    simp only [lookupVar, henv, ebind_ok, hnode, epure_ok]
    rfl

theorem cyEnt_edge (g : Graph) (e : EdgeRec) (hedge : g.edge? e.id = some e) : CyEnt g (.rel e.id) (edgeEnt e) where
  prop k := by simp [propOf, edgeProps, hedge, propCE, edgeEnt]
  id := by simp [evalFn, edgeEnt]
  kinds env v ks b henv := by
    rw [Cy.evalExpr, Cy.evalExpr]
    simp only [lookupVar, henv, ebind_ok, hedge, epure_ok]
    rfl

/-- the Cypher evaluator on the Cypher reading of an S1 predicate over a variable bound to entity `x` computes `semE x` -/
theorem cy_predAt (g : Graph) (x : Ent) (cv : CVal) (v : String) (env : Env) (hx : CyEnt g cv x) (henv : env.lookup v = some cv) :
    ∀ (p : S1.Pred),
      (∀ b, Cy.evalExpr .none g env b (p.toCy v) = .ok (triToC (semE x p))) ∧
      Cy.evalConj .none g env (S1.Pred.conjTail v p) = .ok (semE x p) ∧
      Cy.evalDisj .none g env (S1.Pred.disjTail v p) = .ok (semE x p) := by
  intro p
  induction p with
  | propEqStr k s =>
    have h : ∀ b, Cy.evalExpr .none g env b (.cmp "=" (.prop (.var v) k) (.lit (.str s))) = .ok (triToC (cEq (propCE x k) (.str s))) := by
      intro b
      rw [Cy.evalExpr, Cy.evalExpr, Cy.evalExpr, Cy.evalExpr]
      simp only [lookupVar, henv, ebind_ok, hx.prop k]
      exact cmpOp_rel b .eq _ _ _ _ _ _
    exact ⟨h, evalConj_single g env _ _ h, evalDisj_single g env _ _ h⟩
  | propEqInt neg k i =>
    have h : ∀ b, Cy.evalExpr .none g env b (.cmp (if neg then "<>" else "=") (.prop (.var v) k) (.lit (.int i))) =
        .ok (triToC (if neg then triNot (cEq (propCE x k) (.int i)) else cEq (propCE x k) (.int i))) := by
      intro b
      rw [Cy.evalExpr, Cy.evalExpr, Cy.evalExpr, Cy.evalExpr]
      simp only [lookupVar, henv, ebind_ok, hx.prop k]
      cases neg
      · exact cmpOp_rel b .eq _ _ _ _ _ _
      · exact cmpOp_rel b .ne _ _ _ _ _ _
    exact ⟨h, evalConj_single g env _ _ h, evalDisj_single g env _ _ h⟩
  | propIsNull k =>
    have h : ∀ b, Cy.evalExpr .none g env b (.cmp "is" (.prop (.var v) k) (.lit .null)) =
        .ok (triToC (some (match propCE x k with | .null => true | _ => false))) := by
      intro b
      rw [Cy.evalExpr, Cy.evalExpr, Cy.evalExpr, Cy.evalExpr]
      simp only [lookupVar, henv, ebind_ok, hx.prop k]
      rfl
    exact ⟨h, evalConj_single g env _ _ h, evalDisj_single g env _ _ h⟩
  | propNotNull k =>
    have h : ∀ b, Cy.evalExpr .none g env b (.cmp "is not" (.prop (.var v) k) (.lit .null)) =
        .ok (triToC (some (match propCE x k with | .null => false | _ => true))) := by
      intro b
      rw [Cy.evalExpr, Cy.evalExpr, Cy.evalExpr, Cy.evalExpr]
      simp only [lookupVar, henv, ebind_ok, hx.prop k]
      rfl
    exact ⟨h, evalConj_single g env _ _ h, evalDisj_single g env _ _ h⟩
  | idCmp op i =>
    have h : ∀ b, Cy.evalExpr .none g env b (.cmp op.cy (.fn "id" false [.var v]) (.lit (.int i))) = .ok (triToC (relT op (.int x.id) (.int i))) := by
      intro b
      rw [Cy.evalExpr, Cy.evalExpr, Cy.evalExpr]
      simp only [isAggregate, Cy.evalExprs, Cy.evalExpr, lookupVar, henv, ebind_ok, epure_ok, hx.id]
      have hc : (["count", "collect", "sum", "avg", "min", "max"].contains "id") = false := by decide
      simp only [hc, Bool.false_eq_true, if_false, ebind_ok]
      exact cmpOp_rel b op _ _ _ _ _ _
    exact ⟨h, evalConj_single g env _ _ h, evalDisj_single g env _ _ h⟩
  | kinds ks =>
    have h : ∀ b, Cy.evalExpr .none g env b (.kindIs (.var v) ks true) = .ok (triToC (some (x.kindsOk ks))) :=
      fun b => hx.kinds env v ks b henv
    exact ⟨h, evalConj_single g env _ _ h, evalDisj_single g env _ _ h⟩
  | and p q ihp ihq =>
    have h : ∀ b, Cy.evalExpr .none g env b (.conj (p.toCy v :: S1.Pred.conjTail v q)) = .ok (triToC (triAnd (semE x p) (semE x q))) := by
      intro b
      rw [Cy.evalExpr, Cy.evalConj]
      simp only [ihp.1, ebind_ok, triOfC_triToC, ihq.2.1, epure_ok]
    refine ⟨h, ?_, evalDisj_single g env _ _ h⟩
    show Cy.evalConj .none g env (p.toCy v :: S1.Pred.conjTail v q) = _
    rw [Cy.evalConj]
    simp only [ihp.1, ebind_ok, triOfC_triToC, ihq.2.1, epure_ok, semE]
  | or p q ihp ihq =>
    have h : ∀ b, Cy.evalExpr .none g env b (.disj (p.toCy v :: S1.Pred.disjTail v q)) = .ok (triToC (triOr (semE x p) (semE x q))) := by
      intro b
      rw [Cy.evalExpr, Cy.evalDisj]
      simp only [ihp.1, ebind_ok, triOfC_triToC, ihq.2.2, epure_ok]
    refine ⟨h, evalConj_single g env _ _ h, ?_⟩
    show Cy.evalDisj .none g env (p.toCy v :: S1.Pred.disjTail v q) = _
    rw [Cy.evalDisj]
    simp only [ihp.1, ebind_ok, triOfC_triToC, ihq.2.2, epure_ok, semE]
  | not p ih =>
    have h : ∀ b, Cy.evalExpr .none g env b (.not (p.toCy v)) = .ok (triToC (triNot (semE x p))) := by
      intro b
      rw [Cy.evalExpr]
      simp only [ih.1, ebind_ok, triOfC_triToC, epure_ok]
    exact ⟨h, evalConj_single g env _ _ h, evalDisj_single g env _ _ h⟩
  | paren p ih =>
    have h : ∀ b, Cy.evalExpr .none g env b (.paren (p.toCy v)) = .ok (triToC (semE x p)) := by
      intro b
      rw [Cy.evalExpr]
      exact ih.1 b
    exact ⟨h, evalConj_single g env _ _ h, evalDisj_single g env _ _ h⟩

end CyAt

end Dawgs.C01.Proofs
